package errors

import (
	"context"
	"fmt"
)

func CleanUp(cleanUp func() error, dst *error) {
	err2 := cleanUp()
	if err2 == nil {
		return
	}
	if *dst == nil {
		*dst = err2
		return
	}
	*dst = E(*dst, fmt.Sprintf("second error in Close: %v", err2))
}

func CleanUpCtx(ctx context.Context, cleanUp func(context.Context) error, dst *error) {
	CleanUp(func() error { return cleanUp(ctx) }, dst)
}
