package exec
