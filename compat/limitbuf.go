package limitbuf

import "strings"

// Logger is like strings.Builder, but with maximum length.  If the caller tries
// to add data beyond the capacity, they will be dropped, and Logger.String()
// will append "(truncated)" at the end.
type Logger struct {
	maxLen       int
	truncated    bool
	addedTrailer bool
	b            strings.Builder
}

// NewLogger creates a new Logger object with the given capacity.
type LoggerOption func(*Logger)

func LogIfTruncatingMaxMultiple(m float64) LoggerOption { return func(*Logger) {} }

func NewLogger(maxLen int, opts ...LoggerOption) *Logger {
	return &Logger{maxLen: maxLen}
}

// Write implements io.Writer interface.
func (b *Logger) Write(data []byte) (int, error) {
	n := b.maxLen - b.b.Len()
	if n > len(data) {
		n = len(data)
	}
	if n > 0 {
		b.b.Write(data[:n])
	}
	if n < len(data) {
		b.truncated = true
	}
	return len(data), nil
}

// String reports the data written so far. If the length of the data exceeds the
// buffer capacity, the prefix of the data, plus "(truncated)" will be reported.
func (b *Logger) String() string {
	if b.truncated {
		if !b.addedTrailer {
			b.b.WriteString("(truncated)")
			b.addedTrailer = true
		}
	}
	return b.b.String()
}
