package retry

func MaxRetries(policy Policy, n int) Policy { return MaxTries(policy, n) }
