// Copyright 2018 GRAIL, Inc. All rights reserved.
// Use of this source code is governed by the Apache 2.0
// license that can be found in the LICENSE file.

package rpc

import (
	"bytes"
	"context"
	"encoding/gob"
	"fmt"
	"io"
	"io/ioutil"
	"net/http"
	"strings"
	"sync"
	"time"

	"github.com/grailbio/base/errors"
	"github.com/grailbio/base/limitbuf"
	"github.com/grailbio/base/log"
	"golang.org/x/net/context/ctxhttp"
	"golang.org/x/time/rate"
)

const (
	gobContentType = "application/x-gob"

	// We warn on RPC payloads above this size.
	largeRpcPayload = 64 << 20
)

// Loggers used to inform the user of large payloads, but without
// spamming them.
var (
	largeArgLogger   = &rateLimitingOutputter{rate.NewLimiter(rate.Every(time.Minute), 2), log.GetOutputter()}
	largeReplyLogger = &rateLimitingOutputter{rate.NewLimiter(rate.Every(time.Minute), 2), log.GetOutputter()}
)

// clientState stores the state of a single client to a single server;
// used to reset client connections when needed.
type clientState struct {
	addr    string
	factory func() *http.Client

	once   sync.Once
	cached *http.Client
}

func (c *clientState) init() {
	c.cached = c.factory()
}

func (c *clientState) Client() *http.Client {
	c.once.Do(c.init)
	return c.cached
}

// A Client invokes remote methods on RPC servers.
type Client struct {
	factory func() *http.Client
	prefix  string

	// Loggers contains a rate limiting logger per client;
	// use getLogger to retrieve it.
	loggers sync.Map // map[string]*rateLimitingOutputter

	mu      sync.Mutex
	clients map[string]*clientState
}

// NewClient creates a new RPC client.  clientFactory is called to create a new
// http.Client object. It may be called repeatedly and concurrently. prefix is
// prepended to the service method when constructing an URL.
func NewClient(clientFactory func() *http.Client, prefix string) (*Client, error) {
	return &Client{
		factory: clientFactory,
		prefix:  prefix,
		clients: make(map[string]*clientState),
	}, nil
}

func (c *Client) getClient(addr string) *clientState {
	c.mu.Lock()
	defer c.mu.Unlock()
	h := c.clients[addr]
	if h == nil {
		h = &clientState{
			addr:    addr,
			factory: c.factory,
		}
		c.clients[addr] = h
	}
	return h
}

// updateClientState updates h based on its current state and err.
func (c *Client) updateClientState(h *clientState, err error, serviceMethod string) {
	c.mu.Lock()
	defer c.mu.Unlock()
	if err != nil && c.clients[h.addr] == h {
		log.Outputf(c.getLogger(h.addr), log.Error, "resetting http client %s while calling to %s: %s", h.addr, serviceMethod, err.Error())
		delete(c.clients, h.addr)
	}
	if c.clients[h.addr] != h {
		// h is defunct, so we close idle connections to enable collection.
		h.cached.CloseIdleConnections()
	}
}

func (c *Client) getLogger(addr string) *rateLimitingOutputter {
	v, ok := c.loggers.Load(addr)
	if ok {
		return v.(*rateLimitingOutputter)
	}
	v, _ = c.loggers.LoadOrStore(addr, &rateLimitingOutputter{rate.NewLimiter(rate.Every(time.Minute), 1), log.GetOutputter()})
	return v.(*rateLimitingOutputter)
}

// Call invokes a method on the server named by the provided address.
// The method syntax is "Service.Method": Service is the name of the
// registered service; Method names the method to invoke.
//
// The argument and reply are encoded in accordance with the
// description of the package docs.
//
// If the argument is an io.Reader, it is streamed directly to the
// server method. In this case, Call does not return until the data
// are fully streamed. If the reply is an *io.ReadCloser, the reply
// is streamed directly from the server method. In this case, Call
// returns once the stream is available, and the client is
// responsible for fully reading the data and closing the reader. If
// an error occurs while the response is streamed, the returned
// io.ReadCloser errors on read.
//
// If the argument is a (func () io.Reader), it is called to get a reader
// streamed directly to the server method as above. This is mostly useful when
// using Call in a retry loop, as you often want to create a new reader for each
// call, as opposed to continuing from whatever unknown state remains from
// previously attempted calls.
//
// Remote errors are decoded into *errors.Error and returned.
// (Non-*errors.Error errors are converted by the server.) The RPC
// client does not pass on errors of kind errors.Net; these are
// converted to errors.Other. This way, any error of the kind
// errors.Net is guaranteed to originate from the immediate call;
// they are never from the application.
func (c *Client) Call(ctx context.Context, addr, serviceMethod string, arg, reply interface{}) (err error) {
	done := clientstats.Start(addr, serviceMethod)
	var (
		requestBytes = -1
		replyBytes   = -1
	)
	defer func() {
		done(int64(requestBytes), int64(replyBytes), err)
	}()
	url := strings.TrimRight(addr, "/") + c.prefix + serviceMethod
	if log.At(log.Debug) {
		call := fmt.Sprint("call ", addr, " ", serviceMethod, " ", truncatef(arg))
		log.Debug.Print(call)
		defer func() {
			if err != nil {
				log.Debug.Print(call, " error: ", err)
			} else {
				log.Debug.Print(call, " ok: ", truncatef(reply))
			}
		}()
	}
	var (
		body        io.Reader
		contentType string
	)
	switch arg := arg.(type) {
	case func() io.Reader:
		body = arg()
		contentType = "application/octet-stream"
	case func() (io.Reader, error):
		var rerr error
		body, rerr = arg()
		if rerr != nil {
			return rerr
		}
		contentType = "application/octet-stream"
	case io.Reader:
		body = arg
		contentType = "application/octet-stream"
	default:
		b := new(bytes.Buffer)
		enc := gob.NewEncoder(b)
		if err := enc.Encode(arg); err != nil {
			// Because we are writing into a Buffer, any error we see is a
			// failure to encode, which will not succeed on retry without
			// intervention.
			return errors.E(errors.Fatal, errors.Invalid, err)
		}
		requestBytes = b.Len()
		if requestBytes > largeRpcPayload {
			log.Outputf(largeArgLogger, log.Info, "call %s %s: large argument: %d bytes", addr, serviceMethod, requestBytes)
		}
		body = b
		contentType = gobContentType
	}

	h := c.getClient(addr)
	defer func() {
		c.updateClientState(h, err, serviceMethod)
	}()
	resp, err := ctxhttp.Post(ctx, h.Client(), url, contentType, body)
	switch err {
	case nil:
	case context.DeadlineExceeded, context.Canceled:
		return err
	default:
		return errors.E(errors.Net, errors.Temporary, err)
	}
	if InjectFailures {
		resp.Body = &rpcFaultInjector{label: fmt.Sprintf("%s(%s)", serviceMethod, addr), in: resp.Body}
	}
	switch arg := reply.(type) {
	case *io.ReadCloser:
		if resp.StatusCode == 200 {
			// Wrap the actual response in a stream reader so that errors are
			// propagated properly. Callers are responsible for closing the
			// stream.
			*arg = streamReader{resp}
			return nil
		}
		// In all other cases, we close the body.
		defer resp.Body.Close()
		switch {
		case resp.StatusCode == methodErrorCode:
			dec := gob.NewDecoder(resp.Body)
			return decodeError(serviceMethod, dec)
		case 400 <= resp.StatusCode && resp.StatusCode < 500:
			body, err := ioutil.ReadAll(resp.Body)
			return errors.E(errors.Fatal, errors.Invalid, fmt.Sprintf("%s: client error %s, %v, %v", url, resp.Status, string(body), err))
		default:
			body, err := ioutil.ReadAll(resp.Body)
			return errors.E(errors.Fatal, errors.Invalid, fmt.Sprintf("%s: bad reply status %s, %v, %v", url, resp.Status, string(body), err))
		}
	default:
		defer resp.Body.Close()
		sizeReader := &sizeTrackingReader{Reader: resp.Body}
		dec := gob.NewDecoder(sizeReader)
		switch {
		case resp.StatusCode == methodErrorCode:
			return decodeError(serviceMethod, dec)
		case resp.StatusCode == 200:
			err := dec.Decode(reply)
			if err != nil {
				err = errors.E(errors.Invalid, errors.Temporary, "error while decoding reply for "+serviceMethod, err)
			}
			replyBytes = sizeReader.Len()
			if replyBytes > largeRpcPayload {
				log.Outputf(largeReplyLogger, log.Info, "call %s %s: large reply: %d bytes", addr, serviceMethod, replyBytes)
			}
			return err
		case 400 <= resp.StatusCode && resp.StatusCode < 500:
			body, err := ioutil.ReadAll(resp.Body)
			return errors.E(errors.Fatal, errors.Invalid, fmt.Sprintf("%s: client error %s, %v, %v", url, resp.Status, string(body), err))
		default:
			body, err := ioutil.ReadAll(resp.Body)
			return errors.E(errors.Fatal, errors.Invalid, fmt.Sprintf("%s: bad reply status %s, %v, %v", url, resp.Status, string(body), err))
		}
	}
}

// StreamReader reads a bigmachine byte stream, propagating
// any errors that may be set in a response's trailer.
type streamReader struct{ *http.Response }

func (r streamReader) Read(p []byte) (n int, err error) {
	n, err = r.Body.Read(p)
	if err != io.EOF {
		return n, err
	}
	if e := r.Trailer.Get(bigmachineErrorTrailer); e != "" {
		err = errors.New(e)
	}
	return n, err
}

func (r streamReader) Close() error {
	return r.Body.Close()
}

func truncatef(v interface{}) string {
	b := limitbuf.NewLogger(512)
	fmt.Fprint(b, v)
	return b.String()
}

// decodeErrors decodes a serialized error from the codec stream dec. It wraps
// errors with an errors.Remote so that callers can distinguish between errors
// in the machinery to execute the RPC and errors returned by the RPC itself.
func decodeError(serviceMethod string, dec *gob.Decoder) error {
	e := new(errors.Error)
	if err := dec.Decode(e); err != nil {
		return errors.E(errors.Invalid, errors.Temporary, "error while decoding error for "+serviceMethod, err)
	}
	return errors.E(errors.Remote, e)
}
