// SPIKE instrumenter: rewrites concurrency constructs to vsched calls (DESIGN.md §4 E1).
package main

import (
	"bufio"
	"encoding/json"
	"flag"
	"fmt"
	"go/ast"
	"go/importer"
	"go/parser"
	"go/printer"
	"go/token"
	"go/types"
	"io"
	"os"
	"path/filepath"
	"strconv"
	"strings"

	"golang.org/x/tools/go/ast/astutil"
)

const (
	rtPath   = "github.com/grailbio/bigslice/verifrt/vsched"
	syncPath = "github.com/grailbio/bigslice/verifrt/vsync"
	atomPath = "github.com/grailbio/bigslice/verifrt/vatomic"
)

var (
	exportsFile = flag.String("exports", "", "file with 'importpath exportfile' lines")
	overlayIn   = flag.String("overlay", "", "overlay json to read effective sources")
	outDir      = flag.String("out", "", "output dir")
	pkgPath     = flag.String("pkg", "", "import path")
	pkgDir      = flag.String("dir", "", "package dir")
	fileList    = flag.String("files", "", "comma-separated go files")
)

type rangeKind int

const (
	rkOther rangeKind = iota
	rkMap
	rkChan
)

func main() {
	flag.Parse()
	exports := map[string]string{}
	f, err := os.Open(*exportsFile)
	must(err)
	sc := bufio.NewScanner(f)
	sc.Buffer(make([]byte, 1<<20), 1<<20)
	for sc.Scan() {
		fl := strings.Fields(sc.Text())
		if len(fl) == 2 {
			exports[fl[0]] = fl[1]
		}
	}
	overlay := map[string]string{}
	if *overlayIn != "" {
		var o struct{ Replace map[string]string }
		b, err := os.ReadFile(*overlayIn)
		must(err)
		must(json.Unmarshal(b, &o))
		overlay = o.Replace
	}
	fset := token.NewFileSet()
	var files []*ast.File
	var paths []string
	for _, name := range strings.Split(*fileList, ",") {
		p := filepath.Join(*pkgDir, name)
		src := p
		if r, ok := overlay[p]; ok {
			src = r
		}
		b, err := os.ReadFile(src)
		must(err)
		af, err := parser.ParseFile(fset, p, b, parser.ParseComments)
		must(err)
		files = append(files, af)
		paths = append(paths, p)
	}
	imp := importer.ForCompiler(fset, "gc", func(path string) (io.ReadCloser, error) {
		p, ok := exports[path]
		if !ok {
			return nil, fmt.Errorf("no export data for %s", path)
		}
		return os.Open(p)
	})
	info := &types.Info{Types: map[ast.Expr]types.TypeAndValue{}, Uses: map[*ast.Ident]types.Object{}, Defs: map[*ast.Ident]types.Object{}}
	conf := types.Config{Importer: imp, GoVersion: "go1.23"}
	_, err = conf.Check(*pkgPath, fset, files, info)
	must(err)

	out := map[string]string{}
	sub := filepath.Join(*outDir, strings.NewReplacer("/", "_", ".", "_").Replace(*pkgPath))
	must(os.MkdirAll(sub, 0777))
	stats := map[string]int{}
	for i, af := range files {
		rw := &rewriter{fset: fset, info: info, file: af, stats: stats}
		rw.run()
		dst := filepath.Join(sub, filepath.Base(paths[i]))
		w, err := os.Create(dst)
		must(err)
		must(printer.Fprint(w, fset, af))
		must(w.Close())
		out[paths[i]] = dst
	}
	enc := json.NewEncoder(os.Stdout)
	must(enc.Encode(map[string]interface{}{"Replace": out, "stats": stats}))
}

func must(err error) {
	if err != nil {
		fmt.Fprintln(os.Stderr, "instrument:", err)
		os.Exit(2)
	}
}

type rewriter struct {
	fset    *token.FileSet
	info    *types.Info
	file    *ast.File
	stats   map[string]int
	tmp     int
	needRT  bool
	skip    map[ast.Node]bool      // comm ops handled by the select rule
	ranges  map[*ast.RangeStmt]rangeKind
	constEx map[ast.Expr]bool      // constant or nil expressions (not bound to temporaries)
}

func (r *rewriter) site(p token.Pos) *ast.BasicLit {
	pos := r.fset.Position(p)
	return &ast.BasicLit{Kind: token.STRING, Value: strconv.Quote(filepath.Base(pos.Filename) + ":" + strconv.Itoa(pos.Line))}
}

func (r *rewriter) fresh(prefix string) *ast.Ident {
	r.tmp++
	return ast.NewIdent(fmt.Sprintf("__v%s%d", prefix, r.tmp))
}

func rt(name string) ast.Expr {
	return &ast.SelectorExpr{X: ast.NewIdent("__vsched"), Sel: ast.NewIdent(name)}
}

func call(fn ast.Expr, args ...ast.Expr) *ast.CallExpr { return &ast.CallExpr{Fun: fn, Args: args} }

func (r *rewriter) isConst(e ast.Expr) bool {
	tv, ok := r.info.Types[e]
	if !ok {
		return false
	}
	return tv.Value != nil || tv.IsNil()
}

func isRecv(e ast.Expr) (*ast.UnaryExpr, bool) {
	for {
		p, ok := e.(*ast.ParenExpr)
		if !ok {
			break
		}
		e = p.X
	}
	u, ok := e.(*ast.UnaryExpr)
	return u, ok && u.Op == token.ARROW
}

func (r *rewriter) run() {
	r.skip = map[ast.Node]bool{}
	r.ranges = map[*ast.RangeStmt]rangeKind{}
	r.constEx = map[ast.Expr]bool{}
	// imports
	for _, im := range r.file.Imports {
		p, _ := strconv.Unquote(im.Path.Value)
		switch p {
		case "sync":
			im.Path.Value = strconv.Quote(syncPath)
			if im.Name == nil {
				im.Name = ast.NewIdent("sync")
			}
			r.stats["import-sync"]++
		case "sync/atomic":
			im.Path.Value = strconv.Quote(atomPath)
			if im.Name == nil {
				im.Name = ast.NewIdent("atomic")
			}
			r.stats["import-atomic"]++
		}
	}
	// pre-pass on original nodes (type info is keyed by them)
	ast.Inspect(r.file, func(n ast.Node) bool {
		switch x := n.(type) {
		case *ast.SelectStmt:
			for _, cl := range x.Body.List {
				cc := cl.(*ast.CommClause)
				switch c := cc.Comm.(type) {
				case *ast.SendStmt:
					r.skip[c] = true
					if r.isConst(c.Value) {
						r.constEx[c.Value] = true
					}
				case *ast.ExprStmt:
					if u, ok := isRecv(c.X); ok {
						r.skip[u] = true
					}
				case *ast.AssignStmt:
					if u, ok := isRecv(c.Rhs[0]); ok {
						r.skip[u] = true
					}
				}
			}
		case *ast.RangeStmt:
			if t := r.info.TypeOf(x.X); t != nil {
				switch t.Underlying().(type) {
				case *types.Map:
					r.ranges[x] = rkMap
				case *types.Chan:
					r.ranges[x] = rkChan
				}
			}
		case *ast.GoStmt:
			for _, a := range x.Call.Args {
				if r.isConst(a) {
					r.constEx[a] = true
				}
			}
		case *ast.AssignStmt:
			// v, ok := <-ch   (outside select): mark for Recv2
		}
		return true
	})
	astutil.Apply(r.file, nil, r.post)
	if r.needRT {
		astutil.AddNamedImport(r.fset, r.file, "__vsched", rtPath)
	}
	// drop non-directive comments to avoid misplaced comments in rewritten code
	var keep []*ast.CommentGroup
	for _, cg := range r.file.Comments {
		if cg.End() < r.file.Package {
			keep = append(keep, cg) // header: build tags, license
			continue
		}
		for _, c := range cg.List {
			if strings.HasPrefix(c.Text, "//go:") {
				keep = append(keep, &ast.CommentGroup{List: []*ast.Comment{c}})
			}
		}
	}
	r.file.Comments = keep
}

func (r *rewriter) post(c *astutil.Cursor) bool {
	switch n := c.Node().(type) {
	case *ast.GoStmt:
		c.Replace(r.rewriteGo(n))
	case *ast.SendStmt:
		if r.skip[n] {
			return true
		}
		r.needRT = true
		r.stats["send"]++
		c.Replace(&ast.ExprStmt{X: call(rt("Send"), r.site(n.Pos()), n.Chan, n.Value)})
	case *ast.UnaryExpr:
		if n.Op != token.ARROW || r.skip[n] {
			return true
		}
		r.needRT = true
		// v, ok := <-ch ?
		if as, ok := c.Parent().(*ast.AssignStmt); ok && len(as.Lhs) == 2 && len(as.Rhs) == 1 {
			r.stats["recv2"]++
			c.Replace(call(rt("Recv2"), r.site(n.Pos()), n.X))
			return true
		}
		if vs, ok := c.Parent().(*ast.ValueSpec); ok && len(vs.Names) == 2 && len(vs.Values) == 1 {
			r.stats["recv2"]++
			c.Replace(call(rt("Recv2"), r.site(n.Pos()), n.X))
			return true
		}
		r.stats["recv"]++
		c.Replace(call(rt("Recv"), r.site(n.Pos()), n.X))
	case *ast.CallExpr:
		if id, ok := n.Fun.(*ast.Ident); ok && id.Name == "close" && len(n.Args) == 1 {
			if _, isB := r.info.Uses[id].(*types.Builtin); isB {
				r.needRT = true
				r.stats["close"]++
				c.Replace(call(rt("Close"), r.site(n.Pos()), n.Args[0]))
			}
		}
	case *ast.SelectStmt:
		c.Replace(r.rewriteSelect(n))
	case *ast.RangeStmt:
		switch r.ranges[n] {
		case rkMap:
			c.Replace(r.rewriteRangeMap(n))
		case rkChan:
			c.Replace(r.rewriteRangeChan(n))
		}
	}
	return true
}

func (r *rewriter) rewriteGo(n *ast.GoStmt) ast.Stmt {
	r.needRT = true
	r.stats["go"]++
	var pre []ast.Stmt
	callx := n.Call
	fun := callx.Fun
	if _, isLit := fun.(*ast.FuncLit); !isLit {
		id := r.fresh("f")
		pre = append(pre, &ast.AssignStmt{Lhs: []ast.Expr{id}, Tok: token.DEFINE, Rhs: []ast.Expr{fun}})
		fun = id
	}
	args := make([]ast.Expr, len(callx.Args))
	for i, a := range callx.Args {
		if r.constEx[a] {
			args[i] = a
			continue
		}
		id := r.fresh("a")
		pre = append(pre, &ast.AssignStmt{Lhs: []ast.Expr{id}, Tok: token.DEFINE, Rhs: []ast.Expr{a}})
		args[i] = id
	}
	inner := &ast.CallExpr{Fun: fun, Args: args, Ellipsis: callx.Ellipsis}
	lit := &ast.FuncLit{Type: &ast.FuncType{Params: &ast.FieldList{}}, Body: &ast.BlockStmt{List: []ast.Stmt{&ast.ExprStmt{X: inner}}}}
	pre = append(pre, &ast.ExprStmt{X: call(rt("Go"), r.site(n.Pos()), lit)})
	return &ast.BlockStmt{List: pre}
}

func (r *rewriter) rewriteSelect(n *ast.SelectStmt) ast.Stmt {
	r.needRT = true
	r.stats["select"]++
	var pre []ast.Stmt
	var caseExprs []ast.Expr
	var clauses []ast.Stmt
	hasDefault := false
	res := r.fresh("r")
	idx := r.fresh("i")
	k := 0
	for _, cl := range n.Body.List {
		cc := cl.(*ast.CommClause)
		if cc.Comm == nil {
			hasDefault = true
			clauses = append(clauses, &ast.CaseClause{List: nil, Body: cc.Body})
			continue
		}
		chv := r.fresh("c")
		var body []ast.Stmt
		switch cm := cc.Comm.(type) {
		case *ast.SendStmt:
			pre = append(pre, &ast.AssignStmt{Lhs: []ast.Expr{chv}, Tok: token.DEFINE, Rhs: []ast.Expr{cm.Chan}})
			val := cm.Value
			if !r.constEx[cm.Value] {
				vv := r.fresh("s")
				pre = append(pre, &ast.AssignStmt{Lhs: []ast.Expr{vv}, Tok: token.DEFINE, Rhs: []ast.Expr{cm.Value}})
				val = vv
			}
			caseExprs = append(caseExprs, call(rt("SendCase"), chv, val))
		case *ast.ExprStmt:
			u, _ := isRecv(cm.X)
			pre = append(pre, &ast.AssignStmt{Lhs: []ast.Expr{chv}, Tok: token.DEFINE, Rhs: []ast.Expr{u.X}})
			caseExprs = append(caseExprs, call(rt("RecvCase"), chv))
		case *ast.AssignStmt:
			u, _ := isRecv(cm.Rhs[0])
			pre = append(pre, &ast.AssignStmt{Lhs: []ast.Expr{chv}, Tok: token.DEFINE, Rhs: []ast.Expr{u.X}})
			caseExprs = append(caseExprs, call(rt("RecvCase"), chv))
			fn := "SelVal"
			if len(cm.Lhs) == 2 {
				fn = "SelVal2"
			}
			body = append(body, &ast.AssignStmt{Lhs: cm.Lhs, Tok: cm.Tok, Rhs: []ast.Expr{call(rt(fn), chv, res)}})
			// silence "declared and not used" for := bindings
			if cm.Tok == token.DEFINE {
				for _, l := range cm.Lhs {
					if id, ok := l.(*ast.Ident); ok && id.Name != "_" {
						body = append(body, &ast.AssignStmt{Lhs: []ast.Expr{ast.NewIdent("_")}, Tok: token.ASSIGN, Rhs: []ast.Expr{ast.NewIdent(id.Name)}})
					}
				}
			}
		default:
			must(fmt.Errorf("%s: unsupported comm clause %T", r.fset.Position(cc.Pos()), cm))
		}
		body = append(body, cc.Body...)
		clauses = append(clauses, &ast.CaseClause{List: []ast.Expr{&ast.BasicLit{Kind: token.INT, Value: strconv.Itoa(k)}}, Body: body})
		k++
	}
	hd := "false"
	if hasDefault {
		hd = "true"
	}
	args := append([]ast.Expr{r.site(n.Pos()), ast.NewIdent(hd)}, caseExprs...)
	pre = append(pre, &ast.AssignStmt{Lhs: []ast.Expr{idx, res}, Tok: token.DEFINE, Rhs: []ast.Expr{call(rt("Select"), args...)}})
	pre = append(pre, &ast.AssignStmt{Lhs: []ast.Expr{ast.NewIdent("_")}, Tok: token.ASSIGN, Rhs: []ast.Expr{res}})
	pre = append(pre, &ast.SwitchStmt{Tag: idx, Body: &ast.BlockStmt{List: clauses}})
	return &ast.BlockStmt{List: pre}
}

func (r *rewriter) rewriteRangeMap(n *ast.RangeStmt) ast.Stmt {
	r.needRT = true
	r.stats["range-map"]++
	m := r.fresh("m")
	k := r.fresh("k")
	pre := []ast.Stmt{&ast.AssignStmt{Lhs: []ast.Expr{m}, Tok: token.DEFINE, Rhs: []ast.Expr{n.X}}}
	var body []ast.Stmt
	val := ast.Expr(ast.NewIdent("_"))
	ok := r.fresh("ok")
	hasVal := n.Value != nil && !isBlank(n.Value)
	var valTmp *ast.Ident
	if hasVal {
		valTmp = r.fresh("e")
		val = valTmp
	}
	body = append(body, &ast.AssignStmt{Lhs: []ast.Expr{val, ok}, Tok: token.DEFINE, Rhs: []ast.Expr{&ast.IndexExpr{X: m, Index: k}}})
	body = append(body, &ast.IfStmt{Cond: &ast.UnaryExpr{Op: token.NOT, X: ok}, Body: &ast.BlockStmt{List: []ast.Stmt{&ast.BranchStmt{Tok: token.CONTINUE}}}})
	if n.Key != nil && !isBlank(n.Key) {
		body = append(body, &ast.AssignStmt{Lhs: []ast.Expr{n.Key}, Tok: n.Tok, Rhs: []ast.Expr{k}})
		if n.Tok == token.DEFINE {
			body = append(body, &ast.AssignStmt{Lhs: []ast.Expr{ast.NewIdent("_")}, Tok: token.ASSIGN, Rhs: []ast.Expr{n.Key}})
		}
	}
	if hasVal {
		body = append(body, &ast.AssignStmt{Lhs: []ast.Expr{n.Value}, Tok: n.Tok, Rhs: []ast.Expr{valTmp}})
		if n.Tok == token.DEFINE {
			body = append(body, &ast.AssignStmt{Lhs: []ast.Expr{ast.NewIdent("_")}, Tok: token.ASSIGN, Rhs: []ast.Expr{n.Value}})
		}
	}
	body = append(body, n.Body.List...)
	loop := &ast.RangeStmt{Key: ast.NewIdent("_"), Value: k, Tok: token.DEFINE, X: call(rt("SortedKeys"), m), Body: &ast.BlockStmt{List: body}}
	pre = append(pre, loop)
	return &ast.BlockStmt{List: pre}
}

func (r *rewriter) rewriteRangeChan(n *ast.RangeStmt) ast.Stmt {
	r.needRT = true
	r.stats["range-chan"]++
	ch := r.fresh("c")
	ok := r.fresh("ok")
	v := r.fresh("e")
	pre := []ast.Stmt{&ast.AssignStmt{Lhs: []ast.Expr{ch}, Tok: token.DEFINE, Rhs: []ast.Expr{n.X}}}
	var body []ast.Stmt
	body = append(body, &ast.AssignStmt{Lhs: []ast.Expr{v, ok}, Tok: token.DEFINE, Rhs: []ast.Expr{call(rt("Recv2"), r.site(n.Pos()), ch)}})
	body = append(body, &ast.IfStmt{Cond: &ast.UnaryExpr{Op: token.NOT, X: ok}, Body: &ast.BlockStmt{List: []ast.Stmt{&ast.BranchStmt{Tok: token.BREAK}}}})
	body = append(body, &ast.AssignStmt{Lhs: []ast.Expr{ast.NewIdent("_")}, Tok: token.ASSIGN, Rhs: []ast.Expr{v}})
	if n.Key != nil && !isBlank(n.Key) {
		body = append(body, &ast.AssignStmt{Lhs: []ast.Expr{n.Key}, Tok: n.Tok, Rhs: []ast.Expr{v}})
		if n.Tok == token.DEFINE {
			body = append(body, &ast.AssignStmt{Lhs: []ast.Expr{ast.NewIdent("_")}, Tok: token.ASSIGN, Rhs: []ast.Expr{n.Key}})
		}
	}
	body = append(body, n.Body.List...)
	pre = append(pre, &ast.ForStmt{Body: &ast.BlockStmt{List: body}})
	return &ast.BlockStmt{List: pre}
}

func isBlank(e ast.Expr) bool {
	id, ok := e.(*ast.Ident)
	return ok && id.Name == "_"
}
