// Package vatomic mirrors sync/atomic with a scheduling point before each operation.
package vatomic

import (
	"sync/atomic"
	"unsafe"

	"github.com/grailbio/bigslice/verifrt/vsched"
)

func AddInt32(p *int32, d int32) int32 {
	vsched.YieldOn("atomic", uintptr(unsafe.Pointer(p)))
	return atomic.AddInt32(p, d)
}
func AddInt64(p *int64, d int64) int64 {
	vsched.YieldOn("atomic", uintptr(unsafe.Pointer(p)))
	return atomic.AddInt64(p, d)
}
func AddUint32(p *uint32, d uint32) uint32 {
	vsched.YieldOn("atomic", uintptr(unsafe.Pointer(p)))
	return atomic.AddUint32(p, d)
}
func AddUint64(p *uint64, d uint64) uint64 {
	vsched.YieldOn("atomic", uintptr(unsafe.Pointer(p)))
	return atomic.AddUint64(p, d)
}
func LoadInt32(p *int32) int32 {
	vsched.YieldOn("atomic", uintptr(unsafe.Pointer(p)))
	return atomic.LoadInt32(p)
}
func LoadInt64(p *int64) int64 {
	vsched.YieldOn("atomic", uintptr(unsafe.Pointer(p)))
	return atomic.LoadInt64(p)
}
func LoadUint32(p *uint32) uint32 {
	vsched.YieldOn("atomic", uintptr(unsafe.Pointer(p)))
	return atomic.LoadUint32(p)
}
func LoadUint64(p *uint64) uint64 {
	vsched.YieldOn("atomic", uintptr(unsafe.Pointer(p)))
	return atomic.LoadUint64(p)
}
func StoreInt32(p *int32, v int32) {
	vsched.YieldOn("atomic", uintptr(unsafe.Pointer(p)))
	atomic.StoreInt32(p, v)
}
func StoreInt64(p *int64, v int64) {
	vsched.YieldOn("atomic", uintptr(unsafe.Pointer(p)))
	atomic.StoreInt64(p, v)
}
func StoreUint32(p *uint32, v uint32) {
	vsched.YieldOn("atomic", uintptr(unsafe.Pointer(p)))
	atomic.StoreUint32(p, v)
}
func StoreUint64(p *uint64, v uint64) {
	vsched.YieldOn("atomic", uintptr(unsafe.Pointer(p)))
	atomic.StoreUint64(p, v)
}
func LoadPointer(p *unsafe.Pointer) unsafe.Pointer {
	vsched.YieldOn("atomic", uintptr(unsafe.Pointer(p)))
	return atomic.LoadPointer(p)
}
func StorePointer(p *unsafe.Pointer, v unsafe.Pointer) {
	vsched.YieldOn("atomic", uintptr(unsafe.Pointer(p)))
	atomic.StorePointer(p, v)
}
func CompareAndSwapPointer(p *unsafe.Pointer, o, n unsafe.Pointer) bool {
	vsched.YieldOn("atomic", uintptr(unsafe.Pointer(p)))
	return atomic.CompareAndSwapPointer(p, o, n)
}
func CompareAndSwapInt32(p *int32, o, n int32) bool {
	vsched.YieldOn("atomic", uintptr(unsafe.Pointer(p)))
	return atomic.CompareAndSwapInt32(p, o, n)
}
