package vsched

import (
	"reflect"
	"unsafe"
)

func chid[T any](ch <-chan T) uintptr  { return *(*uintptr)(unsafe.Pointer(&ch)) }
func chidS[T any](ch chan<- T) uintptr { return *(*uintptr)(unsafe.Pointer(&ch)) }

// RecvCase / SendCase build select cases.
func RecvCase[T any](ch <-chan T) *selCase {
	return &selCase{
		rch:  reflect.ValueOf(ch),
		chid: chid(ch),
		capf: func() int { return cap(ch) },
		lenf: func() int { return len(ch) },
		tryRecv: func() (interface{}, bool, bool) {
			select {
			case v, ok := <-ch:
				return v, ok, true
			default:
				return nil, false, false
			}
		},
	}
}

func SendCase[T any](ch chan<- T, v T) *selCase {
	return &selCase{
		rch:     reflect.ValueOf(ch),
		rsend:   reflect.ValueOf(&v).Elem(),
		send:    true,
		chid:    chidS(ch),
		capf:    func() int { return cap(ch) },
		lenf:    func() int { return len(ch) },
		sendVal: v,
		trySend: func() bool {
			select {
			case ch <- v:
				return true
			default:
				return false
			}
		},
	}
}

func (t *Thread) chanOp(o *op) {
	for {
		g := t.point(o)
		if o.done {
			return
		}
		a := g.alt
		if a.caseIdx == -1 {
			o.chosen = -1
			return
		}
		c := o.cases[a.caseIdx]
		if a.partner != nil {
			po := a.partner.pending
			pc := po.cases[a.pcase]
			if c.send {
				po.recvV, po.recvOK = c.sendVal, true
			} else {
				o.recvV, o.recvOK = pc.sendVal, true
			}
			po.chosen = a.pcase
			po.done = true
			o.chosen = a.caseIdx
			if s := cs; s != nil && len(s.watch) > 0 {
				if c.send {
					s.notifyWatch(c.chid, c.sendVal)
				} else {
					s.notifyWatch(c.chid, pc.sendVal)
				}
			}
			return
		}
		if c.send {
			if c.trySend() {
				o.chosen = a.caseIdx
				if s := cs; s != nil && len(s.watch) > 0 {
					s.notifyWatch(c.chid, c.sendVal)
				}
				return
			}
			continue
		}
		if c.peeked {
			o.recvV, o.recvOK = c.peekV, c.peekOK
			c.peeked = false
			o.chosen = a.caseIdx
			return
		}
		if v, ok, got := c.tryRecv(); got {
			o.recvV, o.recvOK = v, ok
			o.chosen = a.caseIdx
			return
		}
	}
}

func conv[T any](v interface{}) T {
	if v == nil {
		var z T
		return z
	}
	return v.(T)
}

func Send[T any](site string, ch chan<- T, v T) {
	t := cur()
	if t == nil {
		ch <- v
		return
	}
	if ch == nil {
		t.point(&op{kind: opChan, site: site, cases: []*selCase{{chid: 0}}}) // blocks forever
	}
	t.chanOp(&op{kind: opChan, site: site, cases: []*selCase{SendCase(ch, v)}})
}

func Recv[T any](site string, ch <-chan T) T {
	v, _ := Recv2(site, ch)
	return v
}

func Recv2[T any](site string, ch <-chan T) (T, bool) {
	t := cur()
	if t == nil {
		v, ok := <-ch
		return v, ok
	}
	o := &op{kind: opChan, site: site, cases: []*selCase{RecvCase(ch)}}
	t.chanOp(o)
	return conv[T](o.recvV), o.recvOK
}

func Close[T any](site string, ch chan<- T) {
	if t := curFast(); t != nil {
		if s := cs; s != nil {
			t.hist = mix(t.hist, 19, hs(site), s.chanH[chidS(ch)])
			s.chanH[chidS(ch)] = t.hist
		}
	}
	close(ch)
}

// SelResult carries the outcome of Select.
type SelResult struct {
	v  interface{}
	ok bool
}

// Select performs a select over the cases. Returns the chosen index (-1 default).
func Select(site string, hasDefault bool, cases ...*selCase) (int, *SelResult) {
	t := cur()
	if t == nil {
		// unmanaged goroutine: real select
		rc := make([]reflect.SelectCase, 0, len(cases)+1)
		for _, c := range cases {
			if c.send {
				rc = append(rc, reflect.SelectCase{Dir: reflect.SelectSend, Chan: c.rch, Send: c.rsend})
			} else {
				rc = append(rc, reflect.SelectCase{Dir: reflect.SelectRecv, Chan: c.rch})
			}
		}
		if hasDefault {
			rc = append(rc, reflect.SelectCase{Dir: reflect.SelectDefault})
		}
		i, v, ok := reflect.Select(rc)
		if hasDefault && i == len(cases) {
			return -1, &SelResult{}
		}
		var iv interface{}
		if v.IsValid() {
			iv = v.Interface()
		}
		return i, &SelResult{iv, ok}
	}
	o := &op{kind: opChan, site: site, cases: cases, hasDefault: hasDefault}
	t.chanOp(o)
	return o.chosen, &SelResult{o.recvV, o.recvOK}
}

func SelVal[T any](ch <-chan T, r *SelResult) T          { return conv[T](r.v) }
func SelVal2[T any](ch <-chan T, r *SelResult) (T, bool) { return conv[T](r.v), r.ok }
