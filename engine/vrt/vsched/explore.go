package vsched

import "fmt"

var Debug bool

// Explorer performs preemption-bounded DFS.
type Explorer struct {
	Bound      int
	Body       func()
	Check      func(s *Sched) error // oracle per execution
	Executions int
	Steps      int
	MaxDepth   int
	Failures   []Failure
	MaxExec    int
	Outcomes   map[string]int
	Outcome    func() string
	Seen       map[uint64]int
	Pruned     int
	UseCache   bool
}

type Failure struct {
	Choices []int
	Err     string
	Trace   []Point
}

func (e *Explorer) Run() {
	e.Outcomes = map[string]int{}
	if e.UseCache {
		e.Seen = map[uint64]int{}
	}
	e.explore(nil)
}

func (e *Explorer) explore(prefix []int) {
	if e.MaxExec > 0 && e.Executions >= e.MaxExec {
		return
	}
	s := RunOnce(prefix, e.Body, e.Seen)
	if Debug {
		fmt.Printf("  exec prefix=%v len=%d pruned=%v\n", prefix, len(s.trace), s.Pruned)
	}
	e.Executions++
	e.Steps += len(s.trace)
	if len(s.trace) > e.MaxDepth {
		e.MaxDepth = len(s.trace)
	}
	var err error
	switch {
	case s.Diverged != "":
		err = fmt.Errorf("NONDETERMINISM/diverged: %s", s.Diverged)
	case s.Deadlock:
		err = fmt.Errorf("deadlock:\n%s", s.Report)
	case s.Pruned:
		e.Pruned++
	default:
		if e.Check != nil {
			err = e.Check(s)
		}
	}
	if e.Outcome != nil && !s.Pruned {
		e.Outcomes[e.Outcome()]++
	}
	if err != nil {
		ch := make([]int, len(s.trace))
		for i, p := range s.trace {
			ch[i] = p.Chosen
		}
		e.Failures = append(e.Failures, Failure{Choices: ch, Err: err.Error(), Trace: s.trace})
		if len(e.Failures) >= 5 {
			e.MaxExec = e.Executions
		}
		return
	}
	// replay-prefix consistency: the first len(prefix) choices must match
	for i := range prefix {
		if s.trace[i].Chosen != prefix[i] {
			panic("prefix not followed")
		}
	}
	pre := 0
	for i := 0; i < len(s.trace); i++ {
		p := s.trace[i]
		if i >= len(prefix) {
			for alt := 1; alt < p.NAlt; alt++ {
				// cost of choosing alt instead of 0 at point i
				cost := pre
				if DelayMode {
					if alt >= p.NFirst {
						cost++
					}
				} else if e.altPreempts(s, i, alt) {
					cost++
				}
				if cost > e.Bound {
					continue
				}
				np := make([]int, i+1)
				for j := 0; j < i; j++ {
					np[j] = s.trace[j].Chosen
				}
				np[i] = alt
				e.explore(np)
			}
		}
		if DelayMode {
			if p.Chosen >= p.NFirst {
				pre++
			}
		} else if p.Preempt {
			pre++
		}
	}
}

// altPreempts reports whether alternative alt at point i switches away from an enabled runner.
// Alternatives are ordered runner-first; we conservatively recorded NRunnerAlts.
func (e *Explorer) altPreempts(s *Sched, i, alt int) bool {
	p := s.trace[i]
	return p.RunnerEn && alt >= p.nRunnerAlts()
}
