package vsched

import (
	"fmt"
	"time"
)

var Debug bool

// Config describes one bounded exploration.
type Config struct {
	// Delay selects delay bounding (every choice of a thread other than the
	// default one costs 1; alternatives of the default thread are free).
	// Otherwise preemption bounding (switching away from an enabled running
	// thread costs 1; everything else is free).
	Delay bool
	// Bound is the largest budget explored; bounds 0..Bound are explored in turn
	// (iterative deepening, so the first counterexample has the fewest deviations).
	Bound int
	// NoCache disables happens-before state caching.
	NoCache bool
	// MaxExec and Budget cap the work; hitting either makes the result incomplete.
	MaxExec int
	Budget  time.Duration
	// ForeignGrace: see Sched.ForeignGrace.
	ForeignGrace time.Duration
	// MaxFailures stops the exploration after that many failing executions (default 3).
	MaxFailures int
}

// Failure is one failing execution, replayable from Choices.
type Failure struct {
	Choices []int
	Err     string
	Trace   []Point
	Bound   int
}

// Result of an exploration.
type Result struct {
	Executions     int // executions run (including those cut by the cache)
	Complete       int // executions that ran to completion and were checked
	Pruned         int // executions cut at an already-visited happens-before state
	Steps          int // scheduling steps executed (transitions)
	States         int // distinct happens-before state keys recorded (last bound)
	MaxDepth       int
	BoundCompleted int // largest bound fully explored (-1: none)
	Exhausted      bool
	Failures       []Failure
	Outcomes       map[string]int
	Unmanaged      int
	StoppedBy      string
	SampleTrace    []Point
}

// Explorer enumerates schedules of Body.
type Explorer struct {
	Cfg  Config
	Body func()
	// Check is the per-execution oracle, called after complete executions (monitor
	// failures recorded with Fail are collected for every execution, complete or cut).
	Check func(s *Sched) error
	// Outcome labels a complete execution (vacuity indicator).
	Outcome func() string

	res   *Result
	seen  map[uint64]int
	bound int
	start time.Time
	stop  bool
}

// Run explores bounds 0..Cfg.Bound.
func (e *Explorer) Run() *Result {
	e.res = &Result{Outcomes: map[string]int{}, BoundCompleted: -1}
	e.start = time.Now()
	DelayMode = e.Cfg.Delay
	if e.Cfg.MaxFailures == 0 {
		e.Cfg.MaxFailures = 3
	}
	for b := 0; b <= e.Cfg.Bound && !e.stop; b++ {
		e.bound = b
		e.seen = nil
		if !e.Cfg.NoCache {
			e.seen = map[uint64]int{}
		}
		e.explore(nil, nil)
		if !e.stop {
			e.res.BoundCompleted = b
			e.res.States = len(e.seen)
		}
	}
	e.res.Exhausted = !e.stop
	return e.res
}

// Replay runs exactly one execution following choices.
func (e *Explorer) Replay(choices []int) (*Sched, error) {
	DelayMode = e.Cfg.Delay
	s := RunOnceCfg(choices, nil, e.Body, nil, e.Cfg.ForeignGrace)
	return s, e.verdict(s)
}

func (e *Explorer) verdict(s *Sched) error {
	switch {
	case s.Diverged != "":
		return fmt.Errorf("NONDETERMINISM: %s", s.Diverged)
	case len(s.Fails) > 0:
		return fmt.Errorf("%s", s.Fails[0])
	case s.Deadlock:
		return fmt.Errorf("deadlock:\n%s", s.Report)
	case s.Pruned:
		return nil
	}
	if e.Check != nil {
		return e.Check(s)
	}
	return nil
}

func (e *Explorer) explore(prefix []int, prefixFP []uint64) {
	if e.stop {
		return
	}
	if e.Cfg.MaxExec > 0 && e.res.Executions >= e.Cfg.MaxExec {
		e.stop, e.res.StoppedBy = true, "max executions"
		return
	}
	if e.Cfg.Budget > 0 && time.Since(e.start) > e.Cfg.Budget {
		e.stop, e.res.StoppedBy = true, "time budget"
		return
	}
	s := RunOnceCfg(prefix, prefixFP, e.Body, e.seen, e.Cfg.ForeignGrace)
	if Debug {
		fmt.Printf("  exec prefix=%v len=%d pruned=%v\n", prefix, len(s.trace), s.Pruned)
	}
	r := e.res
	r.Executions++
	r.Steps += len(s.trace) - len(prefix)
	r.Unmanaged += s.Unmanaged
	if len(s.trace) > r.MaxDepth {
		r.MaxDepth = len(s.trace)
	}
	err := e.verdict(s)
	if s.Pruned {
		r.Pruned++
	} else if s.Diverged == "" && !s.Deadlock {
		r.Complete++
		if r.SampleTrace == nil {
			r.SampleTrace = s.trace
		}
		if e.Outcome != nil {
			r.Outcomes[e.Outcome()]++
		}
	}
	if err != nil {
		ch := make([]int, len(s.trace))
		for i, p := range s.trace {
			ch[i] = p.Chosen
		}
		r.Failures = append(r.Failures, Failure{Choices: ch, Err: err.Error(), Trace: s.trace, Bound: e.bound})
		if len(r.Failures) >= e.Cfg.MaxFailures {
			e.stop, e.res.StoppedBy = true, "failures"
		}
		return
	}
	pre := 0
	for i := 0; i < len(s.trace) && !e.stop; i++ {
		p := s.trace[i]
		if i >= len(prefix) {
			for alt := 1; alt < p.NAlt; alt++ {
				cost := pre
				if e.Cfg.Delay {
					if alt >= p.NFirst {
						cost++
					}
				} else if p.RunnerEn && alt >= p.NRunner {
					cost++
				}
				if cost > e.bound {
					continue
				}
				np := make([]int, i+1)
				nf := make([]uint64, i)
				for j := 0; j < i; j++ {
					np[j] = s.trace[j].Chosen
					nf[j] = s.trace[j].FP
				}
				np[i] = alt
				e.explore(np, nf)
				if e.stop {
					break
				}
			}
		}
		if e.Cfg.Delay {
			if p.Chosen >= p.NFirst {
				pre++
			}
		} else if p.Preempt {
			pre++
		}
	}
}
