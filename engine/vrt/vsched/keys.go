package vsched

import (
	"fmt"
	"reflect"
	"sort"
)

var namers = map[reflect.Type]func(interface{}) string{}

// RegisterNamer registers a canonical naming function for map keys of type t.
func RegisterNamer(t reflect.Type, f func(interface{}) string) { namers[t] = f }

func keyString(k interface{}) string {
	t := reflect.TypeOf(k)
	if f, ok := namers[t]; ok {
		return f(k)
	}
	switch t.Kind() {
	case reflect.Ptr, reflect.Chan, reflect.Func, reflect.UnsafePointer, reflect.Map:
		if cs != nil {
			panic(fmt.Sprintf("vsched: range over map with key type %v has no namer (unowned nondeterminism)", t))
		}
	}
	return fmt.Sprintf("%020v", k)
}

// SortedKeys returns the keys of m in canonical order.
func SortedKeys[K comparable, V any](m map[K]V) []K {
	keys := make([]K, 0, len(m))
	for k := range m {
		keys = append(keys, k)
	}
	if len(keys) < 2 {
		return keys
	}
	names := make(map[K]string, len(keys))
	for _, k := range keys {
		names[k] = keyString(k)
	}
	sort.Slice(keys, func(i, j int) bool { return names[keys[i]] < names[keys[j]] })
	return keys
}
