// Package vsched is a cooperative, controlled scheduler for instrumented code
// (DESIGN.md §4 E1). Exactly one managed goroutine ("thread") runs at a time;
// before every operation that can block or that races by design the thread
// parks at a scheduling point and the scheduler picks which alternative runs
// next. Executions are replayed from choice prefixes by the explorer
// (explore.go), which enumerates all schedules up to a delay or preemption
// bound, modulo happens-before equivalence (state keys built from per-thread
// causal-history hashes).
package vsched

import (
	"bytes"
	"fmt"
	"reflect"
	"runtime"
	"sort"
	"strconv"
	"sync"
	"time"
)

type opKind int

const (
	opStart opKind = iota
	opLock
	opRLock
	opWGWait
	opChan   // send/recv/select
	opChoose // data nondeterminism
	opYield  // plain scheduling point (atomics)
	opResume // rendezvous partner completed our op
	opAwait  // blocked until a harness predicate holds
)

func (k opKind) String() string {
	return [...]string{"start", "lock", "rlock", "wgwait", "chan", "choose", "yield", "resume", "await"}[k]
}

type selCase struct {
	rch     reflect.Value
	rsend   reflect.Value
	send    bool
	chid    uintptr
	capf    func() int
	lenf    func() int
	tryRecv func() (v interface{}, ok bool, got bool) // non-blocking real receive
	trySend func() bool                               // non-blocking real send (buffered only)
	sendVal interface{}
	// peeked result of a probe (foreign/closed channels)
	peeked bool
	peekV  interface{}
	peekOK bool
}

type op struct {
	kind       opKind
	site       string
	mu         *Mutex
	rw         *RWMutex
	wg         *WaitGroup
	key        uintptr
	cases      []*selCase
	hasDefault bool
	nchoose    int
	cond       func() bool
	// results
	chosen int // case index / choose value; -1 default
	recvV  interface{}
	recvOK bool
	done   bool // completed by a partner (rendezvous)
}

type Thread struct {
	hist    uint64 // happens-before history hash
	cid     uint64 // canonical id (parent cid, spawn index)
	nspawn  int
	id      int
	site    string
	wake    chan grant
	pending *op
	fin     bool
	daemon  bool
	goid    int64
	s       *Sched // the execution this thread belongs to
}

type grant struct {
	abort bool
	alt   alt
}

// alt is one schedulable alternative at a point.
type alt struct {
	t       *Thread
	caseIdx int     // for chan ops: case index (-1 default); for choose: value
	partner *Thread // rendezvous partner (unbuffered)
	pcase   int     // partner's case index
}

type Point struct {
	Thread   int
	Kind     string
	Site     string
	NAlt     int
	Chosen   int
	Preempt  bool // chosen alt switched away from a still-enabled running thread
	RunnerEn bool
	NRunner  int
	NFirst   int // alternatives belonging to the first thread in canonical order
	Desc     string
	FP       uint64 // fingerprint (canonical thread id, op kind, site) checked on replay
}

func (p Point) nRunnerAlts() int { return p.NRunner }

type Sched struct {
	threads  []*Thread
	gmu      sync.Mutex
	byGoid   map[int64]*Thread
	running  *Thread
	yieldc   chan *Thread
	tearing  bool
	wg       sync.WaitGroup
	dead     chan struct{} // closed when the execution is over (after teardown)
	cleanups []func()

	prefix   []int
	prefixFP []uint64
	trace    []Point
	// ForeignGrace is how long the scheduler polls in real time for foreign
	// events (ctx cancellation by timers, bigmachine goroutines) when no
	// alternative is enabled, before declaring a deadlock.
	ForeignGrace time.Duration
	Fails        []string // monitor failures recorded with Fail during this execution
	// queue is the round-robin order of the default (non-preemptive) scheduler: when
	// the running thread blocks, the first enabled thread of the queue runs. New threads
	// join at the back. A deviation (choosing a later thread) moves the enabled threads
	// that were skipped to the back — so delaying a thread is persistent: it runs again
	// only when everything ahead of it is blocked (delay bounding as in Emmi, Qadeer,
	// Rakamaric, POPL 2011). The queue order is part of the state key.
	queue    []*Thread
	prelude  bool // see Prelude
	draining bool
	watch    map[uintptr][]func(interface{})
	// results
	Deadlock   bool
	Report     string
	Diverged   string
	Unmanaged  int
	mainThread *Thread
	StepLimit  int
	chanH      map[uintptr]uint64
	objH       map[uintptr]uint64
	Seen       map[uint64]int // state key -> min preemptions used
	Pruned     bool
	preUsed    int
	Keys       int
}

func mix(h uint64, vs ...uint64) uint64 {
	for _, v := range vs {
		h ^= v + 0x9e3779b97f4a7c15 + (h << 6) + (h >> 2)
		h *= 0xff51afd7ed558ccd
		h ^= h >> 33
	}
	return h
}

func hs(s string) uint64 {
	var h uint64 = 14695981039346656037
	for i := 0; i < len(s); i++ {
		h ^= uint64(s[i])
		h *= 1099511628211
	}
	return h
}

// stateKey is a canonical fingerprint of the partial order executed so far.
func (s *Sched) stateKey(last *Thread) uint64 {
	var sum uint64
	for _, t := range s.threads {
		if t.fin {
			sum += mix(t.cid, t.hist, 1)
			continue
		}
		var pk uint64
		if t.pending != nil {
			pk = mix(uint64(t.pending.kind), hs(t.pending.site))
			if t.pending.done {
				pk = mix(pk, 7)
			}
		}
		sum += mix(t.cid, t.hist, pk)
	}
	var l uint64
	if last != nil {
		l = last.cid
	}
	q := uint64(7)
	for _, t := range s.queue {
		if !t.fin {
			q = mix(q, t.cid)
		}
	}
	return mix(sum, l, q)
}

// applyHB updates history hashes for the alternative about to execute.
func (s *Sched) applyHB(a alt) {
	t := a.t
	o := t.pending
	site := hs(o.site)
	switch o.kind {
	case opStart, opResume:
	case opAwait:
		// the predicate reads state written by other threads: order after everything
		var sum uint64
		for _, u := range s.threads {
			sum += u.hist
		}
		t.hist = mix(t.hist, 24, site, sum)
	case opYield:
		k := uintptr(0)
		if o.mu != nil {
			k = 0
		}
		t.hist = mix(t.hist, 11, site, s.objH[o.key])
		s.objH[o.key] = t.hist
		_ = k
	case opChoose:
		t.hist = mix(t.hist, 12, site, uint64(a.caseIdx))
	case opLock:
		t.hist = mix(t.hist, 13, site, o.mu.hb())
	case opWGWait:
		t.hist = mix(t.hist, 14, site, o.wg.hb())
	case opChan:
		if o.done {
			return // history already updated by the partner
		}
		if a.caseIdx == -1 {
			t.hist = mix(t.hist, 15, site)
			return
		}
		c := o.cases[a.caseIdx]
		if a.partner != nil {
			u := a.partner
			ht, hu := t.hist, u.hist
			t.hist = mix(ht, 16, site, uint64(a.caseIdx), hu)
			u.hist = mix(hu, 17, hs(u.pending.site), uint64(a.pcase), ht)
			return
		}
		ch := s.chanH[c.chid]
		if c.peeked && ch == 0 {
			// foreign channel (e.g. ctx.Done()): unknown releaser; synchronize with everything
			for _, u := range s.threads {
				ch += u.hist
			}
			t.hist = mix(t.hist, 20, site, uint64(a.caseIdx), ch)
			return
		}
		t.hist = mix(t.hist, 18, site, uint64(a.caseIdx), ch)
		s.chanH[c.chid] = t.hist
	}
}

var (
	gl sync.Mutex // global lock for model state touched by unmanaged goroutines
	cs *Sched     // current execution (nil when inactive)
)

func goid() int64 {
	var buf [64]byte
	n := runtime.Stack(buf[:], false)
	// "goroutine 123 ["
	b := buf[10:n]
	i := bytes.IndexByte(b, ' ')
	id, _ := strconv.ParseInt(string(b[:i]), 10, 64)
	return id
}

// cur returns the managed thread of the calling goroutine, or nil.
func cur() *Thread {
	s := cs
	if s == nil {
		return nil
	}
	g := goid()
	s.gmu.Lock()
	t := s.byGoid[g]
	s.gmu.Unlock()
	if t == nil {
		s.gmu.Lock()
		s.Unmanaged++
		s.gmu.Unlock()
	}
	return t
}

// curFast returns the running managed thread if the caller is it (no counting).
func curFast() *Thread {
	s := cs
	if s == nil {
		return nil
	}
	g := goid()
	s.gmu.Lock()
	t := s.byGoid[g]
	s.gmu.Unlock()
	return t
}

var DebugKeys bool

// DelayMode: every choice of a thread other than the default one costs one unit (delay bounding).
var DelayMode bool

var epoch uint64 // execution counter; sync objects that outlive an execution are reset lazily

type abortSentinel struct{}

// point parks the calling managed thread at a scheduling point until granted.
func (t *Thread) point(o *op) grant {
	// A thread only ever talks to its own execution's scheduler: a straggler of an
	// execution whose teardown timed out must not yield into the next execution.
	s := t.s
	if cs != s || s.tearing {
		runtime.Goexit()
	}
	t.pending = o
	select {
	case s.yieldc <- t:
	case <-s.dead:
		runtime.Goexit()
	}
	var g grant
	select {
	case g = <-t.wake:
	case <-s.dead:
		runtime.Goexit()
	}
	if g.abort {
		runtime.Goexit()
	}
	t.pending = nil
	return g
}

// Go spawns a managed thread (or a plain goroutine when inactive/unmanaged).
func Go(site string, f func()) {
	parent := cur()
	s := cs
	if parent == nil || s == nil {
		go f()
		return
	}
	if s.tearing {
		return
	}
	s.spawn(site, f, false)
}

func (s *Sched) spawn(site string, f func(), isMain bool) *Thread {
	t := &Thread{id: len(s.threads), site: site, wake: make(chan grant), s: s}
	if p := s.running; p != nil && !isMain {
		p.nspawn++
		t.cid = mix(p.cid, uint64(p.nspawn), hs(site))
		t.hist = mix(p.hist, 21, uint64(p.nspawn))
		p.hist = mix(p.hist, 22, uint64(p.nspawn))
	} else {
		t.cid = 1
	}
	t.pending = &op{kind: opStart, site: site}
	s.threads = append(s.threads, t)
	s.queue = append(s.queue, t)
	s.wg.Add(1)
	go func() {
		defer s.wg.Done()
		t.goid = goid()
		s.gmu.Lock()
		s.byGoid[t.goid] = t
		s.gmu.Unlock()
		defer func() {
			s.gmu.Lock()
			delete(s.byGoid, t.goid)
			s.gmu.Unlock()
			t.fin = true
			if !s.tearing {
				select {
				case s.yieldc <- t:
				case <-s.dead:
				}
			}
		}()
		var g grant
		select {
		case g = <-t.wake:
		case <-s.dead:
			return
		}
		if g.abort {
			return
		}
		t.pending = nil
		f()
	}()
	return t
}

// Choose is a data-nondeterminism point: returns a value in [0,n).
func Choose(site string, n int) int {
	t := cur()
	if t == nil {
		return 0
	}
	g := t.point(&op{kind: opChoose, site: site, nchoose: n})
	return g.alt.caseIdx
}

// Yield is a plain scheduling point.
func Yield(site string) { YieldOn(site, 0) }

// YieldOn is a scheduling point that accesses the shared object identified by key.
func YieldOn(site string, key uintptr) {
	t := cur()
	if t == nil {
		return
	}
	t.point(&op{kind: opYield, site: site, key: key})
}

// Daemon marks the calling thread as a daemon: it may remain blocked at the end.
func Daemon() {
	if t := cur(); t != nil {
		t.daemon = true
	}
}

// alternatives computes the schedulable alternatives of thread t.
func (s *Sched) alternatives(t *Thread) []alt {
	o := t.pending
	if o == nil || t.fin {
		return nil
	}
	switch o.kind {
	case opStart, opYield, opResume:
		return []alt{{t: t}}
	case opAwait:
		if o.cond() {
			return []alt{{t: t}}
		}
	case opChoose:
		out := make([]alt, o.nchoose)
		for i := range out {
			out[i] = alt{t: t, caseIdx: i}
		}
		return out
	case opLock:
		if !o.mu.held {
			return []alt{{t: t}}
		}
	case opRLock:
		if o.rw.w == false && o.rw.wwait == 0 || o.rw.w == false {
			return []alt{{t: t}}
		}
	case opWGWait:
		if o.wg.n == 0 {
			return []alt{{t: t}}
		}
	case opChan:
		if o.done {
			return []alt{{t: t, caseIdx: o.chosen}}
		}
		var out []alt
		for i, c := range o.cases {
			if c.chid == 0 {
				continue // nil channel: never ready
			}
			if c.send {
				if c.capf() > 0 {
					if c.lenf() < c.capf() {
						out = append(out, alt{t: t, caseIdx: i})
					}
					continue
				}
				// unbuffered: need a parked managed receiver
				for _, u := range s.threads {
					if u == t || u.fin || u.pending == nil || u.pending.kind != opChan || u.pending.done {
						continue
					}
					for j, uc := range u.pending.cases {
						if !uc.send && uc.chid == c.chid {
							out = append(out, alt{t: t, caseIdx: i, partner: u, pcase: j})
						}
					}
				}
				continue
			}
			// receive
			if c.peeked {
				out = append(out, alt{t: t, caseIdx: i})
				continue
			}
			if c.capf() > 0 && c.lenf() > 0 {
				out = append(out, alt{t: t, caseIdx: i})
				continue
			}
			found := false
			if c.capf() == 0 {
				for _, u := range s.threads {
					if u == t || u.fin || u.pending == nil || u.pending.kind != opChan || u.pending.done {
						continue
					}
					for j, uc := range u.pending.cases {
						if uc.send && uc.chid == c.chid {
							out = append(out, alt{t: t, caseIdx: i, partner: u, pcase: j})
							found = true
						}
					}
				}
			}
			if found {
				continue
			}
			// probe: closed channel or foreign sender
			if v, ok, got := c.tryRecv(); got {
				c.peeked, c.peekV, c.peekOK = true, v, ok
				out = append(out, alt{t: t, caseIdx: i})
			}
		}
		if len(out) == 0 && o.hasDefault {
			out = append(out, alt{t: t, caseIdx: -1})
		}
		return out
	}
	return nil
}

// RunOnce executes body under the scheduler following prefix, then default choices.
func RunOnce(prefix []int, body func(), seen map[uint64]int) *Sched {
	return RunOnceCfg(prefix, nil, body, seen, 0)
}

// RunOnceCfg is RunOnce with replay fingerprints and a foreign-event grace period.
func RunOnceCfg(prefix []int, prefixFP []uint64, body func(), seen map[uint64]int, grace time.Duration) *Sched {
	s := &Sched{byGoid: map[int64]*Thread{}, yieldc: make(chan *Thread), dead: make(chan struct{}), prefix: prefix, prefixFP: prefixFP, ForeignGrace: grace,
		StepLimit: 20000, watch: map[uintptr][]func(interface{}){}, chanH: map[uintptr]uint64{}, objH: map[uintptr]uint64{}, Seen: seen}
	gl.Lock()
	epoch++
	cs = s
	gl.Unlock()
	s.mainThread = s.spawn("main", body, true)
	var last *Thread // thread that was running before this point
	for step := 0; ; step++ {
		if last != nil {
			// wait for the running thread to park or finish
			<-s.yieldc
		}
		if s.mainThread.fin {
			break
		}
		if step > s.StepLimit {
			s.Diverged = "step limit"
			break
		}
		// canonical order: the running thread first (non-preemptive default), then the
		// round-robin queue
		var order []*Thread
		if last != nil && !last.fin {
			order = append(order, last)
		}
		for _, t := range s.queue {
			if t != last && !t.fin {
				order = append(order, t)
			}
		}
		var alts []alt
		var enabled []*Thread // threads with at least one alternative, in canonical order
		runnerEnabled := false
		nRunner := 0
		deadline := time.Time{}
		for {
			alts = alts[:0]
			runnerEnabled, nRunner = false, 0
			enabled = enabled[:0]
			for i, t := range order {
				a := s.alternatives(t)
				if s.draining && !s.prelude && t == s.mainThread {
					continue // Quiesce: the main thread waits until nothing else can run
				}
				if len(a) > 0 {
					enabled = append(enabled, t)
				}
				if i == 0 && t == last && len(a) > 0 {
					runnerEnabled = true
					nRunner = len(a)
				}
				alts = append(alts, a...)
			}
			if len(alts) == 0 && s.draining && !s.prelude {
				alts = append(alts, s.alternatives(s.mainThread)...)
			}
			if len(alts) > 0 {
				break
			}
			// nothing enabled: maybe foreign events pending
			grace := s.ForeignGrace
			if s.prelude && grace < 20*time.Second {
				grace = 20 * time.Second
			}
			if grace == 0 {
				break
			}
			if deadline.IsZero() {
				deadline = time.Now().Add(grace)
			}
			if time.Now().After(deadline) {
				break
			}
			time.Sleep(200 * time.Microsecond)
		}
		if len(alts) == 0 {
			s.Deadlock = true
			s.Report = s.BlockedReport()
			break
		}
		if s.prelude {
			// Prelude steps follow the default choice, are not recorded and not explored.
			// When the prelude body has returned (draining), every other thread runs until
			// it blocks before the main thread is allowed to start the explored part.
			a := alts[0]
			if s.draining {
				for _, x := range alts {
					if x.t != s.mainThread {
						a = x
						break
					}
				}
			}
			s.applyHB(a)
			s.running = a.t
			last = a.t
			a.t.wake <- grant{alt: a}
			continue
		}
		idx := len(s.trace)
		choice := 0
		if idx < len(s.prefix) {
			choice = s.prefix[idx]
			if choice >= len(alts) {
				s.Diverged = fmt.Sprintf("step %d: prefix choice %d out of range %d", idx, choice, len(alts))
				break
			}
		}
		if s.Seen != nil && idx >= len(s.prefix) {
			k := s.stateKey(last)
			if DebugKeys {
				fmt.Printf("    step %d key %x alts=%d next=T%d %s %s\n", step, k, len(alts), alts[choice].t.id, alts[choice].t.pending.kind, alts[choice].t.pending.site)
			}
			if used, ok := s.Seen[k]; ok && used <= s.preUsed {
				s.Pruned = true
				break
			}
			s.Seen[k] = s.preUsed
		}
		nFirst := 0
		for _, x := range alts {
			if x.t == alts[0].t {
				nFirst++
			}
		}
		a := alts[choice]
		o := a.t.pending
		p := Point{Thread: a.t.id, Kind: o.kind.String(), Site: o.site, NAlt: len(alts), Chosen: choice,
			RunnerEn: runnerEnabled, NRunner: nRunner, NFirst: nFirst, Preempt: runnerEnabled && a.t != last,
			FP: mix(a.t.cid, uint64(o.kind), hs(o.site), uint64(len(alts)))}
		if idx < len(s.prefixFP) && s.prefixFP[idx] != p.FP {
			s.Diverged = fmt.Sprintf("step %d: replay divergence: now T%d %s %s (%d alternatives)", idx, a.t.id, o.kind, o.site, len(alts))
			break
		}
		s.trace = append(s.trace, p)
		if DelayMode {
			if choice >= nFirst {
				s.preUsed++
			}
		} else if p.Preempt {
			s.preUsed++
		}
		s.applyHB(a)
		s.delay(enabled, a.t)
		s.running = a.t
		last = a.t
		a.t.wake <- grant{alt: a}
	}
	// teardown
	s.tearing = true
	for _, t := range s.threads {
		if !t.fin {
			select {
			case t.wake <- grant{abort: true}:
			case <-time.After(2 * time.Second):
			}
		}
	}
	done := make(chan struct{})
	go func() { s.wg.Wait(); close(done) }()
	select {
	case <-done:
	case <-time.After(3 * time.Second):
		s.Diverged += " teardown-timeout"
	}
	gl.Lock()
	cs = nil
	gl.Unlock()
	close(s.dead)
	// harness clean-up of resources the scheduler does not own (e.g. an in-process
	// cluster's keepalive goroutines), outside the execution
	for i := len(s.cleanups) - 1; i >= 0; i-- {
		s.cleanups[i]()
	}
	return s
}

// Cleanup registers f to run after the current execution has been torn down (no
// scheduler is active then: vsched primitives pass through). Without an execution f
// is not run and false is returned.
func Cleanup(f func()) bool {
	s := cs
	if s == nil {
		return false
	}
	s.gmu.Lock()
	s.cleanups = append(s.cleanups, f)
	s.gmu.Unlock()
	return true
}

func (s *Sched) Trace() []Point { return s.trace }

func (s *Sched) BlockedReport() string {
	var b bytes.Buffer
	for _, t := range s.threads {
		if t.fin {
			continue
		}
		k, site := "?", ""
		if t.pending != nil {
			k, site = t.pending.kind.String(), t.pending.site
		}
		fmt.Fprintf(&b, "  T%d(%s) blocked at %s %s\n", t.id, t.site, k, site)
	}
	return b.String()
}

// Fail records a monitor failure for the current execution (also when the
// execution is later cut by the state cache).
func Fail(format string, a ...interface{}) {
	s := cs
	if s == nil {
		failMu.Lock()
		passFails = append(passFails, fmt.Sprintf(format, a...))
		failMu.Unlock()
		return
	}
	s.gmu.Lock()
	s.Fails = append(s.Fails, fmt.Sprintf(format, a...))
	s.gmu.Unlock()
}

// Touch orders the calling thread's history after every earlier Touch of the
// same key, without being a scheduling point. Harness monitors call it when
// they read or write monitor memory shared between threads, so that two
// linearisations which differ in the order of monitor events are never merged
// by the happens-before state cache.
func Touch(key uintptr) {
	t := curFast()
	s := cs
	if t == nil || s == nil {
		return
	}
	t.hist = mix(t.hist, 23, s.objH[key])
	s.objH[key] = t.hist
}

var (
	monMu     sync.Mutex
	failMu    sync.Mutex
	passFails []string
)

// Monitor runs f as one atomic access to harness monitor memory identified by key.
// Under the scheduler it is Touch(key) followed by f (threads are cooperative, so f is
// atomic and its order relative to other Monitor calls is part of the history); in
// pass-through mode (free-running race pass) it holds a real mutex.
func Monitor(key uintptr, f func()) {
	if curFast() != nil {
		Touch(key)
		f()
		return
	}
	monMu.Lock()
	defer monMu.Unlock()
	f()
}

// PassFails returns and clears the failures recorded by Fail outside an exploration.
func PassFails() []string {
	failMu.Lock()
	defer failMu.Unlock()
	out := passFails
	passFails = nil
	return out
}

// Active reports whether an exploration is running and the caller is a managed thread.
func Active() bool { return curFast() != nil }

// Prelude runs f, on the calling (main) thread, as a non-explored set-up phase: while
// it runs the scheduler follows default choices only, records nothing in the trace,
// and waits generously for foreign events (e.g. machines booting on goroutines the
// scheduler does not own). Exploration proper starts when f returns. The state the
// prelude leaves behind must not depend on foreign timing.
func Prelude(f func()) {
	s := cs
	if s == nil || curFast() == nil {
		f()
		return
	}
	s.prelude = true
	f()
	s.draining = true
	Yield("prelude-end") // granted only once every other thread is blocked
	s.draining = false
	s.prelude = false
	// thread creation order in the prelude may depend on foreign timing: canonicalise
	sort.SliceStable(s.queue, func(i, j int) bool { return s.queue[i].cid < s.queue[j].cid })
	Yield("explore-begin")
}

// Watch registers f to be called, by the thread executing the step, at the moment a
// value is communicated on ch (rendezvous or buffered send). Harness monitors use it to
// observe a single-threaded event loop's interactions in exactly the loop's own order.
func Watch[T any](ch <-chan T, f func(v T)) {
	s := cs
	if s == nil {
		return
	}
	id := chid(ch)
	s.gmu.Lock()
	s.watch[id] = append(s.watch[id], func(v interface{}) { f(conv[T](v)) })
	s.gmu.Unlock()
}

func (s *Sched) notifyWatch(id uintptr, v interface{}) {
	s.gmu.Lock()
	ws := s.watch[id]
	s.gmu.Unlock()
	for _, w := range ws {
		w(v)
	}
}

// Quiesce parks the calling main thread until no other thread can make progress.
// The steps the other threads take meanwhile are ordinary, explored steps.
func Quiesce() {
	s := cs
	if s == nil || curFast() != s.mainThread {
		return
	}
	s.draining = true
	Yield("quiesce")
	s.draining = false
}

// delay moves the enabled threads that were passed over in favour of chosen to the
// back of the round-robin queue (in their relative order) and drops finished threads.
func (s *Sched) delay(enabled []*Thread, chosen *Thread) {
	skipped := map[*Thread]bool{}
	for _, t := range enabled {
		if t == chosen {
			break
		}
		skipped[t] = true
	}
	q := s.queue[:0:0]
	var back []*Thread
	for _, t := range s.queue {
		switch {
		case t.fin:
		case skipped[t]:
			back = append(back, t)
		default:
			q = append(q, t)
		}
	}
	s.queue = append(q, back...)
}

// Await blocks the calling managed thread until cond holds. cond is evaluated by the
// scheduler while no thread runs; it must be free of scheduling points and side effects.
// It lets a scenario say "this thread acts only once the system has reached state X"
// without spending scheduling deviations on reaching X.
func Await(site string, cond func() bool) {
	t := cur()
	if t == nil {
		for !cond() {
			runtime.Gosched()
		}
		return
	}
	t.point(&op{kind: opAwait, site: site, cond: cond})
}
