package vsched

import (
	"runtime"
	"sync"
)

type Locker interface {
	Lock()
	Unlock()
}

type Mutex struct {
	held bool
	h    uint64
	ep   uint64
}

func (m *Mutex) hb() uint64 {
	if m.ep != epoch {
		return 0
	}
	return m.h
}

func (m *Mutex) Lock() {
	t := cur()
	if t == nil {
		for {
			gl.Lock()
			if !m.held {
				m.held = true
				gl.Unlock()
				return
			}
			gl.Unlock()
			runtime.Gosched()
		}
	}
	t.point(&op{kind: opLock, mu: m, site: caller()})
	gl.Lock()
	m.held = true
	gl.Unlock()
}

func (m *Mutex) Unlock() {
	gl.Lock()
	if !m.held {
		gl.Unlock()
		if s := cs; s != nil && s.tearing {
			return
		}
		panic("vsched: unlock of unlocked mutex")
	}
	m.held = false
	if t := curFast(); t != nil {
		m.h = t.hist
		m.ep = epoch
	}
	gl.Unlock()
}

type RWMutex struct {
	w     bool
	r     int
	wwait int
}

func (m *RWMutex) Lock() {
	t := cur()
	if t == nil {
		for {
			gl.Lock()
			if !m.w && m.r == 0 {
				m.w = true
				gl.Unlock()
				return
			}
			gl.Unlock()
			runtime.Gosched()
		}
	}
	mm := &Mutex{}
	_ = mm
	for {
		t.point(&op{kind: opYield, site: caller()})
		gl.Lock()
		if !m.w && m.r == 0 {
			m.w = true
			gl.Unlock()
			return
		}
		gl.Unlock()
	}
}
func (m *RWMutex) Unlock()  { gl.Lock(); m.w = false; gl.Unlock() }
func (m *RWMutex) RLock()   { m.Lock(); gl.Lock(); m.w = false; m.r++; gl.Unlock() }
func (m *RWMutex) RUnlock() { gl.Lock(); m.r--; gl.Unlock() }

type WaitGroup struct {
	n  int
	h  uint64
	ep uint64
}

func (w *WaitGroup) hb() uint64 {
	if w.ep != epoch {
		return 0
	}
	return w.h
}

func (w *WaitGroup) Add(d int) {
	gl.Lock()
	w.n += d
	if t := curFast(); t != nil {
		if w.ep != epoch {
			w.h, w.ep = 0, epoch
		}
		w.h += mix(t.hist, uint64(int64(d)))
	}
	gl.Unlock()
}
func (w *WaitGroup) Done() { w.Add(-1) }
func (w *WaitGroup) Wait() {
	t := cur()
	if t == nil {
		for {
			gl.Lock()
			z := w.n == 0
			gl.Unlock()
			if z {
				return
			}
			runtime.Gosched()
		}
	}
	t.point(&op{kind: opWGWait, wg: w, site: caller()})
}

type Once struct {
	done bool
	m    Mutex
}

func (o *Once) Do(f func()) {
	gl.Lock()
	d := o.done
	gl.Unlock()
	if d {
		return
	}
	o.m.Lock()
	defer o.m.Unlock()
	if !o.done {
		defer func() { gl.Lock(); o.done = true; gl.Unlock() }()
		f()
	}
}

type Map struct{ m sync.Map }

func (m *Map) Load(k interface{}) (interface{}, bool)           { return m.m.Load(k) }
func (m *Map) Store(k, v interface{})                           { m.m.Store(k, v) }
func (m *Map) Delete(k interface{})                             { m.m.Delete(k) }
func (m *Map) Range(f func(k, v interface{}) bool)              { m.m.Range(f) }
func (m *Map) LoadOrStore(k, v interface{}) (interface{}, bool) { return m.m.LoadOrStore(k, v) }

func caller() string {
	_, file, line, ok := runtime.Caller(2)
	if !ok {
		return "?"
	}
	// shorten
	for i := len(file) - 1; i >= 0; i-- {
		if file[i] == '/' {
			file = file[i+1:]
			break
		}
	}
	return file + ":" + itoa(line)
}

func itoa(n int) string {
	if n == 0 {
		return "0"
	}
	var b [12]byte
	i := len(b)
	for n > 0 {
		i--
		b[i] = byte('0' + n%10)
		n /= 10
	}
	return string(b[i:])
}
