// Package vsync mirrors the parts of package sync that instrumented code uses.
package vsync

import "github.com/grailbio/bigslice/verifrt/vsched"

type (
	Mutex     = vsched.Mutex
	RWMutex   = vsched.RWMutex
	WaitGroup = vsched.WaitGroup
	Once      = vsched.Once
	Map       = vsched.Map
	Locker    = vsched.Locker
)
