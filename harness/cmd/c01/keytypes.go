package main

// Key-type family. The program grammar of refeval has int and string keys only,
// but several operators dispatch on the key type: Fold has one accumulator
// implementation per key kind (accum.go: string, int, int64), Reduce / Cogroup /
// Reshuffle go through per-type hash and sort operators. This family runs the
// keyed operators over every built-in key type with concrete (non-reflective)
// Go programs and compares with a map model: same rows, every key once.

import (
	"context"
	"fmt"
	"math"
	"sort"
	"strings"
	"sync/atomic"
	"time"

	"github.com/grailbio/bigslice"
	"github.com/grailbio/bigslice/exec"
	"verifh/ev"
)

const (
	ktReduce = iota
	ktFold
	ktCogroup
	ktReshuffle
	ktFoldOfReshuffle // Fold reading from a shuffle (accumulator fed across task boundaries)
	numKtOps
)

var ktOpNames = [...]string{"Reduce", "Fold", "Cogroup", "Reshuffle", "Reshuffle|Fold"}

type ktSpec struct {
	name   string
	foldOK bool // Fold is documented for string, int and int64 keys only
	build  func(op, rows, shards, pat int) bigslice.Slice
	// scan returns canonical rows "key|v1,v2.." of a result and the model rows for the same arguments.
	scan  func(ctx context.Context, res *exec.Result, op int) ([]string, error)
	model func(op, rows, pat int) []string
}

// keyIndex: which of the type's key values row i carries.
func ktKeyIndex(pat, i, nkeys int) int {
	switch pat {
	case 0: // all equal
		return 1 % nkeys
	case 1: // all distinct (as far as the type has values)
		return i % nkeys
	}
	return i % 3 % nkeys // colliding
}

func mkKT[K comparable](name string, foldOK bool, vals []K) ktSpec {
	keyOf := func(pat, i int) K { return vals[ktKeyIndex(pat, i, len(vals))] }
	canonK := func(k K) string { return fmt.Sprintf("%v", k) }
	return ktSpec{
		name: name, foldOK: foldOK,
		build: func(op, rows, shards, pat int) bigslice.Slice {
			ks := make([]K, rows)
			vs := make([]int, rows)
			for i := range ks {
				ks[i], vs[i] = keyOf(pat, i), 10+i
			}
			src := bigslice.Const(shards, ks, vs)
			switch op {
			case ktReduce:
				return bigslice.Reduce(src, func(a, b int) int { return a + b })
			case ktFold:
				return bigslice.Fold(src, func(acc int, v int) int { return acc + v })
			case ktCogroup:
				return bigslice.Map(bigslice.Cogroup(src), func(k K, vs []int) (K, int) {
					s := 0
					for _, v := range vs {
						s += v
					}
					return k, s*1000 + len(vs)
				})
			case ktReshuffle:
				return bigslice.Reshuffle(src)
			case ktFoldOfReshuffle:
				return bigslice.Fold(bigslice.Reshuffle(src), func(acc int, v int) int { return acc + v })
			}
			panic("kt op")
		},
		scan: func(ctx context.Context, res *exec.Result, op int) ([]string, error) {
			var out []string
			sc := res.Scanner()
			defer sc.Close()
			var k K
			var v int
			for sc.Scan(ctx, &k, &v) {
				out = append(out, canonK(k)+"|"+fmt.Sprint(v))
			}
			return out, sc.Err()
		},
		model: func(op, rows, pat int) []string {
			var out []string
			if op == ktReshuffle {
				for i := 0; i < rows; i++ {
					out = append(out, canonK(keyOf(pat, i))+"|"+fmt.Sprint(10+i))
				}
				return out
			}
			sum := map[K]int{}
			cnt := map[K]int{}
			var order []K
			for i := 0; i < rows; i++ {
				k := keyOf(pat, i)
				if cnt[k] == 0 {
					order = append(order, k)
				}
				sum[k] += 10 + i
				cnt[k]++
			}
			for _, k := range order {
				v := sum[k]
				if op == ktCogroup {
					v = sum[k]*1000 + cnt[k]
				}
				out = append(out, canonK(k)+"|"+fmt.Sprint(v))
			}
			return out
		},
	}
}

var ktSpecs = []ktSpec{
	mkKT("int", true, []int{0, 1, -1, 7, math.MaxInt64, math.MinInt64, 1 << 32, 255, 256}),
	mkKT("int64", true, []int64{0, 1, -1, 7, math.MaxInt64, math.MinInt64, 1 << 32, 255, 256}),
	mkKT("string", true, []string{"", "a", "b", "ab", "a\x00", "\xff", "key-with-a-long-tail-0123456789", "A", "aa"}),
	mkKT("int8", false, []int8{0, 1, -1, 127, -128, 7, 2, 3, 4}),
	mkKT("int16", false, []int16{0, 1, -1, 32767, -32768, 256, 255, 3, 4}),
	mkKT("int32", false, []int32{0, 1, -1, math.MaxInt32, math.MinInt32, 65536, 255, 3, 4}),
	mkKT("uint", false, []uint{0, 1, 2, math.MaxUint64, 1 << 63, 1 << 32, 255, 256, 4}),
	mkKT("uint8", false, []uint8{0, 1, 2, 255, 128, 127, 3, 4, 5}),
	mkKT("uint16", false, []uint16{0, 1, 2, 65535, 256, 255, 3, 4, 5}),
	mkKT("uint32", false, []uint32{0, 1, 2, math.MaxUint32, 65536, 255, 3, 4, 5}),
	mkKT("uint64", false, []uint64{0, 1, 2, math.MaxUint64, 1 << 63, 1 << 32, 255, 256, 5}),
	mkKT("float32", false, []float32{0, 1, -1, 0.5, math.MaxFloat32, -math.MaxFloat32, 1e-30, 2, 3}),
	mkKT("float64", false, []float64{0, 1, -1, 0.5, math.MaxFloat64, -math.MaxFloat64, 1e-300, 2, 3}),
	mkKT("uintptr", false, []uintptr{0, 1, 2, 1 << 40, 255, 256, 3, 4, 5}),
}

// ktFunc builds one key-type program; registered in every process (workers included).
var ktFunc = bigslice.Func(func(kt, op, rows, shards, pat int) bigslice.Slice {
	return ktSpecs[kt].build(op, rows, shards, pat)
})

type ktStats struct {
	Cases     int64    `json:"runs"`
	Types     []string `json:"key_types"`
	Ops       []string `json:"operators"`
	Outcomes  int      `json:"distinct_outcomes"`
	Violating int      `json:"violating_runs"`
	Skipped   int64    `json:"skipped_for_budget"`
	Rule      string   `json:"rule"`
}

// runKeyTypes runs the whole family on the local executor (chunk size as set by the caller).
func runKeyTypes(r *ev.Run, budget time.Duration, workers int) *ktStats {
	C := 4
	st := &ktStats{Ops: ktOpNames[:],
		Rule: "every built-in key type x {Reduce(+), Fold(+) [int, int64, string keys only], Map(Cogroup) to (sum, count), Reshuffle, Fold over a Reshuffle} x rows {0, 1, chunk-1, chunk, chunk+1, 2*chunk+1, 23} x shards {1, 3} x key pattern {all equal, distinct, colliding} (key values include the type's extremes) x Parallelism {1, 4} on the local executor; oracle: the scanned rows equal the map model as a multiset (keyed aggregations: every key exactly once with the fold of its values)"}
	for _, s := range ktSpecs {
		st.Types = append(st.Types, s.name)
	}
	type kc struct{ kt, op, rows, shards, pat, par int }
	var cases []kc
	for kt, s := range ktSpecs {
		for op := 0; op < numKtOps; op++ {
			if (op == ktFold || op == ktFoldOfReshuffle) && !s.foldOK {
				continue
			}
			for _, rows := range []int{0, 1, C - 1, C, C + 1, 2*C + 1, 23} {
				for _, shards := range []int{1, 3} {
					for pat := 0; pat < 3; pat++ {
						for _, par := range []int{1, 4} {
							cases = append(cases, kc{kt, op, rows, shards, pat, par})
						}
					}
				}
			}
		}
	}
	outcomes := ev.NewCounter()
	type fail struct {
		sig, what string
		detail    map[string]interface{}
		rank      int
	}
	fails := map[string]*fail{}
	var mu = make(chan struct{}, 1)
	mu <- struct{}{}
	sess := map[int]*exec.Session{1: exec.Start(exec.Local, exec.Parallelism(1)), 4: exec.Start(exec.Local, exec.Parallelism(4))}
	defer func() {
		for _, s := range sess {
			s.Shutdown()
		}
	}()
	ev.Parallel(len(cases), workers, func(i int) {
		c := cases[i]
		if r.OverBudget(budget) {
			atomic.AddInt64(&st.Skipped, 1)
			return
		}
		spec := ktSpecs[c.kt]
		ctx, cancel := context.WithTimeout(context.Background(), 5*time.Minute)
		defer cancel()
		class, what := "", ""
		var got []string
		func() {
			defer func() {
				if e := recover(); e != nil {
					class, what = "panic", fmt.Sprintf("panic: %v", e)
				}
			}()
			res, err := sess[c.par].Run(ctx, ktFunc, c.kt, c.op, c.rows, c.shards, c.pat)
			if err != nil {
				if ctx.Err() != nil {
					class, what = "hang", "run did not finish within 5 minutes"
				} else {
					class, what = "error", "Run: "+err.Error()
				}
				return
			}
			got, err = spec.scan(ctx, res, c.op)
			res.Discard(ctx)
			if err != nil {
				class, what = "error", "scan: "+err.Error()
			}
		}()
		atomic.AddInt64(&st.Cases, 1)
		want := spec.model(c.op, c.rows, c.pat)
		if class == "" {
			g := append([]string(nil), got...)
			w := append([]string(nil), want...)
			sort.Strings(g)
			sort.Strings(w)
			if strings.Join(g, "\n") != strings.Join(w, "\n") {
				class = "rows-differ"
				switch {
				case len(g) > len(w):
					class = "rows/extra"
				case len(g) < len(w):
					class = "rows/missing"
				}
				what = fmt.Sprintf("got %d rows %v, model %d rows %v", len(g), clip(g), len(w), clip(w))
			}
		}
		outcomes.Add(fmt.Sprintf("%s/%s/%d", spec.name, ktOpNames[c.op], len(want)))
		if class == "" {
			return
		}
		sig := fmt.Sprintf("C01/keytypes/%s/%s/%s", spec.name, ktOpNames[c.op], class)
		<-mu
		st.Violating++
		rank := c.rows*100 + c.shards*10 + c.pat
		if f := fails[sig]; f == nil || rank < f.rank {
			fails[sig] = &fail{sig, fmt.Sprintf("key type %s, %s over Const(%d shards, %d rows, key pattern %d), Parallelism(%d): %s", spec.name, ktOpNames[c.op], c.shards, c.rows, c.pat, c.par, what),
				map[string]interface{}{"key_type": spec.name, "operator": ktOpNames[c.op], "rows": c.rows, "shards": c.shards, "key_pattern": c.pat, "parallelism": c.par, "got": got, "model": want}, rank}
		}
		mu <- struct{}{}
	})
	var sigs []string
	for s := range fails {
		sigs = append(sigs, s)
	}
	sort.Strings(sigs)
	for _, s := range sigs {
		f := fails[s]
		r.Violate(f.sig, f.what, f.detail)
	}
	st.Outcomes = outcomes.Distinct()
	if st.Skipped > 0 {
		r.NotExhaustive(fmt.Sprintf("key-type family: time budget reached, %d runs not executed", st.Skipped))
	}
	return st
}

func clip(s []string) []string {
	if len(s) > 12 {
		return append(append([]string(nil), s[:12]...), "...")
	}
	return s
}
