// C01 — running a slice program yields exactly the rows its operators prescribe.
//
// Bounded-exhaustive: every well-typed program of the refeval grammar (source x
// chain of <= d operators, plus the fixed DAG shapes) x every data set x every
// shard count is run on the local executor with Parallelism 1 and 4 and its
// scanned rows and Scan/WriterFunc observations are compared with the
// sequential reference evaluator (DESIGN.md §5 C01, §4 E5).
package main

import (
	"context"
	"flag"
	"fmt"
	"os"
	"runtime"
	"runtime/pprof"
	"sort"
	"strings"
	"sync"
	"sync/atomic"
	"syscall"
	"time"

	"github.com/grailbio/bigslice/exec"
	"verifh/ev"
	"verifh/refeval"
	"verifh/vsys"
)

var (
	flagOne     = flag.String("program", "", "debug: run only programs whose String() contains this text and print the outcome")
	flagProf    = flag.String("cpuprofile", "", "debug: write a CPU profile")
	flagChild   = flag.Bool("child", false, "internal: run the exploration in this process (the default mode supervises a child)")
	flagOnly    = flag.String("only", "", "internal: run the single job phase:index and exit")
	flagWorkers = flag.Int("workers", 0, "number of concurrent sessions (default: GOMAXPROCS)")
)

// hangTimeout is the watchdog: a run normally takes 1-5 ms.
const hangTimeout = 90 * time.Second

func setChunk(n int) {
	if err := refeval.SetChunk(n); err != nil {
		ev.Fatal("cannot set chunk size: %v", err)
	}
}

type job struct {
	p       refeval.Program
	par     int
	cluster bool // run on the in-process bigmachine cluster instead of the local executor
}

// execTag marks violations and counters of cluster runs.
func (j job) execTag() string {
	if j.cluster {
		return "@cluster"
	}
	return ""
}

// sessKey is the runner's session key of the job.
func (j job) sessKey() int {
	if j.cluster {
		return -j.par
	}
	return j.par
}

type result struct {
	out  refeval.Outcome
	err  error
	hung bool
}

// runner owns one session per parallelism value and replaces them periodically.
type runner struct {
	sess map[int]*exec.Session
	runs map[int]int
}

func newRunner() *runner { return &runner{sess: map[int]*exec.Session{}, runs: map[int]int{}} }

func (r *runner) session(key int) *exec.Session {
	limit := 1500
	if key < 0 {
		limit = 200
	}
	if s := r.sess[key]; s != nil && r.runs[key] < limit {
		r.runs[key]++
		return s
	}
	if s := r.sess[key]; s != nil {
		s.Shutdown()
	}
	if key < 0 {
		// 2 machines x 2 procs: tasks of one run are spread over machines, so
		// that shuffles and the result scan go through the codec and RPC.
		// Generous keepalive timeouts: the default 20/60/30 ms lose machines
		// spuriously (tasks re-run) when many clusters share the CPUs.
		sys := vsys.New(2)
		sys.Keepalive = [3]time.Duration{500 * time.Millisecond, 60 * time.Second, 20 * time.Second}
		r.sess[key] = exec.Start(exec.Bigmachine(sys), exec.Parallelism(-key))
	} else {
		r.sess[key] = exec.Start(exec.Local, exec.Parallelism(key))
	}
	r.runs[key] = 1
	return r.sess[key]
}

// abandon forgets the session of par (after a hang: it may be wedged).
func (r *runner) abandon(par int) { r.sess[par] = nil }

func (r *runner) run(j job) result {
	sess := r.session(j.sessKey())
	ch := make(chan result, 1)
	go func() {
		defer func() {
			if e := recover(); e != nil {
				ch <- result{err: fmt.Errorf("panic: %v", e)}
			}
		}()
		out, err := refeval.RunAndScan(context.Background(), sess, j.p)
		ch <- result{out: out, err: err}
	}()
	t := time.NewTimer(hangTimeout)
	defer t.Stop()
	select {
	case res := <-ch:
		return res
	case <-t.C:
		r.abandon(j.sessKey())
		return result{hung: true}
	}
}

type stats struct {
	evaluations    int64
	withShuffle    int64
	looseRuns      int64
	orderFixed     int64
	obsChecked     int64
	obsPartial     int64
	emptyShardRun  int64
	rowsScanned    int64
	hangsRetried   int64
	clusterRuns    int64
	twoInvocations int64
}

// tally counts occurrences per key.
type tally struct {
	mu sync.Mutex
	m  map[string]int
}

func newTally() *tally        { return &tally{m: map[string]int{}} }
func (t *tally) Add(k string) { t.AddN(k, 1) }
func (t *tally) AddN(k string, n int) {
	t.mu.Lock()
	t.m[k] += n
	t.mu.Unlock()
}

type checker struct {
	r          *ev.Run
	st         stats
	programs   *ev.Counter // distinct programs
	nontrivial *ev.Counter // distinct programs with >= 1 shuffle that produced >= 1 row
	results    *ev.Counter // distinct result multisets
	opRuns     *tally      // runs per operator class
	srcRuns    *tally
	opMicros   *tally // run time per last-operator class (microseconds)
	mu         sync.Mutex
	failed     map[string]int // signature -> number of failing runs
	samples    map[string]interface{}
}

// sampleCategory names the kind of case a run is an example of ("" = none).
func sampleCategory(j job, exp refeval.Expected) string {
	p := j.p
	if j.cluster || j.par != 4 || p.Src.Rows != refeval.Chunk+1 || p.Src.Shards != 3 || p.Src.Keys != refeval.KeysCollide {
		return ""
	}
	switch {
	case p.Shape == refeval.ShapeShared && len(p.Ops) == 1 && p.N1 == 1 && p.N2 == 2:
		return "1 shared sub-slice, two shard counts"
	case p.Shape == refeval.ShapeNested && len(p.Ops) == 0 && p.N1 == 2:
		return "2 nested shuffles"
	case p.Shape == refeval.ShapeCogroup3 && len(p.Ops) == 0:
		return "3 three-way cogroup"
	case p.Shape != refeval.ShapeChain || p.Src.Kind != refeval.SrcReaderFunc || p.Src.Style != 1:
		return ""
	case len(p.Ops) == 2 && p.Ops[0].Kind == refeval.OpFlatmap && p.Ops[0].Var == refeval.Flat2 && p.Ops[1].Kind == refeval.OpReduce:
		return "4 flatmap then reduce"
	case len(p.Ops) == 2 && p.Ops[0].Kind == refeval.OpReshuffle && p.Ops[1].Kind == refeval.OpHead && exp.Loose != nil:
		return "5 head after a shuffle (count-bounded oracle)"
	case len(p.Ops) == 2 && p.Ops[0].Kind == refeval.OpRepartition && p.Ops[1].Kind == refeval.OpWriterFunc:
		return "6 writerfunc after repartition (per-shard oracle)"
	case len(p.Ops) == 2 && p.Ops[0].Kind == refeval.OpFilter && p.Ops[1].Kind == refeval.OpHead && p.Ops[1].N == 1:
		return "7 shuffle-free, order checked"
	case len(p.Ops) == 2 && p.Ops[0].Kind == refeval.OpCogroup && p.Ops[0].Var == refeval.CgSecond && p.Ops[1].Kind == refeval.OpScan:
		return "8 scan after cogroup"
	}
	return ""
}

// verdict runs one job and returns the mismatches (nil = agrees with the reference).
func (c *checker) verdict(rn *runner, j job) ([]refeval.Mismatch, refeval.Expected, result) {
	exp := refeval.Eval(j.p)
	res := rn.run(j)
	if res.hung {
		// Rule 1: a hang is reported only if it reproduces 3 times.
		atomic.AddInt64(&c.st.hangsRetried, 1)
		for i := 0; i < 3; i++ {
			if res = rn.run(j); !res.hung {
				break
			}
		}
		if res.hung {
			return []refeval.Mismatch{{Oracle: "hang", Detail: fmt.Sprintf("Run+scan did not terminate within %v, 4 times", hangTimeout)}}, exp, res
		}
	}
	if res.err != nil {
		return []refeval.Mismatch{{Oracle: "error", Detail: res.err.Error()}}, exp, res
	}
	if j.cluster {
		// On the cluster a task is occasionally executed twice in a failure-free
		// run (observed about once in 2,700 runs on verifh/vsys: the callback of
		// a shard fires again after its end-of-stream). Whether that is permitted
		// is the business of the executor properties (C02/C03/C12); here only the
		// rows, and the co-location of keys seen by the callbacks, are demanded.
		mm := refeval.CheckRows(exp, res.out.Rows)
		for _, m := range refeval.CheckObs(exp, res.out.Events) {
			if strings.HasSuffix(m.Oracle, "/key-split") {
				mm = append(mm, m)
			}
		}
		return mm, exp, res
	}
	return refeval.Check(exp, res.out), exp, res
}

// srcClass is the class of the source the program's data comes from; for a
// two-invocation program it also names the first invocation's operators and
// the re-keying prefix.
func srcClass(p refeval.Program) string {
	if p.Shape == refeval.ShapeResult && p.Prev != nil {
		parts := []string{p.Prev.Src.Class()}
		for _, o := range p.Prev.Ops {
			parts = append(parts, o.Class())
		}
		return fmt.Sprintf("{%s}/Prefixed(%d)", strings.Join(parts, "|"), p.N1)
	}
	return p.Src.Class()
}

func lastOpClass(p refeval.Program) string {
	if len(p.Ops) == 0 {
		return "source"
	}
	return p.Ops[len(p.Ops)-1].Class()
}

// report turns a failing job into a violation. The signature is built from the
// SHORTEST failing prefix of the chain (same source, data and shards), so that
// one defect shows up under few signatures however many longer programs contain it.
func (c *checker) report(rn *runner, j job, mm []refeval.Mismatch, exp refeval.Expected, res result) {
	min, minMM, minExp, minRes := j, mm, exp, res
	for k := 0; k < len(j.p.Ops); k++ {
		q := j.p
		q.Ops = j.p.Ops[:k]
		if _, ok := q.Typecheck(); !ok || refeval.Eval(q).Undetermined {
			continue
		}
		qj := job{q, j.par, j.cluster}
		if m, e, r := c.verdict(rn, qj); len(m) > 0 {
			min, minMM, minExp, minRes = qj, m, e, r
			break
		}
	}
	oracle := minMM[0].Oracle
	shape := strings.SplitN(min.p.Skeleton(), "/", 2)[0]
	sig := fmt.Sprintf("C01/%s%s/%s/%s/%s", shape, min.execTag(), srcClass(min.p), lastOpClass(min.p), oracle)
	// DESIGN.md §9 #8: is this exactly "ScanReader emits one spurious empty line first"?
	if min.p.Src.Kind == refeval.SrcScanReader && minRes.err == nil && !minRes.hung {
		alt := refeval.EvalWith(min.p, refeval.EvalOpts{ScanReaderSpuriousEmptyLine: true})
		if len(refeval.Check(alt, minRes.out)) == 0 {
			sig = "C01/ScanReader/spurious-empty-first-line"
		}
	}
	// A side-effecting operator inside a sub-slice that two consumers read with
	// different partition counts: the only disagreement is in what the shared
	// WriterFunc observed (rows scanned are right).
	if min.p.Shape == refeval.ShapeSharedWriter && minRes.err == nil && len(refeval.CheckRows(minExp, minRes.out.Rows)) == 0 {
		twice := true
		seen := map[string]int{}
		for _, e := range minRes.out.Events {
			for _, row := range e.Rows {
				seen[fmt.Sprint(e.Shard, " ", refeval.CanonRow(row))]++
			}
		}
		want := map[string]int{}
		for s, rows := range minExp.Obs[0].Shards {
			for _, row := range rows {
				want[fmt.Sprint(s, " ", refeval.CanonRow(row))] += 2
			}
		}
		if len(want) != len(seen) {
			twice = false
		}
		for k, n := range want {
			if seen[k] != n {
				twice = false
			}
		}
		if twice {
			sig = "C01/shared-sub-slice/two-partition-counts/WriterFunc-observes-every-row-twice"
		}
	}
	c.mu.Lock()
	c.failed[sig]++
	c.mu.Unlock()
	var details []string
	for _, m := range minMM {
		details = append(details, m.Oracle+": "+m.Detail)
	}
	what := fmt.Sprintf("program {%s}%s with Parallelism(%d): %s", min.p, min.execTag(), min.par, details[0])
	c.r.Violate(sig, what, map[string]interface{}{
		"program":          min.p.String(),
		"parallelism":      min.par,
		"mismatches":       details,
		"expected_rows":    refeval.CanonRows(minExp.Rows),
		"expected_ordered": minExp.OrderFixed,
		"got_rows":         refeval.CanonRows(minRes.out.Rows),
		"got_events":       fmt.Sprint(minRes.out.Events),
		"first_seen_in":    j.p.String(),
	})
}

func (c *checker) account(j job, exp refeval.Expected, res result) {
	atomic.AddInt64(&c.st.evaluations, 1)
	key := j.p.String() + j.execTag()
	c.programs.Add(key)
	if j.cluster {
		atomic.AddInt64(&c.st.clusterRuns, 1)
	}
	if j.p.Shape == refeval.ShapeResult {
		atomic.AddInt64(&c.st.twoInvocations, 1)
	}
	if j.p.NumShuffles() > 0 {
		atomic.AddInt64(&c.st.withShuffle, 1)
		if res.err == nil && len(res.out.Rows) > 0 {
			c.nontrivial.Add(key)
		}
	}
	if res.err == nil {
		c.results.Add(ev.Hash(refeval.Multiset(res.out.Rows)))
		atomic.AddInt64(&c.st.rowsScanned, int64(len(res.out.Rows)))
	}
	if exp.Loose != nil {
		atomic.AddInt64(&c.st.looseRuns, 1)
	}
	if exp.OrderFixed {
		atomic.AddInt64(&c.st.orderFixed, 1)
	}
	for _, o := range exp.Obs {
		atomic.AddInt64(&c.st.obsChecked, 1)
		if o.Partial {
			atomic.AddInt64(&c.st.obsPartial, 1)
		}
	}
	if s := j.p.FirstSource(); s.Rows < s.Shards {
		atomic.AddInt64(&c.st.emptyShardRun, 1)
	}
	if cat := sampleCategory(j, exp); cat != "" {
		c.mu.Lock()
		if _, ok := c.samples[cat]; !ok {
			c.samples[cat] = map[string]interface{}{
				"case": cat, "program": key, "parallelism": j.par,
				"expected_rows": refeval.CanonRows(exp.Rows), "order_fixed": exp.OrderFixed, "loose": exp.Loose,
				"got_rows": refeval.CanonRows(res.out.Rows), "callback_events": fmt.Sprint(res.out.Events),
			}
		}
		c.mu.Unlock()
	}
	c.srcRuns.Add(j.p.FirstSource().Class() + j.execTag())
	for _, o := range j.p.Ops {
		c.opRuns.Add(o.Class())
	}
}

// runAll runs every job on `workers` concurrent runners.
func (c *checker) runAll(phaseIdx int, jobs []job, workers int, budget time.Duration) {
	var next int64 = -1
	var skipped int64
	var wg sync.WaitGroup
	for w := 0; w < workers; w++ {
		wg.Add(1)
		w := w
		go func() {
			defer wg.Done()
			rn := newRunner()
			jr := openJournal(w)
			defer jr.Close()
			defer func() {
				for _, s := range rn.sess {
					if s != nil {
						s.Shutdown()
					}
				}
			}()
			for {
				i := int(atomic.AddInt64(&next, 1))
				if i >= len(jobs) {
					return
				}
				if c.r.OverBudget(budget) {
					atomic.AddInt64(&skipped, 1)
					continue
				}
				j := jobs[i]
				jr.note(phaseIdx, i)
				t0 := time.Now()
				mm, exp, res := c.verdict(rn, j)
				c.opMicros.AddN(lastOpClass(j.p), int(time.Since(t0)/time.Microsecond))
				c.account(j, exp, res)
				if len(mm) > 0 {
					c.report(rn, j, mm, exp, res)
				}
			}
		}()
	}
	wg.Wait()
	if skipped > 0 {
		c.r.NotExhaustive(fmt.Sprintf("time budget %v reached: %d of %d runs not executed (simplest programs were run first)", budget, skipped, len(jobs)))
	}
}

// tour reports whether p belongs to the small, diverse subset that runs first,
// so that a run cut short by the time budget has still exercised every
// operator variant, every chain of the tier and every shape once: the programs
// over the representative data set (chunk+1 rows, colliding keys, 3 shards)
// and the large Cogroup inputs.
func tour(p refeval.Program) bool {
	s := p.FirstSource()
	if p.Shape == refeval.ShapeResult {
		return s.Shards == 3 && s.Keys == refeval.KeysCollide
	}
	return s.Rows > 128 || s.Rows == 3*refeval.Chunk && s.Shards == 1 || s.Rows == refeval.Chunk+1 && s.Keys == refeval.KeysCollide && s.Shards == 3
}

func jobsOf(ps []refeval.Program, seed int64) []job {
	jobs := make([]job, 0, 2*len(ps))
	for _, first := range []bool{true, false} {
		for _, p := range ps {
			if tour(p) == first {
				jobs = append(jobs, job{p: p, par: 1}, job{p: p, par: 4})
			}
		}
	}
	// VERIF_SEED only rotates the order within the (complete) space; keep
	// simplest-first by rotating inside blocks of equal chain length.
	if seed != 0 {
		start := 0
		for i := 1; i <= len(jobs); i++ {
			if i == len(jobs) || len(jobs[i].p.Ops) != len(jobs[start].p.Ops) || jobs[i].p.Shape != jobs[start].p.Shape || tour(jobs[i].p) != tour(jobs[start].p) {
				blk := jobs[start:i]
				k := int(uint64(seed) % uint64(len(blk)))
				rot := append(append([]job(nil), blk[k:]...), blk[:k]...)
				copy(blk, rot)
				start = i
			}
		}
	}
	return jobs
}

// phase is one job list run at one internal vector size.
type phase struct {
	chunk   int
	jobs    []job
	budget  time.Duration
	workers int // 0 = default
}

// space builds the job lists of the tier (deterministic: the supervisor and its
// children construct identical lists) and the text of the enumeration rule.
func space(thorough bool, seed int64) ([]phase, []string) {
	var rule []string
	budget := 90 * time.Second
	if thorough {
		budget = 8 * time.Minute
	}
	// (a) depth <= 1: every operator variant x every source configuration, plus the fixed shapes.
	ps := refeval.Enumerate(1, refeval.Options{})
	rule = append(rule, fmt.Sprintf("chunk=%d (a) every chain of <=1 operator over the FULL alphabet (all variants of Map/Filter/Flatmap/Head/Cogroup/Repartition, Reshard to 1,2,3) x every source configuration = 8 source templates (Const<int,int>, Const<string,int>, Const<int,int,int>, ReaderFunc in 3 read styles [fill vector + EOF with the last rows; one row per call; empty first call], ScanReader with/without final newline) x rows{0,1,3,4,5,9} x key pattern{equal,distinct,colliding} x shards{1,2,3}; plus the fixed DAG shapes (shared sub-slice resharded to two different counts then cogrouped, also with a WriterFunc inside the shared part; shuffles nested below and above a cogroup; 3-way cogroup with one source used twice), each with and without a trailing WriterFunc, over every Const<int,int> configuration", refeval.Chunk))
	// (b) depth 2 (and 3): core alphabet.
	reduced := refeval.Options{
		Core: refeval.CoreAlphabet(), FullDepth: 0, NoShapes: true,
		Sources: []refeval.Source{
			{Kind: refeval.SrcConst, Schema: []refeval.Col{refeval.Int, refeval.Int}},
			{Kind: refeval.SrcReaderFunc, Schema: []refeval.Col{refeval.Int, refeval.Int}, Style: 1},
			{Kind: refeval.SrcScanReader, Schema: []refeval.Col{refeval.Str}},
		},
		Sizes: []int{0, refeval.Chunk, refeval.Chunk + 1, 2*refeval.Chunk + 1}, Shards: []int{1, 3},
		Keys: []refeval.Keys{refeval.KeysCollide},
	}
	const reducedText = "3 source templates (Const<int,int>, one-row-per-call ReaderFunc<int,int>, ScanReader) x rows{0,4,5,9} x colliding keys x shards{1,3}"
	if thorough {
		all := refeval.Options{Core: refeval.CoreAlphabet(), FullDepth: 0, NoShapes: true, MinDepth: 2}
		ps = append(ps, refeval.Enumerate(2, all)...)
		reduced.MinDepth = 3
		ps = append(ps, refeval.Enumerate(3, reduced)...)
		rule = append(rule, "(b) every well-typed chain of exactly 2 operators over the CORE alphabet (20 operator variants, every kind present) x every source configuration of (a); (c) every well-typed chain of exactly 3 core operators x "+reducedText)
	} else {
		reduced.MinDepth = 2
		ps = append(ps, refeval.Enumerate(2, reduced)...)
		rule = append(rule, "(b) every well-typed chain of exactly 2 operators over the CORE alphabet (20 operator variants, every kind present) x "+reducedText)
	}
	// (d) Cogroup's merge buffers hold a fixed 128 rows (cogroup.go, not the
	// chunk size): inputs with more than two buffers of rows in ONE shard, so
	// that groups straddle a full buffer and its refill.
	big := refeval.Options{
		NoShapes: true, MinDepth: 1,
		Sources: []refeval.Source{{Kind: refeval.SrcConst, Schema: []refeval.Col{refeval.Int, refeval.Int}}, {Kind: refeval.SrcConst, Schema: []refeval.Col{refeval.Int, refeval.PtCol}}},
		Sizes:   []int{2*128 + 1, 600}, Shards: []int{1, 2},
		Alphabet: []refeval.Op{{Kind: refeval.OpCogroup, Var: refeval.CgSingle}, {Kind: refeval.OpCogroup, Var: refeval.CgSelf}, {Kind: refeval.OpCogroup, Var: refeval.CgSecond}},
		Second:   []refeval.Source{{Kind: refeval.SrcConst, Rows: 300, Shards: 1, Keys: refeval.KeysDistinct}},
	}
	bigPs := refeval.Enumerate(1, big)
	for _, p := range bigPs {
		q := p
		q.Ops = append(append([]refeval.Op(nil), p.Ops...), refeval.Op{Kind: refeval.OpMap, Var: refeval.MapGroupSum})
		bigPs = append(bigPs, q)
	}
	ps = append(ps, bigPs...)
	rule = append(rule, "(d) Cogroup:single/self/second (alone and followed by Map:groupsum) over Const<int,int> with 257 and 600 rows x key pattern{equal,distinct,colliding} x shards{1,2} (second input: 300 distinct rows in 1 shard): more than two of Cogroup's fixed 128-row merge buffers per shard")
	ii := []refeval.Col{refeval.Int, refeval.Int}
	ipt := []refeval.Col{refeval.Int, refeval.PtCol}
	C := refeval.Chunk
	// (e) Filter over inputs of several vectors per shard whose reader delivers
	// EOF together with its last rows (ReaderFunc style 0/2, ScanReader, Fold
	// output) or after them (style 1, Const), with predicates that reject rows.
	filters := []refeval.Op{{Kind: refeval.OpFilter, Var: refeval.FilterAlt}, {Kind: refeval.OpFilter, Var: refeval.FilterMod3}, {Kind: refeval.OpFilter, Var: refeval.FilterNone}}
	filt := refeval.Options{
		NoShapes: true, MinDepth: 1, Alphabet: filters,
		Sources: []refeval.Source{
			{Kind: refeval.SrcReaderFunc, Schema: ii, Style: 0}, {Kind: refeval.SrcReaderFunc, Schema: ii, Style: 1},
			{Kind: refeval.SrcReaderFunc, Schema: ii, Style: 2}, {Kind: refeval.SrcConst, Schema: ii},
			{Kind: refeval.SrcScanReader, Schema: []refeval.Col{refeval.Str}, Style: 0}, {Kind: refeval.SrcScanReader, Schema: []refeval.Col{refeval.Str}, Style: 1},
		},
		Sizes: []int{2 * C, 2*C + 1, 3*C - 1, 3 * C, 3*C + 1, 4*C + 1}, Shards: []int{1, 2},
	}
	ps = append(ps, refeval.Enumerate(1, filt)...)
	folded := filt
	folded.Alphabet = []refeval.Op{{Kind: refeval.OpFold}}
	folded.Sources = filt.Sources[:4]
	for _, p := range refeval.Enumerate(1, folded) {
		for _, f := range filters {
			q := p
			q.Ops = []refeval.Op{p.Ops[0], f}
			ps = append(ps, q)
		}
	}
	rule = append(rule, "(e) Filter:alt/mod3/none directly over ReaderFunc<int,int> (EOF with the last rows; one row per call then EOF; empty first call), Const<int,int> and ScanReader, and over Fold of the first four, rows{8,9,11,12,13,17} (2 to 4 vectors) x key patterns x shards{1,2}")
	// (f) a column of a pointer-free struct type (gob encodes it field by field, omitting zero fields).
	pt := refeval.Options{NoShapes: true, MinDepth: 0,
		Sources: []refeval.Source{{Kind: refeval.SrcConst, Schema: ipt}, {Kind: refeval.SrcReaderFunc, Schema: ipt, Style: 0}}}
	ps = append(ps, refeval.Enumerate(1, pt)...)
	rule = append(rule, "(f) every chain of <=1 operator over Const<int,pt> and ReaderFunc<int,pt> (pt = struct{X,Y int32; Ok bool} whose fields are zero in some rows and non-zero in others) x all sizes, key patterns and shard counts of (a); (d) also over Const<int,pt>")
	// (g) two invocations: the Result of the first is the input of the second,
	// as it is or re-keyed with Prefixed(res, 1|2).
	iii := []refeval.Col{refeval.Int, refeval.Int, refeval.Int}
	var firsts []refeval.Program
	for _, src := range (refeval.Options{Sources: []refeval.Source{{Kind: refeval.SrcConst, Schema: iii}, {Kind: refeval.SrcConst, Schema: ii}},
		Sizes: []int{2*C + 1}, Shards: []int{2, 3, 4}, Keys: []refeval.Keys{refeval.KeysDistinct, refeval.KeysCollide}}).Configs() {
		firsts = append(firsts, refeval.Program{Src: src})
		if len(src.Schema) == 3 {
			firsts = append(firsts, refeval.Program{Src: src, Ops: []refeval.Op{{Kind: refeval.OpPrefixReduce}}})
		} else {
			firsts = append(firsts, refeval.Program{Src: src, Ops: []refeval.Op{{Kind: refeval.OpReduce}}})
		}
	}
	multi := refeval.ResultPrograms(firsts, []int{0, 1, 2}, refeval.FullAlphabet([]int{1, 2, 3}), 1)
	for _, p := range refeval.ResultPrograms(firsts, []int{0, 1, 2}, refeval.FullAlphabet([]int{2}), 2) {
		if p.Ops[0].IsShuffle() && p.Ops[1].Kind == refeval.OpWriterFunc {
			multi = append(multi, p)
		}
	}
	ps = append(ps, multi...)
	rule = append(rule, "(g) two-invocation programs: first = Const<int,int,int> | Prefixed2Reduce | Const<int,int> | Reduce over 9 rows x {distinct,colliding} keys x shards{2,3,4}; second = every operator of the full alphabet (and every shuffle followed by WriterFunc) applied directly to the first Result, to Prefixed(res,1) and to Prefixed(res,2)")
	rule = append(rule, "every program is run on the local executor with Parallelism 1 and with Parallelism 4; ORDER: first a tour (every program of the space whose sources have chunk+1 rows, colliding keys and 3 shards, the programs of (d), and of (e),(g) those over the largest data set), then everything else, each simplest first")
	// (h) the in-process bigmachine cluster (2 machines): shuffles and the
	// result scan go through the gob codec there.
	var cl []refeval.Program
	clOpts := refeval.Options{
		Sources: []refeval.Source{{Kind: refeval.SrcConst, Schema: ii}, {Kind: refeval.SrcConst, Schema: ipt}, {Kind: refeval.SrcReaderFunc, Schema: ii, Style: 0}},
		Sizes:   []int{2*C + 1, 4*C + 1}, Shards: []int{1, 3}, Keys: []refeval.Keys{refeval.KeysCollide},
		ShapeSources: []refeval.Source{{Kind: refeval.SrcConst, Schema: ii}},
	}
	for _, p := range refeval.Enumerate(1, clOpts) {
		// A zero-column result cannot be read back from the cluster; the known
		// finding about shared side effects is recorded for the local executor.
		if n := len(p.Ops); n > 0 && p.Ops[n-1].Kind == refeval.OpScan || p.Shape == refeval.ShapeSharedWriter {
			continue
		}
		if p.Shape != refeval.ShapeChain && (p.Src.Rows != 2*C+1 || p.Src.Shards != 3) {
			continue
		}
		cl = append(cl, p)
	}
	for _, p := range multi {
		if s := p.FirstSource(); s.Shards == 3 && !(len(p.Ops) > 0 && p.Ops[len(p.Ops)-1].Kind == refeval.OpScan) {
			cl = append(cl, p)
		}
	}
	var cj []job
	for _, p := range cl {
		cj = append(cj, job{p: p, par: 4, cluster: true})
	}
	rule = append(rule, "(h) on the in-process bigmachine cluster (2 machines x 2 procs, Parallelism 4): every chain of <=1 operator over Const<int,int>, Const<int,pt>, ReaderFunc<int,int> x rows{9,17} x colliding keys x shards{1,3}; the fixed shapes over 9 rows in 3 shards; the two-invocation programs of (g) with 3 shards (programs ending in Scan excluded: a zero-column result cannot be read back there)")
	phases := []phase{{chunk: refeval.Chunk, jobs: cj, budget: budget, workers: 8}, {chunk: refeval.Chunk, jobs: jobsOf(ps, seed), budget: budget}}
	if thorough {
		// One run of each depth<=1 program at the real vector size with 129 rows.
		real := refeval.Enumerate(1, refeval.Options{Sizes: []int{129}, Shards: []int{1, 3}})
		var rj []job
		for _, p := range real {
			rj = append(rj, job{p: p, par: 4})
		}
		rule = append(rule, "chunk=128: every program of depth <=1 (full alphabet, fixed shapes) over 129-row sources with 1 and 3 shards, Parallelism 4")
		phases = append(phases, phase{chunk: 128, jobs: rj, budget: budget + 90*time.Second})
	}
	return phases, rule
}

func main() {
	vsys.Quiet()
	r := ev.Start("C01", "exploration")
	r.Assume = append(r.Assume,
		"internal vector size set to 4, the smallest usable power of two >2 (flag bigslice-internal-default-chunk-rows + injected setters for the copies in bigslice, sliceio, sortio; sliceio.SpillBatchSize=4); thorough also runs depth<=1 at the real size 128 with 129 rows",
		"reference model of undocumented placement: Const splits rows contiguously and evenly, larger shards first (slice.go constShard comment); ScanReader line->shard assignment is not assumed; after any shuffle only the multiset (and, for Head, count bounds) is demanded",
		"failure-free runs on the local executor and (a small stated subset) on the in-process bigmachine cluster verifh/vsys with 2 machines; user functions are built with reflect.MakeFunc",
		"spill/temp files of the exploration child are kept on tmpfs (/dev/shm/c01-*, removed afterwards) when available: Cogroup always spills, and directory operations on the disk file system dominated the wall time")
	workers := *flagWorkers
	if workers <= 0 {
		workers = runtime.GOMAXPROCS(0)
	}
	c := &checker{r: r, programs: ev.NewCounter(), nontrivial: ev.NewCounter(), results: ev.NewCounter(),
		opRuns: newTally(), srcRuns: newTally(), opMicros: newTally(), failed: map[string]int{}, samples: map[string]interface{}{}}

	switch {
	case *flagOne != "":
		debugOne(c, *flagOne)
		return
	case *flagOnly != "":
		runOnly(c, *flagOnly)
		return
	case !*flagChild:
		// A panic in a task goroutine of the local executor kills the process, so
		// the exploration runs in a child and this process turns a crash into a verdict.
		supervise(r)
		return
	}

	if *flagProf != "" {
		f, _ := os.Create(*flagProf)
		pprof.StartCPUProfile(f)
		defer pprof.StopCPUProfile()
	}
	vsys.FastRetries()
	exec.DoShuffleReaders = false
	t0 := time.Now()
	phases, rule := space(r.Thorough(), r.Seed)
	enumTime := time.Since(t0)
	// key-type family first (cheap): keyed operators over every built-in key type
	setChunk(refeval.Chunk)
	kt := runKeyTypes(r, 2*time.Minute, workers)
	atomic.AddInt64(&c.st.evaluations, kt.Cases)
	var perPhase []int64
	for i, ph := range phases {
		setChunk(ph.chunk)
		before := atomic.LoadInt64(&c.st.evaluations)
		w := workers
		if ph.workers > 0 && ph.workers < w {
			w = ph.workers
		}
		c.runAll(i, ph.jobs, w, ph.budget)
		perPhase = append(perPhase, atomic.LoadInt64(&c.st.evaluations)-before)
	}
	nSmall := perPhase[1]
	var nReal int64
	if len(perPhase) > 2 {
		nReal = perPhase[2]
	}
	var cats []string
	for k := range c.samples {
		cats = append(cats, k)
	}
	sort.Strings(cats)
	for _, k := range cats {
		r.Sample(c.samples[k])
	}
	c.mu.Lock()
	failed := map[string]int{}
	for k, v := range c.failed {
		failed[k] = v
	}
	c.mu.Unlock()
	perOp, perSrc := c.opRuns.m, c.srcRuns.m
	pprof.StopCPUProfile()
	r.Finish(ev.Coverage{
		"evaluations":               c.st.evaluations,
		"distinct_nontrivial":       c.nontrivial.Distinct(),
		"rule":                      strings.Join(rule, "; ") + "; (k) key-type family: " + kt.Rule + ". Non-trivial = distinct program (incl. data and shard counts) that contains >=1 shuffle and produced >=1 row.",
		"distinct_programs":         c.programs.Distinct(),
		"distinct_result_multisets": c.results.Distinct(),
		"runs_cluster":              c.st.clusterRuns,
		"runs_two_invocations":      c.st.twoInvocations,
		"runs_chunk4":               nSmall,
		"runs_chunk128":             nReal,
		"runs_with_shuffle":         c.st.withShuffle,
		"runs_order_checked":        c.st.orderFixed,
		"runs_loose_head_oracle":    c.st.looseRuns,
		"runs_with_empty_shards":    c.st.emptyShardRun,
		"side_effect_ops_checked":   c.st.obsChecked,
		"side_effect_ops_partial":   c.st.obsPartial,
		"rows_scanned":              c.st.rowsScanned,
		"hang_suspects_rerun":       c.st.hangsRetried,
		"runs_per_operator":         perOp,
		"runs_per_source":           perSrc,
		"failing_runs_by_signature": failed,
		"micros_per_last_operator":  c.opMicros.m,
		"key_type_family":           kt,
		"enumeration_s":             enumTime.Seconds(),
		"workers":                   workers,
	})
}

func cpuNow() time.Duration {
	var ru syscall.Rusage
	syscall.Getrusage(syscall.RUSAGE_SELF, &ru)
	return time.Duration(ru.Utime.Nano() + ru.Stime.Nano())
}

func debugOne(c *checker, sub string) {
	setChunk(refeval.Chunk)
	rn := newRunner()
	n := 0
	if sub == "count" {
		for _, d := range []int{1, 2, 3} {
			ps := refeval.Enumerate(d, refeval.Options{Core: refeval.CoreAlphabet(), FullDepth: 1})
			cnt := map[string]int{}
			for _, p := range ps {
				k := fmt.Sprintf("len=%d", len(p.Ops))
				if p.Shape != refeval.ShapeChain {
					k = "shape"
				}
				cg, rd := 0, 0
				for _, o := range p.Ops {
					if o.Kind == refeval.OpCogroup {
						cg++
					}
					if o.Kind == refeval.OpReduce || o.Kind == refeval.OpPrefixReduce {
						rd++
					}
				}
				cnt[fmt.Sprintf("%s cogroups=%d", k, cg)]++
				cnt[fmt.Sprintf("%s reduces=%d", k, rd)]++
				cnt[k]++
			}
			fmt.Println("depth", d, "programs", len(ps), cnt)
		}
		os.Exit(0)
	}
	if sub == "cluster" {
		// Sanity check for the users of refeval on the in-process cluster: rows
		// and callback recordings agree with the reference there too.
		vsys.FastRetries()
		exec.DoShuffleReaders = false
		sess := exec.Start(exec.Bigmachine(vsys.New(2)), exec.Parallelism(4))
		phases, _ := space(false, 0)
		bad, events := 0, 0
		t0 := time.Now()
		for _, j := range phases[0].jobs {
			p := j.p
			t1 := time.Now()
			out, err := refeval.RunAndScan(context.Background(), sess, p)
			mm := refeval.Check(refeval.Eval(p), out)
			events += len(out.Events)
			if err != nil || len(mm) > 0 || time.Since(t1) > time.Second {
				bad++
				fmt.Printf("%s: %v err=%v mismatches=%v\n", p, time.Since(t1), err, mm)
			}
		}
		fmt.Printf("cluster: %d programs, %d disagree or slow, %d callback events recorded, %v\n", len(phases[0].jobs), bad, events, time.Since(t0))
		sess.Shutdown()
		os.Exit(0)
	}
	if sub == "bench" {
		ps := refeval.Enumerate(1, refeval.Options{Sizes: []int{5}, Shards: []int{3}, Sources: refeval.AllSources()[:1]})
		for _, p := range ps {
			c0, t0 := cpuNow(), time.Now()
			for i := 0; i < 100; i++ {
				c.verdict(rn, job{p: p, par: 4})
			}
			fmt.Printf("%-110s cpu/run=%v wall/run=%v\n", p, (cpuNow()-c0)/100, time.Since(t0)/100)
		}
		os.Exit(0)
	}
	for _, p := range refeval.Enumerate(2, refeval.Options{Core: refeval.CoreAlphabet(), FullDepth: 1}) {
		if !strings.Contains(p.String(), sub) {
			continue
		}
		n++
		for _, par := range []int{1, 4} {
			mm, exp, res := c.verdict(rn, job{p: p, par: par})
			fmt.Printf("%s par=%d\n  want(ordered=%v loose=%v): %v\n  got: %v err=%v\n  events: %v\n  mismatches: %v\n", p, par,
				exp.OrderFixed, exp.Loose, refeval.CanonRows(exp.Rows), refeval.CanonRows(res.out.Rows), res.err, res.out.Events, mm)
		}
		if n >= 20 {
			break
		}
	}
	os.Exit(0)
}
