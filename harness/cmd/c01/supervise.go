package main

import (
	"bytes"
	"fmt"
	"io"
	"os"
	osexec "os/exec"
	"path/filepath"
	"strconv"
	"strings"
	"sync/atomic"
	"time"

	"github.com/grailbio/bigslice/exec"
	"verifh/ev"
	"verifh/vsys"
)

// The local executor runs user code and slice readers on goroutines of its own;
// a panic there (outside bufferOutput's recover) terminates the whole process.
// For the property that is a verdict ("Run and scan terminate and yield the
// rows"), not a machinery failure, so the exploration runs in a child process:
// every worker journals the job it is about to run, and if the child dies with
// a Go panic the supervisor re-runs the in-flight jobs one by one in fresh
// children to find the ones that crash on their own.

type journal struct{ f *os.File }

func journalDir() string { return os.Getenv("C01_JOURNAL") }

func openJournal(w int) *journal {
	d := journalDir()
	if d == "" {
		return &journal{}
	}
	f, err := os.OpenFile(filepath.Join(d, fmt.Sprintf("w%03d", w)), os.O_CREATE|os.O_WRONLY|os.O_APPEND, 0666)
	if err != nil {
		return &journal{}
	}
	return &journal{f}
}

func (j *journal) note(phase, idx int) {
	if j.f != nil {
		fmt.Fprintf(j.f, "%d:%d\n", phase, idx)
	}
}

func (j *journal) Close() {
	if j.f != nil {
		j.f.Close()
	}
}

// tail keeps the first 32 KiB written (a Go panic message comes first).
type tail struct{ b []byte }

func (t *tail) Write(p []byte) (int, error) {
	if room := 1<<15 - len(t.b); room > 0 {
		t.b = append(t.b, p[:min(room, len(p))]...)
	}
	return len(p), nil
}

func isGoCrash(stderr string) bool {
	return strings.Contains(stderr, "panic: ") || strings.Contains(stderr, "fatal error: ") || strings.Contains(stderr, "\ngoroutine ")
}

func child(args []string, env []string, out io.Writer) (int, string) {
	cmd := osexec.Command(os.Args[0], args...)
	cmd.Env = append(os.Environ(), env...)
	if scratch != "" {
		cmd.Env = append(cmd.Env, "TMPDIR="+scratch)
	}
	var t tail
	cmd.Stdout = out
	cmd.Stderr = &t
	err := cmd.Run()
	code := 0
	if err != nil {
		code = -1
		if ee, ok := err.(*osexec.ExitError); ok {
			code = ee.ExitCode()
		}
	}
	return code, string(t.b)
}

// flagBudgetSet returns the textual value of ev's -budget flag (ev owns it).
func flagBudgetSet() *string {
	s := ""
	for i, a := range os.Args {
		if a == "-budget" && i+1 < len(os.Args) {
			s = os.Args[i+1]
		} else if strings.HasPrefix(a, "-budget=") {
			s = strings.TrimPrefix(a, "-budget=")
		}
	}
	return &s
}

// shmDir creates a scratch TMPDIR on tmpfs for the children ("" if not possible).
// Stale directories of killed earlier runs (older than 2 hours) are removed.
func shmDir() string {
	const base = "/dev/shm"
	if old, err := filepath.Glob(base + "/c01-*"); err == nil {
		for _, d := range old {
			if st, err := os.Stat(d); err == nil && time.Since(st.ModTime()) > 2*time.Hour {
				os.RemoveAll(d)
			}
		}
	}
	d, err := os.MkdirTemp(base, "c01-")
	if err != nil {
		return ""
	}
	return d
}

var scratch string

func cleanupScratch() {
	if scratch != "" {
		os.RemoveAll(scratch)
	}
}

func supervise(r *ev.Run) {
	dir, err := os.MkdirTemp("", "c01-journal-")
	if err != nil {
		ev.Fatal("journal dir: %v", err)
	}
	defer os.RemoveAll(dir)
	scratch = shmDir()
	defer cleanupScratch()
	args := []string{"-child", "-tier", r.Tier, "-workers", strconv.Itoa(*flagWorkers)}
	if b := *flagBudgetSet(); b != "" {
		args = append(args, "-budget", b)
	}
	if *flagProf != "" {
		args = append(args, "-cpuprofile", *flagProf)
	}
	code, stderr := child(args, []string{"C01_JOURNAL=" + dir}, os.Stdout)
	if code == 0 || code == 1 {
		os.RemoveAll(dir)
		cleanupScratch()
		os.Exit(code)
	}
	if !isGoCrash(stderr) {
		os.Stderr.WriteString(stderr)
		os.RemoveAll(dir)
		cleanupScratch()
		ev.Fatal("exploration child exited with status %d", code)
	}
	// The child crashed. Which jobs were in flight?
	type ref struct{ phase, idx int }
	var inflight []ref
	total := 0
	files, _ := filepath.Glob(filepath.Join(dir, "w*"))
	for _, fn := range files {
		b, _ := os.ReadFile(fn)
		lines := strings.Split(strings.TrimSpace(string(b)), "\n")
		if len(lines) == 0 || lines[0] == "" {
			continue
		}
		total += len(lines)
		var p, i int
		if _, err := fmt.Sscanf(lines[len(lines)-1], "%d:%d", &p, &i); err == nil {
			inflight = append(inflight, ref{p, i})
		}
	}
	phases, rule := space(r.Thorough(), r.Seed)
	firstLine := func(s string) string {
		for _, l := range strings.Split(s, "\n") {
			if strings.HasPrefix(l, "panic: ") || strings.HasPrefix(l, "fatal error: ") {
				return l
			}
		}
		return "process died"
	}
	var confirmed int64
	ev.Parallel(len(inflight), 8, func(k int) {
		x := inflight[k]
		if x.phase >= len(phases) || x.idx >= len(phases[x.phase].jobs) {
			return
		}
		j := phases[x.phase].jobs[x.idx]
		var sink bytes.Buffer
		crashes, why := 0, ""
		for try := 0; try < 2; try++ {
			c, e := child([]string{"-only", fmt.Sprintf("%d:%d", x.phase, x.idx), "-tier", r.Tier}, nil, &sink)
			if c != 0 && c != 1 && isGoCrash(e) {
				crashes++
				why = firstLine(e)
			}
		}
		if crashes == 2 {
			atomic.AddInt64(&confirmed, 1)
			shape := strings.SplitN(j.p.Skeleton(), "/", 2)[0]
			sig := fmt.Sprintf("C01/%s%s/%s/%s/process-crash", shape, j.execTag(), srcClass(j.p), lastOpClass(j.p))
			r.Violate(sig, fmt.Sprintf("program {%s} with Parallelism(%d) kills the driver process: %s", j.p, j.par, why),
				map[string]interface{}{"program": j.p.String(), "parallelism": j.par, "panic": why})
		}
	})
	if confirmed == 0 {
		// Not attributable to a single job: report only if the whole exploration crashes again.
		code2, stderr2 := child(args, []string{"C01_JOURNAL=" + dir}, io.Discard)
		if code2 != 0 && code2 != 1 && isGoCrash(stderr2) {
			r.Violate("C01/process-crash/unattributed", "the driver process died during the exploration (twice), no single program reproduces it: "+firstLine(stderr2),
				map[string]interface{}{"stderr_tail": headLines(stderr2, 40)})
		} else {
			os.Stderr.WriteString(stderr)
			cleanupScratch()
			ev.Fatal("exploration child crashed once (%s) but neither the in-flight programs nor a second exploration reproduce it", firstLine(stderr))
		}
	}
	os.RemoveAll(dir)
	cleanupScratch()
	r.NotExhaustive(fmt.Sprintf("the driver process crashed after %d runs (simplest programs first); the remaining programs were not run", total))
	r.Finish(ev.Coverage{
		"evaluations":         total,
		"distinct_nontrivial": 0,
		"rule":                strings.Join(rule, "; ") + ". The exploration process crashed; counts other than evaluations (journalled run starts) are not available.",
		"crash_stderr_tail":   headLines(stderr, 30),
	})
}

func headLines(s string, n int) []string {
	l := strings.Split(strings.TrimSpace(s), "\n")
	if len(l) > n {
		l = l[:n] // the panic message and first frames are at the top
	}
	return l
}

// runOnly runs one job of the space in this process (used by supervise).
func runOnly(c *checker, spec string) {
	var p, i int
	if _, err := fmt.Sscanf(spec, "%d:%d", &p, &i); err != nil {
		ev.Fatal("bad -only %q", spec)
	}
	phases, _ := space(c.r.Thorough(), c.r.Seed)
	if p >= len(phases) || i >= len(phases[p].jobs) {
		ev.Fatal("-only %q out of range", spec)
	}
	setChunk(phases[p].chunk)
	vsys.FastRetries()
	exec.DoShuffleReaders = false
	rn := newRunner()
	j := phases[p].jobs[i]
	done := make(chan struct{})
	go func() {
		mm, _, _ := c.verdict(rn, j)
		fmt.Printf("only %s: %s par=%d mismatches=%v\n", spec, j.p, j.par, mm)
		close(done)
	}()
	select {
	case <-done:
	case <-time.After(5 * time.Minute):
	}
	os.Exit(0)
}
