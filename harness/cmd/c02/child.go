package main

import (
	"bufio"
	"context"
	"encoding/json"
	"flag"
	"fmt"
	"os"
	"runtime"
	"runtime/pprof"
	"sort"
	"strings"
	"sync"
	"time"

	"github.com/grailbio/bigslice/exec"
	"github.com/grailbio/bigslice/sortio"
	"verifh/vsys"
)

// A fcase is one cluster run: a program, an oracle configuration and 0..2 faults.
type fcase struct {
	ID     int          `json:"id"`
	Prog   string       `json:"prog"`
	Mode   string       `json:"mode"` // "M1": consecutive-loss limit off; "M2": production setting
	Faults []vsys.Fault `json:"faults"`
	// Scenario "spaced": the spaced-losses history (runSpaced) on Prog "reuse"
	// (two-shard producer) or "reuse1" (one-shard producer); Expected are the
	// reference rows every round must deliver.
	Scenario string `json:"scenario,omitempty"`
	// Scenario "boot": machines are lost while booting. The j-th machine (in the
	// order of their first Worker.FuncLocations call, which startMachines makes
	// as soon as a machine is Running) is killed at that call, for every j in
	// Boot; BootVariant "before" (request never arrives) or "after" (handler ran,
	// reply lost). The program is run and scanned as usual.
	Boot        []int    `json:"boot,omitempty"`
	BootVariant string   `json:"boot_variant,omitempty"`
	Expected    []string `json:"expected,omitempty"`
}

// cresult is what a child reports for one case.
type cresult struct {
	ID      int      `json:"id"`
	Out     outcome  `json:"out"`
	Hung    bool     `json:"hung,omitempty"`
	Dump    string   `json:"dump,omitempty"` // goroutine dump of a hang
	Fired   []bool   `json:"fired"`
	FiredAt []int    `json:"fired_at"` // index in History of the call at which each fault fired (-1)
	Callee  []string `json:"callee"`   // host called by the RPC at which each fault fired
	History []string `json:"history"`
	// ScanStart is len(History) when Run had returned and the scan began (-1 if
	// the scan never began).
	ScanStart int            `json:"scan_start"`
	ReadLen   map[string]int `json:"read_len,omitempty"` // Worker.Read label -> reply length
	// ReadBounds: Worker.Read label -> offsets at which an encoded batch ends
	// inside the reply (the last one equals the reply length).
	ReadBounds map[string][]int `json:"read_bounds,omitempty"`
	Hosts      []string         `json:"hosts"`
	Killed     []string         `json:"killed"`
	// DeadCall: labels of calls whose callee was already dead when called
	// (killing it again would be a no-op).
	DeadCall []string `json:"dead_call,omitempty"`
	// Spurious: machines the driver declared stopped although nobody killed
	// them (a keepalive timed out under load): losses that were not enumerated.
	Spurious []string `json:"spurious,omitempty"`
	Ms       int64    `json:"ms"`
	// Spaced-losses history: rounds completed successfully, and kills of the
	// replacement machine on receipt of Worker.Run for the producer task.
	// BootFired: number of machines killed at their first Worker.FuncLocations call.
	BootFired  int `json:"boot_fired,omitempty"`
	Rounds     int `json:"rounds,omitempty"`
	ArmedKills int `json:"armed_kills,omitempty"`
	// NotRun: the child gave up before this case (an earlier case hung).
	NotRun bool `json:"not_run,omitempty"`
	// Crash is set by the parent when the child died while running this case.
	Crash string `json:"crash,omitempty"`
}

const hangTimeout = 60 * time.Second

// loadTolerant is the vsys cluster with a keepalive that survives scheduling
// stalls of up to ~200 ms (16 cluster processes share the cores): a machine is
// declared dead 200 ms after it stopped answering (vsys default: 60 ms), a
// single keepalive call may take 100 ms (vsys default: 30 ms). Without this,
// machines are lost spuriously under load; that would not invalidate the oracle
// (a loss is a loss) but would add losses that were not enumerated.
type loadTolerant struct{ *vsys.System }

func (loadTolerant) KeepaliveConfig() (period, timeout, rpcTimeout time.Duration) {
	return 20 * time.Millisecond, 200 * time.Millisecond, 100 * time.Millisecond
}

func setup() {
	vsys.Quiet()
	vsys.FastRetries()
	// retryReader: the production number of retries (5) with back-offs of
	// 5..80 ms (155 ms in total; production 5..60 s). vsys.FastRetries' 1..5 ms
	// (13 ms in total) is of the order of a goroutine wake-up under load: the
	// reader could give up before the driver has marked the tasks of a stopped
	// machine LOST, which in production takes microseconds against 135 s.
	exec.VerifC02SetRetryPolicy(5*time.Millisecond, 80*time.Millisecond, 2, 5)
	exec.DoShuffleReaders = false
	// sortio copies the chunk size at init: the merge/reduce readers buffer 4
	// rows per stream, so every shuffle stream is refilled several times.
	sortio.VerifCommonSetChunk(4)
	// Several encoded batches per task output (chunk = 4 rows; must be a power of two for the combiner hash table).
	if err := flag.Set("bigslice-internal-default-chunk-rows", "4"); err != nil {
		panic(err)
	}
}

// runCase executes one case on a fresh in-process cluster.
func runCase(c fcase) cresult {
	if c.Scenario == "spaced" {
		return runSpaced(c)
	}
	r := cresult{ID: c.ID, ScanStart: -1}
	p := programByName(c.Prog)
	exec.VerifSetMaxConsecutiveLost(c.Mode != "M1")
	// Faults whose victim is "other:<k>" kill the k-th machine (by name) other
	// than the callee that is alive and has already served a Worker call (a
	// machine still booting is given 9 minutes by bigmachine before the driver
	// gives up on it: not a hang, but far beyond the watchdog). They are driven
	// from the hooks; all other faults are vsys faults.
	var vfaults []vsys.Fault
	vindex := []int{}
	for i, f := range c.Faults {
		if !strings.HasPrefix(f.Victim, "other:") {
			vfaults = append(vfaults, f)
			vindex = append(vindex, i)
		}
	}
	sys := vsys.New(2, vfaults...)
	var mu sync.Mutex
	served := map[string]bool{}
	ofired := make([]bool, len(c.Faults))
	ovictim := make([]string, len(c.Faults))
	// otherVictim is called with mu held.
	otherVictim := func(f vsys.Fault, callee string) string {
		var k int
		fmt.Sscanf(f.Victim, "other:%d", &k)
		var cands []string
		for h := range served {
			if h != callee && sys.Alive(h) {
				cands = append(cands, h)
			}
		}
		sort.Strings(cands)
		if k < len(cands) {
			return cands[k]
		}
		return ""
	}
	readLen := map[string]int{}
	readBounds := map[string][]int{}
	callee := make([]string, len(c.Faults))
	var deadCall []string
	bootOrd := map[string]int{}
	bootAfter := map[string]bool{}
	bootFired := 0
	sys.Hook = func(call *vsys.Call) error {
		if call.Method == "Worker.FuncLocations" && len(c.Boot) > 0 {
			mu.Lock()
			if _, seen := bootOrd[call.Host]; !seen && sys.Alive(call.Host) {
				bootOrd[call.Host] = len(bootOrd) + 1
				for _, j := range c.Boot {
					if j == bootOrd[call.Host] {
						if c.BootVariant == "before" {
							bootFired++
							sys.Kill(call.Host)
						} else {
							bootAfter[call.Host] = true
						}
					}
				}
			}
			mu.Unlock()
		}
		if call.Label != "" && !sys.Alive(call.Host) {
			mu.Lock()
			deadCall = append(deadCall, call.Label)
			mu.Unlock()
		}
		mu.Lock()
		defer mu.Unlock()
		if call.Label != "" && sys.Alive(call.Host) {
			served[call.Host] = true
		}
		for i, f := range c.Faults {
			if f.Label != call.Label {
				continue
			}
			callee[i] = call.Host
			if strings.HasPrefix(f.Victim, "other:") && !ofired[i] {
				if v := otherVictim(f, call.Host); v != "" {
					ofired[i] = true
					ovictim[i] = v
					if f.Variant == "before" {
						sys.Kill(v)
					}
				}
			}
		}
		return nil
	}
	sys.After = func(call *vsys.Call, status int, body []byte) {
		mu.Lock()
		if call.Method == "Worker.FuncLocations" && bootAfter[call.Host] {
			delete(bootAfter, call.Host)
			bootFired++
			sys.Kill(call.Host)
		}
		for i, f := range c.Faults {
			if f.Label == call.Label && ovictim[i] != "" {
				switch f.Variant {
				case "after":
					sys.Kill(ovictim[i])
				case "afterreply":
					go sys.Kill(ovictim[i])
				}
			}
		}
		mu.Unlock()
		if call.Method == "Worker.Read" && status == 200 {
			mu.Lock()
			if len(body) > readLen[call.Label] {
				readLen[call.Label] = len(body)
				readBounds[call.Label] = batchBounds(body)
			}
			mu.Unlock()
		}
	}
	tStart := time.Now()
	sess := exec.Start(exec.Bigmachine(loadTolerant{sys}), exec.Parallelism(4))
	t0 := time.Now()
	if os.Getenv("C02_TRACE") != "" {
		defer func() {
			os.Stderr.WriteString(fmt.Sprintf("case %d: start %v run %dms total %v\n", c.ID, t0.Sub(tStart), r.Ms, time.Since(tStart)))
		}()
	}
	done := make(chan outcome, 1)
	scanStart := make(chan int, 1)
	go func() {
		ctx := context.Background()
		q := *p
		inner := q.run
		q.run = func(ctx context.Context, s *exec.Session) (*exec.Result, error) {
			res, err := inner(ctx, s)
			if err == nil {
				scanStart <- len(sys.History())
			}
			return res, err
		}
		done <- runAndScan(ctx, &q, sess)
	}()
	select {
	case r.Out = <-done:
	case <-time.After(hangTimeout):
		r.Hung = true
		r.Out.Rows = []string{}
		buf := make([]byte, 4<<20)
		buf = buf[:runtime.Stack(buf, true)]
		r.Dump = string(buf)
	}
	select {
	case r.ScanStart = <-scanStart:
	default:
	}
	r.Ms = time.Since(t0).Milliseconds()
	r.History = sys.History()
	if r.Hung && len(r.History) > 3000 {
		r.History = r.History[:3000] // a livelock issues RPCs for the whole minute
	}
	r.Fired = make([]bool, len(c.Faults))
	for j, fd := range sys.Fired() {
		r.Fired[vindex[j]] = fd
	}
	r.Hosts = sys.Hosts()
	r.Killed = sys.Killed()
	for _, a := range exec.VerifC02StoppedMachines(sess) {
		if h := strings.TrimPrefix(a, "http://"); !contains(r.Killed, h) {
			r.Spurious = append(r.Spurious, h)
		}
	}
	mu.Lock()
	r.ReadLen = readLen
	r.ReadBounds = readBounds
	for i := range ofired {
		if ofired[i] {
			r.Fired[i] = true
		}
	}
	r.DeadCall = deadCall
	r.BootFired = bootFired
	r.Callee = callee
	mu.Unlock()
	r.FiredAt = make([]int, len(c.Faults))
	for i, f := range c.Faults {
		r.FiredAt[i] = -1
		if r.Fired[i] {
			for j, h := range r.History {
				if h == f.Label {
					r.FiredAt[i] = j
					break
				}
			}
		}
	}
	// Not sess.Shutdown(): it waits 20 s for log tails that verifsystem does not
	// have. Stopping every machine ends the keepalive loops of this session so
	// that it does not load the next case of the batch.
	if !r.Hung {
		for _, h := range r.Hosts {
			sys.Kill(h)
		}
	}
	return r
}

// childMain runs the batch in file path and prints one JSON line per case.
func childMain(path string) {
	setup()
	if pf := os.Getenv("C02_PROF"); pf != "" {
		f, _ := os.Create(pf)
		pprof.StartCPUProfile(f)
		defer pprof.StopCPUProfile()
	}
	b, err := os.ReadFile(path)
	if err != nil {
		os.Stderr.WriteString("c02 child: " + err.Error() + "\n")
		os.Exit(2)
	}
	var cases []fcase
	if err := json.Unmarshal(b, &cases); err != nil {
		os.Stderr.WriteString("c02 child: " + err.Error() + "\n")
		os.Exit(2)
	}
	w := bufio.NewWriter(os.Stdout)
	enc := json.NewEncoder(w)
	hung := false
	for _, c := range cases {
		var r cresult
		if hung {
			// The process still carries the stuck run; leave the rest to a fresh child.
			r = cresult{ID: c.ID, NotRun: true}
		} else {
			r = runCase(c)
			hung = r.Hung
		}
		enc.Encode(r)
		w.Flush()
	}
	pprof.StopCPUProfile()
	os.Exit(0)
}

// batchBounds returns the offsets at which the encoded batches of a task
// output end. The stream (sliceio/codec.go) is a gob stream; every batch ends
// with its checksum, a top-level uint (gob type id 3, encoded 0x06); every gob
// message is prefixed by its length. nil if the bytes do not parse as a whole
// number of messages (then only the generic cut points are used).
func batchBounds(b []byte) []int {
	var out []int
	i := 0
	for i < len(b) {
		// message length: unsigned gob integer
		n := 0
		c := b[i]
		i++
		if c < 128 {
			n = int(c)
		} else {
			k := int(^c) + 1 // number of bytes = -int8(c)
			if k > 8 || i+k > len(b) {
				return nil
			}
			for j := 0; j < k; j++ {
				n = n<<8 | int(b[i+j])
			}
			i += k
		}
		if n <= 0 || i+n > len(b) {
			return nil
		}
		if b[i] == 0x06 {
			out = append(out, i+n)
		}
		i += n
	}
	return out
}

const spacedRounds = 6

// runSpaced is the spaced-losses history (production consecutive-loss limit
// ON): r = Run(f); then spacedRounds rounds of { every live machine is killed
// while idle (r's task outputs are lost); wait until the driver has marked r's
// tasks LOST; Run(g, r) and scan, during which the replacement machine that
// receives Worker.Run for r's shard-0 task is killed once }. In every round the
// producer task is lost on exactly one attempt and then losses stop, so every
// round must succeed with the reference rows: the losses of the long-lived task
// are never 5 in a row.
func runSpaced(c fcase) cresult {
	r := cresult{ID: c.ID, ScanStart: -1, Fired: []bool{}, FiredAt: []int{}, Callee: []string{}}
	r.Out.Rows = []string{}
	exec.VerifSetMaxConsecutiveLost(true)
	fA := fReuseA
	if c.Prog == "reuse1" {
		fA = fReuseA1
	}
	sys := vsys.New(2)
	var mu sync.Mutex
	armed := false
	armedKills := 0
	sys.Hook = func(call *vsys.Call) error {
		mu.Lock()
		defer mu.Unlock()
		if armed && strings.HasPrefix(call.Label, "Worker.Run:inv_const_map@") && strings.Contains(call.Label, ":0#") && sys.Alive(call.Host) {
			armed = false
			armedKills++
			sys.Kill(call.Host) // before the handler: the request never arrives
		}
		return nil
	}
	sess := exec.Start(exec.Bigmachine(loadTolerant{sys}), exec.Parallelism(4))
	t0 := time.Now()
	progress := make(chan int, spacedRounds+1)
	done := make(chan outcome, 1)
	go func() {
		ctx := context.Background()
		var o outcome
		o.Rows = []string{}
		fail := func(round int, what string, err string) {
			o.RunErr = fmt.Sprintf("round %d: %s: %s", round, what, err)
			done <- o
		}
		resA, err := sess.Run(ctx, fA)
		if err != nil {
			fail(0, "Run(f)", err.Error())
			return
		}
		progress <- 0
		gp := program{name: c.Prog, run: func(ctx context.Context, s *exec.Session) (*exec.Result, error) {
			return s.Run(ctx, fReuseB, resA)
		}}
		for round := 1; round <= spacedRounds; round++ {
			for _, h := range sys.Hosts() {
				if sys.Alive(h) {
					sys.Kill(h)
				}
			}
			deadline := time.Now().Add(20 * time.Second)
			for {
				lost := true
				for _, st := range exec.VerifResultTaskStates(resA) {
					if !strings.HasSuffix(st, "=LOST") {
						lost = false
					}
				}
				if lost {
					break
				}
				if time.Now().After(deadline) {
					fail(round, "the driver did not mark the tasks of the killed machines LOST within 20 s", strings.Join(exec.VerifResultTaskStates(resA), " "))
					return
				}
				time.Sleep(5 * time.Millisecond)
			}
			mu.Lock()
			armed = true
			mu.Unlock()
			ro := runAndScan(ctx, &gp, sess)
			if ro.RunErr != "" || ro.ScanErr != "" || !equalRows(ro.Rows, c.Expected) {
				if ro.RunErr != "" {
					ro.RunErr = fmt.Sprintf("round %d: %s", round, ro.RunErr)
				}
				if ro.ScanErr != "" {
					ro.ScanErr = fmt.Sprintf("round %d: %s", round, ro.ScanErr)
				}
				done <- ro
				return
			}
			o = ro
			progress <- round
		}
		done <- o
	}()
loop:
	for {
		select {
		case r.Out = <-done:
			break loop
		case n := <-progress:
			r.Rounds = n
		case <-time.After(hangTimeout): // per round
			r.Hung = true
			r.Out.Rows = []string{}
			buf := make([]byte, 4<<20)
			buf = buf[:runtime.Stack(buf, true)]
			r.Dump = string(buf)
			break loop
		}
	}
	for len(progress) > 0 {
		r.Rounds = <-progress
	}
	r.Ms = time.Since(t0).Milliseconds()
	r.History = sys.History()
	if len(r.History) > 3000 {
		r.History = r.History[:3000]
	}
	r.Hosts = sys.Hosts()
	r.Killed = sys.Killed()
	for _, a := range exec.VerifC02StoppedMachines(sess) {
		if h := strings.TrimPrefix(a, "http://"); !contains(r.Killed, h) {
			r.Spurious = append(r.Spurious, h)
		}
	}
	mu.Lock()
	r.ArmedKills = armedKills
	mu.Unlock()
	if !r.Hung {
		for _, h := range r.Hosts {
			sys.Kill(h)
		}
	}
	return r
}
