package main

import (
	"bufio"
	"context"
	"encoding/json"
	"flag"
	"os"
	"runtime"
	"sync"
	"time"

	"github.com/grailbio/bigslice/exec"
	"verifh/vsys"
)

// A fcase is one cluster run: a program, an oracle configuration and 0..2 faults.
type fcase struct {
	ID     int          `json:"id"`
	Prog   string       `json:"prog"`
	Mode   string       `json:"mode"` // "M1": consecutive-loss limit off; "M2": production setting
	Faults []vsys.Fault `json:"faults"`
}

// cresult is what a child reports for one case.
type cresult struct {
	ID      int      `json:"id"`
	Out     outcome  `json:"out"`
	Hung    bool     `json:"hung,omitempty"`
	Dump    string   `json:"dump,omitempty"` // goroutine dump of a hang
	Fired   []bool   `json:"fired"`
	FiredAt []int    `json:"fired_at"` // index in History of the call at which each fault fired (-1)
	Callee  []string `json:"callee"`   // host called by the RPC at which each fault fired
	History []string `json:"history"`
	// ScanStart is len(History) when Run had returned and the scan began (-1 if
	// the scan never began).
	ScanStart int            `json:"scan_start"`
	ReadLen   map[string]int `json:"read_len,omitempty"` // Worker.Read label -> reply length
	Hosts     []string       `json:"hosts"`
	Killed    []string       `json:"killed"`
	Ms        int64          `json:"ms"`
	// NotRun: the child gave up before this case (an earlier case hung).
	NotRun bool `json:"not_run,omitempty"`
	// Crash is set by the parent when the child died while running this case.
	Crash string `json:"crash,omitempty"`
}

const hangTimeout = 60 * time.Second

func setup() {
	vsys.Quiet()
	vsys.FastRetries()
	exec.DoShuffleReaders = false
	// Several encoded batches per task output (chunk = 4 rows; must be a power of two for the combiner hash table).
	if err := flag.Set("bigslice-internal-default-chunk-rows", "4"); err != nil {
		panic(err)
	}
}

// runCase executes one case on a fresh in-process cluster.
func runCase(c fcase) cresult {
	r := cresult{ID: c.ID, ScanStart: -1}
	p := programByName(c.Prog)
	exec.VerifSetMaxConsecutiveLost(c.Mode != "M1")
	sys := vsys.New(2, c.Faults...)
	var mu sync.Mutex
	readLen := map[string]int{}
	callee := make([]string, len(c.Faults))
	sys.Hook = func(call *vsys.Call) error {
		for i, f := range c.Faults {
			if f.Label == call.Label {
				mu.Lock()
				callee[i] = call.Host
				mu.Unlock()
			}
		}
		return nil
	}
	sys.After = func(call *vsys.Call, status int, body []byte) {
		if call.Method == "Worker.Read" && status == 200 {
			mu.Lock()
			if len(body) > readLen[call.Label] {
				readLen[call.Label] = len(body)
			}
			mu.Unlock()
		}
	}
	sess := exec.Start(exec.Bigmachine(sys), exec.Parallelism(4))
	t0 := time.Now()
	done := make(chan outcome, 1)
	scanStart := make(chan int, 1)
	go func() {
		ctx := context.Background()
		q := *p
		inner := q.run
		q.run = func(ctx context.Context, s *exec.Session) (*exec.Result, error) {
			res, err := inner(ctx, s)
			if err == nil {
				scanStart <- len(sys.History())
			}
			return res, err
		}
		done <- runAndScan(ctx, &q, sess)
	}()
	select {
	case r.Out = <-done:
	case <-time.After(hangTimeout):
		r.Hung = true
		r.Out.Rows = []string{}
		buf := make([]byte, 4<<20)
		buf = buf[:runtime.Stack(buf, true)]
		r.Dump = string(buf)
	}
	select {
	case r.ScanStart = <-scanStart:
	default:
	}
	r.Ms = time.Since(t0).Milliseconds()
	r.History = sys.History()
	r.Fired = sys.Fired()
	r.Hosts = sys.Hosts()
	r.Killed = sys.Killed()
	mu.Lock()
	r.ReadLen = readLen
	r.Callee = callee
	mu.Unlock()
	r.FiredAt = make([]int, len(c.Faults))
	for i, f := range c.Faults {
		r.FiredAt[i] = -1
		if r.Fired[i] {
			for j, h := range r.History {
				if h == f.Label {
					r.FiredAt[i] = j
					break
				}
			}
		}
	}
	if !r.Hung {
		// Shutdown may block on dead machines; it is not part of the property.
		sd := make(chan struct{})
		go func() { sess.Shutdown(); close(sd) }()
		select {
		case <-sd:
		case <-time.After(5 * time.Second):
		}
	}
	return r
}

// childMain runs the batch in file path and prints one JSON line per case.
func childMain(path string) {
	setup()
	b, err := os.ReadFile(path)
	if err != nil {
		os.Stderr.WriteString("c02 child: " + err.Error() + "\n")
		os.Exit(2)
	}
	var cases []fcase
	if err := json.Unmarshal(b, &cases); err != nil {
		os.Stderr.WriteString("c02 child: " + err.Error() + "\n")
		os.Exit(2)
	}
	w := bufio.NewWriter(os.Stdout)
	enc := json.NewEncoder(w)
	hung := false
	for _, c := range cases {
		var r cresult
		if hung {
			// The process still carries the stuck run; leave the rest to a fresh child.
			r = cresult{ID: c.ID, NotRun: true}
		} else {
			r = runCase(c)
			hung = r.Hung
		}
		enc.Encode(r)
		w.Flush()
	}
	os.Exit(0)
}
