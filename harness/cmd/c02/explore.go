package main

import (
	"bufio"
	"bytes"
	"encoding/json"
	"fmt"
	"os"
	osexec "os/exec"
	"sort"
	"strings"
	"sync"
	"syscall"
	"time"

	"verifh/ev"
	"verifh/vsys"
)

// ---- child processes -----------------------------------------------------------

// runChild runs one batch in a child process. Every case of the batch gets a
// result; NotRun marks cases the child did not get to.
func runChild(cases []fcase) []cresult {
	exe, err := os.Executable()
	if err != nil {
		ev.Fatal("os.Executable: %v", err)
	}
	f, err := os.CreateTemp("", "c02-batch-*.json")
	if err != nil {
		ev.Fatal("temp file: %v", err)
	}
	defer os.Remove(f.Name())
	b, _ := json.Marshal(cases)
	f.Write(b)
	f.Close()
	cmd := osexec.Command(exe, "-c02child", f.Name())
	cmd.Env = append(os.Environ(), "GOMAXPROCS=4")
	var stderr bytes.Buffer
	cmd.Stderr = &stderr
	stdout, err := cmd.StdoutPipe()
	if err != nil {
		ev.Fatal("pipe: %v", err)
	}
	if err := cmd.Start(); err != nil {
		ev.Fatal("starting child: %v", err)
	}
	lines := make(chan cresult)
	go func() {
		sc := bufio.NewScanner(stdout)
		sc.Buffer(make([]byte, 1<<20), 64<<20)
		for sc.Scan() {
			var r cresult
			if json.Unmarshal(sc.Bytes(), &r) == nil {
				lines <- r
			}
		}
		close(lines)
	}()
	got := map[int]cresult{}
	outerHang := false
	// the child's own watchdog is hangTimeout per run (per round of a scenario)
	lineTimeout := hangTimeout + 30*time.Second
	for _, c := range cases {
		if c.Scenario == "spaced" {
			lineTimeout = (spacedRounds+2)*hangTimeout + 30*time.Second
		}
	}
loop:
	for {
		select {
		case r, ok := <-lines:
			if !ok {
				break loop
			}
			got[r.ID] = r
		case <-time.After(lineTimeout):
			// the child's own watchdog did not answer: ask the runtime for a dump
			outerHang = true
			cmd.Process.Signal(syscall.SIGQUIT)
			go func() { time.Sleep(10 * time.Second); cmd.Process.Kill() }()
			for range lines {
			}
			break loop
		}
	}
	werr := cmd.Wait()
	out := make([]cresult, len(cases))
	blamed := false
	for i, c := range cases {
		if r, ok := got[c.ID]; ok {
			out[i] = r
			continue
		}
		out[i] = cresult{ID: c.ID, NotRun: true, Out: outcome{Rows: []string{}}}
		if !blamed {
			// the first unanswered case is the one the child died or got stuck in
			blamed = true
			out[i].NotRun = false
			tail := stderr.String()
			if len(tail) > 200<<10 {
				tail = tail[:200<<10]
			}
			if outerHang {
				out[i].Hung = true
				out[i].Dump = tail
			} else {
				out[i].Crash = fmt.Sprintf("child exited (%v) without reporting this case; stderr:\n%s", werr, tail)
			}
		}
	}
	return out
}

// runCases runs the cases in children of perChild cases each, at most
// maxChildren at a time, re-dispatching cases a child did not get to. Cases
// skipped because stop() became true are absent from the result.
func runCases(cases []fcase, perChild int, stop ...func() bool) map[int]cresult {
	res := map[int]cresult{}
	var mu sync.Mutex
	pending := cases
	for len(pending) > 0 {
		var batches [][]fcase
		for i := 0; i < len(pending); i += perChild {
			batches = append(batches, pending[i:min(i+perChild, len(pending))])
		}
		var again []fcase
		ev.Parallel(len(batches), maxChildren, func(i int) {
			if len(stop) > 0 && stop[0]() {
				return
			}
			rs := runChild(batches[i])
			mu.Lock()
			defer mu.Unlock()
			tl.children++
			for j, r := range rs {
				if r.NotRun {
					again = append(again, batches[i][j])
				} else {
					res[r.ID] = r
				}
			}
		})
		sort.Slice(again, func(i, j int) bool { return again[i].ID < again[j].ID })
		pending = again
	}
	return res
}

// ---- oracle --------------------------------------------------------------------

func errClass(msg string) string {
	m := strings.ToLower(msg)
	switch {
	case strings.Contains(m, "consecutive"):
		return "too-many-consecutive-losses"
	case strings.Contains(m, "recomputed with different output"):
		return "output-changed"
	case strings.Contains(m, "checksum") || strings.Contains(m, "integrity"):
		return "corrupt-stream"
	case strings.Contains(m, "no location"):
		return "no-location"
	case strings.Contains(m, "gob") || strings.Contains(m, "decod") || strings.Contains(m, "eof") || strings.Contains(m, "codec"):
		// what a spliced or truncated row stream looks like to the decoder
		return "corrupt-stream"
	case strings.Contains(m, "not compiled") || strings.Contains(m, "invalid invocation"):
		return "not-compiled"
	case strings.Contains(m, "connection re") || strings.Contains(m, "unavailable") || strings.Contains(m, "stopped") || strings.Contains(m, "too many tries") || strings.Contains(m, "retries"):
		return "unavailable"
	}
	return "other"
}

func multiset(rows []string) map[string]int {
	m := map[string]int{}
	for _, r := range rows {
		m[r]++
	}
	return m
}

// rowDiff describes how got deviates from expected as multisets.
func rowDiff(got, expected []string) (missing, duplicated, foreign int) {
	g, e := multiset(got), multiset(expected)
	for r, n := range e {
		if g[r] < n {
			missing += n - g[r]
		}
	}
	for r, n := range g {
		if e[r] == 0 {
			foreign += n
		} else if n > e[r] {
			duplicated += n - e[r]
		}
	}
	return
}

func diffClass(got, expected []string) string {
	mi, du, fo := rowDiff(got, expected)
	var parts []string
	if mi > 0 {
		parts = append(parts, "missing")
	}
	if du > 0 {
		parts = append(parts, "duplicated")
	}
	if fo > 0 {
		parts = append(parts, "foreign")
	}
	return strings.Join(parts, "+")
}

// classify returns the outcome class of a run.
func classify(res cresult, expected []string, mode string) string {
	switch {
	case res.Hung:
		return "hang"
	case res.Crash != "":
		return "driver-crash"
	case res.Out.RunErr != "":
		return "run-error:" + errClass(res.Out.RunErr)
	case res.Out.ScanErr != "":
		if _, du, fo := rowDiff(res.Out.Rows, expected); du > 0 || fo > 0 {
			return "scan-error-after-wrong-rows:" + diffClass(res.Out.Rows, expected)
		}
		return "scan-error:" + errClass(res.Out.ScanErr)
	case !equalRows(res.Out.Rows, expected):
		return "success-wrong-rows:" + diffClass(res.Out.Rows, expected)
	}
	return "ok"
}

// violates applies the oracle of the mode to an outcome class.
//
//	M1 (no consecutive-loss limit, replacements always available): only "ok".
//	M2 (production): "ok", a Run error, or a scan error after a correct
//	prefix-multiset. Never wrong rows, never a hang.
func violates(class, mode string) bool {
	switch {
	case class == "ok":
		return false
	case strings.HasPrefix(class, "run-error:"), strings.HasPrefix(class, "scan-error:"):
		// M2S = the spaced-losses history: production limit on, but the losses of
		// a task are never 5 in a row, so there is no legitimate error either
		return mode == "M1" || mode == "M2S"
	}
	return true
}

// safety classes are counterexamples on first sight: the expected rows do not
// depend on timing.
func isSafetyClass(class string) bool {
	return strings.HasPrefix(class, "success-wrong-rows") || strings.HasPrefix(class, "scan-error-after-wrong-rows")
}

// firedOK reports whether every fault of the case took effect in the run.
func firedOK(c fcase, res cresult) bool {
	if res.Crash != "" {
		return true // unknown; a crash is examined anyway
	}
	if len(res.Fired) != len(c.Faults) {
		return false
	}
	if c.Scenario == "boot" && res.BootFired != len(c.Boot) {
		return false // e.g. the 3rd machine is only started if one of the first two is lost
	}
	for i := range c.Faults {
		if !res.Fired[i] {
			return false
		}
	}
	return true
}

// variantClass: mid0 = reply cut before its first byte, mid = cut anywhere
// later (whether the cut was at the end of an encoded batch is in the detail:
// one defect shows at both kinds of cut, so they share a signature).
func variantClass(f vsys.Fault, inf *progInfo) string {
	if strings.HasPrefix(f.Variant, "mid:") {
		if f.Variant == "mid:0" {
			return "mid0"
		}
		return "mid"
	}
	return f.Variant
}

// atBatchEnd reports whether a mid:<k> fault cuts exactly at the end of a batch.
func atBatchEnd(f vsys.Fault, inf *progInfo) bool {
	var k int
	if n, _ := fmt.Sscanf(f.Variant, "mid:%d", &k); n == 1 {
		for _, b := range inf.bounds[stripOcc(f.Label)] {
			if b == k {
				return true
			}
		}
	}
	return false
}

func pointSig(f vsys.Fault, callee string, inf *progInfo) string {
	m := methodOf(f.Label)
	if inf.scanOnly[f.Label] {
		m += "@scan"
	}
	s := m + "/" + variantClass(f, inf)
	if f.Victim != "" {
		s += "/victim-other"
	}
	return s
}

func signature(c fcase, res cresult, inf *progInfo, class string) string {
	if c.Scenario == "boot" {
		return "C02/" + c.Prog + "/" + c.Mode + "/Worker.FuncLocations" + strings.ReplaceAll(fmt.Sprint(c.Boot), " ", "+") + "/" + c.BootVariant + "/" + class
	}
	if c.Scenario != "" {
		return "C02/" + c.Prog + "/" + c.Mode + "/" + c.Scenario + "-losses/" + class
	}
	var pts []string
	for i, f := range c.Faults {
		callee := ""
		if i < len(res.Callee) {
			callee = res.Callee[i]
		}
		pts = append(pts, pointSig(f, callee, inf))
	}
	return "C02/" + c.Prog + "/" + c.Mode + "/" + strings.Join(pts, "+") + "/" + class
}

type suspect struct {
	c     fcase
	res   cresult
	class string
	sig   string
}

// account evaluates one result; it returns whether the faults fired.
func account(c fcase, res cresult, inf *progInfo, suspects *[]suspect) bool {
	tl.mu.Lock()
	defer tl.mu.Unlock()
	tl.evaluations++
	if res.Ms > tl.maxMs && !res.Hung {
		tl.maxMs = res.Ms
	}
	if !firedOK(c, res) {
		tl.notFired++
		return false
	}
	class := classify(res, inf.expected, c.Mode)
	if c.Scenario == "boot" {
		tl.bootFired[c.Prog+"|"+fmt.Sprint(c.Boot)+"|"+c.BootVariant] = true
	} else if c.Scenario != "" {
		tl.scenarioRuns++
		tl.scenarioRounds += res.Rounds
		tl.scenarioKills += len(res.Killed)
		if res.Rounds == spacedRounds && res.ArmedKills == spacedRounds {
			tl.scenarioFull[c.Prog+"|"+c.Scenario] = true
		}
	} else if len(c.Faults) == 1 {
		f := c.Faults[0]
		victim := "callee"
		if f.Victim != "" {
			victim = f.Victim
		}
		key := c.Prog + "|" + f.Label + "|" + f.Variant
		if f.Victim != "" {
			key += "|other"
		}
		if !tl.firedKeys[key] {
			tl.firedKeys[key] = true
			tl.perMethod[methodOf(f.Label)]++
		}
		tl.firedFine[c.Prog+"|"+c.Mode+"|"+f.Label+"|"+f.Variant+"|"+victim] = true
	} else {
		tl.pairFired[c.Prog+"|"+c.Mode+"|"+faultKey(c.Faults[0])+"|"+faultKey(c.Faults[1])] = true
	}
	tl.outcomes[c.Mode+"/"+class]++
	if len(res.Spurious) > 0 {
		tl.spurious++
	}
	if violates(class, c.Mode) {
		*suspects = append(*suspects, suspect{c, res, class, signature(c, res, inf, class)})
	}
	return true
}

// exploreAll runs every case, retrying cases whose fault did not fire.
func exploreAll(r *ev.Run, cases []fcase, infos map[string]*progInfo, budget time.Duration, suspects *[]suspect, firedOut map[int]cresult, what string) {
	pending := cases
	stop := func() bool { return r.OverBudget(budget) }
	sampled := map[string]bool{}
	for attempt := 1; attempt <= maxAttempts && len(pending) > 0; attempt++ {
		results := runCases(pending, batchSize, stop)
		var next []fcase
		skipped := 0
		for _, c := range pending {
			res, ok := results[c.ID]
			if !ok {
				skipped++
				continue
			}
			if account(c, res, infos[c.Prog], suspects) {
				if firedOut != nil && !res.Hung && res.Crash == "" {
					firedOut[c.ID] = res
				}
				cl := c.Mode + "/" + classify(res, infos[c.Prog].expected, c.Mode)
				if !sampled[cl] {
					sampled[cl] = true
					r.Sample(map[string]interface{}{"program": c.Prog, "mode": c.Mode, "faults": c.Faults, "callee": res.Callee,
						"killed": res.Killed, "outcome": cl, "rpcs_in_run": len(res.History), "ms": res.Ms})
				}
			} else {
				next = append(next, c)
			}
		}
		if skipped > 0 {
			r.NotExhaustive(fmt.Sprintf("%s: time budget reached, %d of %d cases not run (attempt %d)", what, skipped, len(pending), attempt))
			return
		}
		pending = next
	}
	if len(pending) > 0 {
		r.Note("%s: %d of %d cases never fired in %d attempts (their label did not occur, or the named victim did not exist); not counted as evidence", what, len(pending), len(cases), maxAttempts)
	}
}

// confirm re-runs suspected violations and reports them.
func confirm(r *ev.Run, suspects []suspect, infos map[string]*progInfo) {
	// at most 4 representatives per signature
	perSig := map[string]int{}
	total := map[string]int{}
	var todo []suspect
	for _, s := range suspects {
		total[s.sig]++
		if perSig[s.sig] < 4 {
			perSig[s.sig]++
			todo = append(todo, s)
		}
	}
	if len(todo) > 60 {
		r.Note("%d suspected violations; only the first 60 representatives are re-run", len(todo))
		todo = todo[:60]
	}
	type rerun struct {
		classes []string
		dump    string
	}
	reruns := make([]rerun, len(todo))
	id := 1 << 30
	for round := 0; round < 3; round++ {
		var cases []fcase
		owner := map[int]int{}
		for i, s := range todo {
			for k := len(reruns[i].classes); k < nConfirm; k++ {
				c := s.c
				c.ID = id
				id++
				owner[c.ID] = i
				cases = append(cases, c)
			}
		}
		if len(cases) == 0 {
			break
		}
		results := runCases(cases, 1)
		for _, c := range cases {
			res := results[c.ID]
			i := owner[c.ID]
			tl.evaluations++
			if !firedOK(c, res) {
				tl.notFired++
				continue
			}
			cl := classify(res, infos[c.Prog].expected, c.Mode)
			reruns[i].classes = append(reruns[i].classes, cl)
			if res.Hung && reruns[i].dump == "" {
				reruns[i].dump = res.Dump
			}
		}
	}
	unconfirmed := 0
	for i, s := range todo {
		again := 0
		same := 0
		for _, cl := range reruns[i].classes {
			if violates(cl, s.c.Mode) {
				again++
			}
			if cl == s.class {
				same++
			}
		}
		report := false
		switch {
		case isSafetyClass(s.class):
			report = true
		case s.class == "hang":
			report = len(reruns[i].classes) >= nConfirm && same == len(reruns[i].classes)
		default:
			report = len(reruns[i].classes) >= nConfirm && again == len(reruns[i].classes)
		}
		if !report {
			unconfirmed++
			saveUnconfirmed(s, reruns[i].classes)
			r.Note("suspect not confirmed (not reported): %s first=%s re-runs=%v faults=%v", s.sig, s.class, reruns[i].classes, s.c.Faults)
			continue
		}
		dump := s.res.Dump
		if dump == "" {
			dump = reruns[i].dump
		}
		if len(dump) > 120<<10 {
			dump = dump[:120<<10] + "\n...[truncated]"
		}
		cutAtEnd, ends := false, []int(nil)
		if n := len(s.c.Faults); n > 0 {
			cutAtEnd = atBatchEnd(s.c.Faults[n-1], infos[s.c.Prog])
			ends = infos[s.c.Prog].bounds[stripOcc(s.c.Faults[n-1].Label)]
		}
		what := map[string]string{"M1": "M1 (no consecutive-loss limit, replacement machines always available): ", "M2": "M2 (production setting): ",
			"M2S": "spaced losses (production setting; r=Run(f), then rounds of {all machines lost while idle, Run(g,r) with one more loss of the producer task}; no task is ever lost 5 times in a row): "}[s.c.Mode]
		switch {
		case s.class == "hang":
			what += "Run/scan did not return within 60 s (normal run < 1 s)"
		case s.class == "driver-crash":
			what += "the driver process died"
		case strings.HasPrefix(s.class, "success-wrong-rows"):
			what += "Run and scan reported success but the rows differ from the failure-free rows (" + s.class + ")"
		case strings.HasPrefix(s.class, "scan-error-after-wrong-rows"):
			what += "the scanner delivered rows that are not a sub-multiset of the failure-free rows before failing (" + s.class + ")"
		default:
			what += "the run did not recover although replacement machines were available and losses had stopped (" + s.class + ")"
		}
		r.Violate(s.sig, what, map[string]interface{}{
			"program": s.c.Prog, "mode": s.c.Mode, "scenario": s.c.Scenario, "machines_killed_at_first_FuncLocations": s.c.Boot, "boot_variant": s.c.BootVariant, "rounds_completed": s.res.Rounds, "faults": s.c.Faults, "callee": s.res.Callee, "killed": s.res.Killed,
			"outcome": s.res.Out, "expected_rows": infos[s.c.Prog].expected, "history": s.res.History, "scan_start": s.res.ScanStart,
			"crash": s.res.Crash, "rerun_outcomes": reruns[i].classes, "cut_at_batch_end": cutAtEnd, "batch_ends_in_reply": ends, "cases_with_this_signature": total[s.sig], "goroutine_dump": dump,
		})
	}
	if unconfirmed > 0 {
		r.Note("%d suspected violations did not reproduce on %d re-runs and were not reported", unconfirmed, nConfirm)
	}
}

// saveUnconfirmed keeps the details of a suspect that did not reproduce (for
// manual analysis; not part of the verdict).
func saveUnconfirmed(s suspect, reruns []string) {
	dir := os.Getenv("VERIF_BUILD")
	if dir == "" {
		dir = ev.Root() + "/.build"
	}
	dir += "/c02-unconfirmed"
	os.MkdirAll(dir, 0777)
	b, _ := json.MarshalIndent(map[string]interface{}{"signature": s.sig, "case": s.c, "first": s.res, "rerun_outcomes": reruns}, "", " ")
	os.WriteFile(dir+"/"+ev.Hash(s.sig+fmt.Sprint(s.c.Faults))+".json", b, 0666)
}
