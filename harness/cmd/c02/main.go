// c02: property C02 — machine loss yields the correct rows or an error, never
// wrong rows or a hang (DESIGN.md §5 C02). Fault enumeration on the in-process
// cluster verifh/vsys: every labelled Worker RPC of a failure-free run is a kill
// point (before the handler, after the handler with the reply lost, after the
// reply, inside a streamed Worker.Read reply), for the callee and, for
// Worker.Run, for every other machine. Every faulted run (Run + full scan)
// happens in a child process.
package main

import (
	"context"
	"flag"
	"fmt"
	"sort"
	"strings"
	"sync"
	"time"

	"github.com/grailbio/bigslice/exec"
	"verifh/ev"
	"verifh/vsys"
)

var flagChild = flag.String("c02child", "", "(internal) run the batch of cases in this file")
var flagOnly = flag.String("c02prog", "", "(debug) restrict to one program")
var flagDump = flag.Bool("c02dump", false, "(debug) print failure-free histories")

const (
	nFreeRuns   = 8  // failure-free runs per program whose histories are united
	batchSize   = 20 // cases per child process
	maxChildren = 16
	maxAttempts = 3 // attempts at making a fault fire
	nConfirm    = 3 // re-runs of a suspected violation
)

var modes = []string{"M1", "M2"}

// progInfo is what the failure-free runs tell about a program.
type progInfo struct {
	name     string
	expected []string         // sorted rows (local executor; cluster runs must agree)
	alphabet []string         // union of labelled RPC histories, first-seen order
	scanOnly map[string]bool  // labels that occur only while the result is scanned
	readLen  map[string]int   // by label without occurrence
	bounds   map[string][]int // by label without occurrence: batch ends inside the reply
	hosts    []string
}

// localRows evaluates the program on the local executor: the reference rows.
func localRows(p *program) []string {
	sess := exec.Start(exec.Local, exec.Parallelism(2))
	defer sess.Shutdown()
	o := runAndScan(context.Background(), p, sess)
	if o.RunErr != "" || o.ScanErr != "" {
		ev.Fatal("local reference run of %s failed: %s %s", p.name, o.RunErr, o.ScanErr)
	}
	return o.Rows
}

func methodOf(label string) string {
	if i := strings.IndexByte(label, ':'); i >= 0 {
		return label[:i]
	}
	if i := strings.IndexByte(label, '#'); i >= 0 {
		return label[:i]
	}
	return label
}

type tally struct {
	mu          sync.Mutex
	evaluations int
	children    int
	notFired    int
	spurious    int             // fault runs with additional, not enumerated machine losses
	bootFired   map[string]bool // program|ordinals|variant of fired boot-loss cases
	// spaced-losses histories
	scenarioRuns, scenarioRounds, scenarioKills int
	scenarioFull                                map[string]bool // histories in which all rounds ran with both kills
	firedKeys                                   map[string]bool // program|label|variant
	firedFine                                   map[string]bool // program|mode|label|variant|victim
	pairFired                                   map[string]bool
	outcomes                                    map[string]int
	perMethod                                   map[string]int
	maxMs                                       int64
}

var tl = &tally{firedKeys: map[string]bool{}, firedFine: map[string]bool{}, pairFired: map[string]bool{},
	outcomes: map[string]int{}, perMethod: map[string]int{}, scenarioFull: map[string]bool{}, bootFired: map[string]bool{}}

func main() {
	flag.Parse()
	if *flagChild != "" {
		childMain(*flagChild)
		return
	}
	r := ev.Start("C02", "fault_enumeration")
	r.Assume = append(r.Assume,
		"cluster = verifh/vsys (in-process bigmachine.System, RPCs called inline through an interposing RoundTripper); a machine loss = transport refuses the host + its supervisor context is cancelled; keepalive period/timeout/rpc-timeout 20/200/100 ms (vsys default 20/60/30 loses machines spuriously when 16 cluster processes share the cores)",
		"retry back-offs shrunk (same retry counts): bigmachine 1..5 ms, exec.retryReader 5..80 ms (production 1 s.. and 5..60 s); exec.DoShuffleReaders=false; internal chunk size 4 rows so that task outputs consist of several encoded batches",
		"goroutine timing inside a cluster run is NOT controlled: crash points (labelled RPCs) are enumerated exhaustively, interleavings are whatever the Go runtime produces; a fault whose label does not occur in its run is 'not fired' and is not evidence",
		"because of that, a recovery failure under M1 and a hang are reported only if they reproduce on 3 of 3 re-runs in which the fault fired; success with wrong rows is reported on first sight (re-run count in the detail)",
		"machine-combiner sessions are excluded (the property excludes them)")
	setup()
	budget := 150 * time.Second
	if r.Thorough() {
		budget = 9 * time.Minute
	}

	// ---- phase A: failure-free runs -------------------------------------------
	var progs []*program
	for i := range programs {
		if *flagOnly == "" || *flagOnly == programs[i].name {
			progs = append(progs, &programs[i])
		}
	}
	infos := map[string]*progInfo{}
	id := 0
	for _, p := range progs {
		infos[p.name] = &progInfo{name: p.name, expected: localRows(p)}
	}
	// A run without injected faults contributes to the alphabet only if no
	// machine was lost in it (under load a keepalive can time out; the driver's
	// view of its machines tells). Up to 4 rounds are made to collect nFreeRuns
	// such runs.
	var suspects []suspect
	cands := map[string][]cresult{}
	cleanRuns := func(name string) []cresult { return cands[name] }
	failed := map[string]bool{}
	nFree := 0
	for round := 0; round < 4; round++ {
		var freeCases []fcase
		for _, p := range progs {
			for k := len(cleanRuns(p.name)); k < nFreeRuns && !failed[p.name]; k++ {
				freeCases = append(freeCases, fcase{ID: id, Prog: p.name, Mode: "M1"})
				id++
			}
		}
		if len(freeCases) == 0 {
			break
		}
		// two runs per child so that the union covers several processes
		freeRes := runCases(freeCases, 2)
		for _, c := range freeCases {
			res := freeRes[c.ID]
			inf := infos[c.Prog]
			tl.evaluations++
			nFree++
			if cl := classify(res, inf.expected, "M1"); cl != "ok" {
				// confirmed (or not) by re-runs like every other suspect
				suspects = append(suspects, suspect{c, res, cl, "C02/" + c.Prog + "/M1/no-fault/" + cl})
				tl.outcomes["no-fault/"+cl]++
				failed[c.Prog] = true
				continue
			}
			tl.outcomes["no-fault/ok"]++
			if len(res.Spurious) == 0 {
				cands[c.Prog] = append(cands[c.Prog], res)
			}
		}
	}
	nClean := 0
	for _, p := range progs {
		inf := infos[p.name]
		inf.scanOnly, inf.readLen, inf.bounds = map[string]bool{}, map[string]int{}, map[string][]int{}
		runs := cleanRuns(p.name)
		nClean += len(runs)
		if failed[p.name] {
			r.NotExhaustive(p.name + ": a run without injected faults failed the oracle; its faults were not enumerated")
		} else if len(runs) < nFreeRuns {
			r.NotExhaustive(fmt.Sprintf("%s: only %d of %d runs without injected faults were free of spurious machine loss", p.name, len(runs), nFreeRuns))
		}
		for _, res := range runs {
			for i, l := range res.History {
				if !contains(inf.alphabet, l) {
					inf.alphabet = append(inf.alphabet, l)
					inf.scanOnly[l] = true
				}
				if i < res.ScanStart {
					inf.scanOnly[l] = false
				}
			}
			for l, n := range res.ReadLen {
				if k := stripOcc(l); n > inf.readLen[k] {
					inf.readLen[k] = n
					inf.bounds[k] = res.ReadBounds[l]
				}
			}
			for _, h := range res.Hosts {
				if !contains(inf.hosts, h) {
					inf.hosts = append(inf.hosts, h)
				}
			}
		}
	}
	if nFree > nClean {
		r.Note("%d of %d runs without injected faults lost a machine spuriously (keepalive timeout under load); they were checked against the oracle but not used for the label alphabet", nFree-nClean, nFree)
	}
	for _, inf := range infos {
		sort.Strings(inf.hosts)
	}
	// simplest first; the cuts-only programs after the fully enumerated ones
	sort.SliceStable(progs, func(i, j int) bool {
		if progs[i].cutsOnly != progs[j].cutsOnly {
			return !progs[i].cutsOnly
		}
		return len(infos[progs[i].name].alphabet) < len(infos[progs[j].name].alphabet)
	})
	nFull := 0
	for _, p := range progs {
		if !p.cutsOnly {
			nFull++
		}
	}
	if *flagDump {
		for _, p := range progs {
			inf := infos[p.name]
			fmt.Printf("== %s: %d labels, hosts %v, rows %v\n", p.name, len(inf.alphabet), inf.hosts, inf.expected)
			for _, l := range inf.alphabet {
				fmt.Printf("   %-60s scan=%v len=%d bounds=%v\n", l, inf.scanOnly[l], inf.readLen[stripOcc(l)], inf.bounds[stripOcc(l)])
			}
		}
	}

	// ---- phase B: every single fault --------------------------------------------
	nSingle := nFull
	if !r.Thorough() && nSingle > 3 {
		nSingle = 3
	}
	progSizes := map[string]int{}
	var singles []fcase
	singleByID := map[int]fcase{}
	// spaced-losses histories (both tiers): one-shard and two-shard producer
	if *flagOnly == "" || *flagOnly == "reuse" {
		if infos["reuse"] == nil {
			ev.Fatal("program reuse missing")
		}
		inf1 := *infos["reuse"] // same rows: the data do not depend on the shard count
		inf1.name = "reuse1"
		infos["reuse1"] = &inf1
		for _, prog := range []string{"reuse1", "reuse"} {
			c := fcase{ID: id, Prog: prog, Mode: "M2S", Scenario: "spaced", Expected: infos[prog].expected}
			id++
			singles = append(singles, c)
			singleByID[c.ID] = c
		}
	}
	for _, p := range progs[:nSingle] {
		inf := infos[p.name]
		n0 := len(singles)
		for _, f := range singlePoints(inf) {
			for _, m := range modes {
				c := fcase{ID: id, Prog: p.name, Mode: m, Faults: []vsys.Fault{f}}
				id++
				singles = append(singles, c)
				singleByID[c.ID] = c
			}
		}
		progSizes[p.name] = len(singles) - n0
	}
	// skewed shuffles (both tiers): cuts of every task-to-task read
	for _, p := range progs[nFull:] {
		inf := infos[p.name]
		n0 := len(singles)
		for _, f := range cutPoints(inf) {
			for _, m := range modes {
				c := fcase{ID: id, Prog: p.name, Mode: m, Faults: []vsys.Fault{f}}
				id++
				singles = append(singles, c)
				singleByID[c.ID] = c
			}
		}
		progSizes[p.name] = len(singles) - n0
	}
	// machines lost while booting (at their first Worker.FuncLocations call):
	// the j-th machine started, j = 1..cluster size+1, and the first 2 and the
	// first 3 machines together; quick: smallest program, thorough: two smallest
	nBoot := 1
	if r.Thorough() {
		nBoot = 2
	}
	bootCases := 0
	for _, p := range progs[:min(nBoot, nFull)] {
		n := len(infos[p.name].hosts)
		var sets [][]int
		for j := 1; j <= n+1; j++ {
			sets = append(sets, []int{j})
		}
		sets = append(sets, []int{1, 2}, []int{1, 2, 3})
		for _, set := range sets {
			for _, v := range []string{"before", "after"} {
				for _, m := range modes {
					c := fcase{ID: id, Prog: p.name, Mode: m, Scenario: "boot", Boot: set, BootVariant: v}
					id++
					singles = append(singles, c)
					singleByID[c.ID] = c
					bootCases++
				}
			}
		}
	}
	firedSingles := map[int]cresult{}
	exploreAll(r, singles, infos, budget, &suspects, firedSingles, "single faults")

	// ---- phase C: pairs (thorough; two smallest programs) ------------------------
	pairCount := 0
	if r.Thorough() {
		var pairs []fcase
		seenPair := map[string]bool{}
		small := map[string]bool{}
		for _, p := range progs[:min(2, nFull)] {
			small[p.name] = true
		}
		var ids []int
		for cid := range firedSingles {
			ids = append(ids, cid)
		}
		sort.Ints(ids)
		for _, cid := range ids {
			c := singleByID[cid]
			if !small[c.Prog] {
				continue
			}
			res := firedSingles[cid]
			for _, f2 := range secondPoints(res, infos[c.Prog]) {
				key := c.Prog + "|" + c.Mode + "|" + faultKey(c.Faults[0]) + "|" + faultKey(f2)
				if seenPair[key] {
					continue
				}
				seenPair[key] = true
				pairs = append(pairs, fcase{ID: id, Prog: c.Prog, Mode: c.Mode, Faults: []vsys.Fault{c.Faults[0], f2}})
				id++
			}
		}
		pairCount = len(pairs)
		exploreAll(r, pairs, infos, budget, &suspects, nil, "fault pairs")
	}

	// ---- confirmation of suspected violations -------------------------------------
	confirm(r, suspects, infos)

	rule := fmt.Sprintf("programs ordered by size of their RPC alphabet = union of the labelled Worker.* RPC histories (method:task/partition#occurrence) of %d runs without injected faults and without spurious machine loss; "+
		"single faults = every label x {before, after, afterreply} (+ Worker.Read: cut of the reply at byte 0, len/2, len-1 and at the ends of encoded batches: all of them for final-scan reads, first/median/last otherwise) x victim {callee; for Worker.Run and for final-scan reads also every other machine that is up} x {M1, M2}; "+
		"quick: 3 smallest programs, thorough: all 6 plus, for the two smallest, every pair (fired single fault, fault at the first call to a live machine of every method:task/partition in the history observed after it fired); each case = Run + complete scan in a child process. "+
		"A case is non-trivial iff every configured fault fired (its label occurred in that run and the victim existed); cases that do not fire are retried up to %d times and are not evidence. "+
		"Worker.Run/Compile/Stat additionally get the variant replylate (handler ran, machine dies, the successful reply is delivered only after the driver has seen the machine stop). "+
		"Two skewed-shuffle programs (map shards with disjoint ordered key ranges feeding a Reduce / a Cogroup, several chunks per stream; both tiers): every task-to-task Worker.Read x {before, after, afterreply, reply cut at byte 0, at the end and in the middle of every encoded batch, at the last byte}, victim = the machine serving the read. "+
		"Machines lost while booting: the j-th machine started (j = 1..cluster size+1) and the first 2 / first 3 machines together are killed at their first Worker.FuncLocations call {before, after} x {M1, M2} (quick: smallest program, thorough: two smallest); fired iff every named machine existed and was killed there. "+
		"Both tiers also run 2 spaced-losses histories under the production limit (M2S; producer f with 1 and with 2 shards): r=Run(f), then %d rounds of {kill every live machine while idle, wait until r's tasks are LOST, Run(g,r)+scan while the replacement receiving Worker.Run for r's shard-0 task is killed once}; every round must succeed with the reference rows; a history is non-trivial iff all rounds ran and both kills happened in each. "+
		"distinct_nontrivial = distinct (program, label, variant[, other-victim]) over fired single faults + distinct fired pairs + complete spaced-losses histories + distinct fired boot-loss cases (program, machines, variant)", nFreeRuns, maxAttempts, spacedRounds)
	sizes := map[string]interface{}{}
	for _, p := range progs {
		inf := infos[p.name]
		sizes[p.name] = map[string]interface{}{"labels": len(inf.alphabet), "machines": len(inf.hosts), "rows": len(inf.expected), "single_cases": progSizes[p.name]}
	}
	r.Finish(ev.Coverage{
		"evaluations":                         tl.evaluations,
		"distinct_nontrivial":                 len(tl.firedKeys) + len(tl.pairFired) + len(tl.scenarioFull) + len(tl.bootFired),
		"boot_loss_cases":                     bootCases,
		"boot_loss_fired_distinct":            len(tl.bootFired),
		"spaced_losses_histories_run":         tl.scenarioRuns,
		"spaced_losses_histories_complete":    len(tl.scenarioFull),
		"spaced_losses_rounds_succeeded":      tl.scenarioRounds,
		"spaced_losses_machines_killed":       tl.scenarioKills,
		"fired_single_distinct":               len(tl.firedKeys),
		"fired_single_fine":                   len(tl.firedFine),
		"fired_pairs_distinct":                len(tl.pairFired),
		"single_cases":                        len(singles),
		"pair_cases":                          pairCount,
		"not_fired_runs":                      tl.notFired,
		"fault_runs_with_spurious_extra_loss": tl.spurious,
		"child_processes":                     tl.children,
		"fired_per_method":                    tl.perMethod,
		"distinct_outcomes":                   len(tl.outcomes),
		"outcomes":                            tl.outcomes,
		"program_sizes":                       sizes,
		"slowest_run_ms":                      tl.maxMs,
		"rule":                                rule,
	})
}

func contains(s []string, x string) bool {
	for _, y := range s {
		if x == y {
			return true
		}
	}
	return false
}

func equalRows(a, b []string) bool {
	if len(a) != len(b) {
		return false
	}
	for i := range a {
		if a[i] != b[i] {
			return false
		}
	}
	return true
}

func faultKey(f vsys.Fault) string {
	v := f.Victim
	if v == "" {
		v = "callee"
	}
	return f.Label + "/" + f.Variant + "/" + v
}

// readVariants are the cut points inside a Worker.Read reply of n bytes:
// byte 0, the middle, the last byte, and the ends of encoded batches strictly
// inside the reply (all of them if all is set, else the first, the median and
// the last).
func readVariants(n int, bounds []int, all bool) []string {
	vs := []string{"mid:0"}
	add := func(k int) {
		v := fmt.Sprintf("mid:%d", k)
		if k > 0 && k < n && !contains(vs, v) {
			vs = append(vs, v)
		}
	}
	add(n / 2)
	add(n - 1)
	var inner []int
	for _, b := range bounds {
		if b > 0 && b < n {
			inner = append(inner, b)
		}
	}
	if !all && len(inner) > 3 {
		inner = []int{inner[0], inner[len(inner)/2], inner[len(inner)-1]}
	}
	for _, b := range inner {
		add(b)
	}
	return vs
}

// cutPoints: for a cuts-only program, every Worker.Read between tasks (not the
// final scan) x {before, after, afterreply, reply cut at byte 0, at the end of
// every encoded batch, in the middle of every batch, at the last byte}; the
// victim is the machine serving the read.
func cutPoints(inf *progInfo) []vsys.Fault {
	var out []vsys.Fault
	for _, l := range inf.alphabet {
		if methodOf(l) != "Worker.Read" || inf.scanOnly[l] {
			continue
		}
		n := inf.readLen[stripOcc(l)]
		vars := []string{"before", "after", "afterreply", "mid:0"}
		add := func(k int) {
			v := fmt.Sprintf("mid:%d", k)
			if k > 0 && k < n && !contains(vars, v) {
				vars = append(vars, v)
			}
		}
		prev := 0
		for _, b := range inf.bounds[stripOcc(l)] {
			add((prev + b) / 2)
			add(b)
			prev = b
		}
		add(n / 2)
		add(n - 1)
		for _, v := range vars {
			out = append(out, vsys.Fault{Label: l, Variant: v})
		}
	}
	return out
}

// singlePoints enumerates the fault points of a program from its alphabet.
func singlePoints(inf *progInfo) []vsys.Fault {
	var out []vsys.Fault
	for _, l := range inf.alphabet {
		vars := []string{"before", "after", "afterreply"}
		switch methodOf(l) {
		case "Worker.Read":
			vars = append(vars, readVariants(inf.readLen[stripOcc(l)], inf.bounds[stripOcc(l)], inf.scanOnly[l])...)
		case "Worker.Run", "Worker.Compile", "Worker.Stat":
			// the successful reply arrives after the driver has seen the machine
			// stop: the window between a call's completion and the driver
			// recording it
			vars = append(vars, "replylate")
		}
		for _, v := range vars {
			out = append(out, vsys.Fault{Label: l, Variant: v})
		}
		// Worker.Run, and the reads of the final scan (a machine holding another
		// shard of the result is lost while this shard is being read):
		if methodOf(l) == "Worker.Run" || (methodOf(l) == "Worker.Read" && inf.scanOnly[l]) {
			// every other machine: "other:<k>" = the k-th machine (by name) other
			// than the callee that is up when the call is made
			for k := 0; k+1 < len(inf.hosts); k++ {
				for _, v := range []string{"before", "after", "afterreply"} {
					out = append(out, vsys.Fault{Label: l, Variant: v, Victim: fmt.Sprintf("other:%d", k)})
				}
			}
		}
	}
	return out
}

func stripOcc(l string) string {
	if i := strings.LastIndexByte(l, '#'); i >= 0 {
		return l[:i]
	}
	return l
}

// secondPoints enumerates second faults from the history observed after the
// first fault of res fired.
func secondPoints(res cresult, inf *progInfo) []vsys.Fault {
	var out []vsys.Fault
	if len(res.FiredAt) == 0 || res.FiredAt[0] < 0 {
		return nil
	}
	// Only calls to live machines (killing a dead machine is a no-op), and of
	// the calls with the same method and key only the first one after the fault
	// (calls to a lost machine are retried dozens of times).
	seen := map[string]bool{}
	for _, l := range res.History[res.FiredAt[0]+1:] {
		if seen[stripOcc(l)] || contains(res.DeadCall, l) {
			continue
		}
		seen[stripOcc(l)] = true
		vars := []string{"before", "after", "afterreply"}
		switch methodOf(l) {
		case "Worker.Read":
			// a recomputed partition has the same length as in a failure-free run
			vars = append(vars, readVariants(inf.readLen[stripOcc(l)], inf.bounds[stripOcc(l)], false)...)
		case "Worker.Run":
			vars = append(vars, "replylate")
		}
		for _, v := range vars {
			out = append(out, vsys.Fault{Label: l, Variant: v})
		}
	}
	return out
}
