package main

import (
	"context"
	"fmt"
	"reflect"
	"sort"
	"strings"

	"github.com/grailbio/bigslice"
	"github.com/grailbio/bigslice/exec"
)

// The fault suite. Every program is a bigslice.Func registered at init (same
// order in the parent and in every child). Data are small and all columns are
// ints. The internal chunk size is set to 4 rows (see setup), so every task
// output consists of several encoded batches: a read that is cut and resumed
// crosses batch boundaries as it does with production-sized data.

func seq(n int) []int {
	out := make([]int, n)
	for i := range out {
		out[i] = i + 1
	}
	return out
}

func ones(n int) []int {
	out := make([]int, n)
	for i := range out {
		out[i] = 1
	}
	return out
}

// map-only: no shuffle; the result tasks are the only tasks.
var fMapOnly = bigslice.Func(func() bigslice.Slice {
	s := bigslice.Const(2, seq(14), seq(14))
	return bigslice.Map(s, func(k, v int) (int, int) { return k, v*10 + 1 })
})

// reduce: one shuffle with a combiner.
var fReduce = bigslice.Func(func() bigslice.Slice {
	s := bigslice.Const(2, seq(20), ones(20))
	s = bigslice.Map(s, func(k, v int) (int, int) { return k % 9, v })
	return bigslice.Reduce(s, func(a, b int) int { return a + b })
})

// cogroup: two sources, one shuffle without combiner.
var fCogroup = bigslice.Func(func() bigslice.Slice {
	a := bigslice.Const(2, []int{1, 2, 3, 4, 5, 6, 7, 8, 1, 2}, []int{10, 20, 30, 40, 50, 60, 70, 80, 11, 21})
	b := bigslice.Const(2, []int{2, 4, 6, 8, 10, 12, 2}, []int{200, 400, 600, 800, 1000, 1200, 201})
	return bigslice.Cogroup(a, b)
})

// fold: one shuffle, accumulation in a hash map (output order of a task is
// not fixed).
var fFold = bigslice.Func(func() bigslice.Slice {
	s := bigslice.Const(2, seq(60), seq(60))
	s = bigslice.Map(s, func(k, v int) (int, int) { return k % 40, v })
	return bigslice.Fold(s, func(acc int, v int) int { return acc + v })
})

// two-stage shuffle: reduce, re-key, reduce again.
var fTwoStage = bigslice.Func(func() bigslice.Slice {
	s := bigslice.Const(2, seq(24), ones(24))
	s = bigslice.Map(s, func(k, v int) (int, int) { return k % 12, v })
	s = bigslice.Reduce(s, func(a, b int) int { return a + b })
	s = bigslice.Map(s, func(k, v int) (int, int) { return k % 5, v })
	return bigslice.Reduce(s, func(a, b int) int { return a + b })
})

// reuse: fReuseA is run first; its Result is the argument of fReuseB (Map then
// Reduce: feeding a Result directly into Reduce is defect #5 of DESIGN §9 and
// belongs to C08/C12).
var fReuseA = bigslice.Func(func() bigslice.Slice {
	s := bigslice.Const(2, seq(16), seq(16))
	return bigslice.Map(s, func(k, v int) (int, int) { return k, v + 100 })
})

var fReuseB = bigslice.Func(func(prev bigslice.Slice) bigslice.Slice {
	s := bigslice.Map(prev, func(k, v int) (int, int) { return k % 6, v })
	return bigslice.Reduce(s, func(a, b int) int { return a + b })
})

// fReuseA1: the one-shard variant of fReuseA (spaced-losses history only).
// Registered after all other Funcs so that their indices do not change.
var fReuseA1 = bigslice.Func(func() bigslice.Slice {
	s := bigslice.Const(1, seq(16), seq(16))
	return bigslice.Map(s, func(k, v int) (int, int) { return k, v + 100 })
})

// Skewed shuffles: the map shards hold DISJOINT, ordered key ranges (Const
// shards are contiguous blocks of the rows), so in every partition the stream
// coming from the last map shard holds the largest keys and is the only one the
// consumer's merge still reads once the others are drained; every stream has
// several chunks. Used for cuts inside task-to-task reads only.
var fDisjReduce = bigslice.Func(func() bigslice.Slice {
	s := bigslice.Const(2, seq(48), seq(48))
	s = bigslice.Map(s, func(k, v int) (int, int) { return k, v + 1000 })
	return bigslice.Reduce(s, func(a, b int) int { return a + b })
})

var fDisjCogroup = bigslice.Func(func() bigslice.Slice {
	a := bigslice.Const(2, seq(16), seq(16))
	b := bigslice.Const(2, []int{3, 4, 7, 8, 11, 12, 15, 16, 19, 20}, []int{30, 40, 70, 80, 110, 120, 150, 160, 190, 200})
	return bigslice.Cogroup(a, b)
})

type program struct {
	// cutsOnly: only the task-to-task Worker.Read labels of this program are
	// fault points (reply cut at and inside every batch, and the plain variants).
	cutsOnly bool
	name     string
	// run evaluates the program on sess and returns the result to be scanned.
	run func(ctx context.Context, sess *exec.Session) (*exec.Result, error)
}

func single(f *bigslice.FuncValue) func(ctx context.Context, sess *exec.Session) (*exec.Result, error) {
	return func(ctx context.Context, sess *exec.Session) (*exec.Result, error) {
		return sess.Run(ctx, f)
	}
}

var programs = []program{
	{name: "maponly", run: single(fMapOnly)},
	{name: "reduce", run: single(fReduce)},
	{name: "cogroup", run: single(fCogroup)},
	{name: "fold", run: single(fFold)},
	{name: "twostage", run: single(fTwoStage)},
	{name: "disjreduce", run: single(fDisjReduce), cutsOnly: true},
	{name: "disjcogroup", run: single(fDisjCogroup), cutsOnly: true},
	{name: "reuse", run: func(ctx context.Context, sess *exec.Session) (*exec.Result, error) {
		a, err := sess.Run(ctx, fReuseA)
		if err != nil {
			return nil, err
		}
		return sess.Run(ctx, fReuseB, a)
	}},
}

func programByName(name string) *program {
	for i := range programs {
		if programs[i].name == name {
			return &programs[i]
		}
	}
	return nil
}

// outcome of Run + scan.
type outcome struct {
	RunErr  string   `json:"run_err,omitempty"`
	ScanErr string   `json:"scan_err,omitempty"`
	Rows    []string `json:"rows"` // sorted canonical rows delivered by the scanner
}

// canon renders one scanned value; slices (cogroup groups) are sorted because
// the order inside a group is not fixed by the documentation.
func canon(v reflect.Value) string {
	if v.Kind() == reflect.Slice {
		parts := make([]string, v.Len())
		for i := range parts {
			parts[i] = canon(v.Index(i))
		}
		sort.Strings(parts)
		return "[" + strings.Join(parts, " ") + "]"
	}
	return fmt.Sprint(v.Interface())
}

// runAndScan runs the program and scans its result completely.
func runAndScan(ctx context.Context, p *program, sess *exec.Session) (o outcome) {
	o.Rows = []string{}
	res, err := p.run(ctx, sess)
	if err != nil {
		o.RunErr = err.Error()
		return
	}
	sc := res.Scanner()
	ptrs := make([]interface{}, res.NumOut())
	vals := make([]reflect.Value, res.NumOut())
	for i := range ptrs {
		vals[i] = reflect.New(res.Out(i))
		ptrs[i] = vals[i].Interface()
	}
	for sc.Scan(ctx, ptrs...) {
		cols := make([]string, len(vals))
		for i := range vals {
			cols[i] = canon(vals[i].Elem())
		}
		o.Rows = append(o.Rows, strings.Join(cols, ":"))
	}
	if err := sc.Err(); err != nil {
		o.ScanErr = err.Error()
	}
	sc.Close()
	sort.Strings(o.Rows)
	return
}
