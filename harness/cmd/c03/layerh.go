package main

import (
	"errors"
	"fmt"
	"sort"
	"strings"
	"time"

	"github.com/grailbio/bigslice/exec"
	"verifh/ev"
)

// Layer H: the evaluator's scheduling core driven sequentially, exactly the way
// Eval's loop drives it (Enqueue roots; Return on completion; Runnable → hand out).

type hEvent struct {
	Kind string // "ok", "lost", "err" (completion of a handed-out task) or "chaos" (an OK task is lost)
	Task int
}

func (e hEvent) String() string { return fmt.Sprintf("%s(%d)", e.Kind, e.Task) }

type hDriver struct {
	g       *graph
	st      *exec.VerifC03EvalState
	out     map[*exec.Task]bool // in the executor's hands
	done    bool
	err     error
	fail    string
	nHand   int
	handLog []string
}

func (d *hDriver) failf(format string, a ...interface{}) {
	if d.fail == "" {
		d.fail = fmt.Sprintf(format, a...)
	}
}

// loopTop mirrors the top of Eval's loop up to and including the hand-out of runnable tasks.
func (d *hDriver) loopTop() {
	for _, r := range d.g.roots {
		d.st.Enqueue(r)
	}
	if d.st.Done() {
		d.done, d.err = true, d.st.Err()
		d.checkDone()
		return
	}
	d.handOut()
}

func (d *hDriver) handOut() {
	for _, t := range d.st.Runnable() {
		st := exec.VerifC03State(t)
		if st == exec.TaskLost {
			exec.VerifC03Init(t, exec.TaskInit, nil)
			st = exec.TaskInit
		}
		if st != exec.TaskInit {
			// running in another invocation: not modelled in the sequential layer
			d.failf("Runnable returned task %s in state %s", tname(t), st)
			continue
		}
		if d.out[t] {
			d.failf("task %s handed out twice", tname(t))
		}
		for _, dp := range depTasks(t) {
			if s := exec.VerifC03State(dp); s != exec.TaskOk {
				d.failf("task %s runnable while dependency %s is %s", tname(t), tname(dp), s)
			}
		}
		exec.VerifC03Init(t, exec.TaskWaiting, nil)
		d.out[t] = true
		d.nHand++
		d.handLog = append(d.handLog, tname(t))
	}
	if !d.st.Done() && len(d.out) == 0 {
		d.failf("evaluator idle with work outstanding: not done, nothing in the executor's hands (core: %s)", d.st.Dump())
	}
}

func (d *hDriver) checkDone() {
	if d.err == nil {
		for _, r := range d.g.roots {
			if s := exec.VerifC03State(r); s != exec.TaskOk {
				d.failf("evaluation reported success while root %s is %s", tname(r), s)
			}
		}
	}
}

// apply applies one event; returns false if the event is not enabled.
func (d *hDriver) apply(e hEvent) bool {
	if d.done {
		return false
	}
	t := d.g.tasks[e.Task]
	if e.Kind == "chaos" {
		if exec.VerifC03State(t) != exec.TaskOk {
			return false
		}
		exec.VerifC03Init(t, exec.TaskLost, nil)
		return true
	}
	if !d.out[t] {
		return false
	}
	delete(d.out, t)
	switch e.Kind {
	case "ok":
		exec.VerifC03Init(t, exec.TaskOk, nil)
	case "lost":
		// a run whose inputs are gone can only be lost; any run may be lost
		exec.VerifC03Init(t, exec.TaskLost, nil)
	case "err":
		exec.VerifC03Init(t, exec.TaskErr, errors.New("injected"))
	}
	if e.Kind == "ok" {
		for _, dp := range depTasks(t) {
			if exec.VerifC03State(dp) != exec.TaskOk {
				// realistic executor: cannot succeed without its inputs
				exec.VerifC03Init(t, exec.TaskLost, nil)
			}
		}
	}
	d.st.Return(t)
	// Eval: `for !state.Done() && !state.Todo() { wait }` then hand out; then loop top.
	if d.st.Done() {
		// loop falls through to the top: Enqueue roots again, then Done check
		d.loopTop()
		return true
	}
	if d.st.Todo() {
		d.handOut()
		d.loopTop()
	} else if len(d.out) == 0 {
		d.failf("evaluator idle with work outstanding after %v (core: %s)", e, d.st.Dump())
	}
	return true
}

func (d *hDriver) canon() string {
	var parts []string
	for i, t := range d.g.tasks {
		o := ""
		if d.out[t] {
			o = "*"
		}
		parts = append(parts, fmt.Sprintf("%d:%s%s", i, exec.VerifC03State(t), o))
	}
	return strings.Join(parts, ",") + "|" + d.st.Dump() + fmt.Sprintf("|done=%v err=%v", d.done, d.err != nil)
}

func newHDriver(spec graphSpec, init string) *hDriver {
	g := spec.build()
	for i, t := range g.tasks {
		s := stateNames[init[i]]
		var err error
		if s == exec.TaskErr {
			err = errors.New("failed earlier")
		}
		exec.VerifC03Init(t, s, err)
	}
	d := &hDriver{g: g, st: exec.VerifC03NewState(), out: map[*exec.Task]bool{}}
	d.loopTop()
	return d
}

type hResult struct {
	states, transitions, traces, depth int
	graphs                             []string
	wall                               float64
}

func runStateLayer(r *ev.Run, thorough bool) hResult {
	t0 := time.Now()
	depth := 5
	if thorough {
		depth = 7
	}
	var res hResult
	res.depth = depth
	states := ev.NewCounter()
	type job struct {
		spec graphSpec
		init string
	}
	var jobs []job
	for _, gs := range graphSpecs {
		for _, init := range allInits(gs.ntasks, "IOLE") {
			jobs = append(jobs, job{gs, init})
		}
		res.graphs = append(res.graphs, gs.name)
	}
	// the 5-task re-shuffle graph (phase members with different dependencies): every
	// assignment of initial states too
	{
		gs := specByName("reshuffle")
		for _, init := range allInits(gs.ntasks, "IOLE") {
			jobs = append(jobs, job{gs, init})
		}
		res.graphs = append(res.graphs, gs.name)
	}
	type out struct{ transitions, traces int }
	outs := make([]out, len(jobs))
	ev.Parallel(len(jobs), 16, func(ji int) {
		j := jobs[ji]
		// BFS over histories; successor = replay on a fresh real object.
		frontier := [][]hEvent{nil}
		seen := map[string]bool{}
		d0 := newHDriver(j.spec, j.init)
		if d0.fail != "" {
			reportH(r, j.spec.name, j.init, nil, d0.fail)
			return
		}
		// ERR at entry: roots in ERR must not yield success (C03: success only when every root completed)
		seen[d0.canon()] = true
		states.Add(j.spec.name + "@" + j.init + "#" + d0.canon())
		for lvl := 0; lvl < depth && len(frontier) > 0; lvl++ {
			var next [][]hEvent
			for _, hist := range frontier {
				var evs []hEvent
				for ti := range d0.g.tasks {
					for _, k := range []string{"ok", "lost", "err", "chaos"} {
						evs = append(evs, hEvent{k, ti})
					}
				}
				for _, e := range evs {
					d := newHDriver(j.spec, j.init)
					for _, pe := range hist {
						d.apply(pe)
					}
					if !d.apply(e) {
						continue
					}
					outs[ji].transitions++
					outs[ji].traces++
					h2 := append(append([]hEvent{}, hist...), e)
					if d.fail != "" {
						reportH(r, j.spec.name, j.init, h2, d.fail)
						continue
					}
					// consecutive losses are unbounded in this layer (no runner bookkeeping): cap by depth only
					c := d.canon()
					if !seen[c] {
						seen[c] = true
						states.Add(j.spec.name + "@" + j.init + "#" + c)
						next = append(next, h2)
					}
				}
			}
			frontier = next
		}
	})
	for _, o := range outs {
		res.transitions += o.transitions
		res.traces += o.traces
	}
	res.states = states.Distinct()
	res.wall = time.Since(t0).Seconds()
	r.Sample(map[string]interface{}{"layer": "H", "graph": "diamond", "init": "IIII", "history": []string{"ok(0)", "lost(1)", "ok(2)", "chaos(0)", "ok(1)"},
		"meaning": "events complete handed-out tasks or lose completed ones; after each the real state.Return/Enqueue/Runnable run and invariants are checked"})
	return res
}

func reportH(r *ev.Run, g, init string, hist []hEvent, what string) {
	class := what
	for _, cut := range []string{" task ", " root ", " after ", " (core"} {
		if i := strings.Index(class, cut); i > 0 {
			class = class[:i]
		}
	}
	var hs []string
	for _, e := range hist {
		hs = append(hs, e.String())
	}
	initClass := "fresh"
	if strings.Contains(init, "E") {
		initClass = "entry-with-ERR"
	} else if strings.ContainsAny(init, "OL") {
		initClass = "reused"
	}
	sort.Strings(nil)
	r.Violate(fmt.Sprintf("C03/layerH/%s/%s", initClass, class),
		fmt.Sprintf("scheduling core, graph %s init %s, history %v: %s", g, init, hs, what),
		map[string]interface{}{"graph": g, "init": init, "history": hs, "failure": what})
}
