// C03 — evaluator: tasks start only when ready; success only when done; always progress.
//
// Layer S: the real exec.Eval, instrumented, runs under the controlled scheduler
// (vsched) on hand-built task graphs with a harness Executor whose task outcomes
// (OK / LOST / ERR) are environment choices; all schedules up to a delay bound and
// a preemption bound are enumerated, for every assignment of initial task states.
// Layer H: the evaluator's unexported scheduling core (state.Enqueue/Return/
// Runnable/Done) is driven sequentially through every history of task outcomes up
// to a depth (explicit-state search, replay on fresh objects).
package main

import (
	"context"
	"errors"
	"fmt"
	"net/http"
	"reflect"
	"sort"
	"strings"
	"time"

	"github.com/grailbio/base/eventlog"
	"github.com/grailbio/bigslice/exec"
	"github.com/grailbio/bigslice/sliceio"
	"github.com/grailbio/bigslice/verifrt/vsched"
	"verifh/ev"
	"verifh/mc"
	"verifh/vsys"
)

// ---- graphs -------------------------------------------------------------------

type graph struct {
	name  string
	tasks []*exec.Task // topological order (dependencies first)
	roots []*exec.Task
}

func mkTask(op string, shard int, deps ...exec.TaskDep) *exec.Task {
	return &exec.Task{Name: exec.TaskName{InvIndex: 1, Op: op, Shard: shard, NumShard: 1}, Deps: deps}
}

func dep(t *exec.Task) exec.TaskDep { return exec.TaskDep{Head: t} }

type graphSpec struct {
	name   string
	ntasks int
	build  func() *graph
}

var graphSpecs = []graphSpec{
	{"single", 1, func() *graph {
		a := mkTask("a", 0)
		return &graph{"single", []*exec.Task{a}, []*exec.Task{a}}
	}},
	{"chain2", 2, func() *graph {
		a := mkTask("a", 0)
		b := mkTask("b", 0, dep(a))
		return &graph{"chain2", []*exec.Task{a, b}, []*exec.Task{b}}
	}},
	{"chain3", 3, func() *graph {
		a := mkTask("a", 0)
		b := mkTask("b", 0, dep(a))
		c := mkTask("c", 0, dep(b))
		return &graph{"chain3", []*exec.Task{a, b, c}, []*exec.Task{c}}
	}},
	{"diamond", 4, func() *graph {
		a := mkTask("a", 0)
		b := mkTask("b", 0, dep(a))
		c := mkTask("c", 0, dep(a))
		d := mkTask("d", 0, dep(b), dep(c))
		return &graph{"diamond", []*exec.Task{a, b, c, d}, []*exec.Task{d}}
	}},
	{"tworoots", 3, func() *graph {
		a := mkTask("a", 0)
		r1 := mkTask("r1", 0, dep(a))
		r2 := mkTask("r2", 0, dep(a))
		return &graph{"tworoots", []*exec.Task{a, r1, r2}, []*exec.Task{r1, r2}}
	}},
	{"shuffle", 4, func() *graph {
		// two producers forming a phase, two consumers forming a phase; each consumer
		// depends on the whole producer phase (one partition each).
		p0 := mkTask("p", 0)
		p1 := mkTask("p", 1)
		p0.Group = []*exec.Task{p0, p1}
		p1.Group = p0.Group
		c0 := mkTask("c", 0, exec.TaskDep{Head: p0, Partition: 0})
		c1 := mkTask("c", 1, exec.TaskDep{Head: p0, Partition: 1})
		c0.Group = []*exec.Task{c0, c1}
		c1.Group = c0.Group
		return &graph{"shuffle", []*exec.Task{p0, p1, c0, c1}, []*exec.Task{c0, c1}}
	}},
}

// extraSpecs are graphs used by particular plans only (not crossed with every
// assignment of initial states).
var extraSpecs = []graphSpec{
	{"forkphase", 4, func() *graph {
		// a producer phase shared by two independent single-task consumers (two slices
		// computed from one shuffle): the roots of two different evaluations
		p0 := mkTask("p", 0)
		p1 := mkTask("p", 1)
		p0.Group = []*exec.Task{p0, p1}
		p1.Group = p0.Group
		x := mkTask("x", 0, exec.TaskDep{Head: p0, Partition: 0})
		y := mkTask("y", 0, exec.TaskDep{Head: p0, Partition: 0})
		return &graph{"forkphase", []*exec.Task{p0, p1, x, y}, []*exec.Task{x, y}}
	}},
	{"wide", 11, func() *graph {
		// a phase of 10 producers (more than Eval's completion channel buffers: 8) read by one consumer
		var ps []*exec.Task
		for i := 0; i < 10; i++ {
			ps = append(ps, mkTask("p", i))
		}
		for _, p := range ps {
			p.Group = ps
		}
		c := mkTask("c", 0, exec.TaskDep{Head: ps[0], Partition: 0})
		return &graph{"wide", append(append([]*exec.Task{}, ps...), c), []*exec.Task{c}}
	}},
	{"reshuffle", 5, func() *graph {
		// a phase whose members have DIFFERENT one-to-one dependencies (the re-shuffle
		// tasks the compiler inserts over a reused result, a Materialize boundary):
		// s0 reads r0, s1 reads r1, the consumer reads the whole phase {s0,s1}.
		r0 := mkTask("r", 0)
		r1 := mkTask("r", 1)
		s0 := mkTask("s", 0, dep(r0))
		s1 := mkTask("s", 1, dep(r1))
		s0.Group = []*exec.Task{s0, s1}
		s1.Group = s0.Group
		c := mkTask("c", 0, exec.TaskDep{Head: s0, Partition: 0})
		return &graph{"reshuffle", []*exec.Task{r0, r1, s0, s1, c}, []*exec.Task{c}}
	}},
}

func specByName(n string) graphSpec {
	for _, g := range append(append([]graphSpec{}, graphSpecs...), extraSpecs...) {
		if g.name == n {
			return g
		}
	}
	panic("no graph " + n)
}

// depTasks expands a task's dependencies through groups.
func depTasks(t *exec.Task) []*exec.Task {
	var out []*exec.Task
	for _, d := range t.Deps {
		for i := 0; i < d.NumTask(); i++ {
			out = append(out, d.Task(i))
		}
	}
	return out
}

// ---- harness executor + monitor -------------------------------------------------

type env struct {
	lostBudget int  // number of LOST outcomes the environment may choose
	allowErr   bool // environment may choose a fatal error
	chaos      int  // number of times a completed (OK) task may be lost later (at any harness step)
	alwaysLost bool // every run is lost (consecutive-loss limit scenario)
	seq        int  // number of sequential evaluations by the main thread (default 1)
}

var monitorKey uintptr = 0x5eed

type hexec struct {
	g          *graph
	env        env
	lostLeft   int
	chaosLeft  int
	row        map[*exec.Task]int // consecutive lost runs per task, as the evaluator sees them
	running    map[*exec.Task]bool
	everOK     map[*exec.Task]bool // task has been OK at some point (incl. entry)
	stableOK   map[*exec.Task]bool // OK at entry and never lost since
	handouts   map[*exec.Task]int
	choseErr   []*exec.Task
	strictDeps bool // no later loss possible: dependencies must be OK at hand-out
	evalActive int
	anyErrAtEntry bool
}

func (*hexec) Name() string                              { return "harness" }
func (*hexec) Start(*exec.Session) func()                { return nil }
func (*hexec) Reader(*exec.Task, int) sliceio.ReadCloser { return nil }
func (*hexec) Discard(context.Context, *exec.Task)       {}
func (*hexec) Eventer() eventlog.Eventer                 { return eventlog.Nop{} }
func (*hexec) HandleDebug(*http.ServeMux)                {}

func newHexec(g *graph, e env) *hexec {
	h := &hexec{g: g, env: e, lostLeft: e.lostBudget, chaosLeft: e.chaos, row: map[*exec.Task]int{}, running: map[*exec.Task]bool{}, everOK: map[*exec.Task]bool{},
		stableOK: map[*exec.Task]bool{}, handouts: map[*exec.Task]int{}, strictDeps: e.chaos == 0}
	for _, t := range g.tasks {
		if exec.VerifC03State(t) == exec.TaskOk {
			h.everOK[t] = true
			h.stableOK[t] = true
		}
	}
	return h
}

// needed reports whether t is reachable from a root along a path on which no task
// (other than t) has been continuously OK since entry.
func (h *hexec) needed(t *exec.Task) bool {
	var walk func(x *exec.Task) bool
	seen := map[*exec.Task]bool{}
	walk = func(x *exec.Task) bool {
		if x == t {
			return true
		}
		if seen[x] || h.stableOK[x] {
			return false
		}
		seen[x] = true
		for _, d := range depTasks(x) {
			if walk(d) {
				return true
			}
		}
		return false
	}
	for _, r := range h.g.roots {
		if walk(r) {
			return true
		}
	}
	return false
}

// Run is called by the evaluator on its own goroutine (a managed thread).
func (h *hexec) Run(task *exec.Task) {
	vsched.Touch(monitorKey)
	h.handouts[task]++
	if h.running[task] {
		vsched.Fail("task %s handed out twice at the same time", task.Name.Op+fmt.Sprint(task.Name.Shard))
	}
	h.running[task] = true
	if st := exec.VerifC03State(task); st != exec.TaskWaiting {
		vsched.Fail("task %s handed to the executor in state %s (want WAITING)", tname(task), st)
	}
	h.maybeChaos("start:" + tname(task))
	depsOK := true
	for _, d := range depTasks(task) {
		st := exec.VerifC03State(d)
		if st != exec.TaskOk {
			depsOK = false
		}
		if st == exec.TaskErr {
			vsched.Fail("task %s handed out while dependency %s is in ERROR", tname(task), tname(d))
		} else if !h.everOK[d] {
			vsched.Fail("task %s handed out although dependency %s (state %s) has never completed successfully", tname(task), tname(d), st)
		} else if h.strictDeps && st != exec.TaskOk {
			vsched.Fail("task %s handed out while dependency %s is %s", tname(task), tname(d), st)
		}
	}
	if !h.needed(task) {
		vsched.Fail("task %s handed out although no root needs it", tname(task))
	}
	task.Set(exec.TaskRunning)
	h.maybeChaos("running:" + tname(task))
	// environment decides the outcome
	outcome := 0
	switch {
	case h.env.alwaysLost:
		outcome = 1
	case !depsOK:
		outcome = 1 // a run whose inputs are gone can only be lost
	default:
		n := 1
		// A chosen loss must keep the task's run of consecutive losses (chosen ones, plus
		// the forced ones that later chaos losses can still cause) below the evaluator's limit.
		canLose := h.lostLeft > 0 && h.row[task]+1+h.env.chaos < exec.VerifC03MaxConsecutiveLost
		if canLose {
			n = 2
			h.lostLeft-- // reserve before the Choose point (a scheduling point)
		}
		if h.env.allowErr {
			n = 3
		}
		c := vsched.Choose("outcome:"+tname(task), n)
		vsched.Touch(monitorKey)
		if c == 1 && !canLose {
			c = 0
		}
		if canLose && c != 1 {
			h.lostLeft++ // not used
		}
		outcome = c
	}
	vsched.Touch(monitorKey)
	h.running[task] = false
	switch outcome {
	case 0:
		h.everOK[task] = true
		h.row[task] = 0
		task.Set(exec.TaskOk)
	case 1:
		h.row[task]++
		h.stableOK[task] = false
		task.Set(exec.TaskLost)
	case 2:
		h.choseErr = append(h.choseErr, task)
		task.Error(errors.New("injected fatal error"))
	}
}

func tname(t *exec.Task) string { return fmt.Sprintf("%s%d", t.Name.Op, t.Name.Shard) }

// maybeChaos is an environment step: a completed (OK) task may be lost now (its machine
// died). It is a Choose point of the calling thread, so every placement of the loss at
// every harness step is enumerated without costing scheduling deviations.
func (h *hexec) maybeChaos(site string) {
	vsched.Touch(monitorKey)
	if h.chaosLeft == 0 {
		return
	}
	var cands []*exec.Task
	for _, t := range h.g.tasks {
		if exec.VerifC03State(t) == exec.TaskOk {
			cands = append(cands, t)
		}
	}
	if len(cands) == 0 {
		return
	}
	// Take the token before the Choose point (a scheduling point): otherwise two runs
	// that reach this step concurrently would both pass the budget test above.
	h.chaosLeft--
	c := vsched.Choose("chaos@"+site, len(cands)+1)
	if c == 0 {
		vsched.Touch(monitorKey)
		h.chaosLeft++
		return
	}
	t := cands[c-1]
	vsched.Touch(monitorKey)
	h.stableOK[t] = false
	if t.State() == exec.TaskOk {
		t.Set(exec.TaskLost)
	}
}

// checkReturn is the oracle evaluated when an Eval call returns.
func (h *hexec) checkReturn(err error, roots []*exec.Task) {
	vsched.Touch(monitorKey)
	if err == nil {
		for _, r := range roots {
			if st := exec.VerifC03State(r); st == exec.TaskErr {
				vsched.Fail("Eval returned nil but root %s is in ERROR", tname(r))
			} else if !h.everOK[r] {
				vsched.Fail("Eval returned nil but root %s (state %s) never completed successfully", tname(r), st)
			}
		}
		for _, t := range h.choseErr {
			if inClosure(roots, t) {
				vsched.Fail("Eval returned nil although task %s failed fatally", tname(t))
			}
		}
		return
	}
	if errors.Is(err, context.Canceled) {
		vsched.Fail("Eval returned context.Canceled without cancellation: %v", err)
		return
	}
	if h.env.alwaysLost {
		return
	}
	// an error is legitimate only if some task this evaluation needs failed fatally (now or
	// before entry); an evaluation of other roots is not concerned by it
	mine := false
	for _, t := range h.choseErr {
		if inClosure(roots, t) {
			mine = true
		}
	}
	if !mine && !h.anyErrAtEntry {
		vsched.Fail("Eval returned an error although no task failed fatally and losses stayed below the limit: %v", firstLine(err.Error()))
	}
}

// inClosure reports whether t is one of roots or a (transitive) dependency of one.
func inClosure(roots []*exec.Task, t *exec.Task) bool {
	seen := map[*exec.Task]bool{}
	var walk func(x *exec.Task) bool
	walk = func(x *exec.Task) bool {
		if x == t {
			return true
		}
		if seen[x] {
			return false
		}
		seen[x] = true
		for _, d := range depTasks(x) {
			if walk(d) {
				return true
			}
		}
		return false
	}
	for _, r := range roots {
		// the evaluator treats a root's phase as a unit
		for _, x := range r.Phase() {
			if walk(x) {
				return true
			}
		}
	}
	return false
}

func firstLine(s string) string {
	if i := strings.IndexByte(s, '\n'); i >= 0 {
		return s[:i]
	}
	return s
}

// ---- scenarios ------------------------------------------------------------------

var stateNames = map[byte]exec.TaskState{'I': exec.TaskInit, 'O': exec.TaskOk, 'L': exec.TaskLost, 'E': exec.TaskErr}

type scenState struct {
	h       *hexec
	errs    []error
	outcome string
}

// makeScenario builds scenario "<graph>@<init>/<env>[/2]" e.g. "diamond@IOLI/loss1".
// evalsSplit as the evals argument of makeScenario selects the "/2split" variant.
const evalsSplit = 3

func makeScenario(gname, init, envName string, evals int) *mc.Scenario {
	spec := specByName(gname)
	var e env
	switch envName {
	case "ok":
	case "loss1":
		e = env{lostBudget: 1}
	case "loss2":
		e = env{lostBudget: 2}
	case "loss4":
		// one below the consecutive-loss limit: the evaluation must still succeed, however
		// many evaluations watch the losses
		e = env{lostBudget: 4}
	case "err":
		e = env{lostBudget: 1, allowErr: true}
	case "chaos1":
		e = env{chaos: 1}
	case "chaos1loss1":
		e = env{chaos: 1, lostBudget: 1}
	case "alwayslost":
		e = env{alwaysLost: true}
	case "rows":
		// many losses, but never maxConsecutiveLost in a row; two sequential evaluations with a loss in between
		e = env{lostBudget: 6, chaos: 1, seq: 2}
	case "seq2chaos1":
		e = env{chaos: 1, seq: 2, lostBudget: 1}
	default:
		panic("env " + envName)
	}
	name := fmt.Sprintf("%s@%s/%s", gname, init, envName)
	if evals == 2 {
		name += "/2"
	}
	// split: two concurrent evaluations, the first of all roots, the second of the last
	// root only — one can end (with a task's fatal error) while the other still waits
	// for a task they share
	split := evals == evalsSplit
	if split {
		name += "/2split"
		evals = 2
	}
	st := &scenState{}
	sc := &mc.Scenario{Name: name}
	sc.Body = func() {
		g := spec.build()
		anyErr := false
		for i, t := range g.tasks {
			s := stateNames[init[i]]
			var err error
			if s == exec.TaskErr {
				err = errors.New("failed in an earlier invocation")
				anyErr = true
			}
			exec.VerifC03Init(t, s, err)
		}
		h := newHexec(g, e)
		h.anyErrAtEntry = anyErr
		st.h = h
		st.errs = make([]error, evals)
		finished := 0
		if evals == 1 {
			n := e.seq
			if n == 0 {
				n = 1
			}
			for k := 0; k < n; k++ {
				if k == 0 {
					h.maybeChaos("before-eval")
				}
				if k > 0 {
					h.maybeChaos("between-evals")
					// a new invocation: what was OK and still is counts as reused
					for _, t := range g.tasks {
						h.stableOK[t] = exec.VerifC03State(t) == exec.TaskOk
					}
				}
				err := exec.Eval(context.Background(), h, g.roots, nil)
				st.errs[0] = err
				h.checkReturn(err, g.roots)
			}
			finished++
		} else {
			var wg vsched.WaitGroup
			for k := 0; k < evals; k++ {
				k := k
				wg.Add(1)
				vsched.Go(fmt.Sprintf("eval%d", k), func() {
					defer wg.Done()
					roots := g.roots
					if split && k == 1 {
						roots = g.roots[len(g.roots)-1:]
					}
					err := exec.Eval(context.Background(), h, roots, nil)
					st.errs[k] = err
					vsched.Touch(monitorKey)
					finished++
					h.checkReturn(err, roots)
				})
			}
			wg.Wait()
		}
		if e.alwaysLost {
			// consecutive-loss limit: exactly maxConsecutiveLost hand-outs of the (needed) leaf, then an error
			for _, t := range g.tasks {
				// With two concurrent evaluations the runner's bookkeeping of a loss can be
				// overtaken by the other evaluation's resubmission, so the count may exceed
				// the limit there; giving up early is wrong in every case.
				bad := h.handouts[t] != exec.VerifC03MaxConsecutiveLost
				if evals > 1 {
					bad = h.handouts[t] < exec.VerifC03MaxConsecutiveLost
				}
				if len(depTasks(t)) == 0 && h.handouts[t] > 0 && bad {
					vsched.Fail("task %s was handed out %d times before the evaluator gave up (limit %d)", tname(t), h.handouts[t], exec.VerifC03MaxConsecutiveLost)
				}
			}
			for k, err := range st.errs {
				if err == nil {
					vsched.Fail("Eval #%d returned nil although every run was lost", k)
				}
			}
		}
		// outcome label
		var parts []string
		for _, err := range st.errs {
			if err == nil {
				parts = append(parts, "ok")
			} else {
				parts = append(parts, "err")
			}
		}
		var hs []string
		for _, t := range g.tasks {
			hs = append(hs, fmt.Sprintf("%s:%d:%s", tname(t), h.handouts[t], exec.VerifC03State(t)))
		}
		st.outcome = strings.Join(parts, ",") + " " + strings.Join(hs, " ")
	}
	sc.Outcome = func() string { return st.outcome }
	sc.Class = classify
	initClass := "fresh"
	if strings.Contains(init, "E") {
		initClass = "entry-with-ERR"
	} else if strings.ContainsAny(init, "OL") {
		initClass = "reused"
	}
	sc.SigGroup = fmt.Sprintf("S/%s/evals%d", initClass, evals)
	if split {
		sc.SigGroup += "split"
	}
	return sc
}

// classify maps an error message to a signature class (task names and counts removed).
func classify(err string) string {
	l := firstLine(err)
	switch {
	case strings.HasPrefix(l, "deadlock"):
		return "deadlock"
	case strings.Contains(l, "twice at the same time"):
		return "double-handout"
	case strings.Contains(l, "is in ERROR") && strings.Contains(l, "handed out"):
		return "handout-over-failed-dependency"
	case strings.Contains(l, "never completed successfully") && strings.Contains(l, "handed out"):
		return "handout-before-dependency-completed"
	case strings.Contains(l, "handed out while dependency"):
		return "handout-while-dependency-not-ok"
	case strings.Contains(l, "no root needs it"):
		return "unneeded-task-run"
	case strings.Contains(l, "returned nil but root") && strings.Contains(l, "ERROR"):
		return "success-with-root-in-error"
	case strings.Contains(l, "returned nil but root"):
		return "success-with-root-not-done"
	case strings.Contains(l, "returned nil although task"):
		return "success-despite-fatal-task-error"
	case strings.Contains(l, "returned an error although"):
		return "spurious-error"
	case strings.Contains(l, "before the evaluator gave up"):
		return "consecutive-loss-limit"
	case strings.Contains(l, "although every run was lost"):
		return "success-although-always-lost"
	case strings.Contains(l, "in state"):
		return "handout-in-wrong-state"
	}
	return l
}

// allInits enumerates init-state strings over alphabet for n tasks.
func allInits(n int, alphabet string) []string {
	out := []string{""}
	for i := 0; i < n; i++ {
		var next []string
		for _, p := range out {
			for _, c := range alphabet {
				next = append(next, p+string(c))
			}
		}
		out = next
	}
	return out
}

type planSpec struct {
	graph, init, env string
	evals            int
	delay            bool
	bound            int
}

func buildPlans(thorough bool) []planSpec {
	var ps []planSpec
	add := func(g, init, env string, evals int, delay bool, bound int) {
		ps = append(ps, planSpec{g, init, env, evals, delay, bound})
	}
	for _, gs := range graphSpecs {
		n := gs.ntasks
		fresh := strings.Repeat("I", n)
		allOK := strings.Repeat("O", n)
		// every assignment of initial states (results of earlier invocations reused)
		for _, init := range allInits(n, "IOLE") {
			hasErr := strings.Contains(init, "E")
			b := 1
			if thorough {
				b = 2
				if n <= 3 {
					b = 3
				}
			}
			add(gs.name, init, "loss1", 1, true, b)
			if !hasErr && (thorough || n <= 3) {
				add(gs.name, init, "err", 1, true, b)
			}
		}
		if !thorough {
			add(gs.name, fresh, "loss1", 1, true, 2)
			add(gs.name, fresh, "err", 1, true, 2)
			add(gs.name, fresh, "loss2", 1, true, 2)
			add(gs.name, fresh, "chaos1", 1, true, 2)
			add(gs.name, allOK, "chaos1", 1, true, 2)
			add(gs.name, fresh, "chaos1loss1", 1, true, 1)
			if n <= 3 {
				add(gs.name, fresh, "loss1", 1, false, 1)
				add(gs.name, fresh, "err", 1, false, 1)
			}
			switch {
			case n <= 2:
				add(gs.name, fresh, "loss1", 2, true, 2)
				add(gs.name, fresh, "err", 2, true, 2)
				add(gs.name, fresh, "ok", 2, false, 1)
			default:
				add(gs.name, fresh, "loss1", 2, true, 1)
				add(gs.name, fresh, "err", 2, true, 1)
			}
			continue
		}
		add(gs.name, fresh, "loss1", 1, true, 3)
		add(gs.name, fresh, "err", 1, true, 3)
		add(gs.name, fresh, "loss2", 1, true, 3)
		add(gs.name, fresh, "chaos1", 1, true, 3)
		add(gs.name, allOK, "chaos1", 1, true, 3)
		add(gs.name, fresh, "chaos1loss1", 1, true, 2)
		add(gs.name, fresh, "loss1", 1, false, 2)
		add(gs.name, fresh, "err", 1, false, 2)
		add(gs.name, fresh, "loss1", 2, true, 3)
		add(gs.name, fresh, "err", 2, true, 2)
		add(gs.name, fresh, "loss1", 2, false, 1)
		add(gs.name, fresh, "err", 2, false, 1)
	}
	b := 2
	if thorough {
		b = 3
	}
	// two concurrent evaluations of different root sets sharing tasks; one may end in an error
	for _, g := range []string{"tworoots", "forkphase"} {
		fresh := strings.Repeat("I", specByName(g).ntasks)
		add(g, fresh, "err", evalsSplit, true, b)
		add(g, fresh, "loss1", evalsSplit, true, b-1)
		add(g, fresh, "err", evalsSplit, false, 1)
	}
	// a phase with per-member dependencies in different states (reused result, one shard lost)
	for _, init := range []string{"IIIII", "OLIII", "LOIII", "OOIII", "LLIII", "OLOLI", "OLLOI", "OOOOI", "OOLLI"} {
		add("reshuffle", init, "loss1", 1, true, b-1)
	}
	add("reshuffle", "OLIII", "err", 1, true, b-1)
	// more simultaneous completions than the evaluator's completion channel buffers
	add("wide", strings.Repeat("I", 11), "ok", 1, true, b-1)
	add("wide", strings.Repeat("I", 11), "loss1", 1, true, b-1)
	add("wide", strings.Repeat("L", 10)+"I", "loss1", 1, true, b-1)
	add("wide", strings.Repeat("I", 11), "loss1", 2, true, 0)
	add("reshuffle", "IIIII", "chaos1", 1, true, b-1)
	add("single", "I", "loss4", 1, true, b)
	add("single", "I", "loss4", 2, true, b)
	add("chain2", "II", "loss4", 2, true, b-1)
	add("tworoots", "III", "loss4", evalsSplit, true, b-1)
	add("single", "I", "alwayslost", 1, true, b)
	add("chain2", "II", "alwayslost", 1, true, b)
	add("chain2", "OI", "alwayslost", 1, true, b)
	add("single", "I", "alwayslost", 2, true, b-1)
	// many non-consecutive losses, sequential evaluations reusing the tasks
	for _, g := range []string{"single", "chain2"} {
		fresh := strings.Repeat("I", specByName(g).ntasks)
		add(g, fresh, "rows", 1, true, b-1)
		add(g, fresh, "seq2chaos1", 1, true, b)
	}
	add("chain3", "III", "seq2chaos1", 1, true, b-1)
	add("diamond", "IIII", "seq2chaos1", 1, true, b-1)
	return ps
}

func main() {
	vsys.Quiet()
	vsched.RegisterNamer(reflect.TypeOf((*exec.Task)(nil)), func(k interface{}) string { return k.(*exec.Task).Name.String() })
	thorough := false
	// build the scenario registry for both tiers (children need to find theirs)
	var scenarios []*mc.Scenario
	seen := map[string]bool{}
	for _, t := range []bool{false, true} {
		for _, p := range buildPlans(t) {
			sc := makeScenario(p.graph, p.init, p.env, p.evals)
			if !seen[sc.Name] {
				seen[sc.Name] = true
				scenarios = append(scenarios, sc)
			}
		}
	}
	mc.ChildMain(scenarios)

	r := ev.Start("C03", "model_checking")
	thorough = r.Thorough()
	r.Assume = append(r.Assume,
		"vsched: explored code is data-race free apart from what the separate race pass reports; every blocking interaction between explored goroutines goes through an instrumented construct; 64-bit history hashes do not collide",
		"harness executor is realistic: a run whose dependencies are not OK can only end LOST; environment losses stay below maxConsecutiveLost except in the alwayslost scenarios")
	t0 := time.Now()
	hres := runStateLayer(r, thorough)
	budget := 40 * time.Second
	if thorough {
		budget = 10 * time.Minute
	}
	var plans []mc.Plan
	for _, p := range buildPlans(thorough) {
		name := makeScenarioName(p)
		plans = append(plans, mc.Plan{Scenario: name, Delay: p.delay, Bound: p.bound, Budget: budget})
	}
	sum := mc.RunPlans(r, scenarios, plans)
	cov := sum.Coverage("layer S: real exec.Eval (instrumented) under the vsched scheduler with a harness Executor; per plan all schedules with <= bound deviations (delay bounding) or preemptions from the default scheduler, modulo happens-before equivalence, times all environment choices (task outcome OK/LOST/ERR, which completed task is lost later); graphs single/chain2/chain3/diamond/tworoots/shuffle-phase (+ forkphase and reshuffle = a phase whose members have different one-to-one dependencies, selected initial states), every assignment of initial states INIT/OK/LOST/ERR, one and two concurrent evaluations. layer H: explicit-state search of the evaluator's scheduling core")
	// keep the plan table compact: aggregate per (graph, env, discipline)
	cov["plans"] = compactPlans(sum)
	cov["states"] = cov["states"].(int) + hres.states
	cov["transitions"] = cov["transitions"].(int) + hres.transitions
	cov["traces_validated_against_impl"] = cov["traces_validated_against_impl"].(int) + hres.traces
	cov["layerH"] = map[string]interface{}{"states": hres.states, "transitions": hres.transitions, "histories": hres.traces, "max_depth": hres.depth, "graphs": hres.graphs}
	cov["wall_layers_s"] = map[string]float64{"H": hres.wall, "S": time.Since(t0).Seconds() - hres.wall}
	if sum.Machinery > 0 {
		r.NotExhaustive(fmt.Sprintf("%d plans hit a machinery error (see stderr)", sum.Machinery))
	}
	r.Finish(cov)
}

func makeScenarioName(p planSpec) string {
	name := fmt.Sprintf("%s@%s/%s", p.graph, p.init, p.env)
	if p.evals == 2 {
		name += "/2"
	}
	if p.evals == evalsSplit {
		name += "/2split"
	}
	return name
}

func compactPlans(sum *mc.Summary) interface{} {
	type agg struct {
		Plans, Executions, Complete, Pruned, States, Steps, MaxDepth int
		MinBound                                                 int
		NotExhausted                                             int
	}
	m := map[string]*agg{}
	for _, pr := range sum.Results {
		g := pr.Plan.Scenario
		if i := strings.IndexByte(g, '@'); i >= 0 {
			rest := g[i+1:]
			envp := rest[strings.IndexByte(rest, '/'):]
			g = g[:i] + envp
		}
		d := "preempt"
		if pr.Plan.Delay {
			d = "delay"
		}
		k := fmt.Sprintf("%s %s<=%d", g, d, pr.Plan.Bound)
		a := m[k]
		if a == nil {
			a = &agg{MinBound: 1 << 30}
			m[k] = a
		}
		a.Plans++
		a.Executions += pr.Executions
		a.Complete += pr.Complete
		a.Pruned += pr.Pruned
		a.States += pr.States
		a.Steps += pr.Steps
		if pr.MaxDepth > a.MaxDepth {
			a.MaxDepth = pr.MaxDepth
		}
		if pr.BoundCompleted < a.MinBound {
			a.MinBound = pr.BoundCompleted
		}
		if !pr.Exhausted {
			a.NotExhausted++
		}
	}
	var keys []string
	for k := range m {
		keys = append(keys, k)
	}
	sort.Strings(keys)
	var out []map[string]interface{}
	for _, k := range keys {
		a := m[k]
		out = append(out, map[string]interface{}{"group": k, "init_assignments": a.Plans, "executions": a.Executions, "complete": a.Complete,
			"pruned": a.Pruned, "states": a.States, "transitions": a.Steps, "max_depth": a.MaxDepth, "min_bound_completed": a.MinBound, "not_exhausted": a.NotExhausted})
	}
	return out
}
