package main

import (
	"context"
	"encoding/binary"
	"fmt"
	"sort"
	"strings"
	"time"

	"github.com/grailbio/bigslice"
	"github.com/grailbio/bigslice/exec"
	"verifh/ev"
	"verifh/refeval"
)

// Programs over a POINTER-CARRYING value column ((int, []byte) and (int, []int)):
// refeval's grammar only has int and string source columns, so this family is
// built here with plain bigslice calls and has its own plain-Go reference.
//
// Every program puts an operator that asks its input for fewer rows than a
// full vector (Filter, Head, Flatmap) directly after a task boundary
// (ExperimentalMaterialize on an identity Map, or a Reshuffle), over 450 rows
// per shard (> 3 vectors even at the production vector size of 128). On the
// cluster the operator then reads ENCODED task output batch by batch, on the
// local executor it reads the producer's frames; the rows must be the same,
// value by value.

type bytesSpec struct {
	Kind int  // 0 materialize|filter, 1 materialize|head, 2 materialize|flatmap, 3 reshuffle|filter
	Ints bool // value column []int instead of []byte
}

const (
	bytesRows   = 900
	bytesShards = 2
	bytesHead   = 21
)

var bytesKindNames = [...]string{"materialize-filter", "materialize-head", "materialize-flatmap", "reshuffle-filter"}

func bytesValue(k int) []byte {
	b := make([]byte, 8)
	binary.BigEndian.PutUint64(b, uint64(k)*0x9e3779b1+7)
	return b
}

func intsValue(k int) []int { return []int{k, 3*k + 1, k * k} }

func bytesKeep(k int) bool { return k%3 != 0 }

// fBytes builds the program (registered at init, as user code would).
var fBytes = bigslice.Func(func(kind int, ints bool) bigslice.Slice {
	keys := make([]int, bytesRows)
	for i := range keys {
		keys[i] = i
	}
	var s bigslice.Slice
	if ints {
		vals := make([][]int, bytesRows)
		for i := range vals {
			vals[i] = intsValue(i)
		}
		s = bigslice.Const(bytesShards, keys, vals)
	} else {
		vals := make([][]byte, bytesRows)
		for i := range vals {
			vals[i] = bytesValue(i)
		}
		s = bigslice.Const(bytesShards, keys, vals)
	}
	boundary := func(s bigslice.Slice) bigslice.Slice {
		if kind == 3 {
			return bigslice.Reshuffle(s)
		}
		if ints {
			return bigslice.Map(s, func(k int, v []int) (int, []int) { return k, v }, bigslice.ExperimentalMaterialize)
		}
		return bigslice.Map(s, func(k int, v []byte) (int, []byte) { return k, v }, bigslice.ExperimentalMaterialize)
	}
	s = boundary(s)
	switch kind {
	case 0, 3:
		if ints {
			return bigslice.Filter(s, func(k int, v []int) bool { return bytesKeep(k) })
		}
		return bigslice.Filter(s, func(k int, v []byte) bool { return bytesKeep(k) })
	case 1:
		return bigslice.Head(s, bytesHead)
	case 2:
		if ints {
			return bigslice.Flatmap(s, func(k int, v []int) ([]int, [][]int) {
				if bytesKeep(k) {
					return []int{k, -k}, [][]int{v, v}
				}
				return nil, nil
			})
		}
		return bigslice.Flatmap(s, func(k int, v []byte) ([]int, [][]byte) {
			if bytesKeep(k) {
				return []int{k, -k}, [][]byte{v, v}
			}
			return nil, nil
		})
	}
	panic("bytes program kind")
})

func bytesCanon(k int, v interface{}) string {
	switch x := v.(type) {
	case []byte:
		return fmt.Sprintf("%d %x", k, x)
	case []int:
		return fmt.Sprintf("%d %v", k, x)
	}
	return "?"
}

// bytesReference is the expected multiset of canonical rows.
func bytesReference(sp bytesSpec) []string {
	val := func(k int) interface{} {
		if sp.Ints {
			return intsValue(k)
		}
		return bytesValue(k)
	}
	var out []string
	switch sp.Kind {
	case 0, 3:
		for k := 0; k < bytesRows; k++ {
			if bytesKeep(k) {
				out = append(out, bytesCanon(k, val(k)))
			}
		}
	case 1:
		// Const splits contiguously and evenly; Head takes the first rows of each shard.
		per := bytesRows / bytesShards
		for s := 0; s < bytesShards; s++ {
			for i := 0; i < bytesHead && i < per; i++ {
				out = append(out, bytesCanon(s*per+i, val(s*per+i)))
			}
		}
	case 2:
		for k := 0; k < bytesRows; k++ {
			if bytesKeep(k) {
				out = append(out, bytesCanon(k, val(k)), bytesCanon(-k, val(k)))
			}
		}
	}
	sort.Strings(out)
	return out
}

// bytesAttempt runs the program once in ss and fills res (like attempt).
func bytesAttempt(pr prog, cfg Config, res *RunRes, ss *session) {
	sp := *pr.Bytes
	ctx := context.Background()
	var run0, read0, stat0 int
	if ss.sys != nil {
		run0, read0, stat0 = ss.sys.Count("Worker.Run"), ss.sys.Count("Worker.Read"), ss.sys.Count("Worker.Stat")
	}
	type ret struct {
		rows   []string
		states []string
		err    error
	}
	ch := make(chan ret, 1)
	go func() {
		var r ret
		defer func() {
			if e := recover(); e != nil {
				r.err = fmt.Errorf("panic in the driver: %v", e)
			}
			ch <- r
		}()
		var x *exec.Result
		if x, r.err = ss.sess.Run(ctx, fBytes, sp.Kind, sp.Ints); r.err != nil {
			r.err = fmt.Errorf("run: %v", r.err)
			return
		}
		defer x.Discard(ctx)
		sc := x.Scanner()
		var k int
		if sp.Ints {
			var v []int
			for sc.Scan(ctx, &k, &v) {
				r.rows = append(r.rows, bytesCanon(k, v)) // rendered (copied) at once
			}
		} else {
			var v []byte
			for sc.Scan(ctx, &k, &v) {
				r.rows = append(r.rows, bytesCanon(k, v))
			}
		}
		r.err = sc.Err()
		if cerr := sc.Close(); r.err == nil && cerr != nil {
			r.err = cerr
		}
		if r.err != nil {
			r.err = fmt.Errorf("scan: %v", r.err)
		}
		r.states = exec.VerifResultTaskStates(x)
	}()
	t := time.NewTimer(hangTimeout)
	defer t.Stop()
	var r ret
	select {
	case r = <-ch:
	case <-t.C:
		res.Hung = true
		return
	}
	if r.err != nil {
		res.Err = r.err.Error()
	}
	res.Tasks = len(r.states)
	res.FailureFree, res.WhyNotFF = true, ""
	if sys := ss.sys; sys != nil {
		res.Machines = len(sys.Hosts())
		res.WorkerRun = sys.Count("Worker.Run") - run0
		res.WorkerRead = sys.Count("Worker.Read") - read0
		res.WorkerStat = sys.Count("Worker.Stat") - stat0
		if k := sys.Killed(); len(k) > 0 {
			res.FailureFree, res.WhyNotFF = false, fmt.Sprintf("machines lost: %v", k)
		} else if r.err == nil && res.WorkerRun != res.Tasks {
			res.FailureFree, res.WhyNotFF = false, fmt.Sprintf("%d Worker.Run calls for %d tasks", res.WorkerRun, res.Tasks)
		}
	}
	for _, s := range r.states {
		if r.err == nil && !strings.HasSuffix(s, "=OK") {
			res.FailureFree, res.WhyNotFF = false, "task "+s
		}
	}
	if r.err != nil {
		return
	}
	res.NRows = len(r.rows)
	res.Seq = ev.Hash(strings.Join(r.rows, "\n"))
	sorted := append([]string(nil), r.rows...)
	sort.Strings(sorted)
	res.Multiset = ev.Hash(strings.Join(sorted, "\n"))
	// compare by value with the reference
	want := bytesReference(sp)
	cw, cg := map[string]int{}, map[string]int{}
	for _, x := range want {
		cw[x]++
	}
	for _, x := range sorted {
		cg[x]++
	}
	var extra, missing []string
	for x, n := range cg {
		for i := cw[x]; i < n; i++ {
			extra = append(extra, x)
		}
	}
	for x, n := range cw {
		for i := cg[x]; i < n; i++ {
			missing = append(missing, x)
		}
	}
	sort.Strings(extra)
	sort.Strings(missing)
	clip := func(s []string) string {
		if len(s) > 5 {
			return strings.Join(s[:5], " | ") + fmt.Sprintf(" | ... (%d)", len(s))
		}
		return strings.Join(s, " | ")
	}
	if len(extra) > 0 {
		res.Ref = append(res.Ref, mismatch("rows/extra", fmt.Sprintf("got %d rows, want %d; rows with a wrong value (or duplicated): %s", len(sorted), len(want), clip(extra))))
	}
	if len(missing) > 0 {
		res.Ref = append(res.Ref, mismatch("rows/missing", fmt.Sprintf("got %d rows, want %d; missing: %s", len(sorted), len(want), clip(missing))))
	}
	if len(res.Ref) > 0 {
		res.Rows = append(extra, missing...)
		if len(res.Rows) > 40 {
			res.Rows = res.Rows[:40]
		}
	}
}

func mismatch(oracle, detail string) refeval.Mismatch {
	return refeval.Mismatch{Oracle: oracle, Detail: detail}
}
