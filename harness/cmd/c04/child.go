package main

import (
	"bufio"
	"bytes"
	"context"
	"encoding/gob"
	"encoding/json"
	"expvar"
	"flag"
	"fmt"
	"os"
	"runtime/pprof"
	"strconv"
	"strings"
	"sync"
	"sync/atomic"
	"time"

	"github.com/grailbio/bigmachine"
	"github.com/grailbio/bigslice"
	"github.com/grailbio/bigslice/exec"
	"github.com/grailbio/bigslice/sliceio"
	"github.com/grailbio/bigslice/sortio"
	"verifh/ev"
	"verifh/refeval"
	"verifh/vsys"
)

// hangTimeout is the per-run watchdog; a run normally takes 0.05-0.5 s.
const hangTimeout = 60 * time.Second

// RunSpec is one (program, configuration) pair.
type RunSpec struct {
	Prog int
	Cfg  Config
}

// Job is what one child process executes: runs that share the globals.
type Job struct {
	G    Globals
	Runs []RunSpec
	// Confirm: a solo re-run of a spec that hung or crashed (not subject to the budget).
	Confirm bool
}

// RunRes is the observation of one run (one phase of one RunSpec).
type RunRes struct {
	Idx   int // index in Job.Runs
	Prog  int
	Cfg   Config
	Phase string // "" | "cold" | "warm"

	Err         string
	Hung        bool
	FailureFree bool
	Attempts    int
	WhyNotFF    string
	Retried     []string `json:",omitempty"` // why earlier attempts were not failure-free

	NRows    int
	Multiset string // hash of the sorted canonical rows
	Seq      string // hash of the canonical rows in scan order
	ObsRows  int    // rows seen by Scan/WriterFunc callbacks
	Events   int    // number of callback events (WriterFunc: one per batch)
	Ref      []refeval.Mismatch
	Rows     []string `json:",omitempty"` // canonical rows in scan order (default configurations and failing runs only)

	Counters []int64 // per programs[Prog].P.CountPositions()
	NoScope  int64

	// FreshMachines (diamond program on the cluster): machines that ran tasks of
	// c without having run a task of a or b.
	FreshMachines int `json:",omitempty"`
	// Placement (stress programs on the cluster): machine of every producer shard.
	Placement string `json:",omitempty"`

	// behaviour observables
	Tasks      int
	Machines   int
	WorkerRun  int
	WorkerRead int
	WorkerStat int
	Commit     int
	Spills     int64 // combiner disk spills (expvar combinediskspills)
	Ms         int64
}

func setGlobals(g Globals) {
	if g.Chunk < 1 || g.Chunk&(g.Chunk-1) != 0 {
		ev.Fatal("chunk %d is not a power of two", g.Chunk)
	}
	if err := flag.Set("bigslice-internal-default-chunk-rows", strconv.Itoa(g.Chunk)); err != nil {
		ev.Fatal("cannot set chunk rows: %v", err)
	}
	if err := flag.Set("bigslice-internal-default-sort-canary-rows", strconv.Itoa(g.Canary)); err != nil {
		ev.Fatal("cannot set canary rows: %v", err)
	}
	bigslice.VerifCommonSetChunk(g.Chunk)
	sliceio.VerifCommonSetChunk(g.Chunk)
	sortio.VerifCommonSetChunk(g.Chunk)
	sliceio.SpillBatchSize = g.Spill
	exec.DoShuffleReaders = g.Shuffle
}

// throttled is the vsys cluster with a machine quota that answers "quota
// exhausted" slowly: exec's machine manager asks again immediately after every
// failed start as long as tasks are queued, which would otherwise spin.
type throttled struct{ *vsys.System }

func (t throttled) Start(ctx context.Context, count int) ([]*bigmachine.Machine, error) {
	ms, err := t.System.Start(ctx, count)
	if err != nil {
		time.Sleep(5 * time.Millisecond)
	}
	return ms, err
}

func spillsNow() int64 {
	if v, ok := expvar.Get("combinediskspills").(*expvar.Int); ok {
		return v.Value()
	}
	return -1
}

// session is one exec.Session (with its own in-process cluster) under a configuration.
type session struct {
	sess *exec.Session
	sys  *vsys.System // nil on the local executor
	mu   sync.Mutex
	// placed: the Worker.Run calls seen since the last takePlaced (task and machine).
	placed []placedRun
}

type placedRun struct {
	Inv             uint64
	Op              string
	Shard, NumShard int
	Host            string
}

func openSession(cfg Config) *session {
	ss := &session{}
	var opts []exec.Option
	if cfg.Exec == "local" {
		opts = append(opts, exec.Local)
	} else {
		sys := vsys.New(cfg.Procs)
		sys.MaxMachines = cfg.Machines
		sys.Keepalive = [3]time.Duration{20 * time.Millisecond, 3 * time.Second, 1500 * time.Millisecond}
		sys.Hook = func(c *vsys.Call) error {
			if c.Method == "Worker.Run" {
				var req struct{ Name exec.TaskName }
				if gob.NewDecoder(bytes.NewReader(c.Body)).Decode(&req) == nil {
					ss.mu.Lock()
					ss.placed = append(ss.placed, placedRun{req.Name.InvIndex, req.Name.Op, req.Name.Shard, req.Name.NumShard, c.Host})
					ss.mu.Unlock()
				}
			}
			return nil
		}
		ss.sys = sys
		opts = append(opts, exec.Bigmachine(throttled{sys}))
	}
	opts = append(opts, exec.Parallelism(cfg.Par), exec.MaxLoad(cfg.MaxLoad))
	if cfg.MC {
		opts = append(opts, exec.MachineCombiners)
	}
	ss.sess = exec.Start(opts...)
	return ss
}

// producerPlacement renders, for the task group that feeds the Reduce of a
// stress program (the only group whose op name does not contain "reduce"), the
// machine of every producer shard in shard order, machines named A, B, C by
// first appearance: e.g. "A,A,B,C,B,C". It consumes the recorded calls.
func (ss *session) producerPlacement() string {
	ss.mu.Lock()
	calls := ss.placed
	ss.placed = nil
	ss.mu.Unlock()
	var hosts []string
	for _, c := range calls {
		if strings.Contains(c.Op, "reduce") {
			continue
		}
		if hosts == nil {
			hosts = make([]string, c.NumShard)
		}
		if c.Shard < len(hosts) {
			hosts[c.Shard] = c.Host
		}
	}
	names := map[string]string{}
	out := make([]string, len(hosts))
	for i, h := range hosts {
		if h == "" {
			out[i] = "?"
			continue
		}
		if _, ok := names[h]; !ok {
			names[h] = string(rune('A' + len(names)))
		}
		out[i] = names[h]
	}
	return strings.Join(out, ",")
}

// attempt runs p once under cfg in session ss. On a hang the session is left alone.
func attempt(pr prog, p refeval.Program, cfg Config, res *RunRes, ss *session) {
	sys, sess := ss.sys, ss.sess
	tStart := time.Now()
	spills0 := spillsNow()
	atomic.StoreInt64(&noScope, 0)
	var run0, read0, stat0, commit0 int
	if sys != nil {
		run0, read0, stat0, commit0 = sys.Count("Worker.Run"), sys.Count("Worker.Read"), sys.Count("Worker.Stat"), sys.Count("Worker.CommitCombiner")
		ss.producerPlacement() // forget calls of earlier invocations
	}
	type ret struct {
		out refeval.Outcome
		err error
	}
	var (
		states   []string
		counters []int64
	)
	ch := make(chan ret, 1)
	go func() {
		defer func() {
			if e := recover(); e != nil {
				ch <- ret{err: fmt.Errorf("panic in the driver: %v", e)}
			}
		}()
		out, err := refeval.RunWith(context.Background(), sess, p, refeval.RunOpts{NoScan: pr.NoScan, Inspect: func(r *exec.Result) {
			states = exec.VerifResultTaskStates(r)
			scope := r.Scope()
			for _, pos := range p.CountPositions() {
				counters = append(counters, ctr[slot(pos)].Value(scope))
			}
		}})
		ch <- ret{out, err}
	}()
	t := time.NewTimer(hangTimeout)
	defer t.Stop()
	var r ret
	select {
	case r = <-ch:
	case <-t.C:
		res.Hung = true
		return // the session may be wedged: leave it alone
	}
	if r.err != nil {
		res.Err = r.err.Error()
	}
	res.Counters = counters
	res.NoScope = atomic.LoadInt64(&noScope)
	res.Tasks = len(states)
	res.Spills = spillsNow() - spills0
	res.FailureFree, res.WhyNotFF = true, ""
	if sys != nil {
		res.Machines = len(sys.Hosts())
		res.WorkerRun = sys.Count("Worker.Run") - run0
		res.WorkerRead = sys.Count("Worker.Read") - read0
		res.WorkerStat = sys.Count("Worker.Stat") - stat0
		res.Commit = sys.Count("Worker.CommitCombiner") - commit0
		if pr.Stress {
			res.Placement = ss.producerPlacement()
		}
		if k := sys.Killed(); len(k) > 0 {
			res.FailureFree, res.WhyNotFF = false, fmt.Sprintf("machines lost: %v", k)
		} else if r.err == nil && res.WorkerRun != res.Tasks {
			res.FailureFree, res.WhyNotFF = false, fmt.Sprintf("%d Worker.Run calls for %d tasks", res.WorkerRun, res.Tasks)
		}
	}
	for _, s := range states {
		if r.err == nil && !strings.HasSuffix(s, "=OK") {
			res.FailureFree, res.WhyNotFF = false, "task "+s
		}
	}
	if os.Getenv("C04_TIMING") != "" {
		fmt.Fprintf(os.Stderr, "timing %s %s: run=%v\n", pr.Name, cfg.ID(), time.Since(tStart))
	}
	out := r.out
	res.NRows = len(out.Rows)
	canon := refeval.CanonRows(out.Rows)
	res.Seq = ev.Hash(strings.Join(canon, "\n"))
	res.Multiset = ev.Hash(refeval.Multiset(out.Rows))
	res.Events = len(out.Events)
	res.ObsRows = 0
	for _, e := range out.Events {
		res.ObsRows += len(e.Rows)
	}
	res.Ref = nil
	res.Rows = nil
	if r.err == nil {
		exp := refeval.Eval(p)
		if pr.NoScan {
			res.Ref = refeval.CheckObs(exp, out.Events)
		} else {
			res.Ref = refeval.Check(exp, out)
		}
	}
	if len(cfg.Dev) == 0 || len(res.Ref) > 0 {
		res.Rows = canon
		if pr.NoScan {
			res.Rows = []string{fmt.Sprint(out.Events)}
		}
	}
}

// runSpec executes one RunSpec (both phases of a cache program) and reports
// through emit.
func runSpec(idx int, rs RunSpec, emit func(RunRes)) {
	pr := programs[rs.Prog]
	if pr.Diamond {
		runDiamond(idx, rs, emit)
		return
	}
	p := pr.P
	p.Count = true
	p.Pragma, p.PragmaPos = rs.Cfg.Pragma, rs.Cfg.PragPos
	phases := phasesOf(pr)
	var retried []string
	for try := 1; try <= 3; try++ {
		var results []RunRes
		if pr.Cache {
			dir, err := os.MkdirTemp("", "c04-cache-")
			if err != nil {
				ev.Fatal("cache dir: %v", err)
			}
			p.CacheDir = dir
			defer os.RemoveAll(dir)
		}
		again := false
		var ss *session
		for k, ph := range phases {
			// A stress program runs several invocations in one session (phases
			// "s<session>i<invocation>"); everything else gets a fresh session per phase.
			if ss == nil || !pr.Stress || strings.HasSuffix(ph, "i0") {
				if ss != nil {
					ss.sess.Shutdown()
				}
				ss = openSession(rs.Cfg)
			}
			res := RunRes{Idx: idx, Prog: rs.Prog, Cfg: rs.Cfg, Phase: ph, Attempts: try, Retried: retried}
			t0 := time.Now()
			if pr.Bytes != nil {
				bytesAttempt(pr, rs.Cfg, &res, ss)
			} else {
				attempt(pr, p, rs.Cfg, &res, ss)
			}
			res.Ms = time.Since(t0).Milliseconds()
			results = append(results, res)
			if res.Hung {
				ss = nil // may be wedged: leave it alone
				break
			}
			if res.Err != "" && !pr.Stress {
				break
			}
			if !res.FailureFree {
				again = true
				retried = append(retried, res.WhyNotFF)
				break
			}
			_ = k
		}
		if ss != nil {
			ss.sess.Shutdown()
		}
		// Only failure-free runs are judged: after a (spurious) machine loss or
		// a repeated task the whole spec is run again, up to 3 times.
		if !again || try == 3 {
			for _, r := range results {
				emit(r)
			}
			return
		}
	}
}

// childMain executes a job file and appends one JSON line per event to out:
// {"start":i} before run i, then its results.
func childMain(jobFile, outFile string) {
	b, err := os.ReadFile(jobFile)
	if err != nil {
		ev.Fatal("job file: %v", err)
	}
	var job Job
	if err := json.Unmarshal(b, &job); err != nil {
		ev.Fatal("job file: %v", err)
	}
	f, err := os.OpenFile(outFile, os.O_CREATE|os.O_WRONLY|os.O_APPEND, 0666)
	if err != nil {
		ev.Fatal("out file: %v", err)
	}
	w := bufio.NewWriter(f)
	line := func(v interface{}) {
		b, _ := json.Marshal(v)
		w.Write(b)
		w.WriteByte('\n')
		w.Flush()
	}
	vsys.Quiet()
	vsys.FastRetries()
	// Only failure-free runs are judged; under CPU starvation keepalives can time
	// out: do not let "too many consecutive losses" turn a slow run into an error.
	exec.VerifSetMaxConsecutiveLost(false)
	setGlobals(job.G)
	if pf := os.Getenv("C04_PROF"); pf != "" {
		f, _ := os.Create(pf)
		pprof.StartCPUProfile(f)
		defer pprof.StopCPUProfile()
	}
	for i, rs := range job.Runs {
		if rs.Cfg.G != job.G {
			ev.Fatal("run %d has globals %v, job has %v", i, rs.Cfg.G, job.G)
		}
		line(map[string]int{"start": i})
		runSpec(i, rs, func(r RunRes) { line(map[string]interface{}{"res": r}) })
	}
	line(map[string]bool{"done": true})
	f.Close()
	pprof.StopCPUProfile()
	os.Exit(0)
}
