package main

import (
	"fmt"
	"sort"
	"strings"

	"verifh/refeval"
)

// Globals are the process-wide internal sizes: every child process runs with
// exactly one value of them.
type Globals struct {
	Chunk   int  // internal/defaultsize.Chunk and its copies in bigslice, sliceio, sortio
	Canary  int  // internal/defaultsize.SortCanary
	Spill   int  // sliceio.SpillBatchSize
	Shuffle bool // exec.DoShuffleReaders
}

func (g Globals) String() string {
	return fmt.Sprintf("chunk=%d canary=%d spill=%d shufflereaders=%v", g.Chunk, g.Canary, g.Spill, g.Shuffle)
}

// Config is one execution strategy.
type Config struct {
	Exec     string // "local" | "vsys"
	Machines int    // vsys: cap on the number of machines (MaxMachines)
	Procs    int    // vsys: procs per machine (System.Maxprocs)
	Par      int    // exec.Parallelism
	MaxLoad  float64
	MC       bool // exec.MachineCombiners
	G        Globals
	Pragma   refeval.PragmaKind
	PragPos  int
	// Dev lists the deviations from the executor's default configuration,
	// "dim=value", sorted. Empty = the default configuration.
	Dev []string
}

// The default configuration of the lattice. Sizes are the small ones of the
// C01 harness (vector = 4 rows) so that the programs' 9-row inputs straddle
// vectors in every configuration; the production sizes (128 / 256 / 128) are
// deviations. On the cluster the default is 4 procs per machine at MaxLoad 0.5:
// 2 task procs per machine, so that with Parallelism 4 the default cluster has
// two machines (tasks read each other's output over RPC), Procs(2) is not
// clamped, and MaxLoad changes the shape (0.95: 3 procs, one machine; 0.01: 1
// proc on one machine). bigslice's own default, 0.95, is a deviation.
func defaultConfig(exec string) Config {
	c := Config{Exec: exec, Par: 4, MaxLoad: 0.5, G: Globals{Chunk: 4, Canary: 256, Spill: 4, Shuffle: true}}
	if exec == "vsys" {
		c.Machines, c.Procs = 2, 4
	}
	return c
}

// ID identifies a configuration.
func (c Config) ID() string {
	if len(c.Dev) == 0 {
		return c.Exec + "|default"
	}
	return c.Exec + "|" + strings.Join(c.Dev, "+")
}

// devClass is Dev without pragma positions (for signatures).
func (c Config) devClass() []string {
	out := make([]string, len(c.Dev))
	for i, d := range c.Dev {
		if j := strings.IndexByte(d, '@'); j >= 0 && strings.HasPrefix(d, "pragma=") {
			d = d[:j]
		}
		out[i] = d
	}
	return out
}

// deviation is one alternative value of one dimension.
type deviation struct {
	dim   string
	name  string // "dim=value"
	apply func(*Config)
}

// session-option dimensions that form the full product of the thorough tier.
var productDims = map[string]bool{"machines": true, "procs": true, "par": true, "maxload": true, "mc": true, "shufflereaders": true}

// deviations lists, per dimension, every non-default value for the executor
// and program (pragma placements depend on the program).
func deviations(exec string, p refeval.Program) [][]deviation {
	var dims [][]deviation
	add := func(dim string, names []string, fs []func(*Config)) {
		var d []deviation
		for i := range names {
			d = append(d, deviation{dim, dim + "=" + names[i], fs[i]})
		}
		dims = append(dims, d)
	}
	if exec == "vsys" {
		add("machines", []string{"1", "3"}, []func(*Config){func(c *Config) { c.Machines = 1 }, func(c *Config) { c.Machines = 3 }})
		add("procs", []string{"1", "2"}, []func(*Config){func(c *Config) { c.Procs = 1 }, func(c *Config) { c.Procs = 2 }})
	}
	add("par", []string{"1", "2"}, []func(*Config){func(c *Config) { c.Par = 1 }, func(c *Config) { c.Par = 2 }})
	if exec == "vsys" {
		add("maxload", []string{"0.95", "0.01"}, []func(*Config){func(c *Config) { c.MaxLoad = 0.95 }, func(c *Config) { c.MaxLoad = 0.01 }})
	}
	add("mc", []string{"on"}, []func(*Config){func(c *Config) { c.MC = true }})
	add("chunk", []string{"1", "2", "128"}, []func(*Config){func(c *Config) { c.G.Chunk = 1 }, func(c *Config) { c.G.Chunk = 2 }, func(c *Config) { c.G.Chunk = 128 }})
	add("canary", []string{"1", "2"}, []func(*Config){func(c *Config) { c.G.Canary = 1 }, func(c *Config) { c.G.Canary = 2 }})
	add("spill", []string{"1", "128"}, []func(*Config){func(c *Config) { c.G.Spill = 1 }, func(c *Config) { c.G.Spill = 128 }})
	if exec == "vsys" {
		add("shufflereaders", []string{"off"}, []func(*Config){func(c *Config) { c.G.Shuffle = false }})
	}
	var prag []deviation
	for _, pos := range p.PragmaPositions() {
		for _, k := range []refeval.PragmaKind{refeval.PragmaProcs2, refeval.PragmaExclusive, refeval.PragmaMaterialize} {
			k, pos := k, pos
			if exec == "local" && k == refeval.PragmaProcs2 {
				// exec/local.go never looks at Procs(): nothing to deviate in.
				continue
			}
			prag = append(prag, deviation{"pragma", fmt.Sprintf("pragma=%v@%d", k, pos), func(c *Config) { c.Pragma, c.PragPos = k, pos }})
		}
	}
	if len(prag) > 0 {
		dims = append(dims, prag)
	}
	return dims
}

func derive(base Config, devs ...deviation) Config {
	c := base
	c.Dev = nil
	for _, d := range devs {
		d.apply(&c)
		c.Dev = append(c.Dev, d.name)
	}
	sort.Strings(c.Dev)
	return c
}

// configsFor enumerates the configurations of one program: for each executor
// the default, every single deviation, and in the thorough tier every pair of
// deviations in different dimensions plus the full product of the six
// session-option dimensions (machines x procs x Parallelism x MaxLoad x
// MachineCombiners x DoShuffleReaders; on the local executor only Parallelism
// and MachineCombiners exist and their product is contained in the pairs).
func configsFor(p refeval.Program, thorough bool) []Config {
	var out []Config
	seen := map[string]bool{}
	emit := func(c Config) {
		if !seen[c.ID()] {
			seen[c.ID()] = true
			out = append(out, c)
		}
	}
	for _, exec := range []string{"local", "vsys"} {
		base := defaultConfig(exec)
		dims := deviations(exec, p)
		emit(base)
		for _, d := range dims {
			for _, x := range d {
				emit(derive(base, x))
			}
		}
		if !thorough {
			continue
		}
		for i := range dims {
			for j := i + 1; j < len(dims); j++ {
				for _, x := range dims[i] {
					for _, y := range dims[j] {
						emit(derive(base, x, y))
					}
				}
			}
		}
		// full product of the session-option dimensions
		var pd [][]deviation
		for _, d := range dims {
			if productDims[d[0].dim] {
				pd = append(pd, d)
			}
		}
		var rec func(k int, chosen []deviation)
		rec = func(k int, chosen []deviation) {
			if k == len(pd) {
				emit(derive(base, chosen...))
				return
			}
			rec(k+1, chosen) // default value of dimension k
			for _, x := range pd[k] {
				rec(k+1, append(append([]deviation(nil), chosen...), x))
			}
		}
		rec(0, nil)
	}
	return out
}

// subsetOf reports whether a (sorted) is a proper subset of b (sorted).
func properSubset(a, b []string) bool {
	if len(a) >= len(b) {
		return false
	}
	in := map[string]bool{}
	for _, x := range b {
		in[x] = true
	}
	for _, x := range a {
		if !in[x] {
			return false
		}
	}
	return true
}

// diamondConfigs are the configurations of the diamond-of-invocations program:
// the local default (baseline) and clusters of machines x task procs = 1x2
// (control: one machine), 2x1, 3x1, 3x2, with Parallelism = machines x procs.
func diamondConfigs() []Config {
	out := []Config{defaultConfig("local")}
	base := defaultConfig("vsys")
	for _, mk := range [][2]int{{1, 2}, {2, 1}, {3, 1}, {3, 2}} {
		m, k := mk[0], mk[1]
		var devs []deviation
		if m != base.Machines {
			devs = append(devs, deviation{"machines", fmt.Sprintf("machines=%d", m), func(c *Config) { c.Machines = m }})
		}
		if k == 1 {
			devs = append(devs, deviation{"procs", "procs=2", func(c *Config) { c.Procs = 2 }})
		}
		if m*k != base.Par {
			devs = append(devs, deviation{"par", fmt.Sprintf("par=%d", m*k), func(c *Config) { c.Par = m * k }})
		}
		out = append(out, derive(base, devs...))
	}
	return out
}

// stressConfigs are the configurations of the Stress programs (both tiers):
// the local default (baseline), and on the cluster machines{2,3} x task procs
// per machine{1,2} x MachineCombiners{off,on}. Task procs 1 = 2 procs at
// MaxLoad 0.5, task procs 2 = 4 procs at MaxLoad 0.5; Parallelism = machines x
// task procs, so that every machine of the quota is started.
func stressConfigs() []Config {
	out := []Config{defaultConfig("local")}
	base := defaultConfig("vsys")
	for _, m := range []int{2, 3} {
		for _, k := range []int{1, 2} {
			for _, mc := range []bool{false, true} {
				m, k := m, k
				var devs []deviation
				if m != base.Machines {
					devs = append(devs, deviation{"machines", fmt.Sprintf("machines=%d", m), func(c *Config) { c.Machines = m }})
				}
				if k == 1 {
					devs = append(devs, deviation{"procs", "procs=2", func(c *Config) { c.Procs = 2 }})
				}
				if m*k != base.Par {
					devs = append(devs, deviation{"par", fmt.Sprintf("par=%d", m*k), func(c *Config) { c.Par = m * k }})
				}
				if mc {
					devs = append(devs, deviation{"mc", "mc=on", func(c *Config) { c.MC = true }})
				}
				out = append(out, derive(base, devs...))
			}
		}
	}
	return out
}
