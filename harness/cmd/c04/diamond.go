package main

import (
	"context"
	"fmt"
	"strings"
	"time"

	"github.com/grailbio/bigslice"
	"github.com/grailbio/bigslice/exec"
	"verifh/ev"
	"verifh/refeval"
)

// A program of several invocations whose later invocations take the Results of
// earlier ones as arguments, in a diamond:
//
//	a := Run(dA, seed)       Const, 1 shard, 24 rows, 8 keys
//	b := Run(dB, a)          Map(a, v+1)
//	c := Run(dC, a, b)       Cogroup(Reshard(a, 4), Reshard(b, 4))
//
// The rows of c must be the same on the local executor and on every cluster
// shape (where the machines that run tasks of c have to be sent the invocations
// a, b and c themselves). Funcs are registered at init, as user code would.

const (
	diamondRows = 24
	diamondKeys = 8
)

func diamondData(seed int) (keys, vals []int) {
	keys, vals = make([]int, diamondRows), make([]int, diamondRows)
	for i := range keys {
		keys[i] = i % diamondKeys
		vals[i] = 1000*seed + i
	}
	return
}

var dA = bigslice.Func(func(seed int) bigslice.Slice {
	keys, vals := diamondData(seed)
	return bigslice.Const(1, keys, vals)
})

var dB = bigslice.Func(func(a bigslice.Slice) bigslice.Slice {
	return bigslice.Map(a, func(k, v int) (int, int) { return k, v + 1 })
})

var dC = bigslice.Func(func(a, b bigslice.Slice) bigslice.Slice {
	return bigslice.Cogroup(bigslice.Reshard(a, 4), bigslice.Reshard(b, 4))
})

// diamondReference is the result of c computed directly.
func diamondReference(seed int) []refeval.Row {
	keys, vals := diamondData(seed)
	as, bs := map[int][]int{}, map[int][]int{}
	for i, k := range keys {
		as[k] = append(as[k], vals[i])
		bs[k] = append(bs[k], vals[i]+1)
	}
	var rows []refeval.Row
	for k := 0; k < diamondKeys; k++ {
		rows = append(rows, refeval.Row{k, as[k], bs[k]})
	}
	return rows
}

// diamondRound runs one diamond in ss and fills res.
func diamondRound(ss *session, seed int, res *RunRes) {
	ctx := context.Background()
	type ret struct {
		rows []refeval.Row
		err  error
	}
	ch := make(chan ret, 1)
	if ss.sys != nil {
		ss.producerPlacement() // forget the calls of earlier rounds
	}
	go func() {
		var r ret
		defer func() {
			if e := recover(); e != nil {
				r.err = fmt.Errorf("panic in the driver: %v", e)
			}
			ch <- r
		}()
		var results []*exec.Result
		defer func() {
			for _, x := range results {
				x.Discard(ctx)
			}
		}()
		step := func(name string, f *bigslice.FuncValue, args ...interface{}) *exec.Result {
			if r.err != nil {
				return nil
			}
			x, err := ss.sess.Run(ctx, f, args...)
			if err != nil {
				r.err = fmt.Errorf("Run of %s: %v", name, err)
				return nil
			}
			results = append(results, x)
			return x
		}
		a := step("a", dA, seed)
		b := step("b", dB, a)
		c := step("c", dC, a, b)
		if r.err != nil {
			return
		}
		sc := c.Scanner()
		var (
			k      int
			va, vb []int
		)
		for sc.Scan(ctx, &k, &va, &vb) {
			r.rows = append(r.rows, refeval.Row{k, append([]int(nil), va...), append([]int(nil), vb...)})
		}
		r.err = sc.Err()
		if cerr := sc.Close(); r.err == nil && cerr != nil {
			r.err = cerr
		}
		if r.err != nil {
			r.err = fmt.Errorf("scan of c: %v", r.err)
		}
	}()
	t := time.NewTimer(hangTimeout)
	defer t.Stop()
	var r ret
	select {
	case r = <-ch:
	case <-t.C:
		res.Hung = true
		return
	}
	res.FailureFree = true
	if ss.sys != nil {
		res.Machines = len(ss.sys.Hosts())
		if k := ss.sys.Killed(); len(k) > 0 {
			res.FailureFree, res.WhyNotFF = false, fmt.Sprintf("machines lost: %v", k)
		}
		// machines that ran tasks of c but no task of a or b
		ss.mu.Lock()
		calls := ss.placed
		ss.placed = nil
		ss.mu.Unlock()
		res.WorkerRun = len(calls)
		if r.err == nil {
			// c is the latest invocation of the round
			var cInv uint64
			for _, cl := range calls {
				cInv = max(cInv, cl.Inv)
			}
			ab, cm := map[string]bool{}, map[string]bool{}
			for _, cl := range calls {
				if cl.Inv == cInv {
					cm[cl.Host] = true
				} else {
					ab[cl.Host] = true
				}
			}
			for h := range cm {
				if !ab[h] {
					res.FreshMachines++
				}
			}
		}
	}
	if r.err != nil {
		res.Err = r.err.Error()
		return
	}
	res.NRows = len(r.rows)
	canon := refeval.CanonRows(r.rows)
	res.Seq = ev.Hash(strings.Join(canon, "\n"))
	res.Multiset = ev.Hash(refeval.Multiset(r.rows))
	res.Ref = refeval.CheckRows(refeval.Expected{Rows: diamondReference(seed)}, r.rows)
	if len(res.Ref) > 0 {
		res.Rows = canon
	}
}

// runDiamond executes the diamond program under one configuration:
// stressSessions fresh sessions x diamondRounds rounds.
func runDiamond(idx int, rs RunSpec, emit func(RunRes)) {
	var retried []string
	for try := 1; try <= 3; try++ {
		var results []RunRes
		again := false
	sessions:
		for s := 0; s < stressSessions; s++ {
			ss := openSession(rs.Cfg)
			for i := 0; i < diamondRounds; i++ {
				res := RunRes{Idx: idx, Prog: rs.Prog, Cfg: rs.Cfg, Phase: fmt.Sprintf("s%dr%d", s, i), Attempts: try, Retried: retried}
				t0 := time.Now()
				diamondRound(ss, 10*s+i+1, &res)
				res.Ms = time.Since(t0).Milliseconds()
				results = append(results, res)
				if res.Hung {
					break sessions // the session may be wedged: leave it alone
				}
				if !res.FailureFree {
					again = true
					retried = append(retried, res.WhyNotFF)
					ss.sess.Shutdown()
					break sessions
				}
			}
			ss.sess.Shutdown()
		}
		if !again || try == 3 {
			for _, r := range results {
				emit(r)
			}
			return
		}
	}
}
