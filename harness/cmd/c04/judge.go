package main

import (
	"fmt"
	"sort"
	"strings"

	"verifh/ev"
	"verifh/refeval"
)

// failure is one failing (program, phase, configuration, oracle).
type failure struct {
	prog   int
	phase  string
	cfg    Config
	oracle string
	what   string
	detail map[string]interface{}
}

// stressSessions x stressInvocations invocations of every stress configuration.
var stressSessions, stressInvocations = 2, 4

// diamondRounds is the number of diamonds (3 invocations each) per session.
const diamondRounds = 4

func phasesOf(pr prog) []string {
	if pr.Cache {
		return []string{"cold", "warm"}
	}
	if pr.Diamond {
		var out []string
		for s := 0; s < stressSessions; s++ {
			for i := 0; i < diamondRounds; i++ {
				out = append(out, fmt.Sprintf("s%dr%d", s, i))
			}
		}
		return out
	}
	if pr.Stress {
		var out []string
		for s := 0; s < stressSessions; s++ {
			for i := 0; i < stressInvocations; i++ {
				out = append(out, fmt.Sprintf("s%di%d", s, i))
			}
		}
		return out
	}
	return []string{""}
}

// repeatBeforeAllSeen reports whether, reading the placement in shard order, a
// machine repeats before a machine that has not appeared yet (A,A,B; A,B,A,C):
// the consumers of a machine-combined shuffle must still read every machine once.
func repeatBeforeAllSeen(placement string) bool {
	seen := map[string]bool{}
	repeated := false
	for _, m := range strings.Split(placement, ",") {
		if seen[m] {
			repeated = true
		} else {
			if repeated {
				return true
			}
			seen[m] = true
		}
	}
	return false
}

// behaviour is the deterministic part of what a run did internally.
func behaviour(r RunRes) string {
	return fmt.Sprintf("tasks=%d machines=%d commit=%v spills=%d callbacks=%d", r.Tasks, r.Machines, r.Commit > 0, r.Spills, r.Events)
}

func (s *supervisor) judge(pl []planned) ev.Coverage {
	r := s.r
	var fails []failure
	fail := func(x planned, phase, oracle, what string, res *RunRes, extra map[string]interface{}) {
		d := map[string]interface{}{"program": programs[x.prog].text(), "program_name": programs[x.prog].Name,
			"configuration": x.cfg.ID(), "config": x.cfg, "phase": phase}
		if res != nil {
			d["run"] = *res
		}
		for k, v := range extra {
			d[k] = v
		}
		if programs[x.prog].Stress || programs[x.prog].Diamond {
			phase = "" // the invocations of a stress configuration are one case
		}
		fails = append(fails, failure{x.prog, phase, x.cfg, oracle, what, d})
	}
	var (
		evaluations, judged, notFF, missing, clusterRuns int
		nontrivial                                       = ev.NewCounter()
		outcomes                                         = ev.NewCounter()
		behaviours                                       = ev.NewCounter()
		orderChecked, obsChecked, counterChecks, partial int
		totals                                           = map[string]int{}
		cfgAll                                           = map[string]Config{}
		cfgChanged                                       = map[string]map[string]bool{} // cfg id -> observable -> true
		samples                                          = map[string]interface{}{}
	)
	var (
		placements                          = map[string]map[string]int{} // cfg id -> producer placement -> invocations
		allPlacements, repeatPlacements     = ev.NewCounter(), ev.NewCounter()
		stressInv, stressMC, stressMCRepeat int
		diamondRoundsRun, diamondDraws      int
	)
	refs := make([]countRef, len(programs))
	exps := make([]refeval.Expected, len(programs))
	for i, pr := range programs {
		refs[i] = countReference(pr.P)
		if !pr.Diamond && pr.Bytes == nil {
			exps[i] = refeval.Eval(pr.P)
		}
	}
	get := func(prog int, cfg string, phase string) (RunRes, bool) {
		x, ok := s.results[runKey{prog, cfg, phase}]
		return x, ok
	}
	usable := func(x RunRes, ok bool) bool { return ok && !x.Hung && x.Err == "" && x.FailureFree }
	for _, x := range pl {
		pr := programs[x.prog]
		id := x.cfg.ID()
		cfgAll[id] = x.cfg
		key := specKey(RunSpec{x.prog, x.cfg})
		for _, ph := range phasesOf(pr) {
			res, ok := get(x.prog, id, ph)
			if ok && ph == phasesOf(pr)[0] && (s.crashes[key] > 0 || (s.hangs[key] > 0 && !res.Hung)) {
				r.Note("%s under %s: %d crashes / %d hangs did not reproduce in the confirmation runs; the terminating run is judged", pr.Name, id, s.crashes[key], s.hangs[key])
			}
			if !ok {
				if s.crashes[key] >= 3 {
					if ph == phasesOf(pr)[0] {
						evaluations++
						fail(x, ph, "process-crash", fmt.Sprintf("the driver process died in 3 of 3 runs: %s", s.crashMsg[key]), nil, nil)
					}
				} else if ph == phasesOf(pr)[0] || func() bool { p0, ok0 := get(x.prog, id, phasesOf(pr)[0]); return usable(p0, ok0) }() {
					missing++
				}
				continue
			}
			evaluations++
			totals["worker_run_rpcs"] += res.WorkerRun
			totals["worker_read_rpcs"] += res.WorkerRead
			totals["worker_stat_rpcs"] += res.WorkerStat
			totals["commit_combiner_rpcs"] += res.Commit
			totals["combiner_disk_spills"] += int(res.Spills)
			totals["callback_events"] += res.Events
			if res.Attempts > 1 {
				totals["specs_repeated_because_not_failure_free"]++
				r.Note("%s under %s repeated: %v", pr.Name, id, res.Retried)
			}
			if res.Hung {
				fail(x, ph, "hang", fmt.Sprintf("Run+scan did not terminate within %v in 4 of 4 runs", hangTimeout), &res, nil)
				continue
			}
			if !res.FailureFree {
				notFF++
				r.NotExhaustive(fmt.Sprintf("%s under %s: no failure-free run in 3 attempts (%s); not judged", pr.Name, id, res.WhyNotFF))
				continue
			}
			judged++
			if x.cfg.Exec == "vsys" {
				clusterRuns++
			}
			if res.Err != "" {
				oracle := "error"
				if strings.Contains(res.Err, "invalid invocation reference") {
					oracle = "error/invalid-invocation-reference"
				}
				fail(x, ph, oracle, "the run failed: "+clipStr(res.Err, 400), &res, nil)
				continue
			}
			outcomes.Add(fmt.Sprintf("%d|%s|%s|%v", x.prog, ph, res.Multiset, res.Counters))
			behaviours.Add(fmt.Sprintf("%d|%s|%s|%s", x.prog, ph, x.cfg.Exec, behaviour(res)))
			produced := res.NRows
			if pr.NoScan {
				produced = res.ObsRows
			}
			if pr.Stress && x.cfg.Exec == "vsys" && res.Placement != "" {
				if placements[id] == nil {
					placements[id] = map[string]int{}
				}
				placements[id][res.Placement]++
				allPlacements.Add(res.Placement)
				stressInv++
				if x.cfg.MC {
					stressMC++
					if repeatBeforeAllSeen(res.Placement) {
						stressMCRepeat++
						repeatPlacements.Add(res.Placement)
					}
				}
			}
			if pr.Diamond && x.cfg.Exec == "vsys" {
				diamondRoundsRun++
				diamondDraws += res.FreshMachines
			}
			if (pr.Diamond || pr.Bytes != nil || pr.P.NumShuffles() > 0) && produced > 0 {
				nontrivial.Add(fmt.Sprintf("%d|%s|%s", x.prog, ph, id))
			}
			// (1) the reference evaluator: rows and callback observations
			for _, m := range res.Ref {
				fail(x, ph, "ref/"+m.Oracle, "disagrees with the reference evaluator: "+m.Detail, &res, map[string]interface{}{"expected_rows": refeval.CanonRows(exps[x.prog].Rows)})
				break
			}
			if exps[x.prog].OrderFixed {
				orderChecked++
			}
			obsChecked += len(exps[x.prog].Obs)
			// (2) the default configuration (of the local executor; the cluster default is itself compared with it)
			def, dok := get(x.prog, "local|default", ph)
			if usable(def, dok) && len(def.Ref) == 0 && id != "local|default" && !pr.NoScan {
				if def.Multiset != res.Multiset {
					fail(x, ph, "vs-default/rows", fmt.Sprintf("rows differ from the default configuration's: %d rows vs %d", res.NRows, def.NRows), &res, map[string]interface{}{"default_rows": def.Rows})
				} else if exps[x.prog].OrderFixed && def.Seq != res.Seq {
					fail(x, ph, "vs-default/order", "same rows as the default configuration but in a different order, in a shuffle-free program", &res, map[string]interface{}{"default_rows": def.Rows})
				}
			}
			// (3) user metric counters
			cr := refs[x.prog]
			if def.NoScope > 0 {
				dok = false // the default's counters are no baseline (reported for the default itself)
			}
			if res.NoScope > 0 {
				// metrics.ContextScope panics in such a call: these increments are lost,
				// so the counters of this run are not compared further.
				fail(x, ph, "counters/no-scope", fmt.Sprintf("%d calls of a user function received a context without a metrics scope (metrics.ContextScope panics there; counters %v, rows per operator %v)", res.NoScope, res.Counters, cr.Rows), &res, nil)
			} else if len(res.Counters) != len(cr.Pos) {
				fail(x, ph, "counters/unavailable", fmt.Sprintf("Result.Scope() gave %d counters, want %d", len(res.Counters), len(cr.Pos)), &res, nil)
			} else {
				for k, pos := range cr.Pos {
					got, want := res.Counters[k], cr.Rows[k]
					if ph == "warm" && cr.PreCache[k] {
						want = 0
					}
					name := fmt.Sprintf("counter of %v at position %d", pr.P.OpAt(pos), pos)
					switch {
					case cr.Partial[k]:
						partial++
						if want >= 0 && (got > want || got < 0) {
							fail(x, ph, "counters/ref-bound", fmt.Sprintf("%s is %d, but the operator is applied to at most %d rows", name, got, want), &res, nil)
						}
						continue
					case want >= 0:
						counterChecks++
						if got != want {
							fail(x, ph, "counters/ref/"+cmpClass(got, want), fmt.Sprintf("%s is %d after a failure-free run, the operator is applied to %d rows", name, got, want), &res, nil)
						}
					}
					if usable(def, dok) && id != "local|default" && len(def.Counters) == len(cr.Pos) && def.Counters[k] != got {
						counterChecks++
						fail(x, ph, "counters/vs-default/"+cmpClass(got, def.Counters[k]), fmt.Sprintf("%s is %d, under the default configuration it is %d", name, got, def.Counters[k]), &res, map[string]interface{}{"default_counters": def.Counters})
					}
				}
			}
			// vacuity: did the configuration change anything observable inside?
			if base, bok := get(x.prog, x.cfg.Exec+"|default", ph); usable(base, bok) && len(x.cfg.Dev) > 0 {
				ch := cfgChanged[id]
				if ch == nil {
					ch = map[string]bool{}
					cfgChanged[id] = ch
				}
				if base.Tasks != res.Tasks {
					ch["number of tasks"] = true
				}
				if base.Machines != res.Machines {
					ch["machines started"] = true
				}
				if (base.Commit > 0) != (res.Commit > 0) {
					ch["CommitCombiner RPCs"] = true
				}
				if base.Spills != res.Spills {
					ch["combiner disk spills"] = true
				}
				if base.Events != res.Events {
					ch["callback batches"] = true
				}
				if base.WorkerRead != res.WorkerRead || base.WorkerStat != res.WorkerStat {
					ch["Worker.Read/Stat RPC counts (placement dependent)"] = true
				}
			}
			if *flagShow {
				fmt.Printf("%-30s %-45s %-5s rows=%d ctr=%v %s run=%d read=%d ms=%d ref=%v\n", pr.Name, id, ph, res.NRows, res.Counters, behaviour(res), res.WorkerRun, res.WorkerRead, res.Ms, res.Ref)
			}
			// samples: the default and one deviation of a few programs
			if (id == "local|default" || id == "vsys|default" || id == "vsys|chunk=1" || id == "vsys|mc=on") && (pr.Name == "reduce-many-keys" || pr.Name == "ordered-pipeline") {
				samples[pr.Name+" "+id] = map[string]interface{}{"program": pr.P.String(), "configuration": id, "rows": res.NRows, "rows_hash": res.Multiset,
					"counters": res.Counters, "counter_reference": cr.Rows, "behaviour": behaviour(res), "worker_run": res.WorkerRun, "worker_read": res.WorkerRead}
			}
		}
	}
	if missing > 0 {
		r.NotExhaustive(fmt.Sprintf("%d planned runs have no result (not executed within the budget, or their child died without reproducing)", missing))
	}
	// Report minimal failing deviation sets only: a configuration whose failure
	// (same program, phase, executor, oracle) also occurs with a proper subset of
	// its deviations is attributed to that subset.
	type fkey struct {
		prog                 int
		phase, exec_, oracle string
	}
	by := map[fkey][]failure{}
	for _, f := range fails {
		k := fkey{f.prog, f.phase, f.cfg.Exec, f.oracle}
		by[k] = append(by[k], f)
	}
	var keys []fkey
	for k := range by {
		keys = append(keys, k)
	}
	sort.Slice(keys, func(i, j int) bool { return fmt.Sprint(keys[i]) < fmt.Sprint(keys[j]) })
	failingRuns := map[string]int{}
	for _, k := range keys {
		fs := by[k]
		sort.SliceStable(fs, func(i, j int) bool {
			if len(fs[i].cfg.Dev) != len(fs[j].cfg.Dev) {
				return len(fs[i].cfg.Dev) < len(fs[j].cfg.Dev)
			}
			return fs[i].cfg.ID() < fs[j].cfg.ID()
		})
		var minimal []failure
		for _, f := range fs {
			covered := false
			for _, m := range minimal {
				if properSubset(m.cfg.Dev, f.cfg.Dev) || len(m.cfg.Dev) == 0 {
					covered = true
					break
				}
			}
			if !covered {
				minimal = append(minimal, f)
			}
		}
		for _, f := range minimal {
			dev := strings.Join(f.cfg.devClass(), "+")
			if dev == "" {
				dev = "default"
			}
			ph := ""
			if f.phase != "" {
				ph = "/" + f.phase
			}
			sig := fmt.Sprintf("C04/%s%s/%s/%s/%s", programs[f.prog].Name, ph, f.cfg.Exec, dev, f.oracle)
			failingRuns[sig] = len(fs)
			f.detail["failing_configurations_with_this_oracle"] = len(fs)
			r.Violate(sig, fmt.Sprintf("program %s {%s} under configuration %s: %s", programs[f.prog].Name, programs[f.prog].text(), f.cfg.ID(), f.what), f.detail)
		}
	}
	var sk []string
	for k := range samples {
		sk = append(sk, k)
	}
	sort.Strings(sk)
	for _, k := range sk {
		r.Sample(samples[k])
	}
	// vacuity summary per dimension
	perDim := map[string][2]int{}
	changedTotal := 0
	perObs := map[string]int{}
	for id, c := range cfgAll {
		if len(c.Dev) == 0 {
			continue
		}
		ch := cfgChanged[id]
		det := 0
		for o := range ch {
			perObs[o]++
			if !strings.HasPrefix(o, "Worker.Read") {
				det = 1
			}
		}
		changedTotal += det
		if len(c.Dev) == 1 {
			dim := c.Exec + ":" + strings.SplitN(c.Dev[0], "=", 2)[0]
			v := perDim[dim]
			v[0]++
			v[1] += det
			perDim[dim] = v
		}
	}
	dimReport := map[string]string{}
	for d, v := range perDim {
		dimReport[d] = fmt.Sprintf("%d of %d single-deviation configurations changed tasks/machines/combiner commits/spills/callback batches for some program", v[1], v[0])
	}
	progNames := []string{}
	for _, p := range programs {
		progNames = append(progNames, p.Name+": "+p.P.String())
	}
	tier := "every configuration with <=1 deviation from the default of each executor"
	if r.Thorough() {
		tier = "every configuration with <=2 deviations (in different dimensions) from the default of each executor, plus the full product machines{1,2,3} x procs{1,2,4} x Parallelism{1,2,4} x MaxLoad{0.01,0.5,0.95} x MachineCombiners{off,on} x DoShuffleReaders{off,on} on the cluster"
	}
	return ev.Coverage{
		"evaluations":         evaluations,
		"distinct_nontrivial": nontrivial.Distinct(),
		"rule": fmt.Sprintf("%d fixed programs x %s. Dimensions: executor{local, in-process cluster}; cluster machines{1,2,3}, procs/machine{1,2,4}, MaxLoad{0.01,0.5,0.95}, DoShuffleReaders{on,off}; Parallelism{1,2,4}; MachineCombiners{off,on}; vector size{1,2,4,128}; sort canary{1,2,256}; spill batch{1,4,128}; pragma{Procs(2) (cluster only), Exclusive, Materialize} at every position that accepts one. A cache program counts as two evaluations (cold, warm). Non-trivial = distinct (program, phase, configuration) whose program contains >=1 shuffle and that produced >=1 row in a judged failure-free run.",
			len(programs), tier),
		"program_names":                                               progNames,
		"planned_program_configurations":                              len(pl),
		"distinct_configurations":                                     len(cfgAll),
		"runs_judged":                                                 judged,
		"cluster_runs_judged":                                         clusterRuns,
		"runs_not_failure_free_skipped":                               notFF,
		"runs_missing":                                                missing,
		"distinct_outcomes_program_rows_counters":                     outcomes.Distinct(),
		"distinct_internal_behaviours":                                behaviours.Distinct(),
		"order_checked_runs":                                          orderChecked,
		"callback_observers_checked":                                  obsChecked,
		"counter_equalities_checked":                                  counterChecks,
		"counter_upper_bounds_checked":                                partial,
		"configurations_changing_observable_internal_behaviour":       changedTotal,
		"configurations_changing_by_observable":                       perObs,
		"single_deviation_effect_by_dimension":                        dimReport,
		"diamond_rule":                                                fmt.Sprintf("a=Run(f); b=Run(g,a); c=Run(h,a,b) compared with a plain-Go reference and with the local executor: local default + cluster machines x task procs {1x2 (control), 2x1, 3x1, 3x2}, %d fresh sessions x %d rounds (3 invocations each) per configuration; a 'fresh machine' of a round is a machine that ran tasks of c without having run a task of a or b (it has to be sent a, b and c in dependency order)", stressSessions, diamondRounds),
		"diamond_cluster_rounds":                                      diamondRoundsRun,
		"diamond_fresh_machine_compilations":                          diamondDraws,
		"stress_rule":                                                 fmt.Sprintf("2 combiner programs with 6 producer shards x {local default; cluster machines{2,3} x task procs/machine{1,2} x MachineCombiners{off,on}} x %d fresh sessions x %d invocations per session; the placement of the 6 producer shards on machines (A,B,C by first appearance, from the Worker.Run calls) is recorded per invocation", stressSessions, stressInvocations),
		"stress_cluster_invocations":                                  stressInv,
		"stress_distinct_producer_placements":                         allPlacements.Distinct(),
		"stress_mc_on_invocations":                                    stressMC,
		"stress_mc_on_invocations_machine_repeats_before_all_seen":    stressMCRepeat,
		"stress_mc_on_distinct_placements_machine_repeats_before_all": repeatPlacements.Keys(),
		"stress_producer_placements_by_configuration":                 placements,
		"internal_totals":                                             totals,
		"mechanisms_without_a_run_time_observable":                    "sort canary and spill batch size have no counter that can be read without changing bigslice: by construction every Cogroup input goes through sortio.SortReader, which spills each sorted run through sliceio.Spiller (in batches of SpillBatchSize) and merges the runs; the Cogroup programs (cogroup-second, nested-shuffles, shared-sub-slice, cogroup3) give one consumer shard >= 5 rows of a dependency (9 rows, 2-3 keys), so canary 1 and 2 produce several sorted runs per reader where the default 256 produces one; combiner spills (counted above) are also written in batches of SpillBatchSize",
		"failing_configurations_by_signature":                         failingRuns,
	}
}

func cmpClass(got, want int64) string {
	switch {
	case want != 0 && got == 0:
		return "lost"
	case want != 0 && got == 2*want:
		return "doubled"
	case got < want:
		return "too-small"
	}
	return "too-large"
}

func clipStr(s string, n int) string {
	if len(s) > n {
		return s[:n] + "..."
	}
	return s
}
