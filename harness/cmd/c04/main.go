// C04 — results do not depend on how the computation is executed.
//
// Differential, bounded-exhaustive: a fixed table of programs from the refeval
// grammar (chosen so that every executor path is taken) is run under every
// configuration of a lattice of execution strategies within a stated distance
// of the default configuration: executor {local, in-process cluster},
// machines, procs per machine, Parallelism, MaxLoad, MachineCombiners, internal
// vector size, sort canary, spill batch size, DoShuffleReaders, and a
// Procs/Exclusive/Materialize pragma at every pipeline position. Process-wide
// sizes are set once per child process (this binary re-executed).
//
// Oracle: scanned rows (multiset; sequence where the reference says the order
// is fixed) equal the independent reference evaluator's AND the default
// configuration's; Scan/WriterFunc callbacks observe every row exactly once;
// per-row user metric counters merged by Result.Scope() equal the reference's
// row counts and the default configuration's in failure-free runs.
package main

import (
	"bufio"
	"encoding/json"
	"flag"
	"fmt"
	"os"
	osexec "os/exec"
	"path/filepath"
	"sort"
	"strings"
	"sync"
	"time"

	"verifh/ev"
	"verifh/vsys"
)

var (
	flagChild = flag.String("child", "", "internal: job file to execute in this process")
	flagOut   = flag.String("out", "", "internal: result file of -child")
	flagOnly  = flag.String("only", "", "debug: only programs whose name contains this text")
	flagCfg   = flag.String("cfg", "", "debug: only configurations whose ID contains this text")
	flagShow  = flag.Bool("show", false, "debug: print every run")
	flagPar   = flag.Int("children", 16, "number of concurrent child processes")
	flagRepro = flag.Bool("repro", false, "debug: run the minimal reproducer of finding C04-1 and exit")
	flagPlan  = flag.Bool("plan", false, "debug: print the size of the space and exit")
)

type runKey struct {
	prog  int
	cfg   string
	phase string
}

type supervisor struct {
	r        *ev.Run
	dir      string
	mu       sync.Mutex
	results  map[runKey]RunRes
	cfgs     map[string]Config
	crashes  map[string]int // prog|cfg -> crashes
	crashMsg map[string]string
	hangs    map[string]int
	nChild   int
	nJobs    int
}

// runChild executes one job in a child process; returns its results, the index
// of a run that was started but not finished (-1 if none), and the stderr head.
func (s *supervisor) runChild(job Job, id int) (res []RunRes, inflight int, done bool, stderr string) {
	jf := filepath.Join(s.dir, fmt.Sprintf("job%05d.json", id))
	of := filepath.Join(s.dir, fmt.Sprintf("out%05d.jsonl", id))
	b, _ := json.Marshal(job)
	if err := os.WriteFile(jf, b, 0666); err != nil {
		ev.Fatal("write job: %v", err)
	}
	cmd := osexec.Command(os.Args[0], "-child", jf, "-out", of, "-tier", s.r.Tier)
	// 16 children share the cores: 4 threads each keep real parallelism inside
	// the system under test and halve the scheduler/GC overhead per run.
	if os.Getenv("GOMAXPROCS") == "" {
		cmd.Env = append(os.Environ(), "GOMAXPROCS=4")
	}
	var eb strings.Builder
	cmd.Stderr = &limitedWriter{b: &eb, max: 1 << 15}
	cmd.Stdout = cmd.Stderr
	_ = cmd.Run()
	inflight = -1
	f, err := os.Open(of)
	if err == nil {
		sc := bufio.NewScanner(f)
		sc.Buffer(make([]byte, 1<<20), 1<<26)
		for sc.Scan() {
			var l struct {
				Start *int    `json:"start"`
				Res   *RunRes `json:"res"`
				Done  bool    `json:"done"`
			}
			if json.Unmarshal(sc.Bytes(), &l) != nil {
				continue
			}
			switch {
			case l.Start != nil:
				inflight = *l.Start
			case l.Res != nil:
				res = append(res, *l.Res)
			case l.Done:
				done = true
				inflight = -1
			}
		}
		f.Close()
	}
	os.Remove(jf)
	os.Remove(of)
	return res, inflight, done, eb.String()
}

type limitedWriter struct {
	b   *strings.Builder
	max int
}

func (w *limitedWriter) Write(p []byte) (int, error) {
	if room := w.max - w.b.Len(); room > 0 {
		w.b.Write(p[:min(room, len(p))])
	}
	return len(p), nil
}

func firstPanicLine(s string) string {
	for _, l := range strings.Split(s, "\n") {
		if strings.HasPrefix(l, "panic: ") || strings.HasPrefix(l, "fatal error: ") || strings.HasPrefix(l, "MACHINERY-ERROR") {
			return l
		}
	}
	if len(s) > 300 {
		s = s[:300]
	}
	return "process died: " + s
}

func specKey(rs RunSpec) string { return fmt.Sprintf("%d|%s", rs.Prog, rs.Cfg.ID()) }

// execute runs all jobs (and the confirmation runs they cause) to completion.
// Only the planned jobs are subject to the budget; confirmations always run.
func (s *supervisor) execute(jobs []Job, budget time.Duration) {
	skipped := 0
	for len(jobs) > 0 {
		var next []Job
		var nmu sync.Mutex
		queue := func(j Job) {
			nmu.Lock()
			next = append(next, j)
			nmu.Unlock()
		}
		ev.Parallel(len(jobs), *flagPar, func(i int) {
			job := jobs[i]
			if !job.Confirm && s.r.OverBudget(budget) {
				nmu.Lock()
				skipped += len(job.Runs)
				nmu.Unlock()
				return
			}
			s.mu.Lock()
			s.nChild++
			id := s.nChild
			s.mu.Unlock()
			res, inflight, done, stderr := s.runChild(job, id)
			finished := map[int]bool{}
			for _, r := range res {
				finished[r.Idx] = true
				key := specKey(job.Runs[r.Idx])
				s.mu.Lock()
				if r.Hung {
					// rule 1: a hang is reported only if it reproduces in 3 more runs
					s.hangs[key]++
					n := s.hangs[key]
					s.mu.Unlock()
					if !job.Confirm {
						for k := 0; k < 3; k++ {
							queue(Job{G: job.G, Runs: []RunSpec{job.Runs[r.Idx]}, Confirm: true})
						}
						continue
					}
					if n < 4 {
						continue
					}
					s.mu.Lock()
					if _, have := s.results[runKey{r.Prog, r.Cfg.ID(), r.Phase}]; have {
						s.mu.Unlock()
						continue // one of the confirmation runs terminated: that result stands
					}
				}
				s.results[runKey{r.Prog, r.Cfg.ID(), r.Phase}] = r
				s.mu.Unlock()
			}
			if done {
				return
			}
			// The child died. The run in flight is the suspect: it is run alone twice
			// more; everything not started goes into a new job.
			var rest []RunSpec
			for k, rs := range job.Runs {
				if finished[k] || k == inflight {
					continue
				}
				rest = append(rest, rs)
			}
			if len(rest) > 0 {
				queue(Job{G: job.G, Runs: rest, Confirm: job.Confirm})
			}
			if inflight >= 0 {
				key := specKey(job.Runs[inflight])
				s.mu.Lock()
				s.crashes[key]++
				s.crashMsg[key] = firstPanicLine(stderr)
				s.mu.Unlock()
				if !job.Confirm {
					for k := 0; k < 2; k++ {
						queue(Job{G: job.G, Runs: []RunSpec{job.Runs[inflight]}, Confirm: true})
					}
				}
			} else if len(res) == 0 {
				s.r.Machinery("child process produced nothing: " + firstPanicLine(stderr))
			}
		})
		jobs = next
	}
	if skipped > 0 {
		s.r.NotExhaustive(fmt.Sprintf("time budget %v reached: %d (program, configuration) runs not executed (configurations closest to the default were run first)", budget, skipped))
	}
}

// planned is one program x configuration of the space.
type planned struct {
	prog int
	cfg  Config
}

func plan(thorough bool) []planned {
	var out []planned
	for i, pr := range programs {
		if *flagOnly != "" && !strings.Contains(pr.Name, *flagOnly) {
			continue
		}
		var cfgs []Config
		switch {
		case pr.Stress:
			cfgs = stressConfigs()
		case pr.Diamond:
			cfgs = diamondConfigs()
		default:
			cfgs = configsFor(pr.P, thorough)
			if pr.Bytes != nil && thorough {
				// <= 2 deviations, without the full product of the session options
				var few []Config
				for _, c := range cfgs {
					if len(c.Dev) <= 2 {
						few = append(few, c)
					}
				}
				cfgs = few
			}
			if pr.PragmaOnly && !thorough {
				var only []Config
				for _, c := range cfgs {
					if len(c.Dev) == 0 || strings.HasPrefix(c.Dev[0], "pragma=") {
						only = append(only, c)
					}
				}
				cfgs = only
			}
		}
		for _, c := range cfgs {
			if *flagCfg != "" && len(c.Dev) > 0 && !strings.Contains(c.ID(), *flagCfg) {
				continue
			}
			out = append(out, planned{i, c})
		}
	}
	return out
}

// makeJobs groups the plan by globals and cuts the groups into jobs. Runs
// closest to the default come first (fewest deviations), so that a budget cut
// removes the farthest configurations.
func makeJobs(pl []planned, seed int64) []Job {
	groups := map[Globals][]RunSpec{}
	var order []Globals
	sort.SliceStable(pl, func(i, j int) bool { return len(pl[i].cfg.Dev) < len(pl[j].cfg.Dev) })
	for _, x := range pl {
		g := x.cfg.G
		if _, ok := groups[g]; !ok {
			order = append(order, g)
		}
		groups[g] = append(groups[g], RunSpec{x.prog, x.cfg})
	}
	per := len(pl) / (3 * *flagPar)
	if per < 6 {
		per = 6
	}
	if per > 60 {
		per = 60
	}
	var jobs []Job
	for _, g := range order {
		runs := groups[g]
		// VERIF_SEED only rotates the order inside a group of the (complete) space.
		if seed != 0 && len(runs) > 1 {
			k := int(uint64(seed) % uint64(len(runs)))
			runs = append(append([]RunSpec(nil), runs[k:]...), runs[:k]...)
		}
		for len(runs) > 0 {
			n := min(per, len(runs))
			jobs = append(jobs, Job{G: g, Runs: runs[:n]})
			runs = runs[n:]
		}
	}
	// longest jobs first would not matter much; interleave groups so that the
	// default-globals group (the largest) starts at once.
	sort.SliceStable(jobs, func(i, j int) bool { return minDev(jobs[i]) < minDev(jobs[j]) })
	return jobs
}

func minDev(j Job) int {
	m := 1 << 30
	for _, r := range j.Runs {
		m = min(m, len(r.Cfg.Dev))
	}
	return m
}

func main() {
	vsys.Quiet()
	r := ev.Start("C04", "exploration")
	if r.Thorough() {
		stressSessions = 4
	}
	if *flagChild != "" {
		childMain(*flagChild, *flagOut)
		return
	}
	if *flagRepro {
		reproMain()
		return
	}
	r.Assume = append(r.Assume,
		"default configuration of the lattice: internal vector 4 rows (smallest power of two > 2; the combiner's hash table panics on other sizes), sort canary 256, spill batch 4, DoShuffleReaders on, Parallelism 4, MachineCombiners off, no pragma; cluster: in-process vsys cluster with at most 2 machines of 4 procs at MaxLoad 0.5 (2 task procs per machine, so the default cluster has 2 machines; 0.95 is a deviation). The production sizes 128/256/128 are deviations. Deviations are counted from the default of EACH executor (the executor itself is not counted as a deviation)",
		"internal sizes are process-wide: every group of configurations with the same (vector, canary, spill batch, DoShuffleReaders) runs in its own child processes; every (program, configuration) runs on a fresh session (and a fresh cluster)",
		"user callbacks and user functions run in the driver process on the in-process cluster; keepalive 20ms/3s/1.5s and the consecutive-loss limit off, so that CPU starvation does not produce machine losses; a cluster run is judged only if no machine was lost and the number of Worker.Run calls equals the number of tasks (else it is repeated, up to 3 times)",
		"reference model: refeval (see C01) — after any shuffle only the multiset is demanded; counters of user functions whose pipeline is cut short by a later Head are only bounded above (how far a pipeline reads ahead depends on the vector size by design)",
		"the machine quota of the cluster answers 'exhausted' after 5 ms (exec's machine manager re-requests immediately)")
	dir, err := os.MkdirTemp("", "c04-jobs-")
	if err != nil {
		ev.Fatal("temp dir: %v", err)
	}
	defer os.RemoveAll(dir)
	s := &supervisor{r: r, dir: dir, results: map[runKey]RunRes{}, cfgs: map[string]Config{}, crashes: map[string]int{}, crashMsg: map[string]string{}, hangs: map[string]int{}}
	pl := plan(r.Thorough())
	jobs := makeJobs(pl, r.Seed)
	s.nJobs = len(jobs)
	if *flagPlan {
		groups := map[Globals]int{}
		byDev := map[int]int{}
		for _, x := range pl {
			groups[x.cfg.G]++
			byDev[len(x.cfg.Dev)]++
		}
		fmt.Printf("tier %s: %d program x configuration runs, %d jobs, %d globals groups, by number of deviations: %v\n", r.Tier, len(pl), len(jobs), len(groups), byDev)
		os.RemoveAll(dir)
		os.Exit(0)
	}
	budget := 150 * time.Second
	if r.Thorough() {
		budget = 14 * time.Minute
	}
	t0 := time.Now()
	s.execute(jobs, budget)
	execTime := time.Since(t0)
	cov := s.judge(pl)
	cov["children_started"] = s.nChild
	cov["jobs"] = s.nJobs
	cov["execution_s"] = execTime.Seconds()
	os.RemoveAll(dir)
	r.Finish(cov)
}
