package main

import (
	"context"
	"fmt"
	"sync/atomic"

	"github.com/grailbio/bigslice/metrics"
	"verifh/refeval"
)

// prog is one program of the differential check.
type prog struct {
	Name string
	What string // which executor paths it is there for
	P    refeval.Program
	// NoScan: the program ends in a zero-column Scan; its result cannot be read
	// back on the cluster executor, so it is only Run and judged by what its
	// Scan/WriterFunc callbacks observed.
	NoScan bool
	// Cache: the program contains bigslice.Cache; every configuration runs it
	// twice on a fresh directory (phase "cold" writes the cache, "warm" reads it).
	Cache bool
	// Stress: a combiner program with 6 producer shards that is run under the
	// placement-stress configurations only (stressConfigs): clusters of 2 and 3
	// machines with 1 and 2 task procs, MachineCombiners off and on, several
	// invocations per session and several fresh sessions, so that many different
	// assignments of producer shards to machines occur (machine-combined shuffles
	// are read once per machine, so what a consumer reads depends on them).
	Stress bool
	// PragmaOnly: in the quick tier the program runs under the defaults and the
	// pragma deviations only (it is there for the pragma axis); thorough: everything.
	PragmaOnly bool
	// Diamond: not a single Func but a diamond of invocations (see diamond.go);
	// P is unused.
	Diamond bool
	// Bytes: a program over a pointer-carrying value column, built in bytes.go
	// (P is unused). Runs under the whole lattice except the pragma dimension
	// (its Materialize pragma is part of the program) and, in the thorough
	// tier, without the full product of the session options.
	Bytes *bytesSpec
}

// text describes the program for messages.
func (pr prog) text() string {
	if pr.Diamond || pr.Bytes != nil {
		return pr.What
	}
	return pr.P.String()
}

var (
	ii  = []refeval.Col{refeval.Int, refeval.Int}
	si  = []refeval.Col{refeval.Str, refeval.Int}
	iii = []refeval.Col{refeval.Int, refeval.Int, refeval.Int}
)

func constSrc(schema []refeval.Col, shards, rows int, keys refeval.Keys) refeval.Source {
	return refeval.Source{Kind: refeval.SrcConst, Schema: schema, Shards: shards, Rows: rows, Keys: keys}
}

func op(k refeval.OpKind, v ...int) refeval.Op {
	o := refeval.Op{Kind: k}
	if len(v) > 0 {
		if k == refeval.OpHead || k == refeval.OpReshard {
			o.N = v[0]
		} else {
			o.Var = v[0]
		}
	}
	return o
}

// programs is the fixed program table (children index into it).
var programs = []prog{
	{Name: "reduce-few-keys", What: "combiner with 2 keys (string keys), 3 producer and 3 consumer shards",
		P: refeval.Program{Src: constSrc(si, 3, 9, refeval.KeysCollide),
			Ops: []refeval.Op{op(refeval.OpMap, refeval.MapAdd1), op(refeval.OpReduce)}}},
	{Name: "reduce-many-keys", What: "combiner with 900 distinct keys: more than a vector and more than the combiner's in-memory target (100 x vector), so the hash table grows and is spilled and merged",
		P: refeval.Program{Src: constSrc(ii, 2, 900, refeval.KeysDistinct),
			Ops: []refeval.Op{op(refeval.OpMap, refeval.MapAdd1), op(refeval.OpReduce)}}},
	{Name: "prefixed-reduce-reshard", What: "two key columns, combiner, then a second shuffle to a different shard count",
		P: refeval.Program{Src: constSrc(iii, 3, 9, refeval.KeysCollide),
			Ops: []refeval.Op{op(refeval.OpFilter, refeval.FilterAll), op(refeval.OpPrefixReduce), op(refeval.OpReshard, 2)}}},
	{Name: "cogroup-second", What: "Expand dependencies: Cogroup of two slices with different shard counts (sorting readers, sort canary)",
		P: refeval.Program{Src: constSrc(ii, 3, 9, refeval.KeysCollide), Src2: constSrc(ii, 2, 5, refeval.KeysCollide),
			Ops: []refeval.Op{op(refeval.OpMap, refeval.MapAdd1), op(refeval.OpCogroup, refeval.CgSecond), op(refeval.OpMap, refeval.MapGroupSum)}}},
	{Name: "fold", What: "Fold over a one-row-per-call ReaderFunc (pragma on the source)",
		P: refeval.Program{Src: refeval.Source{Kind: refeval.SrcReaderFunc, Schema: ii, Shards: 2, Rows: 9, Keys: refeval.KeysDistinct, Style: 1},
			Ops: []refeval.Op{op(refeval.OpMap, refeval.MapKeyMod3), op(refeval.OpFold)}}},
	{Name: "reshuffle-repartition-reshard", What: "three consecutive combiner-free shuffles with hash, custom and re-sharding partitioners; a WriterFunc checks the per-shard placement made by the custom partitioner",
		P: refeval.Program{Src: constSrc(ii, 3, 9, refeval.KeysDistinct),
			Ops: []refeval.Op{op(refeval.OpReshuffle), op(refeval.OpFilter, refeval.FilterAlt), op(refeval.OpRepartition, refeval.RpMod),
				op(refeval.OpWriterFunc), op(refeval.OpReshard, 2), op(refeval.OpMap, refeval.MapAdd1)}}},
	{Name: "nested-shuffles", What: "Reduce and Fold below a Cogroup, Reduce above it; WriterFunc on the result",
		P: refeval.Program{Shape: refeval.ShapeNested, Src: constSrc(ii, 3, 9, refeval.KeysDistinct), Src2: constSrc(ii, 2, 5, refeval.KeysDistinct), N1: 2,
			Ops: []refeval.Op{op(refeval.OpWriterFunc)}}},
	{Name: "shared-sub-slice", What: "one Map consumed through Reshard(1) and Reshard(3) (compiled once per partition count), cogrouped, reduced",
		P: refeval.Program{Shape: refeval.ShapeShared, Src: constSrc(ii, 2, 9, refeval.KeysCollide), N1: 1, N2: 3,
			Ops: []refeval.Op{op(refeval.OpMap, refeval.MapGroupSum), op(refeval.OpReduce)}}},
	{Name: "head", What: "Head stops reading its pipeline early; then a shuffle",
		P: refeval.Program{Src: constSrc(ii, 3, 9, refeval.KeysDistinct),
			Ops: []refeval.Op{op(refeval.OpMap, refeval.MapAdd1), op(refeval.OpHead, 2), op(refeval.OpReshuffle)}}},
	{Name: "flatmap-reduce", What: "ScanReader source, Flatmap with 5 outputs per row (more than a vector), combiner",
		P: refeval.Program{Src: refeval.Source{Kind: refeval.SrcScanReader, Schema: []refeval.Col{refeval.Str}, Shards: 2, Rows: 9, Keys: refeval.KeysCollide},
			Ops: []refeval.Op{op(refeval.OpMap, refeval.MapParse), op(refeval.OpFlatmap, refeval.Flat5), op(refeval.OpReduce)}}},
	{Name: "observers", What: "WriterFunc before and after a shuffle, zero-column Scan task at the end", NoScan: true,
		P: refeval.Program{Src: constSrc(ii, 3, 9, refeval.KeysCollide),
			Ops: []refeval.Op{op(refeval.OpWriterFunc), op(refeval.OpReshuffle), op(refeval.OpWriterFunc), op(refeval.OpMap, refeval.MapAdd1), op(refeval.OpScan)}}},
	{Name: "cache", What: "bigslice.Cache inside a pipeline below a Reduce; cold run writes the cache files, warm run reads them", Cache: true,
		P: refeval.Program{Src: constSrc(ii, 2, 9, refeval.KeysCollide),
			Ops: []refeval.Op{op(refeval.OpMap, refeval.MapAdd1), op(refeval.OpCache), op(refeval.OpReduce)}}},
	{Name: "ordered-pipeline", What: "shuffle-free pipeline (scan ORDER is fixed): ReaderFunc, Map, Filter, Flatmap, WriterFunc; 4 pragma positions",
		P: refeval.Program{Src: refeval.Source{Kind: refeval.SrcReaderFunc, Schema: ii, Shards: 3, Rows: 9, Keys: refeval.KeysDistinct, Style: 0},
			Ops: []refeval.Op{op(refeval.OpMap, refeval.MapAdd1), op(refeval.OpFilter, refeval.FilterAlt), op(refeval.OpFlatmap, refeval.Flat2), op(refeval.OpWriterFunc)}}},
	{Name: "flatmap-eof-batch", What: "Flatmap (2 outputs per row) directly over a ReaderFunc that delivers its last rows TOGETHER with EOF (7 rows per shard: a full vector, then 3 rows + EOF at the default vector size), then a shuffle: the output vector fills at an input-row boundary while input delivered with the EOF is still buffered",
		P: refeval.Program{Src: refeval.Source{Kind: refeval.SrcReaderFunc, Schema: ii, Shards: 2, Rows: 14, Keys: refeval.KeysDistinct, Style: 0},
			Ops: []refeval.Op{op(refeval.OpFlatmap, refeval.Flat2), op(refeval.OpReshuffle)}}},
	{Name: "cogroup3", What: "three-way Cogroup with one source used twice (once filtered)",
		P: refeval.Program{Shape: refeval.ShapeCogroup3, Src: constSrc(ii, 3, 9, refeval.KeysCollide), Src2: constSrc(ii, 2, 5, refeval.KeysCollide),
			Ops: []refeval.Op{op(refeval.OpMap, refeval.MapGroupSum)}}},
}

func init() {
	for _, sp := range []bytesSpec{{Kind: 0}, {Kind: 1}, {Kind: 2}, {Kind: 3}, {Kind: 0, Ints: true}} {
		sp := sp
		col, boundary := "[]byte", "Map(identity, ExperimentalMaterialize)"
		if sp.Ints {
			col = "[]int"
		}
		if sp.Kind == 3 {
			boundary = "Reshuffle"
		}
		consumer := [...]string{"Filter(k%3!=0)", "Head(21)", "Flatmap(2 rows if k%3!=0)", "Filter(k%3!=0)"}[sp.Kind]
		name := "ptrcol-" + map[bool]string{false: "bytes", true: "ints"}[sp.Ints] + "-" + bytesKindNames[sp.Kind]
		programs = append(programs, prog{Name: name, Bytes: &sp,
			What: fmt.Sprintf("Const(2 shards, 900 rows, (int, %s)) | %s | %s: a partial-vector reader directly after a task boundary over a pointer-carrying column", col, boundary, consumer)})
	}
	programs = append(programs,
		// One Map consumed twice inside the Func, once narrowly (Filter) and once by
		// a shuffle into exactly ONE shard (Reshard(1)), in both compile orders; with
		// Materialize on the Map it is compiled as a dependency of its own for both.
		prog{Name: "fanout-narrow-then-reshard1", PragmaOnly: true, What: "x=Map(Const 4 shards); Cogroup(Filter(x), Reshard(x,1)): shared slice with a narrow and a 1-partition shuffle consumer",
			P: refeval.Program{Shape: refeval.ShapeFanout, Src: constSrc(ii, 4, 9, refeval.KeysDistinct), N1: 0, N2: 1}},
		prog{Name: "fanout-reshard1-then-narrow", PragmaOnly: true, What: "x=Map(Const 4 shards); Cogroup(Reshard(x,1), Filter(x)): the same, other compile order",
			P: refeval.Program{Shape: refeval.ShapeFanout, Src: constSrc(ii, 4, 9, refeval.KeysDistinct), N1: 1, N2: 0}},
		prog{Name: "diamond-of-invocations", Diamond: true, What: "a=Run(Const 1 shard); b=Run(Map, a); c=Run(Cogroup(Reshard(a,4), Reshard(b,4)), a, b): later invocations take earlier Results as arguments in a diamond"},
	)
	programs = append(programs,
		prog{Name: "stress-reduce-6x3keys", Stress: true, What: "6 producer shards, 3 keys, Reduce: producer placement stress for machine combiners",
			P: refeval.Program{Src: constSrc(ii, 6, 60, refeval.KeysDistinct),
				Ops: []refeval.Op{op(refeval.OpMap, refeval.MapKeyMod3), op(refeval.OpReduce)}}},
		prog{Name: "stress-reduce-6x600keys", Stress: true, What: "6 producer shards, 600 distinct keys, Reduce: producer placement stress with combiner spills",
			P: refeval.Program{Src: constSrc(ii, 6, 600, refeval.KeysDistinct),
				Ops: []refeval.Op{op(refeval.OpMap, refeval.MapAdd1), op(refeval.OpReduce)}}},
	)
}

// ---- per-row counting through user metrics ----------------------------------

// One counter per counting position: Ops[0..5] -> 0..5, shape-internal
// positions -2..-7 -> 6..11. Registered at init, as user code would.
const nCtr = 12

var ctr = func() []metrics.Counter {
	cs := make([]metrics.Counter, nCtr)
	for i := range cs {
		cs[i] = metrics.NewCounter()
	}
	return cs
}()

// noScope counts calls of a user function whose context carried no metrics scope.
var noScope int64

func slot(pos int) int {
	if pos >= 0 {
		return pos
	}
	return 6 + (-2 - pos)
}

func init() {
	refeval.CountHook = func(ctx context.Context, pos int) {
		defer func() {
			if recover() != nil {
				atomic.AddInt64(&noScope, 1)
			}
		}()
		ctr[slot(pos)].Incr(metrics.ContextScope(ctx), 1)
	}
}

// countRef is the reference for the counters of p: for every counting position
// the number of rows the operator is applied to (-1 = the reference does not
// determine it), whether a Head later in the same pipeline may stop it early
// (then the count is only bounded above), and whether the position lies
// upstream of the Cache operator (then the warm run must not execute it).
type countRef struct {
	Pos      []int
	Rows     []int64
	Partial  []bool
	PreCache []bool
}

func countReference(p refeval.Program) countRef {
	var cr countRef
	cacheAt := -1
	for i, o := range p.Ops {
		if o.Kind == refeval.OpCache {
			cacheAt = i
		}
	}
	for _, pos := range p.CountPositions() {
		cr.Pos = append(cr.Pos, pos)
		rows, partial := int64(-1), false
		if pos >= 0 {
			q := p
			q.Ops = p.Ops[:pos]
			q.Ext = refeval.Ext{}
			if e := refeval.Eval(q); e.Loose == nil && !e.Undetermined {
				rows = int64(len(e.Rows))
			}
			for _, later := range p.Ops[pos+1:] {
				if later.IsShuffle() {
					break
				}
				if later.Kind == refeval.OpHead {
					partial = true
				}
			}
		}
		cr.Rows = append(cr.Rows, rows)
		cr.Partial = append(cr.Partial, partial)
		cr.PreCache = append(cr.PreCache, cacheAt >= 0 && pos < cacheAt)
	}
	return cr
}
