package main

import (
	"context"
	"fmt"
	"os"
	"strings"
	"time"

	"github.com/grailbio/bigslice"
	"github.com/grailbio/bigslice/exec"
	"github.com/grailbio/bigslice/metrics"
	"github.com/grailbio/bigslice/sliceio"
	"verifh/vsys"
)

// Minimal reproducer of finding C04-1 (no refeval involved): a Map whose user
// function counts rows in a user metric, pipelined into the task of a Scan.
// `c04-plain -repro` runs it with and without ExperimentalMaterialize on both
// executors.

var reproCounter = metrics.NewCounter()

var reproFunc = bigslice.Func(func(materialize bool) bigslice.Slice {
	var prags []bigslice.Pragma
	if materialize {
		prags = append(prags, bigslice.ExperimentalMaterialize)
	}
	s := bigslice.Const(1, []int{1, 2, 3})
	s = bigslice.Map(s, func(ctx context.Context, x int) int {
		reproCounter.Incr(metrics.ContextScope(ctx), 1) // panics if ctx carries no scope
		return x
	}, prags...)
	return bigslice.Scan(s, func(shard int, sc *sliceio.Scanner) error {
		var x int
		// The callback is not given a context; it has to bring its own.
		for sc.Scan(context.Background(), &x) {
		}
		return sc.Err()
	})
})

func reproMain() {
	vsys.Quiet()
	vsys.FastRetries()
	// Order: the local executor without the pragma comes last, because on trees
	// before /repo commit 5b05499 the panic was not recovered there and killed
	// this process (zero-column path of bufferOutput ran before its recover).
	for _, executor := range []string{"cluster", "local"} {
		for _, materialize := range []bool{true, false} {
			var sess *exec.Session
			if executor == "local" {
				sess = exec.Start(exec.Local, exec.Parallelism(2))
			} else {
				sys := vsys.New(2)
				sys.Keepalive = [3]time.Duration{20 * time.Millisecond, 3 * time.Second, 1500 * time.Millisecond}
				sess = exec.Start(exec.Bigmachine(sys), exec.Parallelism(2))
			}
			res, err := sess.Run(context.Background(), reproFunc, materialize)
			if err != nil {
				msg := err.Error()
				if i := strings.Index(msg, "metrics: context does not provide metrics"); i >= 0 {
					msg = "... " + msg[i:min(len(msg), i+60)] + " ..."
				}
				fmt.Printf("%-8s materialize=%-5v Run error: %s\n", executor, materialize, strings.SplitN(msg, "\n", 2)[0])
			} else {
				fmt.Printf("%-8s materialize=%-5v Run ok, counter in Result.Scope() = %d (3 rows)\n", executor, materialize, reproCounter.Value(res.Scope()))
			}
			sess.Shutdown()
		}
	}
	os.Exit(0)
}
