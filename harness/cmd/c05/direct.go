package main

import (
	"context"
	"fmt"
	"math"
	"strconv"

	"github.com/grailbio/bigslice/exec"
	"github.com/grailbio/bigslice/frame"
)

// ---- (i) direct: Frame.Hash and the default partitioner on stored keys -----

const maxShard = 8

var (
	batchSizes = []int{1, 3, 128}
	offsets    = []int{0, 1, 5}
)

// colsBuf is a reusable set of column buffers holding keys of one key type.
type colsBuf interface {
	alloc(n int) frame.Frame // allocate n slots and return the frame over them
	set(slot, key int)       // store raw key #key in the slot
	junk(slot int, v int32)  // set the non-key column (must not influence the shard)
}

type col1[T any] struct {
	keys []T
	buf  []T
	j    []int32
}

func (c *col1[T]) alloc(n int) frame.Frame {
	c.buf, c.j = make([]T, n), make([]int32, n)
	return frame.Slices(c.buf, c.j)
}
func (c *col1[T]) set(slot, key int)      { c.buf[slot] = c.keys[key] }
func (c *col1[T]) junk(slot int, v int32) { c.j[slot] = v }

type col2[A, B any] struct {
	ka    []A
	kb    []B
	pairs [][2]int32
	bufA  []A
	bufB  []B
	j     []int32
}

func (c *col2[A, B]) alloc(n int) frame.Frame {
	c.bufA, c.bufB, c.j = make([]A, n), make([]B, n), make([]int32, n)
	return frame.Slices(c.bufA, c.bufB, c.j).Prefixed(2)
}
func (c *col2[A, B]) set(slot, key int) {
	p := c.pairs[key]
	c.bufA[slot], c.bufB[slot] = c.ka[p[0]], c.kb[p[1]]
}
func (c *col2[A, B]) junk(slot int, v int32) { c.j[slot] = v }

// keySet is the list of raw keys of one key type. ids maps raw keys to key
// identities: raw keys that are EQUAL as keys (frame ordering: neither is less
// than the other, Go ==) share an id (only -0.0/+0.0 and nil/empty []byte).
type keySet struct {
	name       string
	n          int
	ids        []int32
	nids       int
	show       func(k int) string
	newBuf     func() colsBuf
	exhaustive bool // the key set is the full value range of the type (or of the stated bound)
	prefix     int
}

// class groups key sets for violation signatures (one bug in the hashing of
// all integer widths should give a few signatures, not one per key set).
func (ks *keySet) class() string {
	switch ks.name {
	case "uint8", "int8", "uint16", "int16":
		return "8/16-bit-int"
	case "uint32", "int32", "uint64", "int64", "uint", "int", "uintptr":
		return "wide-int"
	case "float32", "float64":
		return "float"
	case "string", "[]byte":
		return "string-or-bytes"
	case "string/long", "[]byte/long":
		return "long-string-or-bytes"
	case "bool":
		return "bool"
	}
	return "2-column-prefix"
}

func mkSet1[T any](name string, keys []T, canon func(T) string, exhaustive bool) *keySet {
	ks := &keySet{name: name, n: len(keys), exhaustive: exhaustive, prefix: 1}
	ks.ids = make([]int32, len(keys))
	if canon == nil {
		// the raw keys are pairwise different values of an integer/bool/string type
		for i := range keys {
			ks.ids[i] = int32(i)
		}
		ks.nids = len(keys)
	} else {
		seen := make(map[string]int32, len(keys))
		for i, k := range keys {
			c := canon(k)
			id, ok := seen[c]
			if !ok {
				id = int32(len(seen))
				seen[c] = id
			}
			ks.ids[i] = id
		}
		ks.nids = len(seen)
	}
	ks.show = func(k int) string { return abbrev(fmt.Sprintf("%#v", keys[k])) }
	ks.newBuf = func() colsBuf { return &col1[T]{keys: keys} }
	return ks
}

func mkSet2[A, B any](name string, ka []A, kb []B, ca func(A) string, cb func(B) string) *keySet {
	var pairs [][2]int32
	for i := range ka {
		for j := range kb {
			pairs = append(pairs, [2]int32{int32(i), int32(j)})
		}
	}
	ks := &keySet{name: name, n: len(pairs), exhaustive: false, prefix: 2}
	ks.ids = make([]int32, len(pairs))
	seen := make(map[string]int32, len(pairs))
	for i, p := range pairs {
		c := ca(ka[p[0]]) + "\x01|\x01" + cb(kb[p[1]])
		id, ok := seen[c]
		if !ok {
			id = int32(len(seen))
			seen[c] = id
		}
		ks.ids[i] = id
	}
	ks.nids = len(seen)
	ks.show = func(k int) string {
		return "(" + abbrev(fmt.Sprintf("%#v", ka[pairs[k][0]])) + ", " + abbrev(fmt.Sprintf("%#v", kb[pairs[k][1]])) + ")"
	}
	ks.newBuf = func() colsBuf { return &col2[A, B]{ka: ka, kb: kb, pairs: pairs} }
	return ks
}

// lattice returns n distinct bit patterns of the given width, "interesting"
// ones first: extremes, powers of two ±1 and their negations, small values,
// sums/differences of two powers, single-byte patterns, repeated bytes, then a
// fixed multiplicative sequence. Deterministic.
func lattice(bits uint, n int) []uint64 {
	mask := ^uint64(0)
	if bits < 64 {
		mask = (uint64(1) << bits) - 1
	}
	seen := make(map[uint64]bool, n)
	var out []uint64
	add := func(v uint64) {
		v &= mask
		if len(out) < n && !seen[v] {
			seen[v] = true
			out = append(out, v)
		}
	}
	add(0)
	add(mask)
	add(mask >> 1)   // max signed
	add(mask>>1 + 1) // min signed
	for k := uint(0); k < bits; k++ {
		p := uint64(1) << k
		add(p)
		add(p - 1)
		add(p + 1)
		add(^p)
		add(-p)
		add(-p + 1)
		add(-p - 1)
	}
	for v := uint64(0); v <= 1024; v++ {
		add(v)
		add(-v)
	}
	for a := uint(0); a < bits; a++ {
		for b := uint(0); b < a; b++ {
			add(uint64(1)<<a + uint64(1)<<b)
			add(uint64(1)<<a - uint64(1)<<b)
			add(-(uint64(1)<<a + uint64(1)<<b))
		}
	}
	for p := uint(0); p < bits/8; p++ {
		for v := uint64(0); v < 256; v++ {
			add(v << (8 * p))
			add(^(v << (8 * p)))
		}
	}
	for v := uint64(0); v < 256; v++ {
		add(v * 0x0101010101010101)
	}
	// low and high halves swapped / equal halves (64-bit hashing of two words)
	for v := uint64(1); v <= 512 && bits == 64; v++ {
		add(v << 32)
		add(v<<32 | v)
	}
	for i := uint64(1); len(out) < n && i < uint64(4*n)+16; i++ {
		add(i * 0x9E3779B97F4A7C15)
	}
	return out
}

func conv[T any](pats []uint64, f func(uint64) T) []T {
	out := make([]T, len(pats))
	for i, p := range pats {
		out[i] = f(p)
	}
	return out
}

func strs(alpha string, maxLen int) []string {
	out := []string{""}
	prev := []string{""}
	for l := 1; l <= maxLen; l++ {
		var cur []string
		for _, p := range prev {
			for i := 0; i < len(alpha); i++ {
				cur = append(cur, p+alpha[i:i+1])
			}
		}
		out = append(out, cur...)
		prev = cur
	}
	return out
}

func fI(v int64) string  { return strconv.FormatInt(v, 10) }
func fU(v uint64) string { return strconv.FormatUint(v, 10) }

// canonF: floats are equal as keys iff == (so -0 and +0 are ONE key); NaN is excluded.
func canonF(v float64) string {
	if v == 0 {
		return "0"
	}
	return strconv.FormatFloat(v, 'g', -1, 64)
}

// keySets builds every key set; the result is the same in every process.
func keySets(wide int) []*keySet {
	var sets []*keySet
	// exhaustive 8- and 16-bit integers
	sets = append(sets,
		mkSet1("uint8", conv(seq(256), func(p uint64) uint8 { return uint8(p) }), nil, true),
		mkSet1("int8", conv(seq(256), func(p uint64) int8 { return int8(p) }), nil, true),
		mkSet1("uint16", conv(seq(65536), func(p uint64) uint16 { return uint16(p) }), nil, true),
		mkSet1("int16", conv(seq(65536), func(p uint64) int16 { return int16(p) }), nil, true),
	)
	// wider integers: lattice
	l32, l64 := lattice(32, wide), lattice(64, wide)
	sets = append(sets,
		mkSet1("uint32", conv(l32, func(p uint64) uint32 { return uint32(p) }), nil, false),
		mkSet1("int32", conv(l32, func(p uint64) int32 { return int32(uint32(p)) }), nil, false),
		mkSet1("uint64", conv(l64, func(p uint64) uint64 { return p }), nil, false),
		mkSet1("int64", conv(l64, func(p uint64) int64 { return int64(p) }), nil, false),
		mkSet1("uint", conv(l64, func(p uint64) uint { return uint(p) }), nil, false),
		mkSet1("int", conv(l64, func(p uint64) int { return int(p) }), nil, false),
		mkSet1("uintptr", conv(l64, func(p uint64) uintptr { return uintptr(p) }), nil, false),
	)
	// floats: bit-pattern lattices without NaN (includes +0/-0, ±Inf, denormals, ±1, extremes)
	var f32 []float32
	for _, p := range l32 {
		if v := math.Float32frombits(uint32(p)); v == v {
			f32 = append(f32, v)
		}
	}
	for _, v := range []float32{1, -1, 0.5, 1.5, 3, 1e10, math.MaxFloat32, -math.MaxFloat32, math.SmallestNonzeroFloat32, float32(math.Inf(1)), float32(math.Inf(-1))} {
		f32 = append(f32, v)
	}
	var f64 []float64
	for _, p := range l64 {
		if v := math.Float64frombits(p); v == v {
			f64 = append(f64, v)
		}
	}
	for _, v := range []float64{1, -1, 0.5, 1.5, 3, 1e10, 1e100, math.MaxFloat64, -math.MaxFloat64, math.SmallestNonzeroFloat64, math.Inf(1), math.Inf(-1), math.Pi} {
		f64 = append(f64, v)
	}
	sets = append(sets,
		mkSet1("float32", f32, func(v float32) string { return canonF(float64(v)) }, false),
		mkSet1("float64", f64, canonF, false),
	)
	// strings and byte slices: every string up to length 5 over {a, b, 0x00}
	ss := strs("ab\x00", 5)
	bs := make([][]byte, 0, len(ss)+1)
	bs = append(bs, nil) // nil and empty are equal keys
	for _, s := range ss {
		bs = append(bs, []byte(s))
	}
	sets = append(sets,
		mkSet1("string", ss, nil, true),
		mkSet1("[]byte", bs, func(b []byte) string { return string(b) }, true),
		mkSet1("bool", []bool{false, true}, nil, true),
	)
	// long strings / byte slices: lengths straddling plausible implementation
	// thresholds (word, cache line, stack-buffer and page sizes), a few contents per
	// length including pairs that differ only in the last or only in the first byte
	ls := longStrs()
	lb := make([][]byte, len(ls))
	for i, s := range ls {
		lb[i] = []byte(s)
	}
	sets = append(sets,
		mkSet1("string/long", ls, nil, false),
		mkSet1("[]byte/long", lb, nil, false),
	)
	// two-column prefixes
	s2 := strs("ab\x00", 2)
	i8 := conv(seq(256), func(p uint64) int8 { return int8(p) })
	sets = append(sets,
		mkSet2("(int8,string)", i8, s2, func(v int8) string { return fI(int64(v)) }, func(s string) string { return s }),
		mkSet2("(string,string)", s2, s2, func(s string) string { return s }, func(s string) string { return s }),
		mkSet2("(uint16,bool)", conv(lattice(16, 512), func(p uint64) uint16 { return uint16(p) }), []bool{false, true}, func(v uint16) string { return fU(uint64(v)) }, func(b bool) string { return strconv.FormatBool(b) }),
		mkSet2("(int64,float64)", conv(lattice(64, 128), func(p uint64) int64 { return int64(p) }), []float64{0, math.Copysign(0, -1), 1, -1, 0.5, math.Inf(1), math.Inf(-1), math.MaxFloat64, math.SmallestNonzeroFloat64, 1e10, 3, math.Pi},
			func(v int64) string { return fI(v) }, canonF),
		mkSet2("(string/long,int8)", ls, []int8{0, 1, -1, 127}, func(s string) string { return s }, func(v int8) string { return fI(int64(v)) }),
		mkSet2("(bool,[]byte/long)", []bool{false, true}, lb, func(b bool) string { return strconv.FormatBool(b) }, func(b []byte) string { return string(b) }),
		mkSet2("([]byte,int)", bs[:41], conv(lattice(64, 64), func(p uint64) int { return int(p) }), func(b []byte) string { return string(b) }, func(v int) string { return fI(int64(v)) }),
	)
	return sets
}

// longLens are the key lengths of the long string / byte slice key sets.
var longLens = []int{7, 8, 9, 15, 16, 17, 31, 32, 33, 63, 64, 65, 127, 128, 129, 255, 256, 257, 1000, 4096}

// longStrs returns, for every length in longLens, six pairwise different
// strings: all 'a'; all 'a' but the last byte; all 'a' but the first byte; all
// 'a' but the middle byte; a byte pattern; all zero bytes.
func longStrs() []string {
	var out []string
	for _, n := range longLens {
		a := make([]byte, n)
		for i := range a {
			a[i] = 'a'
		}
		last := append([]byte{}, a...)
		last[n-1] = 'b'
		first := append([]byte{}, a...)
		first[0] = 'b'
		mid := append([]byte{}, a...)
		mid[n/2] = 'b'
		pat := make([]byte, n)
		for i := range pat {
			pat[i] = byte((i*7 + n) % 251)
		}
		out = append(out, string(a), string(last), string(first), string(mid), string(pat), string(make([]byte, n)))
	}
	return out
}

// abbrev shortens the printed form of a long key (head, tail and length are kept).
func abbrev(s string) string {
	if len(s) <= 96 {
		return s
	}
	return fmt.Sprintf("%s...%s (printed length %d)", s[:48], s[len(s)-24:], len(s))
}

func seq(n int) []uint64 {
	out := make([]uint64, n)
	for i := range out {
		out[i] = uint64(i)
	}
	return out
}

// table is the observed key -> hash and (key, nshard) -> shard assignment.
type table struct {
	set   *keySet
	shard []int8 // nids*maxShard, -1 = not yet observed
	hash  []uint32
	hset  []bool
	raw   []int32  // raw key of the first observation
	nobs  []uint16 // observations per key id (saturating)
	where string   // placement description (for reports)
	evals int64
	bad   []mismatch
	nbad  int64
}

type mismatch struct {
	kind           string // hash | shard | range
	id             int32
	nshard         int
	a, b           int64
	rawA, rawB     int32
	whereA, whereB string
}

func newTable(ks *keySet, where string) *table {
	t := &table{set: ks, where: where}
	t.shard = make([]int8, ks.nids*maxShard)
	for i := range t.shard {
		t.shard[i] = -1
	}
	t.hash = make([]uint32, ks.nids)
	t.hset = make([]bool, ks.nids)
	t.raw = make([]int32, ks.nids)
	t.nobs = make([]uint16, ks.nids)
	return t
}

func (t *table) addBad(m mismatch) {
	t.nbad++
	if len(t.bad) < 6 {
		t.bad = append(t.bad, m)
	}
}

func (t *table) obsHash(id, raw int32, h uint32, where string) {
	t.evals++
	if t.nobs[id] < math.MaxUint16 {
		t.nobs[id]++
	}
	if !t.hset[id] {
		t.hset[id], t.hash[id], t.raw[id] = true, h, raw
		return
	}
	if t.hash[id] != h {
		t.addBad(mismatch{kind: "hash", id: id, a: int64(t.hash[id]), b: int64(h), rawA: t.raw[id], rawB: raw, whereA: t.where, whereB: where})
	}
}

func (t *table) obsShard(id, raw int32, n, sh int, where string) {
	t.evals++
	if sh < 0 || sh >= n {
		t.addBad(mismatch{kind: "range", id: id, nshard: n, a: int64(sh), b: int64(sh), rawA: raw, rawB: raw, whereA: where, whereB: where})
		return
	}
	p := &t.shard[int(id)*maxShard+n-1]
	if *p < 0 {
		*p = int8(sh)
		return
	}
	if int(*p) != sh {
		t.addBad(mismatch{kind: "shard", id: id, nshard: n, a: int64(*p), b: int64(sh), rawA: t.raw[id], rawB: raw, whereA: t.where, whereB: where})
	}
}

// merge folds u into t (t keeps the first observation) and reports disagreements.
func (t *table) merge(u *table) {
	t.evals += u.evals
	t.nbad += u.nbad
	for _, m := range u.bad {
		if len(t.bad) < 6 {
			t.bad = append(t.bad, m)
		}
	}
	for id := 0; id < t.set.nids; id++ {
		if n := int(t.nobs[id]) + int(u.nobs[id]); n > math.MaxUint16 {
			t.nobs[id] = math.MaxUint16
		} else {
			t.nobs[id] = uint16(n)
		}
		if u.hset[id] {
			if !t.hset[id] {
				t.hset[id], t.hash[id], t.raw[id] = true, u.hash[id], u.raw[id]
			} else if t.hash[id] != u.hash[id] {
				t.nbad++
				if len(t.bad) < 6 {
					t.bad = append(t.bad, mismatch{kind: "hash", id: int32(id), a: int64(t.hash[id]), b: int64(u.hash[id]), rawA: t.raw[id], rawB: u.raw[id], whereA: t.where, whereB: u.where})
				}
			}
		}
		for n := 1; n <= maxShard; n++ {
			i := id*maxShard + n - 1
			switch {
			case u.shard[i] < 0:
			case t.shard[i] < 0:
				t.shard[i] = u.shard[i]
			case t.shard[i] != u.shard[i]:
				t.nbad++
				if len(t.bad) < 6 {
					t.bad = append(t.bad, mismatch{kind: "shard", id: int32(id), nshard: n, a: int64(t.shard[i]), b: int64(u.shard[i]), rawA: t.raw[id], rawB: u.raw[id], whereA: t.where, whereB: u.where})
				}
			}
		}
	}
}

// runConfig stores the keys of ks in frames of B rows that are views at the
// given offset into a larger backing frame, sliding over the (cyclic) key list
// with the given stride, so that with stride 1 every key is seen at EVERY row
// position 0..B-1 (in particular first, middle and last). For every frame it
// records Frame.Hash(row) and the default partitioner's shard for 1..8 shards.
func runConfig(ks *keySet, B, off, stride int) *table {
	where := fmt.Sprintf("batch=%d,view-offset=%d", B, off)
	t := newTable(ks, where)
	buf := ks.newBuf()
	const trailing = 2
	base := buf.alloc(off + B + trailing)
	view := base.Slice(off, off+B)
	if view.Len() != B {
		panic("view length")
	}
	shards := make([]int, B)
	ctx := context.Background()
	N := ks.n
	for a := 0; a < N; a += stride {
		for j := 0; j < B; j++ {
			buf.set(off+j, (a+j)%N)
			buf.junk(off+j, int32(a*131+j*7+off))
		}
		// rows outside the view hold OTHER keys
		for j := 0; j < off; j++ {
			buf.set(j, (a+N-1-j%N+N/2)%N)
			buf.junk(j, int32(-a-j))
		}
		for j := 0; j < trailing; j++ {
			buf.set(off+B+j, (a+B+j+N/3)%N)
			buf.junk(off+B+j, int32(a^j))
		}
		for j := 0; j < B; j++ {
			k := (a + j) % N
			t.obsHash(ks.ids[k], int32(k), view.Hash(j), where)
		}
		for n := 1; n <= maxShard; n++ {
			for j := range shards {
				shards[j] = -7
			}
			exec.VerifC05DefaultPartitioner(ctx, view, n, shards)
			for j := 0; j < B; j++ {
				k := (a + j) % N
				t.obsShard(ks.ids[k], int32(k), n, shards[j], where)
			}
		}
	}
	return t
}
