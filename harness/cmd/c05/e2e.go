package main

import (
	"context"
	"flag"
	"fmt"
	"math"
	"sort"
	"strings"
	"sync"
	"time"

	"github.com/grailbio/bigslice"
	"github.com/grailbio/bigslice/exec"
	"github.com/grailbio/bigslice/frame"
	"verifh/ev"
	"verifh/vsys"
)

// ---- (ii) end-to-end: redistributing operators followed by a WriterFunc ----

const (
	opReduce = iota
	opFold
	opCogroup
	opReshuffle
	opReshard
	opRepartition
	// opMulti: ONE invocation applies several redistributing operators to the SAME
	// source slice value (different partition functions / shard counts), each
	// followed by its own recorder; the branches are joined by Cogroup.
	opMulti
)

var opNames = []string{"Reduce", "Fold", "Cogroup", "Reshuffle", "Reshard", "Repartition", "Multi"}

// branch is one redistributing operator applied to the shared source in an
// opMulti program.
type branch struct {
	op, n, variant int
}

var multiNames = []string{"Repartition(f0)+Repartition(f1)", "Repartition(f0)+Repartition(f1)+Repartition(f2)", "Reshuffle+Repartition(f1)",
	"Repartition(f1)+Reshuffle+Repartition(f0)", "Reshard(n1)+Reshard(n2)+Repartition(f0)", "Repartition(f0)+Repartition(f0)", "Repartition(f2)+Reshard(n1)+Repartition(f1)"}

// multiBranches lists the branches of multi-program m over a source with p shards.
func multiBranches(m, p int) []branch {
	n1, n2 := p%4+1, (p+1)%4+1 // both differ from p and from each other
	switch m {
	case 0:
		return []branch{{opRepartition, 0, 0}, {opRepartition, 0, 1}}
	case 1:
		return []branch{{opRepartition, 0, 0}, {opRepartition, 0, 1}, {opRepartition, 0, 2}}
	case 2:
		return []branch{{opReshuffle, 0, 0}, {opRepartition, 0, 1}}
	case 3:
		return []branch{{opRepartition, 0, 1}, {opReshuffle, 0, 0}, {opRepartition, 0, 0}}
	case 4:
		return []branch{{opReshard, n1, 0}, {opReshard, n2, 0}, {opRepartition, 0, 0}}
	case 5:
		return []branch{{opRepartition, 0, 0}, {opRepartition, 0, 0}}
	default:
		return []branch{{opRepartition, 0, 2}, {opReshard, n1, 0}, {opRepartition, 0, 1}}
	}
}

// recID is the recorder id of branch b of a run.
func recID(run, b int) int { return run*8 + b }

// observations made by the WriterFuncs, per run id
type rec struct {
	shard int
	key   string // canonical key
	val   int    // row id (unique per input row) or -1 for Cogroup
}

var (
	recMu sync.Mutex
	recs  = map[int][]rec{}
)

func record(run, shard int, keys []string, vals []int) {
	recMu.Lock()
	for i, k := range keys {
		v := -1
		if vals != nil {
			v = vals[i]
		}
		recs[run] = append(recs[run], rec{shard, k, v})
	}
	recMu.Unlock()
}

// partFn is the user partition function for Repartition (a pure function of
// the row id v and the shard count).
func partFn(variant, nshard, v int) int {
	switch variant {
	case 0:
		return v % nshard
	case 1:
		return nshard - 1 - (v/2)%nshard
	case 2:
		return (v / 3) % nshard
	default:
		return 0
	}
}

// adapter hides the key column type(s).
type adapter interface {
	nkeys() int
	canonKey(ki int) string
	source(p int, ki []int, vals []int) bigslice.Slice
	recorder(run int) interface{}
	recorderCogroup(run int) interface{}
	repartFn(variant int) interface{}
	directShard(ki, n int) int
}

type adapter1[K any] struct {
	keys  []K
	canon func(K) string
}

func (a *adapter1[K]) nkeys() int             { return len(a.keys) }
func (a *adapter1[K]) canonKey(ki int) string { return a.canon(a.keys[ki]) }
func (a *adapter1[K]) source(p int, ki []int, vals []int) bigslice.Slice {
	ks := make([]K, len(ki))
	for i := range ki {
		ks[i] = a.keys[ki[i]]
	}
	return bigslice.Const(p, ks, append([]int{}, vals...))
}
func (a *adapter1[K]) canons(ks []K) []string {
	out := make([]string, len(ks))
	for i := range ks {
		out[i] = a.canon(ks[i])
	}
	return out
}
func (a *adapter1[K]) recorder(run int) interface{} {
	return func(shard int, _ int, err error, ks []K, vs []int) error {
		record(run, shard, a.canons(ks), vs)
		return nil
	}
}
func (a *adapter1[K]) recorderCogroup(run int) interface{} {
	return func(shard int, _ int, err error, ks []K, _ [][]int, _ [][]int) error {
		record(run, shard, a.canons(ks), nil)
		return nil
	}
}
func (a *adapter1[K]) repartFn(variant int) interface{} {
	return func(nshard int, k K, v int) int { return partFn(variant, nshard, v) }
}
func (a *adapter1[K]) directShard(ki, n int) int {
	f := frame.Slices([]K{a.keys[ki]}, []int{0})
	sh := []int{-1}
	exec.VerifC05DefaultPartitioner(context.Background(), f, n, sh)
	return sh[0]
}

type adapter2[A, B any] struct {
	ka    []A
	kb    []B
	ca    func(A) string
	cb    func(B) string
	pairs [][2]int
}

func (a *adapter2[A, B]) nkeys() int { return len(a.pairs) }
func (a *adapter2[A, B]) canonKey(ki int) string {
	return a.ca(a.ka[a.pairs[ki][0]]) + "|" + a.cb(a.kb[a.pairs[ki][1]])
}
func (a *adapter2[A, B]) source(p int, ki []int, vals []int) bigslice.Slice {
	as, bs := make([]A, len(ki)), make([]B, len(ki))
	for i := range ki {
		as[i], bs[i] = a.ka[a.pairs[ki[i]][0]], a.kb[a.pairs[ki[i]][1]]
	}
	return bigslice.Prefixed(bigslice.Const(p, as, bs, append([]int{}, vals...)), 2)
}
func (a *adapter2[A, B]) canons(as []A, bs []B) []string {
	out := make([]string, len(as))
	for i := range as {
		out[i] = a.ca(as[i]) + "|" + a.cb(bs[i])
	}
	return out
}
func (a *adapter2[A, B]) recorder(run int) interface{} {
	return func(shard int, _ int, err error, as []A, bs []B, vs []int) error {
		record(run, shard, a.canons(as, bs), vs)
		return nil
	}
}
func (a *adapter2[A, B]) recorderCogroup(run int) interface{} {
	return func(shard int, _ int, err error, as []A, bs []B, _ [][]int, _ [][]int) error {
		record(run, shard, a.canons(as, bs), nil)
		return nil
	}
}
func (a *adapter2[A, B]) repartFn(variant int) interface{} {
	return func(nshard int, x A, y B, v int) int { return partFn(variant, nshard, v) }
}
func (a *adapter2[A, B]) directShard(ki, n int) int {
	f := frame.Slices([]A{a.ka[a.pairs[ki][0]]}, []B{a.kb[a.pairs[ki][1]]}, []int{0}).Prefixed(2)
	sh := []int{-1}
	exec.VerifC05DefaultPartitioner(context.Background(), f, n, sh)
	return sh[0]
}

type e2eType struct {
	name  string
	ad    adapter
	fold  bool // Fold supports only string, int, int64 keys
	quick bool
	few   bool // large key set: only 2 producer shards and one variant per operator
	f     *bigslice.FuncValue
}

// inputs of a run: which key each row carries. Row ids (the value column) are unique.
func e2eRows(nkeys, layout int, second bool) (ki, vals []int) {
	lo, hi := 0, nkeys
	base := 0
	reps := 3
	if second {
		// the second cogroup input: other keys (drops the first, keeps the last), other multiplicity
		lo, base, reps = 1, 1000, 2
	}
	n := (hi - lo) * reps
	for i := 0; i < n; i++ {
		var k int
		if layout == 0 {
			k = lo + i%(hi-lo) // equal keys far apart: they start in different producer shards
		} else {
			k = lo + i/reps // equal keys adjacent
		}
		ki = append(ki, k)
		vals = append(vals, base+i)
	}
	return
}

func mkType(name string, ad adapter, fold, quick bool) *e2eType {
	t := &e2eType{name: name, ad: ad, fold: fold, quick: quick}
	t.f = bigslice.Func(func(run, op, p, q, n, layout, variant int) bigslice.Slice {
		ki, vals := e2eRows(ad.nkeys(), layout, false)
		if op == opCogroup {
			// first input lacks the last key
			var ki2, v2 []int
			for i := range ki {
				if ki[i] != ad.nkeys()-1 {
					ki2, v2 = append(ki2, ki[i]), append(v2, vals[i])
				}
			}
			ki, vals = ki2, v2
		}
		src := ad.source(p, ki, vals)
		var s bigslice.Slice
		switch op {
		case opReduce:
			s = bigslice.Reduce(src, func(a, b int) int { return a + b })
		case opFold:
			s = bigslice.Fold(src, func(acc int, v int) int { return acc + v })
		case opCogroup:
			kj, vj := e2eRows(ad.nkeys(), layout, true)
			s = bigslice.Cogroup(src, ad.source(q, kj, vj))
			return bigslice.WriterFunc(s, ad.recorderCogroup(recID(run, 0)))
		case opMulti:
			// every branch is applied to the same slice value src
			var joined []bigslice.Slice
			for b, br := range multiBranches(variant, p) {
				var bs bigslice.Slice
				switch br.op {
				case opReshuffle:
					bs = bigslice.Reshuffle(src)
				case opReshard:
					bs = bigslice.Reshard(src, br.n)
				case opRepartition:
					bs = bigslice.Repartition(src, ad.repartFn(br.variant))
				}
				joined = append(joined, bigslice.WriterFunc(bs, ad.recorder(recID(run, b))))
			}
			return bigslice.Cogroup(joined...)
		case opReshuffle:
			s = bigslice.Reshuffle(src)
		case opReshard:
			s = bigslice.Reshard(src, n)
		case opRepartition:
			s = bigslice.Repartition(src, ad.repartFn(variant))
		}
		return bigslice.WriterFunc(s, ad.recorder(recID(run, 0)))
	})
	return t
}

func sI(v int) string { return fI(int64(v)) }

// e2eTypes are created at init (bigslice.Func registration order must be fixed).
// manyInts: 700 distinct keys, so that every keyed operator sees more than two of
// Cogroup's 128-row merge buffers (and several growths of a combiner table) per shard.
func manyInts() []int {
	ks := make([]int, 700)
	for i := range ks {
		ks[i] = i*7 - 1000
	}
	return ks
}

func manyType() *e2eType {
	t := mkType("int-700-keys", &adapter1[int]{keys: manyInts(), canon: sI}, true, true)
	t.few = true
	return t
}

var e2eTypes = []*e2eType{
	mkType("int", &adapter1[int]{keys: []int{0, 1, -1, 2, 1 << 40, math.MinInt64, 7, 256}, canon: sI}, true, true),
	mkType("string", &adapter1[string]{keys: []string{"", "a", "b", "ab", "a\x00", "abcde", "ba", "\x00", strings.Repeat("k", 33), strings.Repeat("k", 32) + "l", strings.Repeat("long key ", 30)}, canon: func(s string) string { return s }}, true, true),
	mkType("uint8", &adapter1[uint8]{keys: []uint8{0, 1, 2, 127, 128, 255}, canon: func(v uint8) string { return fU(uint64(v)) }}, false, false),
	mkType("int16", &adapter1[int16]{keys: []int16{0, -1, 1, -32768, 32767, 256}, canon: func(v int16) string { return fI(int64(v)) }}, false, false),
	mkType("int64", &adapter1[int64]{keys: []int64{0, 1, -1, 1 << 32, math.MaxInt64, math.MinInt64}, canon: fI}, true, false),
	mkType("uint64", &adapter1[uint64]{keys: []uint64{0, 1, 1 << 63, math.MaxUint64, 1 << 32, 5}, canon: fU}, false, false),
	mkType("[]byte", &adapter1[[]byte]{keys: [][]byte{nil, {}, []byte("a"), []byte("b"), []byte("ab"), {0}, []byte("abc")}, canon: func(b []byte) string { return string(b) }}, false, false),
	mkType("bool", &adapter1[bool]{keys: []bool{false, true}, canon: func(b bool) string { return fmt.Sprint(b) }}, false, false),
	mkType("float64", &adapter1[float64]{keys: []float64{0, math.Copysign(0, -1), 1, -1, 0.5, math.Inf(1), 1e300}, canon: canonF}, false, false),
	mkType("float32", &adapter1[float32]{keys: []float32{0, float32(math.Copysign(0, -1)), 1, -1, 0.5, float32(math.Inf(-1))}, canon: func(v float32) string { return canonF(float64(v)) }}, false, false),
	mkType("(int,string)", &adapter2[int, string]{ka: []int{0, 1, -1}, kb: []string{"", "a"}, ca: sI, cb: func(s string) string { return s },
		pairs: [][2]int{{0, 0}, {0, 1}, {1, 0}, {1, 1}, {2, 0}, {2, 1}}}, false, true),
	manyType(),
}

type e2eCase struct {
	t                            *e2eType
	op, p, q, n, layout, variant int
	local                        bool
}

func (c e2eCase) nout() int {
	switch c.op {
	case opCogroup:
		if c.q > c.p {
			return c.q
		}
		return c.p
	case opReshard:
		return c.n
	}
	return c.p
}

func (c e2eCase) execName() string {
	if c.local {
		return "local"
	}
	return "cluster"
}

func (c e2eCase) String() string {
	if c.op == opMulti {
		return fmt.Sprintf("%s/Multi[%s] key=%s source-shards=%d layout=%d", c.execName(), multiNames[c.variant], c.t.name, c.p, c.layout)
	}
	return fmt.Sprintf("%s/%s key=%s producers=%d,%d out-shards=%d layout=%d variant=%d", c.execName(), opNames[c.op], c.t.name, c.p, c.q, c.nout(), c.layout, c.variant)
}

type assignment struct {
	shard int
	from  string
}

func runE2E(r *ev.Run, cov ev.Coverage) {
	vsys.Quiet()
	vsys.FastRetries()
	// only failure-free runs are judged; under CPU starvation keepalives can time
	// out, so do not let "too many consecutive losses" turn a slow run into an error
	exec.VerifSetMaxConsecutiveLost(false)
	// 4-row vectors: every producer shard emits several batches
	if err := flag.Set("bigslice-internal-default-chunk-rows", "4"); err != nil {
		ev.Fatal("cannot set chunk rows: %v", err)
	}
	layouts := []int{0}
	if r.Thorough() {
		layouts = []int{0, 1}
	}
	var cases []e2eCase
	skippedReshardSame := 0
	for _, local := range []bool{true, false} {
		for _, t := range e2eTypes {
			if !t.quick && !r.Thorough() {
				continue
			}
			for _, layout := range layouts {
				if t.few {
					cases = append(cases,
						e2eCase{t: t, op: opReduce, p: 2, layout: layout, local: local},
						e2eCase{t: t, op: opFold, p: 2, layout: layout, local: local},
						e2eCase{t: t, op: opCogroup, p: 2, q: 1, layout: layout, local: local},
						e2eCase{t: t, op: opCogroup, p: 1, q: 2, layout: layout, local: local},
						e2eCase{t: t, op: opReshuffle, p: 2, layout: layout, local: local},
						e2eCase{t: t, op: opRepartition, p: 2, variant: 1, layout: layout, local: local})
					continue
				}
				for p := 1; p <= 3; p++ {
					cases = append(cases, e2eCase{t: t, op: opReduce, p: p, layout: layout, local: local})
					if t.fold {
						cases = append(cases, e2eCase{t: t, op: opFold, p: p, layout: layout, local: local})
					}
					for q := 1; q <= 3; q++ {
						cases = append(cases, e2eCase{t: t, op: opCogroup, p: p, q: q, layout: layout, local: local})
					}
					cases = append(cases, e2eCase{t: t, op: opReshuffle, p: p, layout: layout, local: local})
					for n := 1; n <= 4; n++ {
						if n == p {
							// Reshard(slice, n) with n == NumShard returns the slice itself:
							// nothing is redistributed, so the statement does not apply.
							skippedReshardSame++
							continue
						}
						cases = append(cases, e2eCase{t: t, op: opReshard, p: p, n: n, layout: layout, local: local})
					}
					for variant := 0; variant < 3; variant++ {
						cases = append(cases, e2eCase{t: t, op: opRepartition, p: p, variant: variant, layout: layout, local: local})
					}
					for m := range multiNames {
						cases = append(cases, e2eCase{t: t, op: opMulti, p: p, variant: m, layout: layout, local: local})
					}
				}
			}
		}
	}
	ctx := context.Background()
	sys := vsys.New(2)
	sessLocal := exec.Start(exec.Local, exec.Parallelism(4))
	sessCluster := exec.Start(exec.Bigmachine(sys), exec.Parallelism(4))
	defer sessLocal.Shutdown()
	defer sessCluster.Shutdown()

	budget := 4 * time.Minute
	if r.Thorough() {
		budget = 12 * time.Minute
	}
	assign := map[string]assignment{} // op|type|key|nout -> shard
	var runs, notFF, keysChecked, multiShardKeyRuns, agree, agreeOf, multiRuns, multiBranchesJudged, repartitionRows int
	perOp := map[string]int{}
	outcomes := ev.NewCounter()
	usedShards := ev.NewCounter()
	runFailed := false
	for ci, c := range cases {
		if r.OverBudget(budget) {
			r.NotExhaustive(fmt.Sprintf("e2e: budget hit after %d of %d runs", ci, len(cases)))
			break
		}
		run := ci + 1
		nbranch := 1
		if c.op == opMulti {
			nbranch = len(multiBranches(c.variant, c.p))
		}
		branchRows := make([][]rec, nbranch)
		var tasks []string
		failFree := false
		for attempt := 0; attempt < 3 && !failFree; attempt++ {
			recMu.Lock()
			for b := 0; b < nbranch; b++ {
				delete(recs, recID(run, b))
			}
			recMu.Unlock()
			sess := sessLocal
			if !c.local {
				sess = sessCluster
			}
			before, killedBefore := sys.Count("Worker.Run"), len(sys.Killed())
			res, err := sess.Run(ctx, c.t.f, run, c.op, c.p, c.q, c.n, c.layout, c.variant)
			if err != nil {
				// A failing run is not a C05 verdict by itself. If earlier parts already
				// found violations (e.g. shards out of range, which make runs crash),
				// keep them and stop the e2e part; otherwise the machinery is broken.
				if r.Violations() > 0 {
					r.NotExhaustive(fmt.Sprintf("e2e stopped: run %v failed: %.300s", c, err.Error()))
					runFailed = true
					break
				}
				ev.Fatal("e2e run %v failed: %v", c, err)
			}
			tasks = exec.VerifResultTaskStates(res)
			failFree = len(sys.Killed()) == killedBefore
			for _, t := range tasks {
				if !strings.HasSuffix(t, "=OK") {
					failFree = false
				}
			}
			if !c.local && sys.Count("Worker.Run")-before != len(tasks) {
				failFree = false
			}
			recMu.Lock()
			for b := 0; b < nbranch; b++ {
				branchRows[b] = append([]rec{}, recs[recID(run, b)]...)
				delete(recs, recID(run, b))
			}
			recMu.Unlock()
		}
		if runFailed {
			break
		}
		if !failFree {
			notFF++
			r.NotExhaustive(fmt.Sprintf("e2e %v: tasks were re-run in 3 attempts; WriterFunc observations would be duplicated; not judged", c))
			continue
		}
		runs++
		perOp[opNames[c.op]]++
		if c.op == opMulti {
			multiRuns++
		}
		// judge applies the oracles of operator op (with nout output shards) to the
		// rows its recorder observed.
		judge := func(op, nout, variant int, rows []rec, label string) {
			sort.Slice(rows, func(i, j int) bool {
				if rows[i].key != rows[j].key {
					return rows[i].key < rows[j].key
				}
				if rows[i].val != rows[j].val {
					return rows[i].val < rows[j].val
				}
				return rows[i].shard < rows[j].shard
			})
			detail := func(extra ...interface{}) map[string]interface{} {
				var obs []string
				for _, x := range rows {
					obs = append(obs, fmt.Sprintf("shard%d:%q/%d", x.shard, x.key, x.val))
				}
				d := map[string]interface{}{"case": c.String(), "observed": obs, "tasks": tasks}
				if label != "" {
					d["branch"] = label
				}
				for i := 0; i+1 < len(extra); i += 2 {
					d[fmt.Sprint(extra[i])] = extra[i+1]
				}
				return d
			}
			// per operator and executor; the key type is in the detail (a partitioning
			// bug hits every key type alike)
			sigBase := fmt.Sprintf("C05/e2e/%s", opNames[op])
			ex := c.execName() + "/"
			if c.op == opMulti {
				// several operators on one source in one invocation
				sigBase = "C05/e2e/Multi/" + opNames[op]
			}
			// expected distinct keys (canonical) and how many raw keys map to each
			ki, vals := e2eRows(c.t.ad.nkeys(), c.layout, false)
			wantKeys := map[string]int{}
			reps := map[string]map[int]bool{}
			addKey := func(k int) {
				ck := c.t.ad.canonKey(k)
				wantKeys[ck]++
				if reps[ck] == nil {
					reps[ck] = map[int]bool{}
				}
				reps[ck][k] = true
			}
			if op == opCogroup {
				for _, k := range ki {
					if k != c.t.ad.nkeys()-1 {
						addKey(k)
					}
				}
				kj, _ := e2eRows(c.t.ad.nkeys(), c.layout, true)
				for _, k := range kj {
					addKey(k)
				}
			} else {
				for _, k := range ki {
					addKey(k)
				}
			}
			// sig: violations about a key that has several representations (-0.0/+0.0) get ONE
			// signature per key type (one root cause), all others are per operator and oracle.
			sig := func(k, oracle string) string {
				if len(reps[k]) > 1 {
					return "C05/e2e/equal-keys-with-different-representation/" + c.t.name
				}
				return sigBase + "/" + oracle
			}
			// range
			for _, x := range rows {
				usedShards.Add(fmt.Sprintf("%d/%d", x.shard, nout))
				if x.shard < 0 || x.shard >= nout {
					r.Violate(sigBase+"/"+ex+"shard-out-of-range", fmt.Sprintf("%v: row observed in shard %d of %d", c, x.shard, nout), detail())
				}
			}
			byKey := map[string][]rec{}
			for _, x := range rows {
				byKey[x.key] = append(byKey[x.key], x)
			}
			if op == opRepartition {
				// every input row exactly once, in the shard the function returned
				seen := map[int]int{}
				for _, x := range rows {
					seen[x.val]++
					if want := partFn(variant, nout, x.val); x.shard != want {
						r.Violate(sigBase+"/"+ex+"row-not-in-the-shard-the-function-returned",
							fmt.Sprintf("%v %s: row %d (key %q) is in shard %d, its partition function f%d returned %d", c, label, x.val, x.key, x.shard, variant, want), detail())
					}
				}
				for _, v := range vals {
					if seen[v] != 1 {
						r.Violate(sigBase+"/"+ex+"row-not-exactly-once", fmt.Sprintf("%v: input row %d observed %d times after Repartition", c, v, seen[v]), detail())
					}
				}
				outcomes.Add(fmt.Sprintf("repartition:%d:%d", variant, nout))
				repartitionRows += len(rows)
				return
			}
			// co-location, function-of-key, and exactly-once for aggregations
			keys := make([]string, 0, len(byKey))
			for k := range byKey {
				keys = append(keys, k)
			}
			sort.Strings(keys)
			multi := false
			for _, k := range keys {
				xs := byKey[k]
				keysChecked++
				shards := map[int]bool{}
				for _, x := range xs {
					shards[x.shard] = true
				}
				if len(xs) > 1 {
					multi = true
				}
				if len(shards) > 1 {
					r.Violate(sig(k, ex+"equal-keys-in-several-shards"),
						fmt.Sprintf("%v: rows with key %q are in %d different output shards", c, k, len(shards)), detail("key", k))
					continue
				}
				sh := xs[0].shard
				outcomes.Add(fmt.Sprintf("%s|%s|%d->%d", c.t.name, k, nout, sh))
				ak := fmt.Sprintf("%s|%s|%q|%d", opNames[op], c.t.name, k, nout)
				if prev, ok := assign[ak]; ok {
					if prev.shard != sh {
						r.Violate(sig(k, "shard-of-key-differs-between-runs"),
							fmt.Sprintf("key %q with %d output shards: shard %d in [%s] but shard %d in [%v]", k, nout, prev.shard, prev.from, sh, c), detail("key", k, "other_run", prev.from))
					}
				} else {
					assign[ak] = assignment{sh, c.String()}
				}
				// informational: does the shard equal the direct default-partitioner value?
				for rk := range reps[k] {
					agreeOf++
					if c.t.ad.directShard(rk, nout) == sh {
						agree++
					}
					break
				}
				if op == opReduce || op == opFold || op == opCogroup {
					if len(xs) != 1 {
						r.Violate(sig(k, ex+"key-emitted-more-than-once"),
							fmt.Sprintf("%v: key %q is emitted %d times in the whole result", c, k, len(xs)), detail("key", k))
					}
				}
			}
			if multi {
				multiShardKeyRuns++
			}
			if op == opReduce || op == opFold || op == opCogroup {
				for k := range wantKeys {
					if len(byKey[k]) == 0 {
						r.Violate(sig(k, ex+"key-not-emitted"), fmt.Sprintf("%v: key %q of the input is not emitted at all", c, k), detail("key", k))
					}
				}
			}
			for k := range byKey {
				if wantKeys[k] == 0 {
					ev.Fatal("harness: observed key %q that is not in the input (%v)", k, c)
				}
			}
			if runs == 1 || (c.op == opCogroup && c.p == 2 && c.q == 3 && !c.local && c.t.name == "string") ||
				(c.op == opMulti && c.variant == 1 && c.p == 3 && !c.local && c.t.name == "int" && label == "branch 1: Repartition(f1)") {
				r.Sample(detail())
			}
		} // judge
		if c.op != opMulti {
			judge(c.op, c.nout(), c.variant, branchRows[0], "")
		} else {
			for b, br := range multiBranches(c.variant, c.p) {
				nout := c.p
				name := opNames[br.op]
				switch br.op {
				case opReshard:
					nout = br.n
					name = fmt.Sprintf("Reshard(%d)", br.n)
				case opRepartition:
					name = fmt.Sprintf("Repartition(f%d)", br.variant)
				}
				multiBranchesJudged++
				judge(br.op, nout, br.variant, branchRows[b], fmt.Sprintf("branch %d: %s", b, name))
			}
		}
	}
	cov["e2e_multi_operator_runs"] = multiRuns
	cov["e2e_multi_operator_branches_judged"] = multiBranchesJudged
	cov["e2e_repartition_rows_checked"] = repartitionRows
	cov["e2e_runs"] = runs
	cov["e2e_runs_per_operator"] = perOp
	cov["e2e_not_failure_free_skipped"] = notFF
	cov["e2e_keys_checked"] = keysChecked
	cov["e2e_runs_with_a_key_spread_over_several_rows"] = multiShardKeyRuns
	cov["e2e_distinct_(type,key,nshard)->shard_outcomes"] = outcomes.Distinct()
	cov["e2e_distinct_(shard/nshard)_used"] = usedShards.Distinct()
	cov["e2e_reshard_same_count_not_applicable"] = skippedReshardSame
	cov["e2e_assignments_equal_to_direct_default_partitioner"] = fmt.Sprintf("%d of %d (informational, not an oracle)", agree, agreeOf)
	cov["e2e_worker_run_rpcs"] = sys.Count("Worker.Run")
}
