package main

import (
	"context"
	"flag"
	"fmt"
	"sort"
	"strconv"
	"strings"
	"time"

	"github.com/grailbio/bigslice"
	"github.com/grailbio/bigslice/exec"
	"verifh/ev"
	"verifh/vsys"
)

// ---- (ii-b) multi-invocation histories --------------------------------------
//
// res := Run(first(Prefixed(src, a)))   first in {Const, Reshuffle, Reduce}
// Run(second(Prefixed(res, b)))         second in {Reshuffle, Reduce, Cogroup,
//                                        Cogroup with a fresh slice, Repartition}
//
// with a, b in {1,2} (all four combinations), 2..4 shards, both executors. The
// keyed operator of the second invocation is applied DIRECTLY to
// Prefixed(result, b), so that the compiler's re-shuffle tasks for a reused
// Result do the partitioning. A "fresh" history (the second program over a
// slice computed in the same invocation) gives the reference assignment.
// Columns: k0 string, k1 int, v int; the key is (k0) for prefix 1 and (k0,k1)
// for prefix 2.

const (
	hFresh = iota // no first invocation: source computed in the second invocation
	hConst
	hReshuffle
	hReduce
)

var hFirstNames = []string{"fresh", "Const", "Reshuffle", "Reduce"}

const (
	sReshuffle = iota
	sReduce
	sCogroup
	sCogroupFresh
	sRepartition
)

var hSecondNames = []string{"Reshuffle", "Reduce", "Cogroup", "Cogroup(with-fresh-slice)", "Repartition"}

var hK0 = []string{"", "a", "b", "ab", strings.Repeat("k", 33)}

const (
	hNK1   = 4
	hNCopy = 2
)

// hData returns the input rows. v is unique per row, and so is the sum of the
// v's of the hNCopy rows of one (k0,k1) pair. base distinguishes the inputs.
func hData(base int) (k0 []string, k1 []int, v []int) {
	for c := 0; c < hNCopy; c++ {
		for i := range hK0 {
			for j := 0; j < hNK1; j++ {
				k0 = append(k0, hK0[i])
				k1 = append(k1, j-1)
				v = append(v, base+(i*hNK1+j)*hNCopy+c)
			}
		}
	}
	return
}

func hKey(b int, k0 string, k1 int) string {
	if b == 1 {
		return strconv.Quote(k0)
	}
	return strconv.Quote(k0) + "|" + strconv.Itoa(k1)
}

func hRecorder3(id, b int) interface{} {
	return func(shard int, _ int, err error, k0 []string, k1 []int, v []int) error {
		keys := make([]string, len(k0))
		for i := range k0 {
			keys[i] = hKey(b, k0[i], k1[i])
		}
		record(id, shard, keys, v)
		return nil
	}
}

func hFirstSlice(id, first, a, nshard int) bigslice.Slice {
	k0, k1, v := hData(0)
	s := bigslice.Prefixed(bigslice.Const(nshard, k0, k1, v), a)
	switch first {
	case hReshuffle:
		s = bigslice.Reshuffle(s)
	case hReduce:
		s = bigslice.Reduce(s, func(x, y int) int { return x + y })
	}
	if id >= 0 {
		s = bigslice.WriterFunc(s, hRecorder3(id, a))
	}
	return s
}

// hFirst is the first invocation; its Result has key prefix a.
var hFirst = bigslice.Func(func(id, first, a, nshard int) bigslice.Slice {
	return hFirstSlice(id, first, a, nshard)
})

func hSecondSlice(id int, in bigslice.Slice, second, b, nshard, variant int) bigslice.Slice {
	in = bigslice.Prefixed(in, b)
	switch second {
	case sReshuffle:
		return bigslice.WriterFunc(bigslice.Reshuffle(in), hRecorder3(id, b))
	case sReduce:
		return bigslice.WriterFunc(bigslice.Reduce(in, func(x, y int) int { return x + y }), hRecorder3(id, b))
	case sRepartition:
		s := bigslice.Repartition(in, func(n int, k0 string, k1 int, v int) int { return partFn(variant, n, v) })
		return bigslice.WriterFunc(s, hRecorder3(id, b))
	}
	ins := []bigslice.Slice{in}
	if second == sCogroupFresh {
		k0, k1, v := hData(1000)
		ins = append(ins, bigslice.Prefixed(bigslice.Const(nshard, k0, k1, v), b))
	}
	s := bigslice.Cogroup(ins...)
	switch {
	case b == 1 && second == sCogroup:
		return bigslice.WriterFunc(s, func(shard int, _ int, err error, k0 []string, _ [][]int, _ [][]int) error {
			return hRecK0(id, shard, k0)
		})
	case b == 1:
		return bigslice.WriterFunc(s, func(shard int, _ int, err error, k0 []string, _ [][]int, _ [][]int, _ [][]int, _ [][]int) error {
			return hRecK0(id, shard, k0)
		})
	case second == sCogroup:
		return bigslice.WriterFunc(s, func(shard int, _ int, err error, k0 []string, k1 []int, _ [][]int) error {
			return hRecK01(id, shard, k0, k1)
		})
	default:
		return bigslice.WriterFunc(s, func(shard int, _ int, err error, k0 []string, k1 []int, _ [][]int, _ [][]int) error {
			return hRecK01(id, shard, k0, k1)
		})
	}
}

func hRecK0(id, shard int, k0 []string) error {
	keys := make([]string, len(k0))
	for i := range k0 {
		keys[i] = hKey(1, k0[i], 0)
	}
	record(id, shard, keys, nil)
	return nil
}

func hRecK01(id, shard int, k0 []string, k1 []int) error {
	keys := make([]string, len(k0))
	for i := range k0 {
		keys[i] = hKey(2, k0[i], k1[i])
	}
	record(id, shard, keys, nil)
	return nil
}

// hSecond is the second invocation over the Result of the first.
var hSecond = bigslice.Func(func(id int, res bigslice.Slice, second, b, nshard, variant int) bigslice.Slice {
	return hSecondSlice(id, res, second, b, nshard, variant)
})

// hSecondFresh is the reference: the same second program over a slice computed
// in the same invocation (no reused Result).
var hSecondFresh = bigslice.Func(func(id, second, b, nshard, variant int) bigslice.Slice {
	return hSecondSlice(id, hFirstSlice(-1, hConst, 1, nshard), second, b, nshard, variant)
})

type hCase struct {
	local            bool
	first, a, nshard int
}

func (h hCase) execName() string {
	if h.local {
		return "local"
	}
	return "cluster"
}

const hRecBase = 1 << 24 // recorder ids of the history runs (disjoint from recID)

func runHist(r *ev.Run, cov ev.Coverage) {
	vsys.Quiet()
	vsys.FastRetries()
	exec.VerifSetMaxConsecutiveLost(false)
	if err := flag.Set("bigslice-internal-default-chunk-rows", "4"); err != nil {
		ev.Fatal("cannot set chunk rows: %v", err)
	}
	shardCounts := []int{2, 3}
	firsts := [][2]int{{hFresh, 1}, {hReshuffle, 1}, {hReshuffle, 2}, {hReduce, 2}}
	if r.Thorough() {
		shardCounts = []int{2, 3, 4}
		firsts = [][2]int{{hFresh, 1}, {hConst, 1}, {hConst, 2}, {hReshuffle, 1}, {hReshuffle, 2}, {hReduce, 2}}
	}
	type secondSpec struct{ second, b, variant int }
	var seconds []secondSpec
	for b := 1; b <= 2; b++ {
		seconds = append(seconds, secondSpec{sReshuffle, b, 0})
		if b == 2 {
			// Reduce needs exactly one residual column
			seconds = append(seconds, secondSpec{sReduce, b, 0})
		}
		seconds = append(seconds, secondSpec{sCogroup, b, 0}, secondSpec{sCogroupFresh, b, 0}, secondSpec{sRepartition, b, b})
	}
	var cases []hCase
	for _, local := range []bool{true, false} {
		for _, n := range shardCounts {
			for _, f := range firsts {
				cases = append(cases, hCase{local, f[0], f[1], n})
			}
		}
	}
	ctx := context.Background()
	sys := vsys.New(2)
	sessLocal := exec.Start(exec.Local, exec.Parallelism(4))
	sessCluster := exec.Start(exec.Bigmachine(sys), exec.Parallelism(4))
	defer sessLocal.Shutdown()
	defer sessCluster.Shutdown()
	budget := 5 * time.Minute
	if r.Thorough() {
		budget = 14 * time.Minute
	}

	nextID := hRecBase
	var histories, runs, notFF, keysChecked, prefixChanged, spreadKeys int
	assign := map[string]assignment{} // second|b|key|nout -> shard
	outcomes := ev.NewCounter()

	stopped := false
	// runOnce runs f and returns the recorder's rows and the tasks new in this
	// invocation; ok=false if the run was not failure-free in 3 attempts.
	runOnce := func(local bool, known map[string]bool, what string, f *bigslice.FuncValue, args func(id int) []interface{}) (res *exec.Result, rows []rec, tasks []string, ok bool) {
		sess := sessLocal
		if !local {
			sess = sessCluster
		}
		for attempt := 0; attempt < 3; attempt++ {
			nextID++
			id := nextID
			before, killedBefore := sys.Count("Worker.Run"), len(sys.Killed())
			var err error
			res, err = sess.Run(ctx, f, args(id)...)
			if err != nil {
				if r.Violations() > 0 {
					r.NotExhaustive(fmt.Sprintf("history part stopped: %s failed: %.300s", what, err.Error()))
					stopped = true
					return nil, nil, nil, false
				}
				ev.Fatal("history run %s failed: %v", what, err)
			}
			ff := len(sys.Killed()) == killedBefore
			tasks = tasks[:0]
			for _, t := range exec.VerifResultTaskStates(res) {
				name := t[:strings.LastIndex(t, "=")]
				if known[name] {
					if !strings.HasSuffix(t, "=OK") {
						ff = false
					}
					continue
				}
				tasks = append(tasks, t)
				if !strings.HasSuffix(t, "=OK") {
					ff = false
				}
			}
			if !local && sys.Count("Worker.Run")-before != len(tasks) {
				ff = false
			}
			recMu.Lock()
			rows = append([]rec{}, recs[id]...)
			delete(recs, id)
			recMu.Unlock()
			if ff {
				return res, rows, tasks, true
			}
		}
		notFF++
		r.NotExhaustive(fmt.Sprintf("history %s: tasks were re-run in 3 attempts; not judged", what))
		return nil, nil, nil, false
	}

	// judge applies the C05 oracles to the rows of one recorder.
	// mode: "colocate" (Reshuffle / Const output is not judged), "once" (keyed aggregation), "repartition".
	judge := func(h hCase, opName, mode string, b, nout, variant int, rows []rec, tasks []string, wantKeys map[string]bool, wantVals []int, what string) {
		sort.Slice(rows, func(i, j int) bool {
			if rows[i].key != rows[j].key {
				return rows[i].key < rows[j].key
			}
			if rows[i].val != rows[j].val {
				return rows[i].val < rows[j].val
			}
			return rows[i].shard < rows[j].shard
		})
		detail := func(extra ...interface{}) map[string]interface{} {
			var obs []string
			for _, x := range rows {
				obs = append(obs, fmt.Sprintf("shard%d:%s/%d", x.shard, abbrev(x.key), x.val))
			}
			d := map[string]interface{}{"history": what, "observed": obs, "tasks_of_this_invocation": tasks, "key_prefix": b, "out_shards": nout}
			for i := 0; i+1 < len(extra); i += 2 {
				d[fmt.Sprint(extra[i])] = extra[i+1]
			}
			return d
		}
		sigBase := "C05/e2e/History/" + opName + "/"
		ex := h.execName() + "/"
		for _, x := range rows {
			if x.shard < 0 || x.shard >= nout {
				r.Violate(sigBase+ex+"shard-out-of-range", fmt.Sprintf("%s: row in shard %d of %d", what, x.shard, nout), detail())
			}
		}
		if mode == "repartition" {
			seen := map[int]int{}
			for _, x := range rows {
				seen[x.val]++
				if want := partFn(variant, nout, x.val); x.shard != want {
					r.Violate(sigBase+ex+"row-not-in-the-shard-the-function-returned",
						fmt.Sprintf("%s: row with v=%d (key %s) is in shard %d, the partition function returned %d", what, x.val, abbrev(x.key), x.shard, want), detail())
				}
			}
			for _, v := range wantVals {
				if seen[v] != 1 {
					r.Violate(sigBase+ex+"row-not-exactly-once", fmt.Sprintf("%s: input row v=%d observed %d times after Repartition", what, v, seen[v]), detail())
				}
			}
			return
		}
		byKey := map[string][]rec{}
		for _, x := range rows {
			byKey[x.key] = append(byKey[x.key], x)
		}
		keys := make([]string, 0, len(byKey))
		for k := range byKey {
			keys = append(keys, k)
		}
		sort.Strings(keys)
		for _, k := range keys {
			if !wantKeys[k] {
				ev.Fatal("harness: history %s observed key %s that is not in the input", what, k)
			}
			xs := byKey[k]
			keysChecked++
			if len(xs) > 1 {
				spreadKeys++
			}
			shards := map[int]bool{}
			for _, x := range xs {
				shards[x.shard] = true
			}
			if mode == "once" && len(xs) != 1 {
				r.Violate(sigBase+ex+"key-emitted-more-than-once",
					fmt.Sprintf("%s: key %s is emitted %d times in the whole result (in %d shards)", what, abbrev(k), len(xs), len(shards)), detail("key", k))
			}
			if len(shards) > 1 {
				r.Violate(sigBase+ex+"equal-keys-in-several-shards",
					fmt.Sprintf("%s: rows with key %s are in %d different output shards", what, abbrev(k), len(shards)), detail("key", k))
				continue
			}
			sh := xs[0].shard
			outcomes.Add(fmt.Sprintf("%d|%s|%d->%d", b, k, nout, sh))
			ak := fmt.Sprintf("%s|%d|%s|%d", opName, b, k, nout)
			if prev, ok := assign[ak]; ok {
				if prev.shard != sh {
					r.Violate(sigBase+"shard-of-key-differs-between-histories",
						fmt.Sprintf("%s with key prefix %d, %d output shards: key %s is in shard %d in [%s] but in shard %d in [%s]", opName, b, nout, abbrev(k), prev.shard, prev.from, sh, what),
						detail("key", k, "other_history", prev.from))
				}
			} else {
				assign[ak] = assignment{sh, what}
			}
		}
		if mode == "once" {
			for k := range wantKeys {
				if len(byKey[k]) == 0 {
					r.Violate(sigBase+ex+"key-not-emitted", fmt.Sprintf("%s: key %s of the input is not emitted at all", what, abbrev(k)), detail("key", k))
				}
			}
		}
	}

	// expected keys / values
	keySet := func(b int) map[string]bool {
		m := map[string]bool{}
		k0, k1, _ := hData(0)
		for i := range k0 {
			m[hKey(b, k0[i], k1[i])] = true
		}
		return m
	}
	valsAfter := func(first int) []int {
		k0, k1, v := hData(0)
		if first != hReduce {
			return v
		}
		sum := map[string]int{}
		for i := range k0 {
			sum[hKey(2, k0[i], k1[i])] += v[i]
		}
		var out []int
		for _, s := range sum {
			out = append(out, s)
		}
		sort.Ints(out)
		return out
	}

	type deferredRun struct {
		h                  hCase
		res                *exec.Result
		known              map[string]bool
		hname              string
		second, b, variant int
	}
	var deferred []deferredRun
	violBefore := r.Violations()
	for _, h := range cases {
		if stopped {
			break
		}
		if r.OverBudget(budget) {
			r.NotExhaustive("history part: budget hit")
			break
		}
		hname := fmt.Sprintf("%s: res := Run(%s(Prefixed(Const(%d shards), %d)))", h.execName(), hFirstNames[h.first], h.nshard, h.a)
		known := map[string]bool{}
		var res *exec.Result
		if h.first != hFresh {
			var rows []rec
			var tasks []string
			var ok bool
			res, rows, tasks, ok = runOnce(h.local, known, hname, hFirst, func(id int) []interface{} { return []interface{}{id, h.first, h.a, h.nshard} })
			if !ok {
				continue
			}
			runs++
			for _, t := range tasks {
				known[t[:strings.LastIndex(t, "=")]] = true
			}
			// the first invocation is itself a keyed operator on a multi-column slice
			switch h.first {
			case hReshuffle:
				judge(h, "first-Reshuffle", "colocate", h.a, h.nshard, 0, rows, tasks, keySet(h.a), nil, hname)
			case hReduce:
				judge(h, "first-Reduce", "once", h.a, h.nshard, 0, rows, tasks, keySet(h.a), nil, hname)
			}
		} else {
			hname = fmt.Sprintf("%s: fresh slice Prefixed(Const(%d shards), .) in the same invocation", h.execName(), h.nshard)
		}
		histories++
		for _, sp := range seconds {
			if stopped {
				break
			}
			if sp.second == sReduce && h.first != hFresh && h.a != sp.b {
				// Reduce over a Result regrouped under another prefix: run last (see below)
				deferred = append(deferred, deferredRun{h, res, known, hname, sp.second, sp.b, sp.variant})
				continue
			}
			what := fmt.Sprintf("%s; Run(%s(Prefixed(res, %d)))", hname, hSecondNames[sp.second], sp.b)
			var rows []rec
			var tasks []string
			var ok bool
			if h.first == hFresh {
				_, rows, tasks, ok = runOnce(h.local, known, what, hSecondFresh, func(id int) []interface{} { return []interface{}{id, sp.second, sp.b, h.nshard, sp.variant} })
			} else {
				_, rows, tasks, ok = runOnce(h.local, known, what, hSecond, func(id int) []interface{} { return []interface{}{id, res, sp.second, sp.b, h.nshard, sp.variant} })
			}
			if !ok {
				continue
			}
			runs++
			if h.first != hFresh && h.a != sp.b {
				prefixChanged++
			}
			mode := "once"
			switch sp.second {
			case sReshuffle:
				mode = "colocate"
			case sRepartition:
				mode = "repartition"
			}
			first := h.first
			if first == hFresh {
				first = hConst
			}
			judge(h, hSecondNames[sp.second], mode, sp.b, h.nshard, sp.variant, rows, tasks, keySet(sp.b), valsAfter(first), what)
			if h.first == hReduce && sp.second == sCogroup && sp.b == 1 && h.nshard == 3 && !h.local {
				var obs []string
				for _, x := range rows {
					obs = append(obs, fmt.Sprintf("shard%d:%s", x.shard, abbrev(x.key)))
				}
				r.Sample(map[string]interface{}{"history": what, "observed": obs, "tasks_of_second_invocation": tasks})
			}
		}
	}
	// Deferred runs. If the re-shuffle tasks of a reused Result are mis-typed, a
	// Reduce over them panics inside the local executor's task goroutine and kills
	// the process, which would lose the violations found so far; so these runs
	// come last and are skipped once the history part has found a violation.
	if len(deferred) > 0 && (r.Violations() > violBefore || stopped) {
		r.NotExhaustive(fmt.Sprintf("history part: %d Reduce(Prefixed(result,b)) runs with b != result prefix skipped because the history part already found violations", len(deferred)))
	} else {
		for _, d := range deferred {
			what := fmt.Sprintf("%s; Run(%s(Prefixed(res, %d)))", d.hname, hSecondNames[d.second], d.b)
			d := d
			_, rows, tasks, ok := runOnce(d.h.local, d.known, what, hSecond, func(id int) []interface{} { return []interface{}{id, d.res, d.second, d.b, d.h.nshard, d.variant} })
			if stopped {
				break
			}
			if !ok {
				continue
			}
			runs++
			prefixChanged++
			judge(d.h, hSecondNames[d.second], "once", d.b, d.h.nshard, d.variant, rows, tasks, keySet(d.b), nil, what)
		}
	}
	cov["history_first_invocations_plus_fresh"] = histories
	cov["history_runs"] = runs
	cov["history_second_invocations_with_prefix_different_from_result"] = prefixChanged
	cov["history_keys_checked"] = keysChecked
	cov["history_keys_with_several_rows"] = spreadKeys
	cov["history_distinct_(prefix,key,nshard)->shard_outcomes"] = outcomes.Distinct()
	cov["history_not_failure_free_skipped"] = notFF
	cov["history_space"] = fmt.Sprintf("first (op,prefix a) %v × second {Reshuffle, Reduce(b=2), Cogroup, Cogroup+fresh, Repartition} × b in {1,2} × shards %v × {local, cluster}; first names %v", firsts, shardCounts, hFirstNames)
}
