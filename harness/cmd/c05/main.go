// C05 — keyed redistribution puts each key in one shard, chosen by the key alone.
//
// (i)   direct.go: Frame.Hash and exec.defaultPartitioner (through an injected
//
//	accessor) on keys stored in frames at different view offsets, row
//	positions and batch sizes, for 1..8 shards; exhaustive over 8/16-bit ints.
//
// (ii)  e2e.go: Reduce, Fold, Cogroup, Reshuffle, Reshard, Repartition followed by a
//
//	WriterFunc recording (shard,row), producers with 1..3 shards, both executors.
//
// (iii) proc.go: the (key,nshard)->shard table computed in 3 separately started
//
//	OS processes must be identical (no per-process hash seed).
package main

import (
	"flag"
	"fmt"
	"os"
	"runtime"
	"sort"
	"strconv"
	"sync"
	"time"

	"verifh/ev"
)

var (
	flagChild = flag.String("c05-child", "", "internal: compute the assignment tables and write them to this file")
	flagOnly  = flag.String("c05-only", "", "run only: direct | e2e | proc")
)

func main() {
	for i, a := range os.Args {
		if (a == "-c05-child" || a == "--c05-child") && i+2 < len(os.Args) {
			w, err := strconv.Atoi(os.Args[i+2])
			if err != nil {
				ev.Fatal("child: bad lattice size %q", os.Args[i+2])
			}
			wide = w
			childMain(os.Args[i+1])
			return
		}
	}
	r := ev.Start("C05", "exploration")
	if r.Thorough() {
		wide = 65536
	}
	if r.Replay != "" {
		ev.Fatal("replay: re-run ./run C05 %s; the violation detail names the key, shard count and placements (file %s)", r.Tier, r.Replay)
	}
	cov := ev.Coverage{}
	if *flagOnly == "" || *flagOnly == "direct" || *flagOnly == "proc" {
		runDirect(r, cov, *flagOnly == "proc")
	}
	if *flagOnly == "" || *flagOnly == "proc" {
		runProc(r, cov)
	}
	if *flagOnly == "" || *flagOnly == "e2e" {
		runE2E(r, cov)
		runHist(r, cov)
	}
	cov["rule"] = "direct: every key of every key set (8/16-bit ints, bool, strings/byte slices up to length 5 over 3 letters: exhaustive; strings/byte slices of lengths 7..4096 around powers of two, 6 contents each; wider ints and floats: fixed lattices (quick 4096, thorough 65536 points) incl. extremes, powers of two ±1, ±0, ±Inf, denormals; 2-column prefixes: cross products) × batch size {1,3,128} × view offset {0,1,5} × every row position × shard counts 1..8, Frame.Hash and defaultPartitioner; a case is non-trivial when the key was observed in ≥2 different placements; e2e: operator (also several operators on one source in one invocation, and histories Run(first(Prefixed(src,a))) then Run(second(Prefixed(result,b)))) × key type × producer shard counts × layout × executor; proc: tables of 3 child processes compared with the parent's"
	r.Finish(cov)
}

// wide is the number of lattice points for the integer types wider than 16
// bits and for the float types (quick: 4096, thorough: 65536). The 8- and 16-bit
// integer types are always exhaustive.
var wide = 4096

type job struct {
	set    *keySet
	B, off int
	stride int
}

func runDirect(r *ev.Run, cov ev.Coverage, cheap bool) []*table {
	t0 := time.Now()
	sets := keySets(wide)
	var jobs []job
	for _, ks := range sets {
		for _, B := range batchSizes {
			for _, off := range offsets {
				if cheap && (B != 3 || off != 1) {
					continue
				}
				jobs = append(jobs, job{ks, B, off, 1})
			}
		}
	}
	// biggest first for load balance
	sort.SliceStable(jobs, func(i, j int) bool { return jobs[i].set.n*jobs[i].B > jobs[j].set.n*jobs[j].B })
	results := make([]*table, len(jobs))
	budget := 4 * time.Minute
	if r.Thorough() {
		budget = 10 * time.Minute
	}
	var mu sync.Mutex
	skipped := 0
	ev.Parallel(len(jobs), runtime.NumCPU(), func(i int) {
		if r.OverBudget(budget) {
			mu.Lock()
			skipped++
			mu.Unlock()
			return
		}
		j := jobs[i]
		results[i] = runConfig(j.set, j.B, j.off, j.stride)
	})
	if skipped > 0 {
		r.NotExhaustive(fmt.Sprintf("direct: budget hit, %d of %d (key set, batch, offset) configurations not run", skipped, len(jobs)))
	}
	// merge per key set, in the fixed order of batchSizes × offsets
	var final []*table
	var evals, keysTotal, keysNontrivial, keysExhaustive int64
	perSet := map[string]interface{}{}
	fullUse, cells := 0, 0
	for _, ks := range sets {
		var acc *table
		for _, B := range batchSizes {
			for _, off := range offsets {
				for i, j := range jobs {
					if j.set == ks && j.B == B && j.off == off && results[i] != nil {
						if acc == nil {
							acc = results[i]
						} else {
							acc.merge(results[i])
						}
					}
				}
			}
		}
		if acc == nil {
			continue
		}
		final = append(final, acc)
		reportTable(r, acc, "direct")
		evals += acc.evals
		keysTotal += int64(ks.nids)
		nt := 0
		for id := 0; id < ks.nids; id++ {
			if acc.nobs[id] >= 2 {
				nt++
			}
		}
		keysNontrivial += int64(nt)
		if ks.exhaustive {
			keysExhaustive += int64(ks.nids)
		}
		// vacuity: how many of the n shards are used, and how many distinct hashes
		used := make([]int, maxShard)
		for n := 1; n <= maxShard; n++ {
			seen := map[int8]bool{}
			for id := 0; id < ks.nids; id++ {
				if s := acc.shard[id*maxShard+n-1]; s >= 0 {
					seen[s] = true
				}
			}
			used[n-1] = len(seen)
			if ks.nids >= 64 {
				cells++
				if len(seen) == n {
					fullUse++
				}
			}
		}
		hs := map[uint32]bool{}
		for id := 0; id < ks.nids; id++ {
			hs[acc.hash[id]] = true
		}
		perSet[ks.name] = map[string]interface{}{"raw_keys": ks.n, "distinct_keys": ks.nids, "exhaustive": ks.exhaustive, "observations": acc.evals,
			"distinct_hashes": len(hs), "shards_used_for_nshard_1..8": used}
	}
	cov["evaluations"] = evals
	cov["distinct_nontrivial"] = keysNontrivial
	cov["direct_distinct_keys"] = keysTotal
	cov["direct_keys_in_exhaustive_sets"] = keysExhaustive
	cov["direct_key_sets"] = perSet
	cov["direct_configurations"] = len(jobs)
	cov["direct_lattice_points_per_wide_type"] = wide
	cov["direct_(keyset,nshard)_cells_using_all_shards"] = fmt.Sprintf("%d of %d (key sets with >=64 keys)", fullUse, cells)
	cov["direct_wall_s"] = time.Since(t0).Seconds()
	if len(final) > 0 {
		acc := final[0]
		r.Sample(map[string]interface{}{"key_set": acc.set.name, "key": acc.set.show(200), "hash": acc.hash[acc.set.ids[200]],
			"shard_for_nshard_1..8": acc.shard[int(acc.set.ids[200])*maxShard : int(acc.set.ids[200])*maxShard+maxShard], "observations_of_this_key": acc.nobs[acc.set.ids[200]]})
	}
	return final
}

// reportTable turns the recorded disagreements of a table into violations.
func reportTable(r *ev.Run, t *table, part string) {
	for _, m := range t.bad {
		ks := t.set
		rep := ""
		if m.rawA != m.rawB {
			rep = "/equal-keys-with-different-representation"
		}
		keyA, keyB := ks.show(int(m.rawA)), ks.show(int(m.rawB))
		detail := map[string]interface{}{"key_set": ks.name, "key": keyA, "other_representation": keyB, "nshard": m.nshard,
			"first": m.a, "second": m.b, "first_seen_at": m.whereA, "second_seen_at": m.whereB, "disagreements_in_this_key_set": t.nbad}
		if rep != "" && m.kind != "range" {
			// one root cause (keys that are equal but stored with different bits), one signature per key set
			r.Violate(fmt.Sprintf("C05/%s/equal-keys-with-different-representation/%s", part, ks.name),
				fmt.Sprintf("keys %s and %s (%s) are equal as keys (neither orders before the other) but Frame.Hash / the default partitioner treat them differently: %s %d vs %d (nshard=%d)", keyA, keyB, ks.name, m.kind, m.a, m.b, m.nshard), detail)
			continue
		}
		switch m.kind {
		case "hash":
			r.Violate(fmt.Sprintf("C05/%s/%s/hash-not-a-function-of-the-key%s", part, ks.class(), rep),
				fmt.Sprintf("Frame.Hash of key %s (%s) is %d at [%s] but %d for %s at [%s]", keyA, ks.name, m.a, m.whereA, m.b, keyB, m.whereB), detail)
		case "shard":
			r.Violate(fmt.Sprintf("C05/%s/%s/shard-not-a-function-of-key-and-nshard%s", part, ks.class(), rep),
				fmt.Sprintf("default partitioner, %d shards: key %s (%s) goes to shard %d at [%s] but %s goes to shard %d at [%s]", m.nshard, keyA, ks.name, m.a, m.whereA, keyB, m.b, m.whereB), detail)
		case "range":
			r.Violate(fmt.Sprintf("C05/%s/%s/shard-out-of-range", part, ks.class()),
				fmt.Sprintf("default partitioner, %d shards: key %s (%s) assigned shard %d at [%s]", m.nshard, keyA, ks.name, m.a, m.whereA), detail)
		}
	}
}
