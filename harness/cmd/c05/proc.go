package main

import (
	"bytes"
	"encoding/binary"
	"fmt"
	"os"
	osexec "os/exec"
	"path/filepath"
	"runtime/pprof"
	"strconv"
	"sync"

	"verifh/ev"
)

// ---- (iii) separately started OS processes ---------------------------------

const nChildren = 3

// childTables computes, in this process, the assignment table of every key set
// with one cheap placement (batch 3, view offset 1, every row position).
func childTables() []*table {
	var out []*table
	for _, ks := range keySets(wide) {
		out = append(out, runConfig(ks, 3, 1, 1))
	}
	return out
}

func encodeTables(ts []*table) []byte {
	var b bytes.Buffer
	for _, t := range ts {
		fmt.Fprintf(&b, "%s\n", t.set.name)
		binary.Write(&b, binary.LittleEndian, int32(t.set.nids))
		binary.Write(&b, binary.LittleEndian, t.hash)
		binary.Write(&b, binary.LittleEndian, t.shard)
	}
	return b.Bytes()
}

func decodeTables(p []byte, sets []*keySet) ([]*table, error) {
	b := bytes.NewReader(p)
	var out []*table
	for _, ks := range sets {
		var name []byte
		for {
			c, err := b.ReadByte()
			if err != nil {
				return nil, err
			}
			if c == '\n' {
				break
			}
			name = append(name, c)
		}
		if string(name) != ks.name {
			return nil, fmt.Errorf("key set %q, expected %q", name, ks.name)
		}
		var n int32
		if err := binary.Read(b, binary.LittleEndian, &n); err != nil {
			return nil, err
		}
		if int(n) != ks.nids {
			return nil, fmt.Errorf("key set %s: %d keys, expected %d", ks.name, n, ks.nids)
		}
		t := newTable(ks, "")
		if err := binary.Read(b, binary.LittleEndian, t.hash); err != nil {
			return nil, err
		}
		if err := binary.Read(b, binary.LittleEndian, t.shard); err != nil {
			return nil, err
		}
		for i := range t.hset {
			t.hset[i] = true
		}
		out = append(out, t)
	}
	return out, nil
}

func childMain(path string) {
	if pf := os.Getenv("C05_CPUPROFILE"); pf != "" {
		f, _ := os.Create(pf)
		pprof.StartCPUProfile(f)
		defer pprof.StopCPUProfile()
	}
	ts := childTables()
	for _, t := range ts {
		if t.nbad > 0 {
			// disagreements inside one process are the direct part's business; here
			// only the table (first observations) matters
			continue
		}
	}
	if err := os.WriteFile(path, encodeTables(ts), 0666); err != nil {
		fmt.Fprintln(os.Stderr, err)
		os.Exit(2)
	}
}

func runProc(r *ev.Run, cov ev.Coverage) {
	// the parent's own tables, computed exactly like the children's (same
	// placement), so that only the process differs
	parent := childTables()
	exe, err := os.Executable()
	if err != nil {
		ev.Fatal("os.Executable: %v", err)
	}
	dir, err := os.MkdirTemp("", "c05-proc")
	if err != nil {
		ev.Fatal("mkdtemp: %v", err)
	}
	defer os.RemoveAll(dir)
	sets := make([]*keySet, len(parent))
	for i, t := range parent {
		sets[i] = t.set
	}
	files := make([]string, nChildren)
	pids := make([]int, nChildren)
	var wg sync.WaitGroup
	for i := 0; i < nChildren; i++ {
		i := i
		files[i] = filepath.Join(dir, fmt.Sprintf("child%d.tab", i))
		wg.Add(1)
		go func() {
			defer wg.Done()
			cmd := osexec.Command(exe, "-c05-child", files[i], strconv.Itoa(wide))
			// a different environment per child: nothing in it may influence the assignment
			cmd.Env = append(os.Environ(), fmt.Sprintf("C05_CHILD_NO=%d", i), fmt.Sprintf("GOMAXPROCS=%d", 1+i))
			out, err := cmd.CombinedOutput()
			if err != nil {
				ev.Fatal("proc child %d failed: %v\n%s", i, err, out)
			}
			pids[i] = cmd.ProcessState.Pid()
		}()
	}
	wg.Wait()
	var compared, cells int64
	for i := 0; i < nChildren; i++ {
		p, err := os.ReadFile(files[i])
		if err != nil {
			ev.Fatal("proc child %d: %v", i, err)
		}
		ts, err := decodeTables(p, sets)
		if err != nil {
			ev.Fatal("proc child %d: bad table file: %v", i, err)
		}
		for si, ct := range ts {
			pt := parent[si]
			ks := pt.set
			reported := false
			for id := 0; id < ks.nids; id++ {
				compared++
				raw := int(pt.raw[id])
				if ct.hash[id] != pt.hash[id] && !reported {
					reported = true
					r.Violate(fmt.Sprintf("C05/proc/%s/hash-differs-between-processes", ks.class()),
						fmt.Sprintf("Frame.Hash of key %s (%s) is %d in the parent process but %d in separately started process #%d (pid %d)", ks.show(raw), ks.name, pt.hash[id], ct.hash[id], i, pids[i]),
						map[string]interface{}{"key_set": ks.name, "key": ks.show(raw), "parent": pt.hash[id], "child": ct.hash[id], "child_no": i})
				}
				for n := 1; n <= maxShard; n++ {
					cells++
					a, b := pt.shard[id*maxShard+n-1], ct.shard[id*maxShard+n-1]
					if a != b && !reported {
						reported = true
						r.Violate(fmt.Sprintf("C05/proc/%s/shard-differs-between-processes", ks.class()),
							fmt.Sprintf("key %s (%s), %d shards: shard %d in the parent process but %d in separately started process #%d (pid %d)", ks.show(raw), ks.name, n, a, b, i, pids[i]),
							map[string]interface{}{"key_set": ks.name, "key": ks.show(raw), "nshard": n, "parent": a, "child": b, "child_no": i})
					}
				}
			}
		}
	}
	cov["proc_children"] = nChildren
	cov["proc_child_pids"] = pids
	cov["proc_keys_compared"] = compared
	cov["proc_(key,nshard)_cells_compared"] = cells
}
