package main

// Child side: runs a batch of cells, each on a fresh session, and prints one
// JSON line per event. The parent decides the verdicts.

import (
	"bufio"
	"context"
	"encoding/json"
	"flag"
	"fmt"
	"os"
	"runtime"
	"sort"
	"strings"
	"sync/atomic"
	"time"

	"github.com/grailbio/base/errors"
	"github.com/grailbio/bigslice"
	"github.com/grailbio/bigslice/exec"
	"github.com/grailbio/bigslice/frame"
	"github.com/grailbio/bigslice/sliceio"
	"github.com/grailbio/bigslice/sortio"
	"verifh/vsys"
)

// Cell is one point of the matrix.
type Cell struct {
	ID     string // config/family/site[@loc]/mode/pers/pos
	Config string // local | vsys | vsysmc | vsysmc2
	Pos    string
	Loc    string // intended combiner location ("" for other sites)
	Spec   Spec
}

// Obs is what the child observed for one cell.
type Obs struct {
	ID              string
	ErrNil          bool
	ErrHasMsg       bool
	ErrText         string
	RowsOK          bool // only meaningful if ErrNil
	RowsDiff        string
	Reached         int64
	Fired           int64
	Locs            map[string]int
	HealthyOK       bool
	HealthyErr      string
	Hang            string // "" | "run" | "repeat-run" | "later-run"
	GateWaits       int32  // forced interleaving: waits at a gate in the first run ...
	GateTimeouts    int32  // ... and how many of them timed out (the interleaving was then not forced)
	Repeats         int    // how often the failing Func was run again before the healthy one
	RepeatTransient string // a repeat of a transient (temporary, once/twice) cell failed although the first run succeeded
	RepeatBad       string // a repeat of the failing Func that broke the oracle of the first run
	Unbounded       bool   // the cell was abandoned because the failure had been delivered more than fireBound times
	Ms              int64
	Stacks          string // goroutine dump when hung
}

type line struct {
	Begin string `json:",omitempty"`
	Obs   *Obs   `json:",omitempty"`
}

// Hang watchdog: Run has not returned after hangAfter (normal: well under 1 s)
// AND, from then on, there is a window of hangSilence in which no task RPC is
// issued and the user function is not reached (so a run that is merely slow on
// an overloaded host is not called a hang); at hangMax the cell is given up.
const (
	hangAfter   = 60 * time.Second
	hangSilence = 20 * time.Second
	hangMax     = 5 * time.Minute
)

func initKeys() {
	for k := 1; len(p0keys) < 64 || len(p1keys) < 8; k++ {
		f := frame.Slices([]int{k}, []int{0})
		if f.Hash(0)%nshard == 0 {
			p0keys = append(p0keys, k)
		} else {
			p1keys = append(p1keys, k)
		}
	}
}

func setChunk(n int) {
	if err := flag.Set("bigslice-internal-default-chunk-rows", fmt.Sprint(n)); err != nil {
		panic(err)
	}
	bigslice.VerifCommonSetChunk(n)
	sliceio.VerifCommonSetChunk(n)
	sortio.VerifCommonSetChunk(n)
}

// calmSystem is verifsystem with relaxed keepalive timing. No machine is ever
// killed in this check, so quick failure detection is not needed, and the
// aggressive timing of verifsystem (20/60/30 ms) makes machines look dead when
// the host is heavily loaded (which is machine loss -- property C02 -- and would
// only blur the outcomes here).
type calmSystem struct{ *vsys.System }

func (calmSystem) KeepaliveConfig() (period, timeout, rpcTimeout time.Duration) {
	return 2 * time.Second, 2 * time.Minute, time.Minute
}

const localParallelism = 4

func transient(mode string) bool { return isTemp(mode) }

func startSession(config string) (*exec.Session, *vsys.System) {
	var sys *vsys.System
	bm := func(procs int) exec.Option {
		sys = vsys.New(procs)
		return exec.Bigmachine(calmSystem{sys})
	}
	switch config {
	case "local":
		return exec.Start(exec.Local, exec.Parallelism(localParallelism)), nil
	case "vsys": // one machine, 7 procs
		return exec.Start(bm(8), exec.Parallelism(7)), sys
	case "vsysmulti": // up to four machines of one proc each
		return exec.Start(bm(2), exec.Parallelism(4)), sys
	case "vsysmc": // one machine: all tasks of a shard set share the machine's combine buffers
		return exec.Start(bm(8), exec.Parallelism(7), exec.MachineCombiners), sys
	case "vsysmc1": // one machine with one proc
		return exec.Start(bm(1), exec.Parallelism(1), exec.MachineCombiners), sys
	case "vsysmc2": // two machines of one proc each
		return exec.Start(bm(1), exec.Parallelism(2), exec.MachineCombiners), sys
	}
	panic("c06: bad config " + config)
}

func specArg(s *Spec) string {
	b, _ := json.Marshal(s)
	return string(b)
}

// runProgram runs the program of s and checks its rows. It returns Run's error,
// and (if that is nil) a description of any difference between the rows and the model.
func runProgram(sess *exec.Session, s *Spec) (runErr error, diff string) {
	ctx := context.Background()
	res, err := sess.Run(ctx, fCell, specArg(s))
	if err != nil {
		return err, ""
	}
	want := expected(s)
	if s.Site == "scan" {
		// the result has no columns; the rows are those handed to the callbacks
		c := &table[s.Case]
		c.mu.Lock()
		defer c.mu.Unlock()
		var union []string
		for shard := 0; shard < nshard; shard++ {
			runs := c.scans[shard]
			if len(runs) == 0 {
				return nil, fmt.Sprintf("scan callback of shard %d never completed", shard)
			}
			for _, r := range runs[1:] {
				if strings.Join(r, ",") != strings.Join(runs[0], ",") {
					return nil, fmt.Sprintf("two completed callbacks of shard %d saw different rows: %v vs %v", shard, runs[0], r)
				}
			}
			union = append(union, runs[0]...)
		}
		sort.Strings(union)
		if strings.Join(union, ",") != strings.Join(want, ",") {
			return nil, fmt.Sprintf("callbacks saw %v, model %v", union, want)
		}
		return nil, ""
	}
	sc := res.Scanner()
	defer sc.Close()
	var (
		k, v int
		got  []string
	)
	for sc.Scan(ctx, &k, &v) {
		got = append(got, fmt.Sprintf("%d:%d", k, v))
	}
	if err := sc.Err(); err != nil {
		return nil, fmt.Sprintf("Run returned nil but scanning the result failed: %v", err)
	}
	sort.Strings(got)
	if strings.Join(got, ",") != strings.Join(want, ",") {
		return nil, fmt.Sprintf("rows %v, model %v", got, want)
	}
	return nil, ""
}

func trim(s string, n int) string {
	if len(s) > n {
		return s[:n] + "…"
	}
	return s
}

func allStacks() string {
	buf := make([]byte, 1<<20)
	n := runtime.Stack(buf, true)
	// keep only goroutines that are inside bigslice's exec package
	var keep []string
	for _, g := range strings.Split(string(buf[:n]), "\n\n") {
		if strings.Contains(g, "bigslice/exec.") && !strings.Contains(g, "keepalive") {
			keep = append(keep, g)
		}
	}
	return trim(strings.Join(keep, "\n\n"), 12000)
}

var caseSeq int32

func runCell(c *Cell, emit func(line)) {
	idx := int(atomic.AddInt32(&caseSeq, 1)) % len(table)
	table[idx].reset()
	table[(idx+1)%len(table)].reset()
	// every cell is its own experiment: start from an intact sentinel (if an earlier
	// cell of this process got it modified, that cell has already shown it)
	errSentinel.(*errors.Error).Severity = errors.Temporary
	s := c.Spec
	s.Case = idx
	o := &Obs{ID: c.ID}
	emit(line{Begin: c.ID})
	t0 := time.Now()
	sess, sys := startSession(c.Config)
	activity := func() int64 {
		st := &table[idx]
		n := atomic.LoadInt64(&st.reached) + atomic.LoadInt64(&st.fired)
		if sys != nil {
			for _, m := range []string{"Worker.Run", "Worker.Compile", "Worker.Stat", "Worker.Read", "Worker.CommitCombiner"} {
				n += int64(sys.Count(m))
			}
		}
		return n
	}
	type r1 struct {
		err  error
		diff string
	}
	snapshot := func() {
		st := &table[idx]
		o.Reached, o.Fired = atomic.LoadInt64(&st.reached), atomic.LoadInt64(&st.fired)
		o.GateWaits, o.GateTimeouts = atomic.LoadInt32(&st.gateWaits), atomic.LoadInt32(&st.gateTimeouts)
		st.mu.Lock()
		o.Locs = map[string]int{}
		for k, v := range st.locs {
			o.Locs[k] = v
		}
		st.mu.Unlock()
		o.Ms = time.Since(t0).Milliseconds()
	}
	// await waits for the program started by run. It returns ok=false if the run is
	// to be called hung (see hangAfter) or, if bounded is set, retried without bound.
	await := func(spec *Spec, bounded bool) (r r1, ok bool) {
		ch := make(chan r1, 1)
		go func() {
			err, diff := runProgram(sess, spec)
			ch <- r1{err, diff}
		}()
		var (
			start    = time.Now()
			tick     = time.NewTicker(20 * time.Millisecond)
			lastAct  = activity()
			lastTime = start
		)
		defer tick.Stop()
		for {
			select {
			case r = <-ch:
				return r, true
			case <-tick.C:
				// "retried a bounded number of times": once the failure has been delivered
				// more often than the bound there is nothing to wait for. The run is
				// still going on, so this process cannot be used any further.
				if bounded && atomic.LoadInt64(&table[idx].fired) > fireBound {
					o.Unbounded = true
					return r, false
				}
				if time.Since(start) < hangAfter {
					continue
				}
				if a := activity(); a != lastAct || lastTime.Before(start.Add(hangAfter)) {
					lastAct, lastTime = a, time.Now()
				}
				if time.Since(lastTime) >= hangSilence || time.Since(start) >= hangMax {
					return r, false
				}
			}
		}
	}

	r, ok := await(&s, true)
	if !ok {
		if !o.Unbounded {
			o.Hang = "run"
		}
		o.Stacks = allStacks()
		snapshot()
		emit(line{Obs: o})
		os.Exit(3)
	}
	o.ErrNil = r.err == nil
	if r.err != nil {
		o.ErrText = trim(r.err.Error(), 600)
		o.ErrHasMsg = strings.Contains(r.err.Error(), s.Msg)
	}
	o.RowsOK, o.RowsDiff = r.diff == "", r.diff
	snapshot()

	// "the session remains usable for later runs": run the failing Func again --
	// on the local executor once per proc of the session, so that a resource leaked
	// by every failing task is exhausted; once on the clusters -- ...
	repeats := 1
	if c.Config == "local" {
		repeats = localParallelism
	}
	for i := 0; i < repeats; i++ {
		if s.Pers != "always" {
			atomic.StoreInt64(&table[idx].fired, 0) // transient: fails once / twice in every run
		}
		table[idx].resetGate()
		r, ok = await(&s, true)
		if !ok {
			o.Hang = "repeat-run"
			o.Stacks = allStacks()
			emit(line{Obs: o})
			os.Exit(3)
		}
		o.Repeats++
		switch {
		case r.err == nil && r.diff != "":
			o.RepeatBad = fmt.Sprintf("repeat %d of the failing Func returned nil with wrong rows: %s", i+1, r.diff)
		case r.err != nil && s.Pers != "always" && o.ErrNil && transient(s.Mode):
			o.RepeatTransient = fmt.Sprintf("run %d of the same Func in the session failed although its temporary failure goes away on retry (the first run succeeded): %s", i+2, trim(r.err.Error(), 300))
		case r.err == nil && s.Pers == "always" && !o.ErrNil:
			o.RepeatBad = fmt.Sprintf("repeat %d of the persistently failing Func returned nil", i+1)
		}
	}
	// ... and then a healthy program whose tasks each need ALL procs (Exclusive):
	// a single leaked proc makes it wait forever.
	h := Spec{Case: (idx + 1) % len(table), Family: s.Family, Site: "none", Layout: "G", Mode: "none", Pers: "always",
		Chunk: s.Chunk, N: s.N, Shard: 0, Target: -1, Mask: 0, Msg: "healthy", Exclusive: true}
	r, ok = await(&h, false)
	switch {
	case !ok:
		o.Hang = "later-run"
		o.Stacks = allStacks()
		emit(line{Obs: o})
		os.Exit(3)
	case r.err != nil:
		o.HealthyErr = trim(r.err.Error(), 600)
	case r.diff != "":
		o.HealthyErr = "wrong rows: " + r.diff
	default:
		o.HealthyOK = true
	}
	emit(line{Obs: o})
	go sess.Shutdown()
}

func childMain(path string) {
	b, err := os.ReadFile(path)
	if err != nil {
		fmt.Fprintln(os.Stderr, "c06 child:", err)
		os.Exit(4)
	}
	var cells []Cell
	if err := json.Unmarshal(b, &cells); err != nil {
		fmt.Fprintln(os.Stderr, "c06 child:", err)
		os.Exit(4)
	}
	if len(cells) == 0 {
		return
	}
	vsys.Quiet()
	vsys.FastRetries()
	exec.DoShuffleReaders = false
	setChunk(cells[0].Spec.Chunk)
	initKeys()
	w := bufio.NewWriter(os.Stdout)
	emit := func(l line) {
		b, _ := json.Marshal(l)
		w.Write(b)
		w.WriteByte('\n')
		w.Flush()
	}
	for i := range cells {
		if cells[i].Spec.Chunk != cells[0].Spec.Chunk {
			fmt.Fprintln(os.Stderr, "c06 child: mixed chunk sizes in one batch")
			os.Exit(4)
		}
		runCell(&cells[i], emit)
	}
}
