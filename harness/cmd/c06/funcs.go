package main

// The bigslice program of every C06 cell. One Func, registered at init; the
// pipeline, the armed call site and the failure behaviour are selected by the
// (gob-encodable) argument: a JSON-encoded Spec. Failures are delivered by the
// user functions themselves; a process-global table indexed by Spec.Case lets
// them count how often they were reached / fired and implement "once".

import (
	"context"
	"encoding/json"
	"fmt"
	"runtime"
	"sort"
	"strings"
	"sync"
	"sync/atomic"
	"time"

	"github.com/grailbio/base/errors"
	"github.com/grailbio/bigslice"
	"github.com/grailbio/bigslice/sliceio"
)

// Spec selects one cell's program and failure. It is passed (JSON) as the Func argument.
type Spec struct {
	Case      int    // index into the process-global table
	Family    string // "direct": the armed operator is last, its output is the result; "reduce": ... -> Reduce(sum) tail; "reshuffle": ... -> Reshuffle tail (reader/writer sites only)
	Site      string // reader writer map filter flatmap fold combiner repart scan none
	Layout    string // key layout: distinct | fold | G | table | buffer | merge
	Mode      string // err tempbase tempnet tempsentinel tempretriable panic oorhi oorneg
	Pers      string // always | once
	Chunk     int    // internal vector size in force in this process
	N         int    // rows per source shard
	Shard     int    // shard (of the armed operator) in which the failure is placed
	Target    int    // row index (in the armed operator's input stream of that shard); == stream length for "at EOF"
	Mask      int    // for value-addressed sites: the value bit(s) that identify the target row(s)
	Exclusive bool   // the Map of the healthy program carries the bigslice.Exclusive pragma
	Both      bool   // layout "buffer": place the target row (index Target) in both shards
	Gate      string // "" | "peer-running" | "peer-done": forced interleaving of the failing shard with the other shard (see gate)
	Msg       string // the user's message
}

const nshard = 2

// ---- process-global attempt table ------------------------------------------------

type caseState struct {
	reached int64 // times the armed function was at the target
	fired   int64 // times it delivered the failure
	mu      sync.Mutex
	locs    map[string]int     // where (classified call stack) the failure fired
	scans   map[int][][]string // scan site: per shard, the rows seen by each callback invocation that returned nil

	// gates (reset before every run): the user functions of the two shards
	// coordinate through these; the workers of verifsystem are in this process
	peerStarted  int32 // the task of the shard that does not fail is running (its reader has been called)
	peerDone     int32 // the reader of the shard that does not fail has returned EOF
	retryDone    int32 // the reader of the failing shard has returned EOF after the last transient failure
	gateWaits    int32 // times a function waited at a gate
	gateTimeouts int32 // ... and gave up (the run then continues ungated)
}

// gateTimeout bounds every wait at a gate, so that a placement in which the
// two tasks cannot run side by side degrades to the ungated behaviour.
const gateTimeout = 20 * time.Second

func (c *caseState) resetGate() {
	atomic.StoreInt32(&c.peerStarted, 0)
	atomic.StoreInt32(&c.peerDone, 0)
	atomic.StoreInt32(&c.retryDone, 0)
}

func (c *caseState) wait(flag *int32) {
	atomic.AddInt32(&c.gateWaits, 1)
	deadline := time.Now().Add(gateTimeout)
	for atomic.LoadInt32(flag) == 0 {
		if time.Now().After(deadline) {
			atomic.AddInt32(&c.gateTimeouts, 1)
			return
		}
		time.Sleep(time.Millisecond)
	}
}

// limit is the number of failures a transient cell delivers in one run.
func (s *Spec) limit() int64 {
	if s.Pers == "twice" {
		return 2
	}
	return 1
}

// gateBeforeFail is called by the failing shard's function when it is at the
// target. Gate "peer-done": the first failure happens only after the other
// shard's task has read all its input (control order).
func (s *Spec) gateBeforeFail() {
	c := &table[s.Case]
	if atomic.LoadInt64(&c.fired) != 0 {
		return
	}
	switch s.Gate {
	case "peer-done":
		c.wait(&c.peerDone)
	case "peer-running":
		// the peer's task must have started (and be waiting at its gate)
		c.wait(&c.peerStarted)
	}
}

// gateReader is called by the source reader of every shard at every call.
// Gate "peer-running": the other shard's task -- already started, i.e. already
// registered as a user of the combine buffers -- reads its first row only after
// the failing shard has delivered all its transient failures AND its re-run has
// read all its input: the failing attempt exits while its peer is still running.
func (s *Spec) gateReader(shard, pos int, eof bool) {
	c := &table[s.Case]
	if s.Gate == "" {
		return
	}
	if shard == s.Shard {
		if eof && atomic.LoadInt64(&c.fired) >= s.limit() {
			atomic.StoreInt32(&c.retryDone, 1)
		}
		return
	}
	if eof {
		atomic.StoreInt32(&c.peerDone, 1)
		return
	}
	atomic.StoreInt32(&c.peerStarted, 1)
	if s.Gate == "peer-running" && pos == 0 {
		c.wait(&c.retryDone)
	}
}

var table [64]caseState

func (c *caseState) reset() {
	atomic.StoreInt64(&c.reached, 0)
	atomic.StoreInt64(&c.fired, 0)
	atomic.StoreInt32(&c.gateWaits, 0)
	atomic.StoreInt32(&c.gateTimeouts, 0)
	c.resetGate()
	c.mu.Lock()
	c.locs = map[string]int{}
	c.scans = map[int][][]string{}
	c.mu.Unlock()
}

// trip is called by the armed function when it is at the target. It reports
// whether the failure is to be delivered now.
func (s *Spec) trip() bool {
	c := &table[s.Case]
	atomic.AddInt64(&c.reached, 1)
	if s.Pers == "once" || s.Pers == "twice" {
		limit := int64(1)
		if s.Pers == "twice" {
			limit = 2
		}
		for {
			n := atomic.LoadInt64(&c.fired)
			if n >= limit {
				return false
			}
			if atomic.CompareAndSwapInt64(&c.fired, n, n+1) {
				break
			}
		}
	} else {
		atomic.AddInt64(&c.fired, 1)
	}
	loc := classifyStack()
	c.mu.Lock()
	c.locs[loc]++
	c.mu.Unlock()
	return true
}

// classifyStack names the bigslice code that invoked the user function.
func classifyStack() string {
	var pcs [64]uintptr
	n := runtime.Callers(2, pcs[:])
	frames := runtime.CallersFrames(pcs[:n])
	var fns []string
	for {
		f, more := frames.Next()
		fns = append(fns, f.Function)
		if !more {
			break
		}
	}
	has := func(sub string) bool {
		for _, f := range fns {
			if strings.Contains(f, sub) {
				return true
			}
		}
		return false
	}
	where := "other"
	switch {
	case has("exec.(*worker).Run"):
		where = "worker"
	case has("exec.(*worker).writeCombiner"):
		where = "worker-commit"
	case has("exec.(*localExecutor).depReaders"):
		where = "local-depReaders"
	case has("exec.bufferOutput"):
		where = "local-bufferOutput"
	}
	what := ""
	switch {
	case has("exec.(*combiner).WriteTo"):
		what = "/spill-merge"
	case has("exec.(*combiner).Combine"):
		if where == "local-depReaders" {
			what = "/inline-combine"
		} else {
			what = "/shared-buffer"
		}
	case has("exec.(*combiningFrame).Combine"):
		what = "/task-table"
	case has("sortio.(*reader).Read"):
		what = "/consumer-merge"
	}
	return where + what
}

// errSentinel is ONE package-level error value, returned (not copied) by every
// failure of mode "tempsentinel" in this process: the way applications usually
// declare their transient errors. Nothing in bigslice may modify it.
var errSentinel = errors.E(errors.Temporary, "c06-user-sentinel: transient failure")

type netTempErr struct{ msg string }

func (e netTempErr) Error() string   { return e.msg }
func (e netTempErr) Temporary() bool { return true }
func (e netTempErr) Timeout() bool   { return false }

// fail delivers the failure of s.Mode: it panics or returns the error.
func (s *Spec) fail() error {
	switch s.Mode {
	case "err":
		return fmt.Errorf("%s", s.Msg)
	case "tempbase":
		return errors.E(errors.Temporary, s.Msg)
	case "tempsentinel":
		return errSentinel
	case "tempretriable":
		return errors.E(errors.Retriable, s.Msg)
	case "tempnet":
		return netTempErr{s.Msg}
	case "panic":
		panic(s.Msg)
	}
	panic("c06: bad mode " + s.Mode)
}

// ---- data ---------------------------------------------------------------------------

// p0keys are int keys that the default (hash) partitioner sends to partition 0 of
// 2; p1keys go to partition 1. Filled at start-up (see initKeys).
var p0keys, p1keys []int

func rowBit(shard, i, n int) int { return 1 << uint(shard*n+i) }

// layoutKeys returns the key of every row (shard, i).
func layoutKeys(s *Spec) [nshard][]int {
	var out [nshard][]int
	n := s.N
	k := p0keys
	for sh := 0; sh < nshard; sh++ {
		out[sh] = make([]int, n)
	}
	switch s.Layout {
	case "distinct": // all rows distinct keys
		for sh := 0; sh < nshard; sh++ {
			for i := 0; i < n; i++ {
				out[sh][i] = k[sh*n+i]
			}
		}
	case "fold": // every key once in each shard
		for sh := 0; sh < nshard; sh++ {
			for i := 0; i < n; i++ {
				out[sh][i] = k[i]
			}
		}
	case "G": // n-2 distinct keys then the first two again; the same keys in both shards
		for sh := 0; sh < nshard; sh++ {
			for i := 0; i < n; i++ {
				out[sh][i] = k[i%(n-2)]
			}
		}
	case "table": // two keys per shard, disjoint between shards: all combining in the task-local table
		for sh := 0; sh < nshard; sh++ {
			for i := 0; i < n; i++ {
				out[sh][i] = k[2*sh+i%2]
			}
		}
	case "buffer":
		// target shard: 5 distinct keys (the 5th makes the task-local table spill
		// into the shared buffer), then the key of the target row once more so that
		// the final flush combines it inside the shared buffer; other shard disjoint.
		for sh := 0; sh < nshard; sh++ {
			for i := 0; i < n; i++ {
				out[sh][i] = k[20+sh*n+i]
			}
		}
		t := s.Target
		for sh := 0; sh < nshard; sh++ {
			if sh != s.Shard && !s.Both {
				continue
			}
			if t <= 4 {
				out[sh][5] = out[sh][t]
			} else {
				out[sh][t] = out[sh][0]
			}
		}
	case "merge": // all distinct, except that the target row's key also occurs in the other shard
		for sh := 0; sh < nshard; sh++ {
			for i := 0; i < n; i++ {
				out[sh][i] = k[20+sh*n+i]
			}
		}
		out[1-s.Shard][n/2] = out[s.Shard][s.Target]
	default:
		panic("c06: bad layout " + s.Layout)
	}
	return out
}

// ---- the Func -------------------------------------------------------------------------

var fCell = bigslice.Func(func(specJSON string) bigslice.Slice {
	s := new(Spec)
	if err := json.Unmarshal([]byte(specJSON), s); err != nil {
		panic(err)
	}
	return build(s)
})

func build(s *Spec) bigslice.Slice {
	keys := layoutKeys(s)
	n := s.N
	armed := func(site string) bool { return s.Site == site }

	// source: ReaderFunc over the layout
	var slice bigslice.Slice = bigslice.ReaderFunc(nshard, func(shard int, pos *int, ks, vs []int) (int, error) {
		if armed("reader") && shard == s.Shard {
			at := false
			switch {
			case s.Target == n: // at EOF
				at = *pos == n
			case s.Target == 0:
				at = *pos == 0
			default: // the call that would deliver row Target
				at = *pos <= s.Target && s.Target < *pos+len(ks) && *pos < n
			}
			if at {
				s.gateBeforeFail()
				if s.trip() {
					return 0, s.fail()
				}
			}
		}
		s.gateReader(shard, *pos, *pos >= n)
		if *pos >= n {
			return 0, sliceio.EOF
		}
		m := 0
		for m < len(ks) && *pos < n {
			ks[m], vs[m] = keys[shard][*pos], rowBit(shard, *pos, n)
			m++
			*pos++
		}
		return m, nil
	})

	valueAt := func(v int) bool { return v&s.Mask != 0 }

	switch s.Site {
	case "map", "none":
		var prags []bigslice.Pragma
		if s.Exclusive {
			// every task of this Map needs ALL procs of the session (local) / of its
			// machine (cluster): a single proc leaked by an earlier run blocks it forever
			prags = append(prags, bigslice.Exclusive)
		}
		slice = bigslice.Map(slice, func(k, v int) (int, int) {
			if armed("map") && valueAt(v) && s.trip() {
				s.fail()
			}
			return k, v
		}, prags...)
	case "filter":
		slice = bigslice.Filter(slice, func(k, v int) bool {
			if valueAt(v) && s.trip() {
				s.fail()
			}
			return !dropped(v, n)
		})
	case "flatmap":
		slice = bigslice.Flatmap(slice, func(k, v int) ([]int, []int) {
			if valueAt(v) && s.trip() {
				s.fail()
			}
			return []int{k, k}, []int{v, v << 20}
		})
	case "writer":
		slice = bigslice.WriterFunc(slice, func(shard int, seen *int, err error, ks, vs []int) error {
			before := *seen
			*seen += len(ks)
			if shard != s.Shard {
				return nil
			}
			at := false
			switch {
			case s.Target == n: // the call that carries EOF
				at = err == sliceio.EOF
			case s.Target == 0:
				at = before == 0
			default:
				at = before <= s.Target && s.Target < before+len(ks)
			}
			if at {
				s.gateBeforeFail()
				if s.trip() {
					return s.fail()
				}
			}
			return nil
		})
	case "fold":
		slice = bigslice.Fold(slice, func(acc, v int) int {
			if valueAt(v) && s.trip() {
				s.fail()
			}
			return acc + v
		})
	case "repart":
		slice = bigslice.Repartition(slice, func(np, k, v int) int {
			if valueAt(v) && s.trip() {
				switch s.Mode {
				case "oorhi":
					return np
				case "oorneg":
					return -1
				}
				s.fail()
			}
			return bitIndex(v) % np
		})
	}

	if s.Family == "reduce" {
		slice = bigslice.Reduce(slice, func(a, b int) int {
			if armed("combiner") && valueAt(a|b) && s.trip() {
				s.fail()
			}
			return a + b
		})
	}

	if s.Family == "reshuffle" {
		// the armed operator's task is a combiner-free shuffle producer (partitioned output)
		slice = bigslice.Reshuffle(slice)
	}

	if s.Site == "scan" {
		slice = bigslice.Scan(slice, func(shard int, sc *sliceio.Scanner) error {
			var (
				k, v int
				rows []string
				idx  int
				ctx  = context.Background()
			)
			for sc.Scan(ctx, &k, &v) {
				if shard == s.Shard && idx == s.Target && s.trip() {
					return s.fail()
				}
				rows = append(rows, fmt.Sprintf("%d:%d", k, v))
				idx++
			}
			if err := sc.Err(); err != nil {
				return err
			}
			if shard == s.Shard && idx == s.Target && s.trip() {
				return s.fail()
			}
			c := &table[s.Case]
			c.mu.Lock()
			c.scans[shard] = append(c.scans[shard], rows)
			c.mu.Unlock()
			return nil
		})
	}
	return slice
}

func bitIndex(v int) int {
	i := 0
	for v > 1 {
		v >>= 1
		i++
	}
	return i
}

// dropped: the healthy Filter drops row 1 of every shard.
func dropped(v, n int) bool { return bitIndex(v)%n == 1 }

// ---- reference model --------------------------------------------------------------------

// expected returns the sorted rows ("k:v") of the program's result (for the scan
// site: of the slice handed to the callbacks).
func expected(s *Spec) []string {
	keys := layoutKeys(s)
	type row struct{ k, v int }
	var rows []row
	for sh := 0; sh < nshard; sh++ {
		for i := 0; i < s.N; i++ {
			rows = append(rows, row{keys[sh][i], rowBit(sh, i, s.N)})
		}
	}
	switch s.Site {
	case "filter":
		var o []row
		for _, r := range rows {
			if !dropped(r.v, s.N) {
				o = append(o, r)
			}
		}
		rows = o
	case "flatmap":
		var o []row
		for _, r := range rows {
			o = append(o, r, row{r.k, r.v << 20})
		}
		rows = o
	}
	if s.Site == "fold" || s.Family == "reduce" {
		sum := map[int]int{}
		for _, r := range rows {
			sum[r.k] += r.v
		}
		rows = rows[:0]
		for k, v := range sum {
			rows = append(rows, row{k, v})
		}
	}
	out := make([]string, len(rows))
	for i, r := range rows {
		out[i] = fmt.Sprintf("%d:%d", r.k, r.v)
	}
	sort.Strings(out)
	return out
}
