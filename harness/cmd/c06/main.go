// C06 — user errors and panics surface as errors from Run, on every executor.
//
// Fault enumeration over the full matrix
//
//	call site x failure mode x persistence x position x executor configuration
//
// (see enumerate). Every cell runs the real bigslice code on a fresh session in
// a CHILD process (this binary re-executed with -c06-child), a few cells per
// child, so that a crash of the driver process or a hang is an observation and
// not the end of the check. The failure is delivered by the user function itself
// (selected by the Func argument); a process-global table counts how often it
// was reached / fired (the verifsystem workers live in the driver process, so the
// table is shared — fired>0 after a cluster run is the evidence).
package main

import (
	"bufio"
	"bytes"
	"context"
	"encoding/json"
	"flag"
	"fmt"
	"math/rand"
	"os"
	osexec "os/exec"
	"strings"
	"sync"
	"sync/atomic"
	"time"

	"verifh/ev"
)

var (
	flagChild = flag.String("c06-child", "", "(internal) run the cells in this JSON file")
	flagOnly  = flag.String("only", "", "only cells whose id contains this substring (debugging; marks the run not exhaustive)")
	flagDump  = flag.Bool("dump", false, "print every observation")
)

// maxConsecutiveLost mirrors exec.maxConsecutiveLost (exec/eval.go).
const maxConsecutiveLost = 5

// fireBound: a persistent failure may be delivered at most this often. The
// property only says "does not retry indefinitely" / "a bounded number of
// times": maxConsecutiveLost x (an upper bound on the tasks of a program: 8) x 4.
const fireBound = maxConsecutiveLost * 8 * 4

var siteName = map[string]string{
	"reader": "reader-func", "writer": "writer-func", "map": "map", "filter": "filter", "flatmap": "flatmap",
	"fold": "fold", "combiner": "reduce-combiner", "repart": "repartition", "scan": "scan-callback",
}

var locName = map[string]string{"table": "task-table", "buffer": "shared-buffer", "merge": "consumer-merge"}

// wantLoc: the classified call stack (see classifyStack) a combiner failure is meant to fire in.
func wantLoc(config, loc string) string {
	if config == "local" {
		return "local-depReaders/inline-combine" // the local executor has one combine location only
	}
	switch loc {
	case "table":
		return "worker/task-table"
	case "buffer":
		return "worker/shared-buffer"
	case "merge":
		if config == "vsysmc" || config == "vsysmc1" {
			return "worker/shared-buffer" // one machine: both producers share the buffer
		}
		return "worker/consumer-merge"
	}
	return ""
}

type skipCount map[string]int

// enumerate lists the meaningful cells, simplest first, and counts the skipped
// combinations of the nominal matrix by reason.
func enumerate(thorough bool) (cells []*Cell, nominal int, skipped skipCount) {
	skipped = skipCount{}
	configs := []string{"local", "vsys", "vsysmc"}
	if thorough {
		configs = append(configs, "vsysmulti")
	}
	type fam struct {
		name     string
		chunk, n int
	}
	fams := []fam{{"direct", 3, 7}, {"reduce", 4, 9}, {"reshuffle", 3, 7}}
	sites := []struct{ site, loc string }{
		{"reader", ""}, {"writer", ""}, {"map", ""}, {"filter", ""}, {"flatmap", ""}, {"fold", ""},
		{"combiner", "table"}, {"combiner", "buffer"}, {"combiner", "merge"}, {"repart", ""}, {"scan", ""},
	}
	modes := []string{"err", "tempbase", "tempnet", "tempsentinel", "tempretriable", "panic", "oorhi", "oorneg"}
	perss := []string{"always", "once", "twice"}
	type position struct {
		name          string
		shard, target int
		eof           bool
	}
	positions := func(chunk, n int) []position {
		if !thorough {
			return []position{{"first", 0, 0, false}, {"boundary", 0, chunk, false}, {"last", 1, n - 1, false}, {"eof", 1, n, true}}
		}
		// thorough: every row of every shard, and the end of every shard
		var out []position
		for sh := 0; sh < nshard; sh++ {
			for t := 0; t < n; t++ {
				out = append(out, position{fmt.Sprintf("s%dr%d", sh, t), sh, t, false})
			}
			out = append(out, position{fmt.Sprintf("s%deof", sh), sh, n, true})
		}
		return out
	}
	canErr := map[string]bool{"reader": true, "writer": true, "scan": true}
	hasEOF := map[string]bool{"reader": true, "writer": true, "scan": true}

	for _, config := range configs {
		for _, f := range fams {
			for _, st := range sites {
				cfgs := []string{config}
				if config == "vsysmc" && st.loc == "merge" {
					// with machine combiners the consumer-side merge only combines rows from
					// different machines: an extra two-machine configuration for this location
					cfgs = append(cfgs, "vsysmc2")
				}
				if config == "vsysmc" && st.loc == "buffer" {
					// ... and one machine with a single proc: the tasks that share the
					// machine's combine buffers run one after the other, in an order the
					// evaluator picks at random; the failure is therefore placed at the same
					// row of both shards (whichever task runs first meets it)
					cfgs = append(cfgs, "vsysmc1")
				}
				for _, cfg := range cfgs {
					for _, mode := range modes {
						for _, pers := range perss {
							for _, ps := range positions(f.chunk, f.n) {
								pos := ps.name
								nominal++
								if f.name == "reshuffle" && (!(st.site == "reader" || st.site == "writer") || !(mode == "err" || mode == "tempbase" || mode == "panic")) {
									nominal-- // this family exists for the reader/writer sites and three modes only
									continue
								}
								switch {
								case st.site == "combiner" && (f.name == "direct" || f.name == "reshuffle"):
									skipped["reduce combiner exists only in the pipeline with a Reduce"]++
									continue
								case (mode == "oorhi" || mode == "oorneg") && st.site != "repart":
									skipped["an out-of-range partition can only be produced by a Repartition function"]++
									continue
								case pers == "twice" && !isTemp(mode):
									skipped["a failure that is fatal the first time cannot happen twice in a run (same as once)"]++
									continue
								case (mode == "err" || isTemp(mode)) && !canErr[st.site]:
									skipped["the function type of this call site has no error result: it can only panic"]++
									continue
								case ps.eof && !hasEOF[st.site]:
									skipped["a per-row function is not called at end of stream"]++
									continue
								}
								c := &Cell{Config: cfg, Pos: pos, Loc: st.loc}
								s := &c.Spec
								s.Family, s.Site, s.Mode, s.Pers, s.Chunk, s.N = f.name, st.site, mode, pers, f.chunk, f.n
								s.Shard, s.Target = ps.shard, ps.target
								s.Mask = 1 << uint(s.Shard*f.n+s.Target)
								if cfg == "vsysmc1" {
									s.Both = true
									s.Mask = 1<<uint(s.Target) | 1<<uint(f.n+s.Target)
								}
								switch {
								case st.site == "combiner":
									s.Layout = st.loc
								case f.name == "reduce":
									s.Layout = "G"
								case st.site == "fold":
									s.Layout = "fold"
								default:
									s.Layout = "distinct"
								}
								if st.site == "scan" && f.name == "reduce" {
									// the callbacks scan the reduced slice: all n-2 keys are in shard 0
									if thorough && (ps.shard != 0 || ps.target == f.n-2 || ps.target == f.n-1) {
										nominal--
										continue
									}
									s.Shard = 0
									switch {
									case pos == "last":
										s.Target = f.n - 3
									case ps.eof:
										s.Target = f.n - 2
									}
								}
								if cfg == "vsysmc1" && thorough && ps.shard != 0 {
									nominal-- // the failure is placed in both shards anyway
									continue
								}
								site := siteName[st.site]
								if st.loc != "" {
									site += "@" + locName[st.loc]
								}
								c.ID = fmt.Sprintf("%s/%s/%s/%s/%s/%s", cfg, f.name, site, mode, pers, pos)
								s.Msg = "c06-user-message[" + strings.ReplaceAll(c.ID, "/", ".") + "]"
								cells = append(cells, c)
								// forced interleavings of the failing map-side task with its peer (the
								// task of the other shard, on the same machine: they share the
								// machine's combine buffers under MachineCombiners): the transient
								// failure happens while the peer is still running / after the peer
								// has read all its input
								if (cfg == "vsys" || cfg == "vsysmc") && f.name == "reduce" && (st.site == "reader" || st.site == "writer") && isTemp(mode) && pers != "always" {
									for _, gate := range []string{"peer-running", "peer-done"} {
										nominal++
										g := *c
										g.Spec.Gate = gate
										g.ID = c.ID + "+" + gate
										g.Spec.Msg = "c06-user-message[" + strings.ReplaceAll(g.ID, "/", ".") + "]"
										cells = append(cells, &g)
									}
								}
							}
						}
					}
				}
			}
		}
	}
	return
}

// ---- running children ---------------------------------------------------------------

type outcome struct {
	cell   *Cell
	obs    *Obs   // nil if the child died while running the cell
	exit   string // how the child ended, if it died in this cell
	stderr string
}

var nChildren, nRuns int64

// runBatch runs cells in one child. It returns the outcome of every cell that
// was started and the cells that were not started because the child died.
func runBatch(exe, dir string, cells []*Cell) (outs []outcome, rest []*Cell) {
	atomic.AddInt64(&nChildren, 1)
	f, err := os.CreateTemp(dir, "batch*.json")
	if err != nil {
		ev.Fatal("tempfile: %v", err)
	}
	b, _ := json.Marshal(cells)
	f.Write(b)
	f.Close()
	defer os.Remove(f.Name())

	ctx, cancel := context.WithCancel(context.Background())
	defer cancel()
	cmd := osexec.CommandContext(ctx, exe, "-c06-child", f.Name())
	var stderr bytes.Buffer
	cmd.Stderr = &stderr
	stdout, err := cmd.StdoutPipe()
	if err != nil {
		ev.Fatal("pipe: %v", err)
	}
	if err := cmd.Start(); err != nil {
		ev.Fatal("start child: %v", err)
	}
	// outer watchdog: the child has its own per-cell watchdog (hangAfter); if it
	// does not even manage to report that, kill it.
	var last int64 = time.Now().UnixNano()
	killed := int32(0)
	go func() {
		for ctx.Err() == nil {
			time.Sleep(time.Second)
			if time.Since(time.Unix(0, atomic.LoadInt64(&last))) > hangMax+hangAfter {
				atomic.StoreInt32(&killed, 1)
				cancel()
			}
		}
	}()
	byID := map[string]*Cell{}
	for _, c := range cells {
		byID[c.ID] = c
	}
	var begun *Cell
	started := map[string]bool{}
	sc := bufio.NewScanner(stdout)
	sc.Buffer(make([]byte, 1<<20), 1<<22)
	for sc.Scan() {
		atomic.StoreInt64(&last, time.Now().UnixNano())
		var l line
		if json.Unmarshal(sc.Bytes(), &l) != nil {
			continue
		}
		if l.Begin != "" {
			begun = byID[l.Begin]
			started[l.Begin] = true
			atomic.AddInt64(&nRuns, 1)
		}
		if l.Obs != nil && begun != nil && l.Obs.ID == begun.ID {
			outs = append(outs, outcome{cell: begun, obs: l.Obs})
			begun = nil
		}
	}
	werr := cmd.Wait()
	if begun != nil {
		how := "exit 0 without a report"
		if werr != nil {
			how = werr.Error()
		}
		if atomic.LoadInt32(&killed) == 1 {
			how = "killed by the outer watchdog (no output)"
		}
		outs = append(outs, outcome{cell: begun, exit: how, stderr: crashExcerpt(stderr.String())})
	} else if werr != nil && len(started) == 0 {
		ev.Fatal("child failed before running any cell: %v\n%s", werr, crashExcerpt(stderr.String()))
	}
	for _, c := range cells {
		if !started[c.ID] {
			rest = append(rest, c)
		}
	}
	return
}

// crashExcerpt keeps the panic message and the first goroutine of a Go crash dump.
func crashExcerpt(s string) string {
	i := strings.Index(s, "panic: ")
	if j := strings.Index(s, "fatal error: "); j >= 0 && (i < 0 || j < i) {
		i = j
	}
	if i < 0 {
		if len(s) > 1500 {
			s = s[len(s)-1500:]
		}
		return s
	}
	s = s[i:]
	// first goroutine only
	if j := strings.Index(s, "\n\ngoroutine "); j >= 0 {
		if k := strings.Index(s[j+2:], "\n\n"); k >= 0 {
			s = s[:j+2+k]
		}
	}
	if len(s) > 4000 {
		s = s[:4000] + "…"
	}
	return s
}

// runAll runs every cell once, in batches, on `workers` concurrent children.
func runAll(exe, dir string, cells []*Cell, workers int, seed int64, over func() bool) map[string]outcome {
	var (
		mu      sync.Mutex
		queue   [][]*Cell
		pending int
		cond    = sync.NewCond(&mu)
		res     = map[string]outcome{}
	)
	groups := map[string][]*Cell{}
	var order []string
	for _, c := range cells {
		k := fmt.Sprintf("%s/%d", c.Config, c.Spec.Chunk)
		if _, ok := groups[k]; !ok {
			order = append(order, k)
		}
		groups[k] = append(groups[k], c)
	}
	for _, k := range order {
		size := 6
		if strings.HasPrefix(k, "local") {
			size = 12
		}
		g := groups[k]
		for len(g) > 0 {
			n := size
			if n > len(g) {
				n = len(g)
			}
			queue = append(queue, g[:n])
			g = g[n:]
		}
	}
	if seed != 0 {
		rand.New(rand.NewSource(seed)).Shuffle(len(queue), func(i, j int) { queue[i], queue[j] = queue[j], queue[i] })
	}
	var wg sync.WaitGroup
	for w := 0; w < workers; w++ {
		wg.Add(1)
		go func() {
			defer wg.Done()
			for {
				mu.Lock()
				for len(queue) == 0 && pending > 0 {
					cond.Wait()
				}
				if len(queue) == 0 || over() {
					mu.Unlock()
					cond.Broadcast()
					return
				}
				batch := queue[0]
				queue = queue[1:]
				pending++
				mu.Unlock()
				outs, rest := runBatch(exe, dir, batch)
				mu.Lock()
				for _, o := range outs {
					res[o.cell.ID] = o
				}
				// the child died (crash, hang, unbounded retries): such cells come in
				// clusters, so the cells it did not get to are run one per child
				for _, c := range rest {
					queue = append(queue, []*Cell{c})
				}
				pending--
				mu.Unlock()
				cond.Broadcast()
			}
		}()
	}
	wg.Wait()
	return res
}

// ---- oracle ----------------------------------------------------------------------------

// verdict is the class of one cell's outcome; viol is true for property violations.
type verdict struct {
	class string
	viol  bool
	what  string
}

func isTemp(mode string) bool {
	return mode == "tempbase" || mode == "tempnet" || mode == "tempsentinel" || mode == "tempretriable"
}

// msgRequired: "carrying the user's message for reader and writer errors and for every panic".
func msgRequired(s *Spec) bool {
	if s.Mode == "panic" {
		return true
	}
	return s.Mode == "err" && (s.Site == "reader" || s.Site == "writer")
}

func judge(o outcome) verdict {
	s := &o.cell.Spec
	if o.obs == nil {
		if strings.HasPrefix(o.exit, "killed") {
			return verdict{"hang", true, "the child did not even report within its own watchdog and was " + o.exit}
		}
		return verdict{"driver-crash", true, "the driver process died: " + o.exit}
	}
	b := o.obs
	if b.Unbounded {
		return verdict{"unbounded-retries", true, fmt.Sprintf("the failure was delivered more than %d times and Run was still retrying (maxConsecutiveLost=%d; the cell was abandoned at that point)", fireBound, maxConsecutiveLost)}
	}
	if b.Hang == "run" && b.Fired > 4*maxConsecutiveLost {
		return verdict{"unbounded-retries", true, fmt.Sprintf("Run did not return within %v and the failure had been delivered %d times by then (maxConsecutiveLost=%d)", hangAfter, b.Fired, maxConsecutiveLost)}
	}
	switch b.Hang {
	case "run":
		return verdict{"hang", true, fmt.Sprintf("Run did not return within %v (normal: well under 1 s) and then neither issued a task RPC nor reached the user function for %v", hangAfter, hangSilence)}
	case "repeat-run":
		return verdict{"hang-in-later-run", true, fmt.Sprintf("running the failing Func again in the same session (run %d) did not return within %v and showed no activity for %v", b.Repeats+2, hangAfter, hangSilence)}
	case "later-run":
		return verdict{"hang-in-later-run", true, fmt.Sprintf("a healthy Func run afterwards in the same session did not return within %v and showed no activity for %v (after %d runs of the failing Func; the healthy Func's tasks are Exclusive, i.e. need all procs)", hangAfter, hangSilence, b.Repeats+1)}
	}
	if b.ErrNil && !b.RowsOK {
		return verdict{"wrong-rows", true, "Run returned nil but the rows are not the program's rows: " + b.RowsDiff}
	}
	if b.RepeatTransient != "" {
		// the same class as a failure of the first run: whether the first or a later run
		// of a cell meets e.g. the machine-combiner limitation is a matter of timing
		return verdict{"one-shot-temporary-failed-the-run", true, b.RepeatTransient}
	}
	if b.RepeatBad != "" {
		return verdict{"wrong-outcome-in-later-run", true, b.RepeatBad}
	}
	if !b.HealthyOK {
		return verdict{"session-unusable", true, "a healthy Func run afterwards in the same session failed: " + b.HealthyErr}
	}
	if b.Fired == 0 {
		if b.ErrNil {
			return verdict{"not-fired", false, ""}
		}
		return verdict{"error-without-failure", true, "Run failed although the user function never failed: " + b.ErrText}
	}
	if s.Pers == "always" {
		if b.ErrNil {
			return verdict{"run-returned-nil", true, "the user function failed persistently but Run returned nil"}
		}
		if b.Fired > fireBound {
			return verdict{"unbounded-retries", true, fmt.Sprintf("the persistent failure was delivered %d times (bound %d)", b.Fired, fireBound)}
		}
		if msgRequired(s) && !b.ErrHasMsg {
			return verdict{"message-lost", true, "Run's error does not carry the user's message: " + b.ErrText}
		}
		if b.ErrHasMsg {
			return verdict{"error+message", false, ""}
		}
		return verdict{"error", false, ""}
	}
	// one-shot
	if b.ErrNil {
		return verdict{"success-after-retry", false, ""}
	}
	if isTemp(s.Mode) {
		return verdict{"one-shot-temporary-failed-the-run", true, "a temporary failure that goes away on retry failed the run: " + b.ErrText}
	}
	if b.ErrHasMsg {
		return verdict{"one-shot-fatal:error+message", false, ""}
	}
	return verdict{"one-shot-fatal:error", false, ""}
}

func signature(c *Cell, class string) string {
	site := siteName[c.Spec.Site]
	if c.Loc != "" && c.Config != "local" { // the local executor has a single combine location
		site += "@" + locName[c.Loc]
	}
	mode := c.Spec.Mode
	if isTemp(mode) { // both ways of marking an error temporary are recognised by the same code
		mode = "temporary"
	}
	return fmt.Sprintf("C06/%s/%s/%s/%s", c.Config, site, mode, class)
}

func main() {
	flag.Parse()
	if *flagChild != "" {
		childMain(*flagChild)
		return
	}
	r := ev.Start("C06", "fault_enumeration")
	exe, err := os.Executable()
	if err != nil {
		ev.Fatal("os.Executable: %v", err)
	}
	dir, err := os.MkdirTemp("", "c06-")
	if err != nil {
		ev.Fatal("mkdtemp: %v", err)
	}
	os.Setenv("TMPDIR", dir)

	cells, nominal, skipped := enumerate(r.Thorough())
	if *flagOnly != "" {
		var o []*Cell
		for _, c := range cells {
			if strings.Contains(c.ID, *flagOnly) {
				o = append(o, c)
			}
		}
		cells = o
		r.NotExhaustive("-only " + *flagOnly)
	}
	const workers = 16
	budget := 8 * time.Minute
	if r.Thorough() {
		budget = 25 * time.Minute
	}
	res := runAll(exe, dir, cells, workers, r.Seed, func() bool { return r.OverBudget(budget) })
	if len(res) < len(cells) {
		r.NotExhaustive(fmt.Sprintf("time budget: %d of %d cells were run", len(res), len(cells)))
		var ran []*Cell
		for _, c := range cells {
			if _, ok := res[c.ID]; ok {
				ran = append(ran, c)
			}
		}
		cells = ran
	}

	// first verdicts; violating cells are re-run alone (3x for crash/hang, 2x
	// otherwise, concurrently) and count as confirmed only if every re-run gives
	// the same verdict. Of the cells with the same signature (the same defect at
	// other rows / in the other pipeline) the first confirmPerSig are re-run; a
	// signature is reported iff one of its cells is confirmed.
	const confirmPerSig = 3
	skippedConfirm := map[string]bool{}
	type again struct {
		c *Cell
		v verdict
		n int
	}
	var (
		cands       = map[string][]again{} // violating cells by signature, in enumeration order
		sigSeq      []string
		confirmed   = map[string]bool{}
		unconfirmed = map[string][]string{}
		rerun       = map[string]bool{}
		nredo       int
	)
	for _, c := range cells {
		o, ok := res[c.ID]
		if !ok {
			ev.Fatal("cell %s was not run", c.ID)
		}
		if v := judge(o); v.viol {
			n := 2
			if v.class == "driver-crash" || strings.HasPrefix(v.class, "hang") {
				n = 3
			}
			sig := signature(c, v.class)
			if _, ok := cands[sig]; !ok {
				sigSeq = append(sigSeq, sig)
			}
			cands[sig] = append(cands[sig], again{c, v, n})
		}
	}
	// up to confirmRounds rounds: as long as a signature has no confirmed cell, its
	// next confirmPerSig cells are re-run
	const confirmRounds = 4
	for round := 0; round < confirmRounds; round++ {
		var redo []again
		for _, sig := range sigSeq {
			done := false
			for _, a := range cands[sig] {
				if confirmed[a.c.ID] {
					done = true
				}
			}
			if done {
				continue
			}
			k := 0
			for _, a := range cands[sig] {
				if !rerun[a.c.ID] && k < confirmPerSig {
					rerun[a.c.ID] = true
					redo = append(redo, a)
					k++
				}
			}
		}
		if len(redo) == 0 {
			break
		}
		nredo += len(redo)
		type job struct {
			a again
			k int
		}
		var jobs []job
		for _, a := range redo {
			for k := 0; k < a.n; k++ {
				jobs = append(jobs, job{a, k})
			}
		}
		classes := make([]string, len(jobs))
		ev.Parallel(len(jobs), workers, func(i int) {
			outs, _ := runBatch(exe, dir, []*Cell{jobs[i].a.c})
			if len(outs) == 1 {
				classes[i] = judge(outs[0]).class
			}
		})
		agree := map[string]int{}
		for i, j := range jobs {
			if classes[i] == j.a.v.class {
				agree[j.a.c.ID]++
			} else {
				unconfirmed[j.a.c.ID] = append(unconfirmed[j.a.c.ID], classes[i])
			}
		}
		for _, a := range redo {
			if agree[a.c.ID] == a.n {
				confirmed[a.c.ID] = true
			}
		}
	}
	for _, as := range cands {
		for _, a := range as {
			if !rerun[a.c.ID] {
				skippedConfirm[a.c.ID] = true
			}
		}
	}

	// aggregate
	var (
		outcomes     = ev.NewCounter()
		perConfig    = map[string]map[string]int{}
		locs         = map[string]int{}
		fired        int
		atLoc        int
		combCells    int
		gated        int
		gatedForced  int
		maxFired     int64
		maxFiredID   string
		sigCells     = map[string][]string{}
		sigFirst     = map[string]outcome{}
		sigWhat      = map[string]string{}
		sigOrder     []string
		sigConfirmed = map[string]int{}
		slowest      int64
	)
	for _, c := range cells {
		o := res[c.ID]
		v := judge(o)
		class := v.class
		if v.viol && skippedConfirm[c.ID] {
			class = "same-signature-as-confirmed:" + v.class
		} else if v.viol && !confirmed[c.ID] {
			class = "unconfirmed:" + v.class
			r.Note("not reproduced on every re-run, not reported: %s first=%s re-runs=%v", c.ID, v.class, unconfirmed[c.ID])
		}
		outcomes.Add(class)
		if perConfig[c.Config] == nil {
			perConfig[c.Config] = map[string]int{}
		}
		perConfig[c.Config][class]++
		if o.obs == nil || o.obs.Fired > 0 {
			fired++
		}
		if o.obs != nil {
			for l, n := range o.obs.Locs {
				if n > 0 {
					locs[c.Spec.Site+":"+l]++
				}
			}
			if o.obs.Fired > maxFired {
				maxFired, maxFiredID = o.obs.Fired, c.ID
			}
			if o.obs.Ms > slowest && o.obs.Hang == "" {
				slowest = o.obs.Ms
			}
			if c.Spec.Gate != "" {
				gated++
				if o.obs.GateWaits > 0 && o.obs.GateTimeouts == 0 {
					gatedForced++
				} else {
					r.Note("interleaving not forced (gate waits=%d timeouts=%d): %s", o.obs.GateWaits, o.obs.GateTimeouts, c.ID)
				}
			}
			if c.Spec.Site == "combiner" {
				combCells++
				if o.obs.Locs[wantLoc(c.Config, c.Loc)] > 0 {
					atLoc++
				}
			}
		} else if c.Spec.Site == "combiner" {
			combCells++
			if strings.Contains(o.stderr, "depReaders") && c.Config == "local" {
				atLoc++
			}
		}
		if *flagDump {
			if o.obs != nil {
				fmt.Printf("%-72s %-30s fired=%d reached=%d %v ms=%d healthy=%v err=%q diff=%q\n", c.ID, class, o.obs.Fired, o.obs.Reached, o.obs.Locs, o.obs.Ms, o.obs.HealthyOK, trim(strings.ReplaceAll(o.obs.ErrText, "\n", " "), 150), trim(o.obs.RowsDiff+o.obs.HealthyErr, 200))
			} else {
				fmt.Printf("%-72s %-30s %s | %s\n", c.ID, class, o.exit, strings.SplitN(o.stderr, "\n", 2)[0])
			}
		}
		if v.viol && (confirmed[c.ID] || skippedConfirm[c.ID]) {
			sig := signature(c, v.class)
			if _, ok := sigFirst[sig]; !ok {
				sigFirst[sig] = o
				sigWhat[sig] = v.what
				sigOrder = append(sigOrder, sig)
			}
			sigCells[sig] = append(sigCells[sig], c.ID)
			if confirmed[c.ID] {
				sigConfirmed[sig]++
			}
		}
		if !v.viol {
			r.Sample(map[string]interface{}{"cell": c.ID, "class": class, "fired": o.obs.Fired, "where": o.obs.Locs, "error": trim(o.obs.ErrText, 160)})
		}
	}
	for _, sig := range sigOrder {
		o := sigFirst[sig]
		if sigConfirmed[sig] == 0 {
			r.Note("signature %s: none of the re-run cells was confirmed, not reported", sig)
			continue
		}
		detail := map[string]interface{}{
			"cells":                    sigCells[sig],
			"cells_confirmed_by_rerun": sigConfirmed[sig],
			"first_cell":               o.cell,
			"replay":                   "c06-plain -tier quick -only " + o.cell.ID + " -dump",
			"how_to_read":              "cell id = configuration/pipeline family/call site[@combiner location]/mode/persistence/position",
		}
		if o.obs != nil {
			detail["observation"] = o.obs
		} else {
			detail["child_exit"] = o.exit
			detail["child_stderr"] = o.stderr
		}
		what := fmt.Sprintf("%s: %s [%d cell(s), first: %s]", strings.TrimPrefix(sig, "C06/"), sigWhat[sig], len(sigCells[sig]), o.cell.ID)
		r.Violate(sig, trim(what, 700), detail)
	}
	oc := map[string]int{}
	for _, k := range outcomes.Keys() {
		oc[k] = 0
	}
	for _, m := range perConfig {
		for k, n := range m {
			oc[k] += n
		}
	}
	if n := oc["not-fired"]; n > 0 {
		r.Note("%d cells whose failure was never reached (vacuous)", n)
	}
	if slowest > int64(hangAfter/time.Millisecond)/100*50 {
		r.Note("slowest non-hanging cell took %d ms; the hang watchdog is %v", slowest, hangAfter)
	}
	os.RemoveAll(dir)
	sk := 0
	for _, n := range skipped {
		sk += n
	}
	r.Finish(ev.Coverage{
		"evaluations":         atomic.LoadInt64(&nRuns),
		"distinct_nontrivial": fired,
		"rule": "cells = call site {ReaderFunc, WriterFunc, Map, Filter, Flatmap, Fold, Reduce combiner @ task-local table / shared (per-task or per-machine) combine buffer / consumer-side merge, Repartition fn, Scan callback} x mode {error, temporary (base errors.Temporary), temporary (net-style Temporary()), temporary (one package-level *errors.Error sentinel returned every time), temporary (base errors.Retriable severity: 'can be safely retried'), panic, partition >= n, partition < 0} x {always, once, twice (temporary modes; fails the first two times it is reached in a run)} x position {first row, first row after the vector boundary, last row (of the last shard), at EOF} x pipeline {armed operator last; ... -> Reduce; ... -> Reshuffle (reader/writer sites; error, temporary, panic)} x configuration {local, verifsystem 1 machine, same + MachineCombiners (+ 2 machines for the consumer merge)" +
			map[bool]string{true: ", verifsystem 4 one-proc machines", false: ""}[r.Thorough()] + "}; vector size 3 with 7 rows/shard (4 and 9 where a Reduce is present: combining frames need a power of two); 2 shards. For transient temporary failures of ReaderFunc/WriterFunc feeding a Reduce on the cluster configurations additionally two forced interleavings (user functions coordinate through in-process gates, 20 s gate timeout = not forced): the other shard's task is still running when the failing attempt exits and until its re-run has read its input / has read all its input before the first failure. After the failing run the failing Func is run again in the same session (local: once per proc; clusters: once; transient failures fire again in each of these runs and must again go away), then a healthy Func whose tasks are Exclusive (need all procs). A cell is non-trivial iff its user function actually delivered the failure (counted by the function itself) or the process died in it. evaluations = cell executions including confirmation re-runs.",
		"cells_nominal":                             nominal,
		"cells_meaningful":                          len(cells),
		"cells_skipped":                             sk,
		"skipped_by_reason":                         skipped,
		"outcome_classes":                           oc,
		"distinct_outcomes":                         outcomes.Distinct(),
		"outcomes_by_configuration":                 perConfig,
		"fired_locations":                           locs,
		"gated_cells":                               gated,
		"gated_cells_interleaving_forced":           gatedForced,
		"combiner_cells":                            combCells,
		"combiner_cells_fired_at_intended_location": atLoc,
		"max_failures_delivered_in_one_cell":        maxFired,
		"max_failures_cell":                         maxFiredID,
		"failure_bound":                             fireBound,
		"child_processes":                           atomic.LoadInt64(&nChildren),
		"slowest_cell_ms":                           slowest,
		"hang_watchdog_s":                           hangAfter.Seconds(),
		"violating_cells_confirmed":                 len(confirmed),
		"violating_cells_unconfirmed":               nredo - len(confirmed),
	})
}
