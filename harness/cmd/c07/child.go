package main

import (
	"bufio"
	"bytes"
	"context"
	"encoding/json"
	"fmt"
	"os"
	"runtime"
	"runtime/debug"
	"syscall"
	"time"

	"github.com/grailbio/bigslice/frame"
	"github.com/grailbio/bigslice/sliceio"
)

// ---- damage ---------------------------------------------------------------

type damage struct {
	Kind string `json:"kind"` // none | flip | flip2 | cut | burst
	Pos  int    `json:"pos"`  // byte offset (flip, burst) or number of bytes kept (cut)
	Bit  int    `json:"bit,omitempty"`
	Pos2 int    `json:"pos2,omitempty"` // flip2: second flipped bit
	Bit2 int    `json:"bit2,omitempty"`
	Len  int    `json:"len,omitempty"`
	Fill byte   `json:"fill,omitempty"`
}

func (d damage) String() string {
	switch d.Kind {
	case "flip":
		return fmt.Sprintf("flip bit %d of byte %d", d.Bit, d.Pos)
	case "flip2":
		return fmt.Sprintf("flip bit %d of byte %d and bit %d of byte %d", d.Bit, d.Pos, d.Bit2, d.Pos2)
	case "cut":
		return fmt.Sprintf("truncate to %d bytes", d.Pos)
	case "burst":
		return fmt.Sprintf("overwrite bytes [%d,%d) with 0x%02x", d.Pos, d.Pos+d.Len, d.Fill)
	}
	return "undamaged"
}

func (d damage) apply(orig []byte) []byte {
	b := append([]byte(nil), orig...)
	switch d.Kind {
	case "flip":
		b[d.Pos] ^= 1 << uint(d.Bit)
	case "flip2":
		b[d.Pos] ^= 1 << uint(d.Bit)
		b[d.Pos2] ^= 1 << uint(d.Bit2)
	case "cut":
		b = b[:d.Pos]
	case "burst":
		for i := d.Pos; i < d.Pos+d.Len; i++ {
			b[i] = d.Fill
		}
	}
	return b
}

// ---- job / result ---------------------------------------------------------

type jobStream struct {
	Kinds []int    `json:"kinds"`
	Data  []byte   `json:"data"`
	Truth []string `json:"truth"`
}

type ccase struct {
	ID     int    `json:"id"`
	Stream int    `json:"stream"`
	Dmg    damage `json:"dmg"`
	DstLen int    `json:"dst"`
}

type job struct {
	Streams map[int]jobStream `json:"streams"`
	Cases   []ccase           `json:"cases"`
	LimitAS uint64            `json:"limit_as"`
}

type childResult struct {
	ID        int    `json:"id"`
	Delivered int    `json:"d"`   // rows delivered (and verified correct) before the terminal event
	Bad       int    `json:"bad"` // index of first wrong/extra row, -1 if none
	BadRow    string `json:"badrow,omitempty"`
	Term      string `json:"t"` // eof | err | panic | n-out-of-range | wrong-row | no-progress | crash | hang
	Msg       string `json:"m,omitempty"`
	Reads     int    `json:"reads"`
	Micros    int64  `json:"us"`
}

// decodeDamaged reads data through the real decoder with destination frames of
// dstLen rows and compares every delivered row with truth as it goes; it stops
// at the first wrong row, error, EOF or panic.
func decodeDamaged(c combo, data []byte, truth []string, dstLen int) (res childResult) {
	res.Bad = -1
	defer func() {
		if p := recover(); p != nil {
			res.Term = "panic"
			res.Msg = fmt.Sprint(p)
		}
	}()
	st := newStore(c, dstLen)
	rd := sliceio.NewDecodingReader(bytes.NewReader(data))
	ctx := context.Background()
	maxReads := len(data) + len(truth) + 8
	var rb []byte
	for {
		if res.Reads >= maxReads {
			res.Term = "no-progress"
			return
		}
		st.fill()
		var dst frame.Frame = st.full
		n, err := rd.Read(ctx, dst)
		res.Reads++
		if n < 0 || n > dstLen {
			res.Term = "n-out-of-range"
			res.Msg = fmt.Sprintf("n=%d len(dst)=%d err=%v", n, dstLen, err)
			return
		}
		for j := 0; j < n; j++ {
			rb = st.row(rb[:0], j)
			if res.Delivered >= len(truth) || string(rb) != truth[res.Delivered] {
				res.Term = "wrong-row"
				res.Bad = res.Delivered
				res.BadRow = string(rb)
				return
			}
			res.Delivered++
		}
		if err == sliceio.EOF {
			res.Term = "eof"
			return
		}
		if err != nil {
			res.Term = "err"
			res.Msg = err.Error()
			return
		}
	}
}

// childMain runs all cases of a job file sequentially. Protocol on stdout:
// "S <id>" before a case, "R <json>" after it. A case that kills the process
// (out of memory under RLIMIT_AS, stack overflow, fatal runtime error) is the
// one whose S line has no R line.
func childMain(path string) {
	b, err := os.ReadFile(path)
	if err != nil {
		fmt.Fprintln(os.Stderr, "c07 child: ", err)
		os.Exit(3)
	}
	var j job
	if err := json.Unmarshal(b, &j); err != nil {
		fmt.Fprintln(os.Stderr, "c07 child: ", err)
		os.Exit(3)
	}
	b = nil
	if j.LimitAS > 0 {
		lim := syscall.Rlimit{Cur: j.LimitAS, Max: j.LimitAS}
		if err := syscall.Setrlimit(syscall.RLIMIT_AS, &lim); err != nil {
			fmt.Fprintln(os.Stderr, "c07 child: setrlimit: ", err)
			os.Exit(3)
		}
	}
	out := bufio.NewWriter(os.Stdout)
	fmt.Fprintln(out, "READY")
	out.Flush()
	for _, cs := range j.Cases {
		s := j.Streams[cs.Stream]
		c := make(combo, len(s.Kinds))
		for i, k := range s.Kinds {
			c[i] = kind(k)
		}
		data := cs.Dmg.apply(s.Data)
		fmt.Fprintf(out, "S %d\n", cs.ID)
		out.Flush()
		t0 := time.Now()
		res := decodeDamaged(c, data, s.Truth, cs.DstLen)
		el := time.Since(t0)
		res.ID = cs.ID
		res.Micros = el.Microseconds()
		if len(res.Msg) > 400 {
			res.Msg = res.Msg[:400]
		}
		rb, _ := json.Marshal(res)
		out.WriteString("R ")
		out.Write(rb)
		out.WriteByte('\n')
		out.Flush()
		if el > 100*time.Millisecond {
			// a damaged length may have made the decoder allocate a lot; give it
			// back so that the next case starts from the same address-space budget
			runtime.GC()
			debug.FreeOSMemory()
		}
	}
	fmt.Fprintln(out, "DONE")
	out.Flush()
	os.Exit(0)
}
