package main

import (
	"bufio"
	"bytes"
	"encoding/json"
	"fmt"
	"io"
	"os"
	"os/exec"
	"path/filepath"
	"regexp"
	"sort"
	"strings"
	"sync"
	"sync/atomic"
	"time"

	"verifh/ev"
)

// ---- streams --------------------------------------------------------------

type streamSpec struct {
	c     combo
	lens  []int
	phase int
}

// first quickStreams entries are the quick tier; all are the thorough tier.
const quickStreams = 20

var streamSpecs = []streamSpec{
	{combo{kInt}, []int{1}, 1},
	{combo{kInt}, []int{2, 1}, 0},
	{combo{kInt}, []int{0}, 0},
	{combo{kInt}, []int{3, 0, 2}, 1},
	{combo{kString}, []int{2}, 1},
	{combo{kString}, []int{1, 2}, 0},
	{combo{kBytes}, []int{2, 1}, 1},
	{combo{kBool}, []int{70}, 0},
	{combo{kUint8}, []int{66, 1}, 0},
	{combo{kFloat64}, []int{2, 1}, 1},
	{combo{kGob}, []int{2}, 1},
	{combo{kGob}, []int{1, 1}, 0},
	{combo{kPtr}, []int{2}, 1},
	{combo{kPtr}, []int{1, 2}, 0},
	{combo{kCustom}, []int{2, 1}, 1},
	{combo{kCustom}, []int{1, 1, 1}, 0},
	{combo{kArr}, []int{2, 1}, 1},
	{combo{kInt, kString}, []int{2, 1}, 0},
	{combo{kInt, kCustom}, []int{1, 2}, 1},
	{combo{kString, kBytes, kBool}, []int{1, 1}, 1},
	// thorough only
	{combo{kInt8}, []int{64}, 0},
	{combo{kInt8}, []int{3}, 0},
	{combo{kInt16}, []int{3, 1}, 0},
	{combo{kInt32}, []int{1, 3}, 0},
	{combo{kInt64}, []int{2, 2}, 0},
	{combo{kUint}, []int{2, 1}, 1},
	{combo{kUint16}, []int{1, 0, 1}, 1},
	{combo{kUint32}, []int{3}, 1},
	{combo{kUint64}, []int{1, 1, 1}, 1},
	{combo{kUintptr}, []int{2}, 1},
	{combo{kFloat32}, []int{2, 0}, 1},
	{combo{kBool}, []int{3, 3}, 0},
	{combo{kBool}, []int{65, 2}, 1},
	{combo{kString}, []int{0, 3}, 0},
	{combo{kBytes}, []int{3}, 0},
	{combo{kCustom}, []int{0, 2}, 0},
	{combo{kCustom}, []int{16, 1}, 0},
	{combo{kInt, kInt}, []int{2, 2}, 0},
	{combo{kCustom, kString}, []int{1, 2}, 0},
	{combo{kInt, kBool, kFloat64}, []int{2, 1}, 0},
	{combo{kUint8, kInt8}, []int{3, 2}, 1},
	{combo{kBytes, kCustom, kInt}, []int{1, 1}, 0},
}

type gobMsg struct {
	start, end int
	hdr        int // bytes of length prefix
}

type streamInfo struct {
	idx   int
	spec  streamSpec
	e     *encoded
	msgs  []gobMsg
	rowsB []int // rowsB[j] = rows in batches < j
}

func (s *streamInfo) name() string {
	return fmt.Sprintf("#%d %s batches=%v (%d bytes)", s.idx, s.spec.c, s.spec.lens, len(s.e.data))
}

// parseGob splits a pristine stream into gob messages (uint length prefix + payload).
func parseGob(b []byte) ([]gobMsg, error) {
	var out []gobMsg
	for p := 0; p < len(b); {
		var n uint64
		hdr := 1
		if b[p] < 0x80 {
			n = uint64(b[p])
		} else {
			w := int(-int8(b[p]))
			if w > 8 || p+1+w > len(b) {
				return nil, fmt.Errorf("bad gob length at %d", p)
			}
			for _, x := range b[p+1 : p+1+w] {
				n = n<<8 | uint64(x)
			}
			hdr = 1 + w
		}
		end := p + hdr + int(n)
		if end > len(b) {
			return nil, fmt.Errorf("gob message at %d overruns the stream", p)
		}
		out = append(out, gobMsg{p, end, hdr})
		p = end
	}
	return out, nil
}

// region names the part of the stream that byte pos belongs to.
func (s *streamInfo) region(pos int) string {
	b := sort.Search(len(s.e.bounds), func(i int) bool { return s.e.bounds[i] > pos }) - 1
	var in []gobMsg
	var mi int
	for _, m := range s.msgs {
		if m.start >= s.e.bounds[b] && m.end <= s.e.bounds[b+1] {
			if pos >= m.start && pos < m.end {
				mi = len(in)
			}
			in = append(in, m)
		}
	}
	m := in[mi]
	part := "payload"
	if pos < m.start+m.hdr {
		part = "gob-message-length"
	}
	what := "column"
	if mi == 0 {
		what = "batch-length"
	} else if mi == len(in)-1 {
		what = "checksum"
	}
	return fmt.Sprintf("batch %d %s message, %s", b, what, part)
}

func buildStreams(r *ev.Run) []*streamInfo {
	n := quickStreams
	if r.Thorough() {
		n = len(streamSpecs)
	}
	var out []*streamInfo
	for i, sp := range streamSpecs[:n] {
		e, err := encodeStream(sp.c, sp.phase, false, sp.lens)
		if err != nil {
			// a valid frame could not be written: a fidelity violation; the stream is left out
			r.Violate("C07/fidelity/write-error:"+normalize(err.Error()), fmt.Sprintf("Encoder.Write failed on a valid frame (columns %s, batches %v): %v", sp.c, sp.lens, err),
				map[string]interface{}{"columns": sp.c.String(), "batch_lengths": sp.lens, "phase": sp.phase})
			out = append(out, &streamInfo{idx: i, spec: sp})
			continue
		}
		if len(e.data) > 150 {
			ev.Fatal("stream %d (%s %v) is %d bytes > 150", i, sp.c, sp.lens, len(e.data))
		}
		msgs, err := parseGob(e.data)
		if err != nil {
			ev.Fatal("stream %d: %v", i, err)
		}
		si := &streamInfo{idx: i, spec: sp, e: e, msgs: msgs, rowsB: []int{0}}
		for _, m := range sp.lens {
			si.rowsB = append(si.rowsB, si.rowsB[len(si.rowsB)-1]+m)
		}
		// batch boundaries must coincide with message boundaries
		for _, b := range e.bounds {
			ok := b == 0
			for _, m := range msgs {
				if m.end == b {
					ok = true
				}
			}
			if !ok {
				ev.Fatal("stream %d: batch boundary %d is not a gob message boundary", i, b)
			}
		}
		out = append(out, si)
	}
	return out
}

// enumerate every damage of every stream, for every destination length.
func enumCases(streams []*streamInfo) []ccase {
	var cases []ccase
	add := func(s *streamInfo, d damage) {
		maxb := 0
		for _, m := range s.spec.lens {
			if m > maxb {
				maxb = m
			}
		}
		dls := []int{1, 4}
		if maxb > 4 {
			dls = append(dls, 128)
		}
		for _, dl := range dls {
			cases = append(cases, ccase{ID: len(cases), Stream: s.idx, Dmg: d, DstLen: dl})
		}
	}
	for _, s := range streams {
		if s.e == nil {
			continue
		}
		L := len(s.e.data)
		add(s, damage{Kind: "none"})
		for cut := 0; cut < L; cut++ {
			add(s, damage{Kind: "cut", Pos: cut})
		}
		for pos := 0; pos < L; pos++ {
			for bit := 0; bit < 8; bit++ {
				add(s, damage{Kind: "flip", Pos: pos, Bit: bit})
			}
		}
		// every pair of bit flips inside each batch-length message (the one field
		// that sizes an allocation before any checksum can be verified)
		for _, b := range s.e.bounds[:len(s.e.bounds)-1] {
			var m gobMsg
			for _, x := range s.msgs {
				if x.start == b {
					m = x
				}
			}
			nb := 8 * (m.end - m.start)
			for i := 0; i < nb; i++ {
				for j := i + 1; j < nb; j++ {
					add(s, damage{Kind: "flip2", Pos: m.start + i/8, Bit: i % 8, Pos2: m.start + j/8, Bit2: j % 8})
				}
			}
		}
		for _, bl := range []int{2, 3} {
			for pos := 0; pos+bl <= L; pos++ {
				for _, fill := range []byte{0x00, 0xff} {
					d := damage{Kind: "burst", Pos: pos, Len: bl, Fill: fill}
					if bytes.Equal(d.apply(s.e.data), s.e.data) {
						continue
					}
					add(s, d)
				}
			}
		}
	}
	return cases
}

// ---- running cases in children --------------------------------------------

const limitAS = 3 << 30

var hangTimeout = 120 * time.Second

type childStats struct {
	spawns, crashes, hangs int64
}

// runShard runs the cases in fresh child processes until each has a result.
// A case that kills its child is re-run alone; it is a crash only if it kills
// that child as well.
func runShard(streams []*streamInfo, cases []ccase, alone bool, st *childStats) map[int]childResult {
	results := map[int]childResult{}
	pending := cases
	fails := 0
	for len(pending) > 0 {
		got, culprit, stderr, hung, err := runChild(streams, pending, st)
		if err != nil {
			fails++
			if fails > 3 {
				ev.Fatal("cannot run child: %v\n%s", err, stderr)
			}
			continue
		}
		for id, r := range got {
			results[id] = r
		}
		var rest []ccase
		for _, c := range pending {
			if _, ok := got[c.ID]; ok {
				continue
			}
			if c.ID == culprit {
				continue
			}
			rest = append(rest, c)
		}
		if culprit >= 0 {
			var cc ccase
			for _, c := range pending {
				if c.ID == culprit {
					cc = c
				}
			}
			term := "crash"
			if hung {
				term = "hang"
			}
			if alone {
				results[culprit] = childResult{ID: culprit, Bad: -1, Term: term, Msg: stderr}
			} else {
				// confirm in a fresh process (twice more for hangs)
				tries := 1
				if hung {
					tries = 2
				}
				final := childResult{ID: culprit, Bad: -1, Term: term, Msg: stderr}
				for t := 0; t < tries; t++ {
					r2 := runShard(streams, []ccase{cc}, true, st)[culprit]
					if r2.Term != term {
						final = r2
						break
					}
					final = r2
				}
				results[culprit] = final
			}
		} else if len(rest) == len(pending) {
			fails++
			if fails > 3 {
				ev.Fatal("child made no progress: %s", stderr)
			}
		}
		pending = rest
	}
	return results
}

var jobSeq int64

// runChild runs one child over the cases. It returns the results received, the
// id of the case that was running when the child died (-1 if it exited cleanly),
// the head of its stderr, and whether it was killed by the hang watchdog.
func runChild(streams []*streamInfo, cases []ccase, st *childStats) (got map[int]childResult, culprit int, stderr string, hung bool, err error) {
	atomic.AddInt64(&st.spawns, 1)
	j := job{Streams: map[int]jobStream{}, Cases: cases, LimitAS: limitAS}
	for _, c := range cases {
		if _, ok := j.Streams[c.Stream]; !ok {
			s := streams[c.Stream]
			ks := make([]int, len(s.spec.c))
			for i, k := range s.spec.c {
				ks[i] = int(k)
			}
			j.Streams[c.Stream] = jobStream{Kinds: ks, Data: s.e.data, Truth: s.e.truth}
		}
	}
	jb, _ := json.Marshal(j)
	path := filepath.Join(os.TempDir(), fmt.Sprintf("c07-job-%d-%d.json", os.Getpid(), atomic.AddInt64(&jobSeq, 1)))
	if err := os.WriteFile(path, jb, 0600); err != nil {
		return nil, -1, "", false, err
	}
	defer os.Remove(path)
	exe, err := os.Executable()
	if err != nil {
		return nil, -1, "", false, err
	}
	cmd := exec.Command(exe, "-c07child", path)
	cmd.Env = append(os.Environ(), "GOMAXPROCS=2", "GOTRACEBACK=single")
	so, err := cmd.StdoutPipe()
	if err != nil {
		return nil, -1, "", false, err
	}
	var eb limitedBuf
	cmd.Stderr = &eb
	if err := cmd.Start(); err != nil {
		return nil, -1, "", false, err
	}
	var last int64 = time.Now().UnixNano()
	var killed int32
	stop := make(chan struct{})
	go func() {
		t := time.NewTicker(500 * time.Millisecond)
		defer t.Stop()
		for {
			select {
			case <-stop:
				return
			case <-t.C:
				if time.Since(time.Unix(0, atomic.LoadInt64(&last))) > hangTimeout {
					atomic.StoreInt32(&killed, 1)
					cmd.Process.Kill()
					return
				}
			}
		}
	}()
	got = map[int]childResult{}
	culprit = -1
	ready, done := false, false
	sc := bufio.NewScanner(so)
	sc.Buffer(make([]byte, 1<<16), 1<<22)
	for sc.Scan() {
		atomic.StoreInt64(&last, time.Now().UnixNano())
		line := sc.Text()
		switch {
		case line == "READY":
			ready = true
		case line == "DONE":
			done = true
		case strings.HasPrefix(line, "S "):
			fmt.Sscanf(line[2:], "%d", &culprit)
		case strings.HasPrefix(line, "R "):
			var r childResult
			if e := json.Unmarshal([]byte(line[2:]), &r); e != nil {
				ev.Fatal("bad child line %q: %v", line, e)
			}
			got[r.ID] = r
			if r.ID == culprit {
				culprit = -1
			}
		}
	}
	io.Copy(io.Discard, so)
	werr := cmd.Wait()
	close(stop)
	stderr = eb.String()
	hung = atomic.LoadInt32(&killed) == 1
	if !ready {
		return nil, -1, stderr, false, fmt.Errorf("child did not start: %v", werr)
	}
	if done && werr == nil {
		return got, -1, stderr, false, nil
	}
	if culprit >= 0 {
		atomic.AddInt64(&st.crashes, 1)
		if hung {
			atomic.AddInt64(&st.hangs, 1)
		}
		stderr = fmt.Sprintf("child exit: %v; stderr: %s", werr, stderr)
		return got, culprit, stderr, hung, nil
	}
	// died between cases: treat as machinery trouble, caller retries the rest
	return got, -1, fmt.Sprintf("child exit: %v; stderr: %s", werr, stderr), false, nil
}

type limitedBuf struct {
	mu sync.Mutex
	b  []byte
}

func (l *limitedBuf) Write(p []byte) (int, error) {
	l.mu.Lock()
	defer l.mu.Unlock()
	if room := 1500 - len(l.b); room > 0 {
		if len(p) < room {
			room = len(p)
		}
		l.b = append(l.b, p[:room]...)
	}
	return len(p), nil
}

func (l *limitedBuf) String() string {
	l.mu.Lock()
	defer l.mu.Unlock()
	return string(l.b)
}

// ---- verdicts -------------------------------------------------------------

var reNum = regexp.MustCompile(`-?0x[0-9a-fA-F]+|-?[0-9][0-9a-fA-F]*`)
var reSum = regexp.MustCompile(`checksum [0-9a-f]+`)

func normalize(s string) string {
	s = reSum.ReplaceAllString(s, "checksum N")
	if i := strings.Index(s, "decoding into local type"); i >= 0 {
		s = s[:i] + "decoding into local type T, received remote type U"
	}
	if i := strings.Index(s, "array or slice: length exceeds input size"); i >= 0 {
		s = "gob: decoding T array or slice: length exceeds input size"
	}
	s = reNum.ReplaceAllString(s, "N")
	s = strings.Join(strings.Fields(s), " ")
	if len(s) > 70 {
		s = s[:70]
	}
	return s
}

func panicClass(msg string) string {
	switch {
	case strings.Contains(msg, "frame.Slice: slice index") && strings.Contains(msg, ":-"):
		return "negative-length-panic"
	case strings.Contains(msg, "gob reallocated a slice"):
		return "gob-reallocated-slice-panic"
	case strings.Contains(msg, "makeslice") || strings.Contains(msg, "MakeSlice") || strings.Contains(msg, "frame.Make"):
		return "huge-length-makeslice-panic"
	}
	return "panic:" + normalize(msg)
}

func crashClass(msg string) string {
	switch {
	case strings.Contains(msg, "out of memory") || strings.Contains(msg, "cannot allocate memory"):
		return "huge-length-out-of-memory-crash"
	case strings.Contains(msg, "stack overflow") || strings.Contains(msg, "stack exceeds"):
		return "stack-overflow-crash"
	}
	i := strings.Index(msg, "stderr: ")
	if i >= 0 {
		msg = msg[i+8:]
	}
	if j := strings.IndexByte(msg, '\n'); j >= 0 {
		msg = msg[:j]
	}
	return "crash:" + normalize(msg)
}

// verdict applies the property's oracle to one decode of a damaged stream.
// It returns ("", outcome) if the behaviour is allowed, else the signature.
func verdict(s *streamInfo, c ccase, r childResult) (sig, what, outcome string) {
	total := len(s.e.truth)
	d := c.Dmg
	scen := map[string]string{"none": "undamaged", "flip": "bitflip", "flip2": "bitflip", "burst": "burst", "cut": "truncation"}[d.Kind]
	boundary := -1
	if d.Kind == "cut" {
		scen = "truncation-inside-batch"
		for j, b := range s.e.bounds[:len(s.e.bounds)-1] {
			if b == d.Pos {
				boundary = j
				scen = "truncation-at-boundary"
			}
		}
	}
	bad := func(class, w string) (string, string, string) {
		return "C07/" + scen + "/" + class, w, "VIOLATION " + class
	}
	switch r.Term {
	case "panic":
		return bad(panicClass(r.Msg), fmt.Sprintf("the decoder panicked instead of returning an error (%s): %s", scen, r.Msg))
	case "crash":
		return bad(crashClass(r.Msg), fmt.Sprintf("decoding killed the process (address space limited to %d MiB) instead of returning an error (%s)", limitAS>>20, scen))
	case "hang":
		return bad("hang", fmt.Sprintf("decoding did not finish within %v, 3 times (%s)", hangTimeout, scen))
	case "n-out-of-range":
		return bad("n-out-of-range", "Read returned n outside [0,len(dst)]: "+r.Msg)
	case "no-progress":
		return bad("no-progress", "Read keeps returning (0,nil)")
	case "wrong-row":
		if r.Bad >= total {
			return bad("extra-rows-delivered", fmt.Sprintf("the reader delivered a row beyond the %d written: %s", total, r.BadRow))
		}
		return bad("wrong-rows-delivered", fmt.Sprintf("row %d delivered as %s, written as %s, with no error before it", r.Bad, r.BadRow, s.e.truth[r.Bad]))
	case "eof":
		switch {
		case d.Kind == "none":
			if r.Delivered != total {
				return bad("missing-rows", fmt.Sprintf("undamaged stream: %d of %d rows then EOF", r.Delivered, total))
			}
			return "", "", "all rows, EOF"
		case boundary >= 0:
			if r.Delivered != s.rowsB[boundary] {
				return bad("wrong-row-count", fmt.Sprintf("stream cut exactly after batch %d decodes to %d rows, the batches before the cut have %d", boundary-1, r.Delivered, s.rowsB[boundary]))
			}
			return "", "", "cut at boundary: exactly the batches before it, EOF"
		case d.Kind == "cut":
			return bad("clean-EOF", fmt.Sprintf("stream truncated strictly inside a batch decodes to %d of %d rows and a clean EOF", r.Delivered, total))
		default:
			if r.Delivered < total {
				return bad("clean-EOF-missing-rows", fmt.Sprintf("damaged stream decodes to %d of %d rows and a clean EOF", r.Delivered, total))
			}
			return "", "", "damage not reported but all rows correct, EOF"
		}
	case "err":
		if d.Kind == "none" {
			return bad("spurious-error", "undamaged stream: "+r.Msg)
		}
		if boundary >= 0 {
			return bad("spurious-error", fmt.Sprintf("stream cut exactly after batch %d (a valid shorter stream) fails with: %s", boundary-1, r.Msg))
		}
		return "", "", "error: " + normalize(r.Msg)
	}
	return bad("unknown-outcome", r.Term)
}
