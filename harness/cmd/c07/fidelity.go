package main

import (
	"bytes"
	"context"
	"fmt"
	"io"
	"reflect"
	"strings"
	"sync/atomic"

	"github.com/grailbio/bigslice/frame"
	"github.com/grailbio/bigslice/sliceio"
)

// ---- writing a stream -----------------------------------------------------

type encoded struct {
	c      combo
	phase  int
	wview  bool
	lens   []int
	data   []byte
	bounds []int    // encoder output length after 0,1,..,k Writes (bounds[0]==0)
	truth  []string // reference rendering of every row written, in order
}

// seqs returns all sequences over alphabet of length lo..hi, shortest first.
func seqs(alphabet []int, lo, hi int) [][]int {
	var out [][]int
	var rec func(cur []int, n int)
	rec = func(cur []int, n int) {
		if len(cur) == n {
			out = append(out, append([]int(nil), cur...))
			return
		}
		for _, a := range alphabet {
			rec(append(cur, a), n)
		}
	}
	for n := lo; n <= hi; n++ {
		rec(nil, n)
	}
	return out
}

// encodeStream writes batches of the given lengths through the real encoder.
// Row g (global index) of column c has value dom[(g+c+phase) mod |dom|].
// With wview the frames handed to Write are views [1,1+m) of an allocation
// of m+2 rows whose outer rows are sentinels.
func encodeStream(c combo, phase int, wview bool, lens []int) (e *encoded, err error) {
	defer func() {
		if p := recover(); p != nil {
			err = fmt.Errorf("panic in Encoder.Write: %v", p)
		}
	}()
	e = &encoded{c: c, phase: phase, wview: wview, lens: lens, bounds: []int{0}}
	var buf bytes.Buffer
	enc := sliceio.NewEncodingWriter(&buf)
	ctx := context.Background()
	g := 0
	var rb []byte
	cEncodes := 0
	for _, m := range lens {
		var f frame.Frame
		cols := make([]reflect.Value, len(c))
		pad := 0
		if wview {
			pad = 1
		}
		for ci, k := range c {
			s := reflect.MakeSlice(reflect.SliceOf(kinds[k].typ), m+2*pad, m+2*pad)
			if wview {
				s.Index(0).Set(freshSentinel(k))
				s.Index(m + 1).Set(freshSentinel(k))
			}
			for i := 0; i < m; i++ {
				s.Index(pad + i).Set(c.value(ci, g+i, phase))
			}
			cols[ci] = s
		}
		for i := 0; i < m; i++ {
			rb = renderRow(rb[:0], cols, pad+i)
			e.truth = append(e.truth, string(rb))
		}
		f = frame.Values(cols)
		if wview {
			f = f.Slice(1, 1+m)
		}
		// all C columns of a stream share one session state (it is keyed by type):
		// tell the codec how many C column encodes precede each one in this stream
		var keys []interface{}
		for ci, k := range c {
			if k == kCustom {
				if cols[ci].Len() > 0 {
					key := cols[ci].Index(0).Addr().Interface()
					cExpect.Store(key, cEncodes)
					keys = append(keys, key)
				}
				cEncodes++
			}
		}
		err := enc.Write(ctx, f)
		for _, key := range keys {
			cExpect.Delete(key)
		}
		if err != nil {
			return e, fmt.Errorf("Encoder.Write: %v", err)
		}
		g += m
		e.bounds = append(e.bounds, buf.Len())
	}
	e.data = append([]byte(nil), buf.Bytes()...)
	return e, nil
}

// oneByteReader is a plain io.Reader (no io.ByteReader) returning one byte per call.
type oneByteReader struct{ r io.Reader }

func (o oneByteReader) Read(p []byte) (int, error) {
	if len(p) == 0 {
		return 0, nil
	}
	return o.r.Read(p[:1])
}

// ---- reading it back ------------------------------------------------------

type fidFail struct {
	oracle string
	detail map[string]interface{}
}

type dsts struct {
	c     combo
	exact map[int]*store // exact[L]: allocation of exactly L rows
	views map[int]*store // views[N]: allocation of N rows; destination is rows [1,1+L)
}

func newDsts(c combo) *dsts {
	return &dsts{c: c, exact: map[int]*store{}, views: map[int]*store{}}
}

func (d *dsts) exactFor(L int) *store {
	s := d.exact[L]
	if s == nil {
		s = newStore(d.c, L)
		d.exact[L] = s
	}
	return s
}

// viewFor returns the allocation that holds the view destinations of a
// round trip whose largest destination has maxL rows: 6 rows for maxL<=4
// (one allocation shared by all destination lengths), else maxL+2.
func (d *dsts) viewFor(maxL int) *store {
	n := 6
	if maxL > 4 {
		n = maxL + 2
	}
	s := d.views[n]
	if s == nil {
		s = newStore(d.c, n)
		d.views[n] = s
	}
	return s
}

type fidStats struct {
	decodes, buffered, reads, reused int64
}

// readBack decodes e.data with destination frames whose lengths cycle through
// dstSeq and checks every Read against the reference.
//
// With reuse the destination allocations are filled with sentinels only once,
// before the first Read, and then handed to Read again and again with whatever
// the previous Reads left in them (the usual way a Reader is consumed); rows
// outside [0,n) must then keep what they held before the call.
func readBack(e *encoded, d *dsts, dstSeq []int, dview, reuse bool, rkind int, st *fidStats) (fail *fidFail) {
	var (
		readIdx int
		next    int
		lastN   int
		lastErr error
	)
	mk := func(oracle string, extra map[string]interface{}) *fidFail {
		det := map[string]interface{}{
			"columns": e.c.String(), "phase": e.phase, "writer_frames_are_views": e.wview,
			"batch_lengths": e.lens, "dst_lengths_cyclic": dstSeq, "dst_is_view": dview, "dst_reused_across_reads": reuse,
			"reader":     []string{"bytes.Reader", "one-byte plain io.Reader"}[rkind],
			"read_index": readIdx, "rows_delivered_before": next, "rows_written": e.truth,
			"n": lastN, "err": fmt.Sprint(lastErr), "stream_hex": fmt.Sprintf("%x", e.data),
		}
		for k, v := range extra {
			det[k] = v
		}
		return &fidFail{oracle: oracle, detail: det}
	}
	defer func() {
		if p := recover(); p != nil {
			msg := fmt.Sprint(p)
			if i := strings.Index(msg, " for slice frame"); i >= 0 {
				msg = msg[:i] // the frame's type list would make one signature per column combination
			}
			fail = mk("panic:"+normalize(msg), map[string]interface{}{"panic": fmt.Sprint(p)})
		}
	}()
	var src io.Reader = bytes.NewReader(e.data)
	if rkind == 1 {
		src = oneByteReader{src}
	}
	rd := sliceio.NewDecodingReader(src)
	ctx := context.Background()
	atomic.AddInt64(&st.decodes, 1)
	// model of the reader's buffering, for statistics only
	mb, mbuf, usedBuf := 0, 0, false
	maxReads := len(e.lens) + len(e.truth) + 3
	var rb []byte
	maxL := 0
	for _, L := range dstSeq {
		if L > maxL {
			maxL = L
		}
	}
	view := d.viewFor(maxL)
	if reuse {
		atomic.AddInt64(&st.reused, 1)
		view.fill()
		for _, L := range dstSeq {
			d.exactFor(L).fill()
		}
	}
	before := make([]string, maxL+6)
	for ; ; readIdx++ {
		if readIdx >= maxReads {
			return mk("no-progress", nil)
		}
		L := dstSeq[readIdx%len(dstSeq)]
		var s *store
		var dst frame.Frame
		off := 0
		if dview {
			s, off = view, 1
			dst = s.full.Slice(1, 1+L)
		} else {
			s = d.exactFor(L)
			dst = s.full
		}
		if reuse {
			for i := 0; i < s.n; i++ {
				rb = s.row(rb[:0], i)
				before[i] = string(rb)
			}
		} else {
			s.fill()
			for i := 0; i < s.n; i++ {
				before[i] = s.sentR
			}
		}
		if mbuf == 0 && mb < len(e.lens) {
			if e.lens[mb] > L {
				mbuf = e.lens[mb]
				usedBuf = true
			}
			mb++
		}
		if mbuf > 0 {
			if mbuf > L {
				mbuf -= L
			} else {
				mbuf = 0
			}
		}
		n, err := rd.Read(ctx, dst)
		atomic.AddInt64(&st.reads, 1)
		lastN, lastErr = n, err
		if n < 0 || n > L {
			return mk("n-out-of-range", nil)
		}
		if err != nil && err != sliceio.EOF {
			return mk("unexpected-error:"+normalize(err.Error()), nil)
		}
		for j := 0; j < n; j++ {
			rb = s.row(rb[:0], off+j)
			if next+j >= len(e.truth) {
				return mk("extra-rows", map[string]interface{}{"got_row": string(rb)})
			}
			if string(rb) != e.truth[next+j] {
				got, want := strings.Split(string(rb), "|"), strings.Split(e.truth[next+j], "|")
				cls := "?"
				for ci := range e.c {
					if ci < len(got) && ci < len(want) && got[ci] != want[ci] {
						cls = kinds[e.c[ci]].class
						break
					}
				}
				return mk("wrong-row/col="+cls, map[string]interface{}{"got_row": string(rb), "want_row": e.truth[next+j], "row_index": next + j})
			}
		}
		for i := 0; i < s.n; i++ {
			if i >= off && i < off+n {
				continue
			}
			rb = s.row(rb[:0], i)
			if string(rb) != before[i] {
				return mk("dst-beyond-n-modified", map[string]interface{}{"storage_row": i, "dst_rows": []int{off, off + L}, "got_row": string(rb), "row_before_read": before[i]})
			}
		}
		next += n
		if err == sliceio.EOF {
			break
		}
	}
	if next != len(e.truth) {
		return mk("missing-rows-at-EOF", nil)
	}
	// after end-of-stream no more rows may appear
	readIdx++
	s := d.exactFor(1)
	s.fill()
	n, err := rd.Read(ctx, s.full)
	lastN, lastErr = n, err
	if n != 0 || err == nil {
		return mk("rows-or-nil-after-EOF", nil)
	}
	if usedBuf {
		atomic.AddInt64(&st.buffered, 1)
	}
	return nil
}
