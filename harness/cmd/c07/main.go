// C07 — row streams decode to the rows written; corruption is detected, never returned.
//
// (a) Fidelity: bounded-exhaustive round trips sliceio.NewEncodingWriter →
// sliceio.NewDecodingReader over a universe of column types, batch-length
// sequences and destination-frame length sequences, compared with a reference
// rendering of the rows written.
// (b) Corruption: for a list of small streams EVERY single-bit flip, EVERY
// truncation point and every 2–3 byte burst of 0x00/0xff is decoded in child
// processes (address space limited, so that a damaged length cannot take the
// machine down) and judged by the property's oracle. See DESIGN.md §5 C07.
package main

import (
	"flag"
	"fmt"
	"os"
	"runtime"
	"sort"
	"strings"
	"sync"
	"sync/atomic"
	"time"

	"verifh/ev"
)

var (
	flagChild = flag.String("c07child", "", "(internal) run the cases of this job file and exit")
	flagList  = flag.Bool("c07streams", false, "print the corruption streams and exit")
	flagOnly  = flag.String("c07only", "", "fidelity|corruption: run only that part (debugging)")
)

var ballast []byte

// fidCfg is one way of writing and reading back the streams of a type combination.
type fidCfg struct {
	phase  int  // row g of column c holds dom[(g+c+phase) mod |dom|]
	wview  bool // frames handed to Write are views at offset 1 of a larger allocation
	dview  bool // destination frames are views [1,1+L) of a 6-row allocation (else exactly L rows)
	reader int  // 0: bytes.Reader (an io.ByteReader), 1: plain io.Reader returning one byte per call
	reuse  bool // destinations keep what earlier Reads left in them (else re-filled with sentinels before every Read)
}

func (c fidCfg) String() string {
	return fmt.Sprintf("(phase %d, writer view %v, dst view %v, reader %d, dst reused %v)", c.phase, c.wview, c.dview, c.reader, c.reuse)
}

type fidUnit struct {
	c    combo
	cfgs []fidCfg
}

func allKinds() []kind {
	var ks []kind
	for k := kind(0); k < numKinds; k++ {
		ks = append(ks, k)
	}
	return ks
}

// fidelityUnits lists the type combinations per tier, simplest first.
func fidelityUnits(thorough bool) (units []fidUnit, rule string) {
	all := allKinds()
	// one representative per encode/decode path
	rep8 := []kind{kInt, kString, kGob, kPtr, kCustom, kArr, kBytes, kBool, kS3}
	rep4 := []kind{kInt, kString, kCustom, kPtr, kS2}
	F, T := false, true
	singles := []fidCfg{{0, F, F, 0, F}, {0, F, T, 0, F}, {0, T, F, 0, F}, {0, T, T, 0, F}, {0, F, F, 1, F}, {1, T, T, 0, F}, {2, F, T, 0, F},
		{0, F, F, 0, T}, {1, F, T, 0, T}}
	pairCfg := []fidCfg{{0, F, F, 0, F}, {0, T, T, 0, T}}
	tripCfg := []fidCfg{{0, T, T, 0, T}}
	pairs, triples := rep8, rep4
	if thorough {
		singles = nil
		for ph := 0; ph < 3; ph++ {
			for _, wv := range []bool{F, T} {
				for _, dv := range []bool{F, T} {
					for rk := 0; rk < 2; rk++ {
						singles = append(singles, fidCfg{ph, wv, dv, rk, (ph+rk)%2 == 1})
					}
				}
			}
		}
		singles = append(singles, fidCfg{0, F, F, 0, T}, fidCfg{0, F, T, 0, T}, fidCfg{2, T, T, 0, T})
		pairCfg = []fidCfg{{0, F, F, 0, F}, {0, T, T, 0, T}, {1, F, T, 0, F}, {1, T, F, 0, T}}
		tripCfg = []fidCfg{{0, T, T, 0, T}, {1, F, F, 0, F}}
		pairs, triples = all, rep8
	}
	for _, k := range all {
		units = append(units, fidUnit{combo{k}, singles})
	}
	for _, a := range pairs {
		for _, b := range pairs {
			units = append(units, fidUnit{combo{a, b}, pairCfg})
		}
	}
	for _, a := range triples {
		for _, b := range triples {
			for _, c := range triples {
				units = append(units, fidUnit{combo{a, b, c}, tripCfg})
			}
		}
	}
	rule = fmt.Sprintf("fidelity: for each column-type combination (1 column: all %d kinds, configurations %v; "+
		"2 columns: all ordered pairs over %d kinds, configurations %v; 3 columns: all ordered triples over %d kinds, configurations %v; "+
		"configuration = (value phase, writer frames are views at offset 1, destination frames are views [1,1+L) of 6 rows instead of exactly-sized allocations, reader 0=bytes.Reader 1=one-byte plain io.Reader, "+
		"destination allocations reused across Reads with what earlier Reads left in them instead of re-filled with sentinels before every Read)) "+
		"x every batch-length sequence over {0,1,2,3} of 0..3 batches (85) plus [4,9], [9,4], [6,6], [5,2,5] x every cyclic destination-length pattern over {1,2,3,4} of period 1..3 (84); "+
		"row g of column c holds dom[(g+c+phase) mod |dom|], |dom| in 2..4; "+
		"every Read is checked (0<=n<=len, rows equal the reference, all other rows of the destination allocation as they were before the call), then EOF, then one more Read. "+
		"Non-trivial fidelity case = some batch was longer than the destination offered when it was fetched (buffered path). ",
		len(all), singles, len(pairs), pairCfg, len(triples), tripCfg)
	return
}

func main() {
	flag.Parse()
	if *flagChild != "" {
		childMain(*flagChild)
		return
	}
	r := ev.Start("C07", "fault_enumeration")
	// The corruption streams are encoded first, in a fixed order, before any other
	// use of gob in this process: gob assigns type ids in order of first use, so
	// this makes their bytes the same in every run and in both tiers.
	streams := buildStreams(r)
	if *flagList {
		for _, s := range streams {
			if s.e == nil {
				continue
			}
			fmt.Println(s.name(), "bounds", s.e.bounds, "msgs", len(s.msgs))
			fmt.Printf("   %x\n", s.e.data)
		}
		return
	}
	workers := runtime.NumCPU()
	// The live heap is a few MB while gob allocates a lot per decoder: with the
	// default GC pacing the collector runs every few ms and slows the workers down;
	// a never-touched ballast makes it run once per ~64 MB allocated.
	ballast = make([]byte, 64<<20)
	budget := 5 * time.Minute
	if r.Thorough() {
		budget = 25 * time.Minute
	}
	cov := ev.Coverage{}
	var rule string
	var evals, nontrivial int64
	outcomes := ev.NewCounter()

	// ---------------- (a) fidelity ----------------
	if *flagOnly != "corruption" {
		units, frule := fidelityUnits(r.Thorough())
		rule += frule
		batchSeqs := seqs([]int{0, 1, 2, 3}, 0, 3)
		batchSeqs = append(batchSeqs, []int{4, 9}, []int{9, 4}, []int{6, 6}, []int{5, 2, 5})
		dstSeqs := seqs([]int{1, 2, 3, 4}, 1, 3)
		var st fidStats
		var skipped int64
		var encodes int64
		ev.Parallel(len(units), workers, func(i int) {
			u := units[i]
			if r.OverBudget(budget) {
				atomic.AddInt64(&skipped, 1)
				return
			}
			d := newDsts(u.c)
			type wkey struct {
				phase int
				wview bool
			}
			for _, bs := range batchSeqs {
				enc := map[wkey]*encoded{}
				for _, cfg := range u.cfgs {
					wk := wkey{cfg.phase, cfg.wview}
					e, ok := enc[wk]
					if !ok {
						var err error
						e, err = encodeStream(u.c, cfg.phase, cfg.wview, bs)
						atomic.AddInt64(&encodes, 1)
						if err != nil {
							outcomes.Add("fidelity VIOLATION write-error")
							r.Violate("C07/fidelity/write-error:"+normalize(err.Error()), "Encoder.Write failed on a valid frame: "+err.Error(),
								map[string]interface{}{"columns": u.c.String(), "batch_lengths": bs, "phase": cfg.phase, "writer_view": cfg.wview})
							e = nil
						}
						enc[wk] = e
						if e != nil && len(bs) == 2 && bs[0] == 3 && bs[1] == 2 && (i == 16 || i == len(allKinds())+1) && cfg == u.cfgs[0] {
							r.Sample(map[string]interface{}{"part": "fidelity", "columns": u.c.String(), "batch_lengths": bs, "configuration": cfg.String(),
								"stream_bytes": len(e.data), "batch_boundaries": e.bounds, "rows": e.truth,
								"read_with": "each of the 84 cyclic destination-length patterns"})
						}
					}
					if e == nil {
						continue
					}
					for _, ds := range dstSeqs {
						if f := readBack(e, d, ds, cfg.dview, cfg.reuse, cfg.reader, &st); f != nil {
							outcomes.Add("fidelity VIOLATION " + f.oracle)
							r.Violate("C07/fidelity/"+f.oracle,
								fmt.Sprintf("round trip of columns (%s), batches %v, destination lengths %v %s: %s", u.c, bs, ds, cfg, f.oracle), f.detail)
						}
					}
				}
			}
		})
		if skipped > 0 {
			r.NotExhaustive(fmt.Sprintf("fidelity: %d of %d type combinations skipped (soft budget %v)", skipped, len(units), budget))
		}
		outcomes.Add("fidelity ok")
		evals += st.decodes
		nontrivial += st.buffered
		cov["fidelity_type_combinations"] = len(units)
		cov["fidelity_streams_encoded"] = encodes
		cov["fidelity_round_trips"] = st.decodes
		cov["fidelity_reads_checked"] = st.reads
		cov["fidelity_round_trips_through_buffered_path"] = st.buffered
		cov["fidelity_round_trips_with_reused_destinations"] = st.reused
		fmt.Printf("fidelity: %d combos, %d streams, %d round trips (%d buffered), %d reads, %.1fs\n", len(units), encodes, st.decodes, st.buffered, st.reads, r.Elapsed().Seconds())

		// batch-size histories (scratch frame shrink/grow) and batches of 2^k +-1 rows
		over := func() bool { return r.OverBudget(budget) }
		var st2 fidStats
		var ss sizeStats
		srule, sskip := runSizeFamily(r, workers, &st2, &ss, outcomes, over)
		rule += srule
		if sskip > 0 {
			r.NotExhaustive(fmt.Sprintf("size family: %d units skipped (soft budget %v)", sskip, budget))
		}
		evals += st2.decodes
		nontrivial += ss.shrinkGrow
		cov["size_family_round_trips"] = st2.decodes
		cov["size_family_reads_checked"] = st2.reads
		cov["size_family_round_trips_through_buffered_path"] = st2.buffered
		cov["size_family_round_trips_shrink_then_larger_batch"] = ss.shrinkGrow
		fmt.Printf("size family: %d round trips (%d buffered, %d shrink-then-larger), %d reads, %.1fs\n", st2.decodes, st2.buffered, ss.shrinkGrow, st2.reads, r.Elapsed().Seconds())
		var ls largeStats
		lrule, lskip := runLargeFamily(r, workers, &ls, outcomes, over)
		rule += lrule
		if lskip > 0 {
			r.NotExhaustive(fmt.Sprintf("large-batch family: %d units skipped (soft budget %v)", lskip, budget))
		}
		evals += ls.roundTrips
		nontrivial += ls.buffered
		cov["large_batch_round_trips"] = ls.roundTrips
		cov["large_batch_rows_compared"] = ls.rows
		cov["large_batch_round_trips_batch_larger_than_destination"] = ls.buffered
		fmt.Printf("large batches: %d round trips (%d with batch > destination), %d rows, %.1fs\n", ls.roundTrips, ls.buffered, ls.rows, r.Elapsed().Seconds())
	}

	// ---------------- (b) corruption ----------------
	if *flagOnly != "fidelity" {
		cases := enumCases(streams)
		rule += fmt.Sprintf("corruption: %d streams of <=150 bytes (1-3 batches; listed under corruption_streams) x {undamaged, every truncation point 0..len-1, every single-bit flip, every pair of bit flips inside each batch-length message, "+
			"every 2- and 3-byte burst of 0x00 and of 0xff that changes the bytes} x destination length {1,4} (and 128 when a batch has >4 rows); each decoded by the real reader in a child process "+
			"(RLIMIT_AS %d MiB, panics recovered and reported, a killed child re-run alone). Oracle: delivered rows are a prefix of the rows written; no clean EOF with fewer rows than written, except a cut exactly "+
			"at a batch boundary which must give exactly the batches before it and EOF; a cut strictly inside a batch must be an error; panic/crash/hang = violation. "+
			"Non-trivial corruption case = the decode deviated from the pristine decode (error reported or violation).", len(streams), limitAS>>20)
		var cst childStats
		shards := make([][]ccase, workers)
		for i, c := range cases {
			shards[i%workers] = append(shards[i%workers], c)
		}
		results := make([]map[int]childResult, workers)
		var wg sync.WaitGroup
		for w := range shards {
			wg.Add(1)
			go func(w int) {
				defer wg.Done()
				results[w] = runShard(streams, shards[w], false, &cst)
			}(w)
		}
		wg.Wait()
		all := map[int]childResult{}
		for _, m := range results {
			for id, x := range m {
				all[id] = x
			}
		}
		if len(all) != len(cases) {
			ev.Fatal("got %d results for %d cases", len(all), len(cases))
		}
		type viol struct {
			c         ccase
			r         childResult
			sig, what string
		}
		firstBySig := map[string]viol{}
		countBySig := map[string]int{}
		byKind := map[string]int{}
		outcomeCounts := map[string]int{}
		detected := int64(0)
		var slowest int64
		for _, c := range cases { // in enumeration order: simplest first
			res := all[c.ID]
			s := streams[c.Stream]
			sig, what, outcome := verdict(s, c, res)
			scen := c.Dmg.Kind
			outcomes.Add(scen + ": " + outcome)
			outcomeCounts[scen+": "+outcome]++
			if os.Getenv("C07_VERBOSE") == "2" && strings.HasPrefix(outcome, "damage not reported") {
				fmt.Printf("  unreported: %s; %s (%s) dst=%d delivered=%d\n", s.name(), c.Dmg, s.region(c.Dmg.Pos), c.DstLen, res.Delivered)
			}
			byKind[scen]++
			if res.Micros > slowest {
				slowest = res.Micros
			}
			if c.Dmg.Kind != "none" && (sig != "" || res.Term == "err") {
				detected++
			}
			if sig != "" {
				countBySig[sig]++
				if _, ok := firstBySig[sig]; !ok {
					firstBySig[sig] = viol{c, res, sig, what}
				}
			}
		}
		// re-execute the first case of every signature in a fresh child before reporting it
		var sigs []string
		for sg := range firstBySig {
			sigs = append(sigs, sg)
		}
		sort.Strings(sigs)
		for _, sg := range sigs {
			v := firstBySig[sg]
			s := streams[v.c.Stream]
			r2 := runShard(streams, []ccase{v.c}, true, &cst)[v.c.ID]
			sig2, _, _ := verdict(s, v.c, r2)
			if sig2 != sg {
				r.Note("violation %s on %s / %s was not reproduced on re-execution (got %q); not reported", sg, s.name(), v.c.Dmg, sig2)
				r.NotExhaustive("an unreproducible outcome was dropped: " + sg)
				continue
			}
			det := map[string]interface{}{
				"stream": s.name(), "columns": s.spec.c.String(), "batch_lengths": s.spec.lens, "batch_boundaries": s.e.bounds,
				"rows_written": s.e.truth, "pristine_hex": fmt.Sprintf("%x", s.e.data), "damage": v.c.Dmg.String(),
				"damaged_hex": fmt.Sprintf("%x", v.c.Dmg.apply(s.e.data)), "dst_len": v.c.DstLen,
				"rows_delivered": v.r.Delivered, "terminal": v.r.Term, "message": v.r.Msg,
				"cases_with_this_signature": countBySig[sg],
			}
			if v.c.Dmg.Kind == "flip" || v.c.Dmg.Kind == "flip2" || v.c.Dmg.Kind == "burst" {
				det["damaged_region"] = s.region(v.c.Dmg.Pos)
			} else if v.c.Dmg.Kind == "cut" && v.c.Dmg.Pos > 0 {
				det["last_kept_byte_in"] = s.region(v.c.Dmg.Pos - 1)
			}
			r.Violate(sg, fmt.Sprintf("%s; %s: %s", s.name(), v.c.Dmg, v.what), det)
		}
		var sl []map[string]interface{}
		bytesTotal := 0
		for _, s := range streams {
			if s.e == nil {
				r.NotExhaustive(fmt.Sprintf("corruption stream %d (%s %v) could not be written", s.idx, s.spec.c, s.spec.lens))
				continue
			}
			sl = append(sl, map[string]interface{}{"columns": s.spec.c.String(), "batch_lengths": s.spec.lens, "bytes": len(s.e.data), "batch_boundaries": s.e.bounds})
			bytesTotal += len(s.e.data)
		}
		s0 := streams[1]
		r.Sample(map[string]interface{}{"part": "corruption", "stream": s0.name(), "pristine_hex": fmt.Sprintf("%x", s0.e.data), "batch_boundaries": s0.e.bounds,
			"rows": s0.e.truth, "damages": fmt.Sprintf("%d truncations, %d bit flips, bursts of 2 and 3 bytes of 00/ff at every offset", len(s0.e.data), 8*len(s0.e.data))})
		evals += int64(len(cases))
		nontrivial += detected
		cov["corruption_streams"] = sl
		cov["corruption_stream_bytes_total"] = bytesTotal
		cov["corruption_decodes"] = len(cases)
		cov["corruption_decodes_by_damage"] = byKind
		cov["corruption_decodes_where_damage_was_reported_or_violated"] = detected
		cov["corruption_violating_cases_by_signature"] = countBySig
		cov["corruption_outcome_counts"] = outcomeCounts
		if os.Getenv("C07_VERBOSE") != "" {
			for _, k := range outcomes.Keys() {
				if outcomeCounts[k] > 0 {
					fmt.Printf("  %6d  %s\n", outcomeCounts[k], k)
				}
			}
		}
		cov["child_processes"] = cst.spawns
		cov["child_processes_killed_by_a_case"] = cst.crashes
		cov["child_hangs"] = cst.hangs
		cov["slowest_decode_us"] = slowest
		fmt.Printf("corruption: %d streams (%d bytes), %d decodes in %d children (%d killed), %d deviated, %.1fs\n", len(streams), bytesTotal, len(cases), cst.spawns, cst.crashes, detected, r.Elapsed().Seconds())
	}

	cov["evaluations"] = evals
	cov["distinct_nontrivial"] = nontrivial
	cov["rule"] = rule
	cov["distinct_outcomes"] = outcomes.Distinct()
	cov["outcomes"] = outcomes.Keys()
	r.Finish(cov)
}
