package main

import (
	"bytes"
	"context"
	"fmt"
	"sync/atomic"

	"github.com/grailbio/bigslice/frame"
	"github.com/grailbio/bigslice/sliceio"
	"verifh/ev"
)

// ---- size family ------------------------------------------------------------
//
// The reader keeps ONE scratch frame for all batches that are larger than the
// destination: it is allocated for the first such batch, shrunk (re-sliced) for a
// smaller one and grown for a larger one. Whether that is done right depends on
// the whole history of batch sizes (shrink, then grow beyond the capacity), not
// on one batch, so every batch-size sequence over an alphabet with sizes on both
// sides of the usual growth steps is read through every destination size.

var sizeAlphabet = []int{1, 2, 3, 4, 5, 8, 9, 12, 13, 20, 40}
var sizeDsts = []int{1, 2, 3, 4, 5, 8, 16, 64}

type sizeUnit struct {
	c     combo
	first int // first batch size (a unit is all sequences starting with it)
}

func sizeCombos(thorough bool) []combo {
	cs := []combo{{kInt}, {kS2}, {kString, kCustom}}
	if thorough {
		cs = append(cs, combo{kPtr}, combo{kGob, kInt8})
	}
	return cs
}

type sizeStats struct {
	roundTrips, shrinkGrow int64
}

// shrinkThenLarger reports whether, among the batches that do not fit a
// destination of L rows, one is smaller than an earlier one and a later one is
// larger than all before it (the scratch frame is shrunk, then must grow beyond
// its capacity).
func shrinkThenLarger(lens []int, L int) bool {
	max, shrunk := 0, false
	for _, b := range lens {
		if b <= L {
			continue
		}
		if max > 0 && b > max && shrunk {
			return true
		}
		if b < max {
			shrunk = true
		}
		if b > max {
			max = b
		}
	}
	return false
}

func runSizeFamily(r *ev.Run, workers int, st *fidStats, ss *sizeStats, outcomes *ev.Counter, over func() bool) (rule string, skipped int64) {
	maxLen := 3
	if r.Thorough() {
		maxLen = 4
	}
	combos := sizeCombos(r.Thorough())
	var units []sizeUnit
	for _, c := range combos {
		for _, a := range sizeAlphabet {
			units = append(units, sizeUnit{c, a})
		}
	}
	tails := seqs(sizeAlphabet, 0, maxLen-1)
	type cfg struct{ dview, reuse bool }
	cfgs := []cfg{{false, false}}
	if r.Thorough() {
		cfgs = append(cfgs, cfg{true, true})
	}
	ev.Parallel(len(units), workers, func(i int) {
		u := units[i]
		if over() {
			atomic.AddInt64(&skipped, 1)
			return
		}
		d := newDsts(u.c)
		for _, tail := range tails {
			lens := append([]int{u.first}, tail...)
			e, err := encodeStream(u.c, len(lens)%3, len(tail)%2 == 1, lens)
			if err != nil {
				outcomes.Add("fidelity VIOLATION write-error")
				r.Violate("C07/fidelity/write-error:"+normalize(err.Error()), "Encoder.Write failed on a valid frame: "+err.Error(),
					map[string]interface{}{"columns": u.c.String(), "batch_lengths": lens})
				continue
			}
			for _, L := range sizeDsts {
				for _, cf := range cfgs {
					atomic.AddInt64(&ss.roundTrips, 1)
					if shrinkThenLarger(lens, L) {
						atomic.AddInt64(&ss.shrinkGrow, 1)
					}
					if f := readBack(e, d, []int{L}, cf.dview, cf.reuse, 0, st); f != nil {
						outcomes.Add("fidelity VIOLATION " + f.oracle)
						r.Violate("C07/fidelity/"+f.oracle,
							fmt.Sprintf("round trip of columns (%s), batch sizes %v, destination of %d rows: %s", u.c, lens, L, f.oracle), f.detail)
					}
				}
			}
		}
	})
	rule = fmt.Sprintf("size family: columns %v x every batch-size sequence of length 1..%d over %v x destination of %v rows (configurations %+v: destination is a view / reused across Reads), "+
		"same per-Read oracle; non-trivial = among the batches larger than the destination one is smaller than an earlier one and a later one larger than all before it (scratch frame shrunk, then grown beyond its capacity). ",
		combos, maxLen, sizeAlphabet, sizeDsts, cfgs)
	return
}

// ---- large-batch family -----------------------------------------------------
//
// Single int8 column (1 byte per row), ONE batch of 2^k-1, 2^k, 2^k+1 rows for
// k = 7..21, alone and as the second batch after a batch of 5 rows, read back
// through destinations of {batch-1, 128, 4096} rows and compared row for row with
// the generating function. The encoder accepts frames of any length, so the
// reader has to deliver them whatever the destination size.

func largeVal(g int) int8 { return int8(g*131 + (g>>7)*17 + (g >> 15)) }

type largeStats struct {
	roundTrips, rows, buffered int64
}

func runLargeFamily(r *ev.Run, workers int, ls *largeStats, outcomes *ev.Counter, over func() bool) (rule string, skipped int64) {
	type unit struct {
		n      int
		prefix int
	}
	var units []unit
	for k := 7; k <= 21; k++ {
		for _, n := range []int{1<<k - 1, 1 << k, 1<<k + 1} {
			units = append(units, unit{n, 0}, unit{n, 5})
		}
	}
	ctx := context.Background()
	ev.Parallel(len(units), workers, func(i int) {
		u := units[i]
		if over() {
			atomic.AddInt64(&skipped, 1)
			return
		}
		total := u.prefix + u.n
		var buf bytes.Buffer
		werr := func() (err error) {
			defer func() {
				if p := recover(); p != nil {
					err = fmt.Errorf("panic in Encoder.Write: %v", p)
				}
			}()
			enc := sliceio.NewEncodingWriter(&buf)
			g := 0
			for _, m := range []int{u.prefix, u.n} {
				if m == 0 {
					continue
				}
				col := make([]int8, m)
				for j := range col {
					col[j] = largeVal(g + j)
				}
				g += m
				if err := enc.Write(ctx, frame.Slices(col)); err != nil {
					return err
				}
			}
			return nil
		}()
		lens := []int{u.n}
		if u.prefix > 0 {
			lens = []int{u.prefix, u.n}
		}
		if werr != nil {
			outcomes.Add("large-batch VIOLATION write-error")
			r.Violate("C07/fidelity-large-batch/write-error:"+normalize(werr.Error()), fmt.Sprintf("Encoder.Write failed on a valid int8 frame (batches %v): %v", lens, werr),
				map[string]interface{}{"batch_lengths": lens})
			return
		}
		data := buf.Bytes()
		seen := map[int]bool{}
		for _, L := range []int{u.n - 1, 128, 4096} {
			if L < 1 || seen[L] {
				continue
			}
			seen[L] = true
			atomic.AddInt64(&ls.roundTrips, 1)
			atomic.AddInt64(&ls.rows, int64(total))
			if u.n > L {
				atomic.AddInt64(&ls.buffered, 1)
			}
			oracle, detail := func() (oracle string, detail map[string]interface{}) {
				next, reads := 0, 0
				var lastN int
				var lastErr error
				mk := func(o string, extra map[string]interface{}) (string, map[string]interface{}) {
					det := map[string]interface{}{"column": "int8", "batch_lengths": lens, "dst_len": L, "stream_bytes": len(data),
						"read_index": reads, "rows_delivered_before": next, "rows_written": total, "n": lastN, "err": fmt.Sprint(lastErr),
						"row_values": "row g holds int8(g*131 + (g>>7)*17 + (g>>15))"}
					for k, v := range extra {
						det[k] = v
					}
					return o, det
				}
				defer func() {
					if p := recover(); p != nil {
						oracle, detail = mk("panic:"+normalize(fmt.Sprint(p)), map[string]interface{}{"panic": fmt.Sprint(p)})
					}
				}()
				dst := make([]int8, L)
				f := frame.Slices(dst)
				rd := sliceio.NewDecodingReader(bytes.NewReader(data))
				for {
					if reads > total+8 {
						return mk("no-progress", nil)
					}
					n, err := rd.Read(ctx, f)
					reads++
					lastN, lastErr = n, err
					if n < 0 || n > L {
						return mk("n-out-of-range", nil)
					}
					if err != nil && err != sliceio.EOF {
						return mk("unexpected-error:"+normalize(err.Error()), nil)
					}
					if next+n > total {
						return mk("extra-rows", nil)
					}
					for j := 0; j < n; j++ {
						if dst[j] != largeVal(next+j) {
							return mk("wrong-row", map[string]interface{}{"row_index": next + j, "got": dst[j], "want": largeVal(next + j)})
						}
					}
					next += n
					if err == sliceio.EOF {
						break
					}
				}
				if next != total {
					return mk("missing-rows-at-EOF", nil)
				}
				return "", nil
			}()
			if oracle != "" {
				outcomes.Add("large-batch VIOLATION " + oracle)
				r.Violate("C07/fidelity-large-batch/"+oracle,
					fmt.Sprintf("int8 column, batches %v read through a destination of %d rows: %s", lens, L, oracle), detail)
			}
		}
	})
	rule = "large-batch family: one int8 column, a single batch of 2^k-1, 2^k, 2^k+1 rows for k=7..21, alone and as second batch after a 5-row batch, " +
		"x destination of {batch-1, 128, 4096} rows, every delivered row compared with the generating function, then EOF with the exact row count; non-trivial = batch larger than the destination. "
	return
}
