package main

import (
	"encoding/binary"
	"errors"
	"fmt"
	"math"
	"reflect"
	"strconv"
	"strings"
	"sync"

	"github.com/grailbio/bigslice/frame"
)

// ---- column type universe -------------------------------------------------

// G is a gob-encodable struct (zero fields are omitted by gob: exercises the
// zero-before-decode path).
type G struct {
	A int
	B string
	C []int16
}

// P is a pointer-carrying struct.
type P struct {
	P *int
	S string
}

// C has a custom codec (frame.RegisterOps) that depends on per-stream session
// state: every batch is delta-encoded against the last value of the previous
// batch and carries the batch sequence number. If the session state were not
// kept per stream and across batches, decoding returns wrong values or an error.
type C struct{ V int32 }

type cState struct {
	prev    int32
	batches int
}

var cKey = frame.FreshKey()

// cExpect maps the address of the first element of a []C column that is about
// to be written to the number of C column batches written to its stream before it. It lets the codec
// verify frame.Session's contract ("State returns true the first time the key is
// encountered in the session") from the outside: a session that loses or shares
// state shows up as an encode error even if encoder and decoder lose it alike.
var cExpect sync.Map

func init() {
	frame.RegisterOps(func(s []C) frame.Ops {
		return frame.Ops{
			Encode: func(e frame.Encoder, i, j int) error {
				var st *cState
				if e.State(cKey, &st) {
					*st = cState{}
				}
				if len(s) > 0 {
					if want, ok := cExpect.Load(&s[0]); ok && want.(int) != st.batches {
						return fmt.Errorf("C codec: encoder session state has seen %d C column batches in this stream, %d were written", st.batches, want.(int))
					}
				}
				p := make([]byte, 1+4*(j-i))
				p[0] = byte(st.batches)
				for k := i; k < j; k++ {
					binary.BigEndian.PutUint32(p[1+4*(k-i):], uint32(s[k].V-st.prev))
					st.prev = s[k].V
				}
				st.batches++
				return e.Encode(p)
			},
			Decode: func(d frame.Decoder, i, j int) error {
				var st *cState
				if d.State(cKey, &st) {
					*st = cState{}
				}
				var p []byte
				if err := d.Decode(&p); err != nil {
					return err
				}
				if len(p) != 1+4*(j-i) {
					return fmt.Errorf("C codec: payload of %d bytes for %d rows", len(p), j-i)
				}
				if p[0] != byte(st.batches) {
					return errors.New("C codec: session state lost (batch sequence mismatch)")
				}
				for k := i; k < j; k++ {
					st.prev += int32(binary.BigEndian.Uint32(p[1+4*(k-i):]))
					s[k].V = st.prev
				}
				st.batches++
				return nil
			},
		}
	})
}

// Pointer-free struct kinds. gob omits zero-valued struct fields (also inside
// slice and array elements), so a decoder that does not clear reused memory
// leaves another row's value in every field that should be zero. Their domains
// mix zero and non-zero fields such that consecutive batches / reads put a zero
// field where the previous use of the same memory held a non-zero one.
type S2 struct{ X, Y int }

type S3 struct {
	A int32
	B float64
	C bool
}

type S8 struct{ X, Y int8 }

type SN struct {
	I struct{ X, Y int16 }
	Z uint8
}

func sn(x, y int16, z uint8) SN {
	var v SN
	v.I.X, v.I.Y, v.Z = x, y, z
	return v
}

type kind int

const (
	kInt kind = iota
	kInt8
	kInt16
	kInt32
	kInt64
	kUint
	kUint8
	kUint16
	kUint32
	kUint64
	kUintptr
	kFloat32
	kFloat64
	kBool
	kString
	kBytes
	kGob
	kPtr
	kCustom
	kArr
	kS2
	kS3
	kArrS
	kNest
	numKinds
)

type kindInfo struct {
	name     string
	class    string // coarse class used in signatures
	dom      []interface{}
	sentinel interface{}
	typ      reflect.Type
	domV     []reflect.Value
	sentV    reflect.Value
	sentStr  string
}

func ip(v int) *int { return &v }

var negZero = math.Copysign(0, -1)

var kinds = [numKinds]*kindInfo{
	kInt:     {name: "int", class: "int", dom: []interface{}{0, -1, math.MaxInt64, 300}, sentinel: 0x5e5e5e5e},
	kInt8:    {name: "int8", class: "int", dom: []interface{}{int8(0), int8(-128), int8(127)}, sentinel: int8(0x5e)},
	kInt16:   {name: "int16", class: "int", dom: []interface{}{int16(0), int16(-32768), int16(32767), int16(-1)}, sentinel: int16(0x5e5e)},
	kInt32:   {name: "int32", class: "int", dom: []interface{}{int32(0), int32(math.MinInt32), int32(math.MaxInt32)}, sentinel: int32(0x5e5e5e5e)},
	kInt64:   {name: "int64", class: "int", dom: []interface{}{int64(0), int64(math.MinInt64), int64(math.MaxInt64), int64(-1)}, sentinel: int64(0x5e5e5e5e5e)},
	kUint:    {name: "uint", class: "uint", dom: []interface{}{uint(0), uint(1), uint(math.MaxUint64)}, sentinel: uint(0x5e5e5e5e)},
	kUint8:   {name: "uint8", class: "uint", dom: []interface{}{uint8(0), uint8(255), uint8(7)}, sentinel: uint8(0x5e)},
	kUint16:  {name: "uint16", class: "uint", dom: []interface{}{uint16(0), uint16(65535), uint16(256)}, sentinel: uint16(0x5e5e)},
	kUint32:  {name: "uint32", class: "uint", dom: []interface{}{uint32(0), uint32(math.MaxUint32), uint32(1)}, sentinel: uint32(0x5e5e5e5e)},
	kUint64:  {name: "uint64", class: "uint", dom: []interface{}{uint64(0), uint64(math.MaxUint64), uint64(128)}, sentinel: uint64(0x5e5e5e5e5e)},
	kUintptr: {name: "uintptr", class: "uint", dom: []interface{}{uintptr(0), uintptr(math.MaxUint64), uintptr(4096)}, sentinel: uintptr(0x5e5e5e5e)},
	kFloat32: {name: "float32", class: "float", dom: []interface{}{float32(0), float32(1.5), float32(negZero), float32(math.NaN())}, sentinel: float32(12345.5)},
	kFloat64: {name: "float64", class: "float", dom: []interface{}{float64(0), float64(-2.25), math.Inf(1), math.NaN()}, sentinel: float64(12345.5)},
	kBool:    {name: "bool", class: "bool", dom: []interface{}{false, true}, sentinel: true},
	kString:  {name: "string", class: "string", dom: []interface{}{"", "a", "héllo\x00"}, sentinel: "SENT"},
	kBytes:   {name: "[]byte", class: "bytes", dom: []interface{}{[]byte(nil), []byte{0}, []byte{0xff, 0x00, 0x01}}, sentinel: []byte("SENT")},
	kGob: {name: "G", class: "gobstruct", dom: []interface{}{G{}, G{A: 1, B: "x", C: []int16{1, -2}}, G{A: 0, B: "y"}, G{A: -5}},
		sentinel: G{A: -99, B: "SENT", C: []int16{9}}},
	kPtr: {name: "P", class: "ptrstruct", dom: []interface{}{P{}, P{P: ip(1), S: "s"}, P{P: ip(-7)}, P{S: "t"}},
		sentinel: P{P: ip(-99), S: "SENT"}},
	kCustom: {name: "C", class: "custom", dom: []interface{}{C{0}, C{5}, C{-100000}, C{7}}, sentinel: C{-99}},
	kArr:    {name: "[2]int", class: "array", dom: []interface{}{[2]int{}, [2]int{1, -1}, [2]int{math.MaxInt64, math.MinInt64}}, sentinel: [2]int{-99, -99}},
	kS2:     {name: "S2", class: "plainstruct", dom: []interface{}{S2{1, 2}, S2{0, 5}, S2{}, S2{7, 0}}, sentinel: S2{-99, -99}},
	kS3: {name: "S3", class: "plainstruct", dom: []interface{}{S3{1, 2.5, true}, S3{0, 3.5, false}, S3{}, S3{4, 0, true}},
		sentinel: S3{-99, -99.5, true}},
	kArrS: {name: "[2]S8", class: "plainstruct", dom: []interface{}{[2]S8{{1, 2}, {3, 4}}, [2]S8{{0, 5}, {6, 0}}, [2]S8{}, [2]S8{{7, 0}, {0, 8}}},
		sentinel: [2]S8{{-99, -99}, {-99, -99}}},
	kNest: {name: "SN", class: "plainstruct", dom: []interface{}{sn(1, 2, 3), sn(0, 5, 0), sn(0, 0, 0), sn(7, 0, 9)}, sentinel: sn(-99, -99, 99)},
}

func init() {
	for _, ki := range kinds {
		ki.typ = reflect.TypeOf(ki.sentinel)
		for _, d := range ki.dom {
			ki.domV = append(ki.domV, reflect.ValueOf(d))
		}
		ki.sentV = reflect.ValueOf(ki.sentinel)
		ki.sentStr = string(render(nil, ki.sentV))
		for _, d := range ki.domV {
			// bool has only two values: its sentinel (true) detects zeroing and
			// overwriting with false only.
			if string(render(nil, d)) == ki.sentStr && ki.name != "bool" {
				panic("sentinel in domain: " + ki.name)
			}
		}
	}
}

// render is the reference rendering of one value: pointers are followed, nil
// and empty slices are the same (gob does not distinguish them), floats are
// rendered with sign and NaN-ness.
func render(b []byte, v reflect.Value) []byte {
	switch v.Kind() {
	case reflect.Int, reflect.Int8, reflect.Int16, reflect.Int32, reflect.Int64:
		return strconv.AppendInt(b, v.Int(), 10)
	case reflect.Uint, reflect.Uint8, reflect.Uint16, reflect.Uint32, reflect.Uint64, reflect.Uintptr:
		return strconv.AppendUint(b, v.Uint(), 10)
	case reflect.Float32, reflect.Float64:
		f := v.Float()
		if math.IsNaN(f) {
			return append(b, "NaN"...)
		}
		if math.Signbit(f) {
			b = append(b, '-')
			f = -f
		} else {
			b = append(b, '+')
		}
		return strconv.AppendFloat(b, f, 'g', -1, 64)
	case reflect.Bool:
		if v.Bool() {
			return append(b, 'T')
		}
		return append(b, 'F')
	case reflect.String:
		return strconv.AppendQuote(b, v.String())
	case reflect.Slice, reflect.Array:
		b = append(b, '[')
		for i := 0; i < v.Len(); i++ {
			if i > 0 {
				b = append(b, ' ')
			}
			b = render(b, v.Index(i))
		}
		return append(b, ']')
	case reflect.Struct:
		b = append(b, '{')
		for i := 0; i < v.NumField(); i++ {
			if i > 0 {
				b = append(b, ' ')
			}
			b = render(b, v.Field(i))
		}
		return append(b, '}')
	case reflect.Ptr:
		if v.IsNil() {
			return append(b, "nil"...)
		}
		b = append(b, '&')
		return render(b, v.Elem())
	}
	panic("render: kind " + v.Kind().String())
}

// ---- combos ---------------------------------------------------------------

type combo []kind

func (c combo) String() string {
	s := make([]string, len(c))
	for i, k := range c {
		s[i] = kinds[k].name
	}
	return strings.Join(s, ",")
}

func (c combo) classes() string {
	s := make([]string, len(c))
	for i, k := range c {
		s[i] = kinds[k].class
	}
	return strings.Join(s, "+")
}

// value of global row g, column c under phase p.
func (c combo) value(col, g, phase int) reflect.Value {
	d := kinds[c[col]].domV
	return d[(g+col+phase)%len(d)]
}

// renderRow renders row i of the column slices.
func renderRow(b []byte, cols []reflect.Value, i int) []byte {
	for c, col := range cols {
		if c > 0 {
			b = append(b, '|')
		}
		b = render(b, col.Index(i))
	}
	return b
}

// store is a destination (or source) allocation of n rows whose rows are all
// sentinels, plus the frame over it.
type store struct {
	c     combo
	cols  []reflect.Value
	full  frame.Frame
	n     int
	sentR string // rendering of a sentinel row
}

func newStore(c combo, n int) *store {
	s := &store{c: c, n: n}
	for _, k := range c {
		s.cols = append(s.cols, reflect.MakeSlice(reflect.SliceOf(kinds[k].typ), n, n))
	}
	s.full = frame.Values(s.cols)
	var b []byte
	for i, k := range c {
		if i > 0 {
			b = append(b, '|')
		}
		b = append(b, kinds[k].sentStr...)
	}
	s.sentR = string(b)
	s.fill()
	return s
}

// freshSentinel returns a sentinel that shares no memory with any other value,
// so that a decoder writing through stale pointers cannot damage other sentinels.
func freshSentinel(k kind) reflect.Value {
	switch k {
	case kBytes:
		return reflect.ValueOf([]byte("SENT"))
	case kGob:
		return reflect.ValueOf(G{A: -99, B: "SENT", C: []int16{9}})
	case kPtr:
		return reflect.ValueOf(P{P: ip(-99), S: "SENT"})
	}
	return kinds[k].sentV
}

func (s *store) fill() {
	for c, k := range s.c {
		for i := 0; i < s.n; i++ {
			s.cols[c].Index(i).Set(freshSentinel(k))
		}
	}
}

func (s *store) row(b []byte, i int) []byte { return renderRow(b, s.cols, i) }
