// -e2e: end-to-end runs of "a result fed directly into a shuffle" on both
// executors. Not part of the C08 verdict (C08 is about the compiled graph); it is
// the reproducer / fix verification for the finding C08-1 (DESIGN.md §9 #5).
//
// For each consumer chain the rows of   g(chain)(Run(f))   are compared with the
// rows of the same operators applied without going through a Result.
package main

import (
	"context"
	"fmt"
	"os"
	"sort"
	"strings"
	"time"

	"github.com/grailbio/bigslice"
	"github.com/grailbio/bigslice/exec"
	"verifh/vsys"
)

func scanRows(res *exec.Result) ([]string, error) {
	sc := res.Scanner()
	defer sc.Close()
	var k, v int
	var rows []string
	ctx := context.Background()
	for sc.Scan(ctx, &k, &v) {
		rows = append(rows, fmt.Sprintf("%d:%d", k, v))
	}
	sort.Strings(rows)
	return rows, sc.Err()
}

func runWithWatchdog(sess *exec.Session, f *bigslice.FuncValue, args ...interface{}) (*exec.Result, error) {
	type out struct {
		r   *exec.Result
		err error
	}
	ch := make(chan out, 1)
	go func() {
		r, err := sess.Run(context.Background(), f, args...)
		ch <- out{r, err}
	}()
	select {
	case o := <-ch:
		return o.r, o.err
	case <-time.After(2 * time.Minute):
		return nil, fmt.Errorf("HANG: Run did not return within 2 minutes")
	}
}

func e2eMain() {
	vsys.Quiet()
	vsys.FastRetries()
	consumers := [][]int{{opReduce}, {opMap, opReduce}, {opFold}, {opReshard2}, {opReshard3}, {opCogroup1}, {opCogroup2},
		{opReshuffle}, {opRepartition}, {opPrefixed, opReduce}, {opReduce, opReduce}}
	bad := 0
	total := 0
	for _, local := range []bool{true, false} {
		for _, mc := range []bool{false, true} {
			opts := []exec.Option{exec.Parallelism(4)}
			name := "local"
			if local {
				opts = append(opts, exec.Local)
			} else {
				opts = append(opts, exec.Bigmachine(vsys.New(2)))
				name = "vsys"
			}
			if mc {
				opts = append(opts, exec.MachineCombiners)
			}
			sess := exec.Start(opts...)
			for n := 1; n <= 3; n++ {
				for _, cons := range consumers {
					for _, fn := range []*bigslice.FuncValue{fProgS, fProgR} {
						total++
						label := fmt.Sprintf("%s mc=%v n=%d consumer=%s viaResultParam=%v", name, mc, n, opsString(cons), fn == fProgR)
						want, err := runWithWatchdog(sess, fProg, Prog{Kind: "chain", N: n, Ops: append([]int{opMap}, cons...)})
						if err != nil {
							fmt.Printf("E2E-FAIL %s: reference run failed: %v\n", label, firstLine(err))
							bad++
							continue
						}
						wantRows, err := scanRows(want)
						if err != nil {
							fmt.Printf("E2E-FAIL %s: reference scan failed: %v\n", label, firstLine(err))
							bad++
							continue
						}
						r1, err := runWithWatchdog(sess, fProg, Prog{Kind: "chain", N: n, Ops: []int{opMap}})
						if err != nil {
							fmt.Printf("E2E-FAIL %s: producer run failed: %v\n", label, firstLine(err))
							bad++
							continue
						}
						r2, err := runWithWatchdog(sess, fn, Prog{Kind: "chain", Ops: cons}, r1)
						if err != nil {
							fmt.Printf("E2E-FAIL %s: Run(g, result) failed: %v\n", label, firstLine(err))
							bad++
							continue
						}
						got, err := scanRows(r2)
						if err != nil {
							fmt.Printf("E2E-FAIL %s: scan failed: %v\n", label, firstLine(err))
							bad++
							continue
						}
						if strings.Join(got, ",") != strings.Join(wantRows, ",") {
							fmt.Printf("E2E-FAIL %s: rows differ\n  got  %v\n  want %v\n", label, got, wantRows)
							bad++
							continue
						}
						fmt.Printf("E2E-OK   %s rows=%d\n", label, len(got))
					}
				}
			}
			// No sess.Shutdown(): after a failed Run the executor still has task goroutines in
			// flight, and (*invDiskCache).getOrCreate panics ("call after close") if they reach
			// it after Shutdown, killing the process. The process exits right after anyway.
		}
	}
	fmt.Printf("e2e: %d of %d scenarios failed\n", bad, total)
	if bad > 0 {
		os.Exit(1)
	}
}

func firstLine(err error) string {
	s := strings.Join(strings.Fields(err.Error()), " ")
	if len(s) > 500 {
		s = s[:500]
	}
	return s
}
