// Canonical dump of a compiled task graph + the structural invariants of the C08
// statement. Only exported fields of exec.Task are read here; nothing in this file
// depends on how compile() works internally, except for the reference stage walk
// (refStages), which is the "boring model" of the statement's pipelining rule.
//
// NOTE: this file is copied verbatim into cmd/c16 (files are per command).
package main

import (
	"fmt"
	"regexp"
	"sort"
	"strconv"
	"strings"

	"github.com/grailbio/bigslice"
	"github.com/grailbio/bigslice/exec"
)

// ordMap maps process-global invocation indices to the ordinal of the invocation
// within the program (0 = first invocation made by the program).
type ordMap map[uint64]int

// an "inv<index>" component of an op name (components are joined by "_"; no bigslice
// operator is called inv<digits>)
var invCompRe = regexp.MustCompile(`(^|_)inv([0-9]+)`)

func (o ordMap) idx(i uint64) string {
	if k, ok := o[i]; ok {
		return fmt.Sprintf("#%d", k)
	}
	return fmt.Sprintf("?%d", i)
}

// normOp replaces every "inv<index>" component of an op name or combine key by the
// invocation's ordinal (op names start with the compiling invocation's index; the name
// of a task that re-shuffles a reused result may also embed the result's op name).
func (o ordMap) normOp(op string) string {
	return invCompRe.ReplaceAllStringFunc(op, func(m string) string {
		pre := ""
		if m[0] == '_' {
			pre, m = "_", m[1:]
		}
		i, _ := strconv.ParseUint(m[3:], 10, 64)
		return pre + "inv" + o.idx(i)
	})
}

func (o ordMap) name(n exec.TaskName) string {
	return fmt.Sprintf("%s@%d:%d[i%s]", o.normOp(n.Op), n.NumShard, n.Shard, o.idx(n.InvIndex))
}

// depTasks returns the tasks comprised by a dependency (TaskDep.NumTask/Task semantics),
// without panicking on inconsistent groups.
func depTasks(d exec.TaskDep) []*exec.Task {
	if d.Head == nil {
		return nil
	}
	if len(d.Head.Group) > 0 {
		return d.Head.Group
	}
	return []*exec.Task{d.Head}
}

// reach returns every task reachable from the roots (through deps, including all
// members of dependency groups), in discovery order, and whether a cycle exists.
func reach(roots []*exec.Task) (all []*exec.Task, cyclic bool) {
	const (
		white = 0
		grey  = 1
		black = 2
	)
	colour := map[*exec.Task]int{}
	var visit func(t *exec.Task)
	visit = func(t *exec.Task) {
		switch colour[t] {
		case grey:
			cyclic = true
			return
		case black:
			return
		}
		colour[t] = grey
		all = append(all, t)
		for _, d := range t.Deps {
			for _, dt := range depTasks(d) {
				if dt != nil {
					visit(dt)
				}
			}
		}
		colour[t] = black
	}
	for _, r := range roots {
		if r != nil {
			visit(r)
		}
	}
	return
}

func partKind(t *exec.Task) string {
	switch {
	case t.Partitioner == nil:
		return "none"
	case exec.VerifC08IsDefaultPartitioner(t.Partitioner):
		return "default"
	}
	return "custom"
}

func pragmaString(t *exec.Task) string {
	if t.Pragma == nil {
		return "nil"
	}
	return fmt.Sprintf("procs%d/excl%v/mat%v", t.Pragma.Procs(), t.Pragma.Exclusive(), t.Pragma.Materialize())
}

func taskLine(o ordMap, t *exec.Task) string {
	var b strings.Builder
	fmt.Fprintf(&b, "%s np=%d part=%s comb=%v ckey=%q pragma=%s", o.name(t.Name), t.NumPartition, partKind(t),
		!t.Combiner.IsNil(), o.normOp(t.CombineKey), pragmaString(t))
	b.WriteString(" group=[")
	for i, g := range t.Group {
		if i > 0 {
			b.WriteString(" ")
		}
		b.WriteString(o.name(g.Name))
	}
	b.WriteString("] slices=[")
	for i, s := range t.Slices {
		if i > 0 {
			b.WriteString(" ")
		}
		fmt.Fprintf(&b, "%s/%d", s.Name().Op, s.NumShard())
	}
	b.WriteString("] deps=[")
	for i, d := range t.Deps {
		if i > 0 {
			b.WriteString(" ")
		}
		head := "<nil>"
		if d.Head != nil {
			head = o.name(d.Head.Name)
		}
		fmt.Fprintf(&b, "(%s p%d expand=%v key=%q n=%d)", head, d.Partition, d.Expand, o.normOp(d.CombineKey), len(depTasks(d)))
	}
	b.WriteString("]")
	return b.String()
}

// canonGraph is the canonical form compared across compilations: the root names in
// order, then one line per reachable task sorted by line.
func canonGraph(o ordMap, roots []*exec.Task) string {
	all, cyc := reach(roots)
	var lines []string
	for _, t := range all {
		lines = append(lines, taskLine(o, t))
	}
	sort.Strings(lines)
	var b strings.Builder
	b.WriteString("roots:")
	for _, r := range roots {
		b.WriteString(" " + o.name(r.Name))
	}
	if cyc {
		b.WriteString(" CYCLIC")
	}
	b.WriteString("\n")
	for _, l := range lines {
		b.WriteString(l + "\n")
	}
	return b.String()
}

// canonTable is the canonical form of a worker's name->task lookup table.
func canonTable(o ordMap, named map[exec.TaskName]*exec.Task) string {
	var lines []string
	for n, t := range named {
		l := taskLine(o, t)
		if n != t.Name {
			l = "KEY-MISMATCH " + o.name(n) + " -> " + l
		}
		lines = append(lines, l)
	}
	sort.Strings(lines)
	return strings.Join(lines, "\n") + "\n"
}

// ---- reference model of the statement's pipelining rule ---------------------

var trailingDigits = regexp.MustCompile(`[0-9]+$`)

// stripNamer removes the numeric suffix the task namer adds to repeated op names
// (no bigslice op name ends in a digit).
func stripNamer(op string) string { return trailingDigits.ReplaceAllString(op, "") }

func isResult(s bigslice.Slice) (*exec.Result, bool) {
	r, ok := bigslice.Unwrap(s).(*exec.Result)
	return r, ok
}

func materialized(s bigslice.Slice) bool {
	p, ok := s.(bigslice.Pragma)
	return ok && p.Materialize()
}

// refStage returns the slices that the statement allows to be pipelined into one
// task, top first: the chain continues downwards through single, non-shuffle
// dependencies and stops below at a shuffle, at a slice with several (or no)
// dependencies, at a Materialize pragma and at a reused Result.
func refStage(s bigslice.Slice) []bigslice.Slice {
	var st []bigslice.Slice
	for {
		st = append(st, s)
		if s.NumDep() != 1 {
			return st
		}
		d := s.Dep(0)
		if d.Shuffle || materialized(d.Slice) {
			return st
		}
		if _, ok := isResult(d.Slice); ok {
			return st
		}
		s = d.Slice
	}
}

// refStages computes the set of expected stage bodies ("inv<ord>_<ops bottom-up>")
// for everything reachable from s.
func refStages(o ordMap, inv uint64, s bigslice.Slice, shuffled bool, out map[string]bool, seen map[string]bool) {
	if r, ok := isResult(s); ok {
		rt := exec.VerifC08ResultTasks(r)
		// (tasks that re-shuffle a reused result are not stages of any slice: their
		// names are not prescribed here; their wiring is checked in checkInvariants)
		// the reused tasks themselves: described by the graph they were compiled from
		all, _ := reach(rt)
		for _, t := range all {
			if producerClass(t) != "result-reshuffle" {
				out[stripNamer(o.normOp(t.Name.Op))] = true
			}
		}
		return
	}
	key := fmt.Sprintf("%p/%v", s, shuffled)
	if seen[key] {
		return
	}
	seen[key] = true
	st := refStage(s)
	ops := []string{"inv" + o.idx(inv)}
	for i := len(st) - 1; i >= 0; i-- {
		ops = append(ops, st[i].Name().Op)
	}
	out[strings.Join(ops, "_")] = true
	last := st[len(st)-1]
	for i := 0; i < last.NumDep(); i++ {
		d := last.Dep(i)
		refStages(o, inv, d.Slice, d.Shuffle, out, seen)
	}
}

// ---- invariants --------------------------------------------------------------

type issue struct {
	class  string // goes into the signature
	detail string
}

type invOpts struct {
	// mayBeCached reports that the program contains cache operators with pre-cached
	// shards: tasks that read a cached shard legitimately have no dependencies, and
	// their producers may be unreachable.
	mayBeCached bool
}

func sameGroup(a, b []*exec.Task) bool {
	if len(a) != len(b) {
		return false
	}
	for i := range a {
		if a[i] != b[i] {
			return false
		}
	}
	return true
}

// producerClass names the kind of producer for signatures.
func producerClass(t *exec.Task) string {
	if s, ok := t.Type.(bigslice.Slice); ok {
		if _, ok := isResult(s); ok {
			return "result-reshuffle"
		}
	}
	return "stage"
}

// checkInvariants checks the structural clauses of the statement on one compiled graph.
func checkInvariants(o ordMap, inv uint64, root bigslice.Slice, roots []*exec.Task, opt invOpts) (issues []issue, notes []string) {
	add := func(class, format string, a ...interface{}) {
		issues = append(issues, issue{class, fmt.Sprintf(format, a...)})
	}
	all, cyc := reach(roots)
	// (1) acyclic
	if cyc {
		add("cyclic", "the dependency graph has a cycle")
		return
	}
	// (2) unique names
	byName := map[exec.TaskName]*exec.Task{}
	for _, t := range all {
		if u, ok := byName[t.Name]; ok && u != t {
			add("duplicate-name", "two distinct tasks are named %v", t.Name)
		}
		byName[t.Name] = t
	}
	// (3) exactly one root task per result shard
	if len(roots) != root.NumShard() {
		add("root-count", "%d roots for a result of %d shards", len(roots), root.NumShard())
	}
	seenRoot := map[*exec.Task]bool{}
	for i, r := range roots {
		if seenRoot[r] {
			add("root-repeated", "root %v appears twice", r.Name)
		}
		seenRoot[r] = true
		if r.Name.Shard != i || r.Name.NumShard != len(roots) {
			add("root-shard", "root %d is named %v", i, r.Name)
		}
	}
	// (4) one task per shard of each pipeline stage
	type stageKey struct {
		inv uint64
		op  string
	}
	stages := map[stageKey][]*exec.Task{}
	for _, t := range all {
		k := stageKey{t.Name.InvIndex, t.Name.Op}
		stages[k] = append(stages[k], t)
	}
	for k, ts := range stages {
		n := ts[0].Name.NumShard
		shards := map[int]bool{}
		for _, t := range ts {
			if t.Name.NumShard != n {
				add("stage-numshard", "stage %s has tasks of %d and %d shards", k.op, n, t.Name.NumShard)
			}
			if t.Name.Shard < 0 || t.Name.Shard >= t.Name.NumShard || shards[t.Name.Shard] {
				add("stage-shard", "stage %s: bad or repeated shard %d", k.op, t.Name.Shard)
			}
			shards[t.Name.Shard] = true
			if len(t.Slices) > 0 && t.Slices[0].NumShard() != t.Name.NumShard {
				add("stage-shardcount", "task %v computes a slice of %d shards", t.Name, t.Slices[0].NumShard())
			}
		}
		if len(ts) != n && !opt.mayBeCached {
			add("stage-incomplete", "stage %s has %d tasks for %d shards", k.op, len(ts), n)
		}
	}
	// (5) no pipelining across a shuffle, a Materialize pragma or a reused result:
	// (5a) every task's slice chain is a legal pipeline
	for _, t := range all {
		for i := 0; i+1 < len(t.Slices); i++ {
			up, down := t.Slices[i], t.Slices[i+1]
			switch {
			case up.NumDep() != 1:
				add("pipelined-multidep", "task %v pipelines through %s which has %d deps", t.Name, up.Name().Op, up.NumDep())
			case up.Dep(0).Slice != down:
				add("pipeline-chain", "task %v: %s does not depend on %s", t.Name, up.Name().Op, down.Name().Op)
			case up.Dep(0).Shuffle:
				add("pipelined-shuffle", "task %v pipelines across the shuffle below %s", t.Name, up.Name().Op)
			case materialized(down):
				add("pipelined-materialize", "task %v pipelines across the Materialize pragma on %s", t.Name, down.Name().Op)
			}
			if _, ok := isResult(down); ok {
				add("pipelined-result", "task %v pipelines a reused result", t.Name)
			}
		}
	}
	// (5b) the set of stages is the one the statement's rule prescribes
	want := map[string]bool{}
	refStages(o, inv, root, false, want, map[string]bool{})
	got := map[string]bool{}
	for _, t := range all {
		if producerClass(t) == "result-reshuffle" {
			continue
		}
		got[stripNamer(o.normOp(t.Name.Op))] = true
	}
	for g := range got {
		if !want[g] {
			add("unexpected-stage", "compiled stage %q is not a stage of the program (expected %v)", g, keys(want))
		}
	}
	if !opt.mayBeCached {
		for w := range want {
			if !got[w] {
				add("missing-stage", "expected stage %q was not compiled (got %v)", w, keys(got))
			}
		}
	}
	if len(roots) > 0 && len(roots[0].Slices) > 0 {
		if _, ok := isResult(root); !ok && roots[0].Slices[0] != root {
			add("root-slice", "the root tasks do not compute the invocation's slice")
		}
	}
	// (6) wiring
	for _, t := range all {
		if len(t.Slices) == 0 {
			add("no-slices", "task %v has no slices", t.Name)
			continue
		}
		if s, ok := t.Type.(bigslice.Slice); ok {
			if r, ok := isResult(s); ok {
				// a task that re-shuffles a reused result: reads its own shard of the result
				rt := exec.VerifC08ResultTasks(r)
				if len(t.Deps) != 1 || t.Deps[0].Head == nil || t.Name.Shard >= len(rt) || t.Deps[0].Head != rt[t.Name.Shard] || t.Deps[0].Partition != 0 {
					add("result-reshuffle-wiring", "task %v does not read shard %d of the reused result", t.Name, t.Name.Shard)
				}
				continue
			}
		}
		last := t.Slices[len(t.Slices)-1]
		if len(t.Deps) == 0 && last.NumDep() > 0 && opt.mayBeCached {
			continue // reads a cached shard
		}
		if len(t.Deps) != last.NumDep() {
			add("dep-count", "task %v has %d deps, its bottom slice %s has %d", t.Name, len(t.Deps), last.Name().Op, last.NumDep())
			continue
		}
		for i, d := range t.Deps {
			sd := last.Dep(i)
			if d.Head == nil {
				add("dep-nil", "task %v dep %d has no head", t.Name, i)
				continue
			}
			prod := depTasks(d)
			res, fromResult := isResult(sd.Slice)
			if !sd.Shuffle {
				if len(prod) != 1 || d.Partition != 0 || d.Head.Name.Shard != t.Name.Shard || d.Head.Name.NumShard != t.Name.NumShard {
					add("narrow-dep-wiring", "task %v dep %d: reads %d tasks, head %v, partition %d", t.Name, i, len(prod), d.Head.Name, d.Partition)
				}
				if fromResult {
					rt := exec.VerifC08ResultTasks(res)
					if t.Name.Shard >= len(rt) || d.Head != rt[t.Name.Shard] {
						add("narrow-dep-result", "task %v dep %d is not the reused result's task", t.Name, i)
					}
				} else if len(d.Head.Slices) == 0 || d.Head.Slices[0] != sd.Slice {
					add("narrow-dep-slice", "task %v dep %d does not compute %s", t.Name, i, sd.Slice.Name().Op)
				}
				continue
			}
			// shuffle dependency: shard p of the consumer reads partition p of EVERY
			// shard of its producer, whose partition count is the consumer's shard count.
			pc := producerClass(d.Head)
			if d.Partition != t.Name.Shard {
				add("shuffle-partition/producer="+pc, "task %v dep %d reads partition %d", t.Name, i, d.Partition)
			}
			if len(prod) != sd.Slice.NumShard() {
				add("shuffle-every-shard/producer="+pc, "task %v dep %d reads %d producer tasks, producer slice %s has %d shards",
					t.Name, i, len(prod), sd.Slice.Name().Op, sd.Slice.NumShard())
			}
			if d.Head != prod[0] {
				add("shuffle-head/producer="+pc, "task %v dep %d: head is not the first task of its group", t.Name, i)
			}
			shards := map[int]bool{}
			for _, p := range prod {
				if p == nil {
					add("shuffle-nil-producer", "task %v dep %d has a nil producer", t.Name, i)
					continue
				}
				if shards[p.Name.Shard] || p.Name.Shard < 0 || p.Name.Shard >= len(prod) {
					add("shuffle-every-shard/producer="+pc, "task %v dep %d: producer shard %d repeated or out of range", t.Name, i, p.Name.Shard)
				}
				shards[p.Name.Shard] = true
				if p.Name.Op != d.Head.Name.Op || p.Name.InvIndex != d.Head.Name.InvIndex {
					add("shuffle-mixed-producers", "task %v dep %d mixes %v and %v", t.Name, i, d.Head.Name, p.Name)
				}
				if p.NumPartition != t.Name.NumShard {
					add("producer-numpartition/producer="+producerClass(p),
						"producer %v has NumPartition=%d, consumer %v has %d shards", p.Name, p.NumPartition, t.Name, t.Name.NumShard)
				}
				if !sameGroup(p.Group, d.Head.Group) {
					add("shuffle-group", "producer %v is not in the same group as its head %v", p.Name, d.Head.Name)
				}
				if fromResult {
					if ps, ok := p.Type.(bigslice.Slice); !ok || ps != sd.Slice {
						add("shuffle-producer-slice/producer=result-reshuffle", "producer %v does not re-shuffle the result argument", p.Name)
					}
				} else if len(p.Slices) == 0 || p.Slices[0] != sd.Slice {
					add("shuffle-producer-slice/producer=stage", "producer %v does not compute %s", p.Name, sd.Slice.Name().Op)
				}
				if p.CombineKey != d.CombineKey {
					notes = append(notes, fmt.Sprintf("combine-key-mismatch/producer=%s: dep key %q, producer %s key %q",
						producerClass(p), o.normOp(d.CombineKey), o.name(p.Name), o.normOp(p.CombineKey)))
				}
				if p.NumPartition > 1 && p.Partitioner == nil {
					notes = append(notes, fmt.Sprintf("nil-partitioner/producer=%s: %s has %d partitions and no partitioner",
						producerClass(p), o.name(p.Name), p.NumPartition))
				}
			}
		}
	}
	return
}

func keys(m map[string]bool) []string {
	var ks []string
	for k := range m {
		ks = append(ks, k)
	}
	sort.Strings(ks)
	return ks
}
