// C08 — an invocation compiles to the same well-formed task graph everywhere.
//
// For every program of the enumerated universe (programs.go) the invocation is
// compiled
//
//	A   by the driver, as (*Session).run does (writable env, then frozen)
//	A2  again by the driver from the same invocation and slice
//	B   from a second, fresh invocation of the same Func with the same arguments
//	A3  again from the same (frozen) invocation after re-invoking the Func — after the
//	    cache state on disk was complemented (cache programs with Flip)
//	C   by a real (*worker).Compile in this process, from the bytes the bigmachine
//	    executor ships (addInvocation -> invocationRef substitution -> gob)
//	D,E by (*worker).Compile in two separately started child processes, from the same bytes
//
// Oracle: the canonical graph (graph.go) is identical in all of them, every task name
// the driver would send in Worker.Run resolves on the worker to a task with the same
// canonical description, and graph A satisfies the structural invariants of the statement.
package main

import (
	"bufio"
	"encoding/gob"
	"flag"
	"fmt"
	"io"
	"os"
	osexec "os/exec"
	"path/filepath"
	"runtime"
	"runtime/pprof"
	"sort"
	"strings"
	"sync"
	"sync/atomic"
	"time"

	"github.com/grailbio/bigslice/exec"
	"verifh/ev"
	"verifh/vsys"
)

var nViaDisk int64

var profFlag = flag.String("cpuprofile", "", "write a CPU profile")

var e2eFlag = flag.Bool("e2e", false, "run the end-to-end reproducer for results fed into shuffles (not part of the verdict)")

var childFlag = flag.Bool("c08child", false, "internal: run as compile server (child process)")
var listFlag = flag.Bool("list", false, "list the enumerated cases and exit")
var onlyFlag = flag.String("only", "", "only run cases whose description contains this string")

// ---- building a case on the driver -------------------------------------------------

type built struct {
	invs    []*exec.VerifC08Inv
	tasks   [][]*exec.Task
	results []*exec.Result
	ord     ordMap
}

func stepArgs(c Case, i int, prefix string, results []*exec.Result) []interface{} {
	st := c.Steps[i]
	p := st.P
	if len(c.CachePos) > 0 && i == 0 {
		p.Prefix = prefix
	}
	args := []interface{}{p}
	for _, a := range st.Args {
		args = append(args, results[a])
	}
	return args
}

// buildCase makes and compiles every invocation of the case the way (*Session).run does.
func buildCase(c Case, prefix string) (*built, error) {
	b := &built{ord: ordMap{}}
	for i, st := range c.Steps {
		inv, err := exec.VerifC08Invoke(funcs[st.Func], fmt.Sprintf("c08:%d", i), stepArgs(c, i, prefix, b.results)...)
		if err != nil {
			return nil, fmt.Errorf("step %d: %v", i, err)
		}
		b.ord[inv.Index()] = i
		tasks, err := inv.Compile(c.MC)
		if err != nil {
			return nil, fmt.Errorf("step %d: compile: %v", i, err)
		}
		inv.Freeze()
		b.invs = append(b.invs, inv)
		b.tasks = append(b.tasks, tasks)
		b.results = append(b.results, inv.Result(tasks))
	}
	return b, nil
}

func (b *built) last() int { return len(b.invs) - 1 }

// ---- children ------------------------------------------------------------------------

type Job struct {
	ID      int
	MC      bool
	Invs    [][]byte
	Top     uint64
	Ord     map[uint64]int
	Lookups []exec.TaskName
}

type Reply struct {
	ID    int
	Err   string
	Dump  string
	Lines []string
}

// workerCompile runs the worker half: a fresh real worker compiles the transported
// invocations in order; returns the canonical graph of the last one and the lookups.
func workerCompile(j *Job) (rep Reply) {
	rep.ID = j.ID
	defer func() {
		if e := recover(); e != nil {
			rep.Err = fmt.Sprintf("panic: %v", e)
		}
	}()
	w := exec.VerifC08NewWorker(j.MC)
	for i, p := range j.Invs {
		if err := w.Compile(p); err != nil {
			rep.Err = fmt.Sprintf("Worker.Compile of invocation %d: %v", i, err)
			return
		}
	}
	o := ordMap(j.Ord)
	roots := w.Roots(j.Top)
	if roots == nil {
		rep.Err = "worker has no result for the invocation"
		return
	}
	rep.Dump = canonGraph(o, roots)
	for _, n := range j.Lookups {
		t := w.Named(n.InvIndex)[n]
		if t == nil {
			rep.Lines = append(rep.Lines, "MISSING")
		} else {
			rep.Lines = append(rep.Lines, taskLine(o, t))
		}
	}
	return
}

func childMain() {
	vsys.Quiet()
	dec := gob.NewDecoder(bufio.NewReaderSize(os.Stdin, 1<<20))
	out := bufio.NewWriterSize(os.Stdout, 1<<20)
	enc := gob.NewEncoder(out)
	var mu sync.Mutex
	jobs := make(chan *Job, 64)
	var wg sync.WaitGroup
	for k := 0; k < 8; k++ {
		wg.Add(1)
		go func() {
			defer wg.Done()
			for j := range jobs {
				rep := workerCompile(j)
				mu.Lock()
				if err := enc.Encode(&rep); err != nil {
					fmt.Fprintln(os.Stderr, "c08 child: encode:", err)
					os.Exit(3)
				}
				mu.Unlock()
			}
		}()
	}
	for {
		j := new(Job)
		if err := dec.Decode(j); err != nil {
			if err != io.EOF {
				fmt.Fprintln(os.Stderr, "c08 child: decode:", err)
				os.Exit(3)
			}
			break
		}
		jobs <- j
	}
	close(jobs)
	wg.Wait()
	out.Flush()
}

// runChild starts one child process, sends it all jobs and collects the replies.
func runChild(name string, jobs []*Job) (map[int]*Reply, error) {
	exe, err := os.Executable()
	if err != nil {
		return nil, err
	}
	cmd := osexec.Command(exe, "-c08child")
	cmd.Stderr = os.Stderr
	stdin, err := cmd.StdinPipe()
	if err != nil {
		return nil, err
	}
	stdout, err := cmd.StdoutPipe()
	if err != nil {
		return nil, err
	}
	if err := cmd.Start(); err != nil {
		return nil, err
	}
	// hang watchdog: compiling all jobs takes seconds; 10 minutes is > 100x.
	timer := time.AfterFunc(10*time.Minute, func() { cmd.Process.Kill() })
	defer timer.Stop()
	go func() {
		w := bufio.NewWriterSize(stdin, 1<<20)
		enc := gob.NewEncoder(w)
		for _, j := range jobs {
			if err := enc.Encode(j); err != nil {
				break
			}
		}
		w.Flush()
		stdin.Close()
	}()
	replies := map[int]*Reply{}
	dec := gob.NewDecoder(bufio.NewReaderSize(stdout, 1<<20))
	for {
		rep := new(Reply)
		if err := dec.Decode(rep); err != nil {
			if err != io.EOF {
				return nil, fmt.Errorf("%s: reading replies: %v", name, err)
			}
			break
		}
		replies[rep.ID] = rep
	}
	if err := cmd.Wait(); err != nil {
		return nil, fmt.Errorf("%s: %v", name, err)
	}
	if len(replies) != len(jobs) {
		return nil, fmt.Errorf("%s: %d replies for %d jobs", name, len(replies), len(jobs))
	}
	return replies, nil
}

// ---- the check -------------------------------------------------------------------------

type finding struct {
	sig, what string
	detail    interface{}
	caseIdx   int
}

type collector struct {
	mu    sync.Mutex
	first map[string]*finding
	count map[string]int
	seen  map[string]bool
}

func (c *collector) add(idx int, sig, what string, detail interface{}) {
	c.mu.Lock()
	defer c.mu.Unlock()
	if k := fmt.Sprintf("%d|%s", idx, sig); !c.seen[k] {
		c.seen[k] = true
		c.count[sig]++
	}
	if f, ok := c.first[sig]; !ok || idx < f.caseIdx {
		c.first[sig] = &finding{sig, what, detail, idx}
	}
}

func topFamily(f string) string {
	if i := strings.Index(f, "/"); i >= 0 {
		return f[:i]
	}
	return f
}

func firstDiff(a, b string) string {
	la, lb := strings.Split(a, "\n"), strings.Split(b, "\n")
	inA := map[string]bool{}
	for _, l := range la {
		inA[l] = true
	}
	inB := map[string]bool{}
	for _, l := range lb {
		inB[l] = true
	}
	var out []string
	for _, l := range la {
		if !inB[l] {
			out = append(out, "- "+l)
		}
	}
	for _, l := range lb {
		if !inA[l] {
			out = append(out, "+ "+l)
		}
	}
	if len(out) > 8 {
		out = out[:8]
	}
	return strings.Join(out, "\n")
}

type caseState struct {
	c       Case
	idx     int
	dumpA   string
	lookups []exec.TaskName
	lines   []string // driver's canonical line per lookup
	job     *Job
	skip    bool
}

func main() {
	flag.Parse()
	if *childFlag {
		childMain()
		return
	}
	if *e2eFlag {
		e2eMain()
		return
	}
	vsys.Quiet()
	if *profFlag != "" {
		f, _ := os.Create(*profFlag)
		pprof.StartCPUProfile(f)
		defer pprof.StopCPUProfile()
	}
	r := ev.Start("C08", "exploration")
	cases := enumerate(r.Thorough())
	if *onlyFlag != "" {
		var f []Case
		for _, c := range cases {
			if strings.Contains(c.String(), *onlyFlag) {
				f = append(f, c)
			}
		}
		cases = f
	}
	if *listFlag {
		for i, c := range cases {
			fmt.Println(i, c)
		}
		return
	}
	budget := 50 * time.Second
	if r.Thorough() {
		budget = 8 * time.Minute
	}
	tmp, err := os.MkdirTemp("", "c08-")
	if err != nil {
		ev.Fatal("tempdir: %v", err)
	}
	defer os.RemoveAll(tmp)

	col := &collector{first: map[string]*finding{}, count: map[string]int{}, seen: map[string]bool{}}
	violate := func(cs *caseState, check, what string, detail string) {
		sig := fmt.Sprintf("C08/%s/family=%s", check, topFamily(cs.c.Family))
		col.add(cs.idx, sig, what, map[string]interface{}{"case": cs.c.String(), "family": cs.c.Family, "detail": detail})
	}

	states := make([]*caseState, len(cases))
	var (
		evaluations   int64 // compilations performed and compared
		nCompiled     int64
		overBudget    int32
		familyCount   = ev.NewCounter()
		graphs        = ev.NewCounter() // distinct canonical graphs
		mech          = &caseCounter{m: map[string]int{}} // mechanisms exercised: number of cases each
		noteCounter   = ev.NewCounter()
		nontrivialMu  sync.Mutex
		nontrivialSet = map[string]bool{}
	)
	// order: simplest first; VERIF_SEED rotates the start so that the process-global
	// invocation indices differ between runs.
	// The cheap direct+shuffle family (enumerated first) always runs first, so that a
	// budget cut cannot skip it.
	order := seq(len(cases))
	first := 0
	for first < len(cases) && (strings.HasPrefix(cases[first].Family, "direct+shuffle") || strings.HasPrefix(cases[first].Family, "cache-twin")) {
		first++
	}
	if rest := len(cases) - first; r.Seed != 0 && rest > 0 {
		k := first + int(uint64(r.Seed)%uint64(rest))
		order = append(append(append([]int{}, order[:first]...), order[k:]...), order[first:k]...)
	}

	// ---- phase 1: driver compilations, shipping, in-process worker -------------------
	ev.Parallel(len(order), runtime.NumCPU(), func(oi int) {
		i := order[oi]
		c := cases[i]
		cs := &caseState{c: c, idx: i, skip: true}
		states[i] = cs
		if atomic.LoadInt32(&overBudget) != 0 {
			return
		}
		if r.OverBudget(budget) {
			atomic.StoreInt32(&overBudget, 1)
			return
		}
		prefix := ""
		if len(c.CachePos) > 0 {
			prefix = filepath.Join(tmp, fmt.Sprintf("case%d", i), "p")
			for k, pos := range c.CachePos {
				if err := setCache(cachePrefixAt(prefix, pos), c.CacheShards[k], c.CacheMask[k]); err != nil {
					ev.Fatal("cache files: %v", err)
				}
			}
		}
		// A
		a, err := buildCase(c, prefix)
		if err != nil {
			violate(cs, "driver-compile-error", "the driver cannot build/compile the program", err.Error())
			return
		}
		atomic.AddInt64(&nCompiled, int64(len(a.invs)))
		familyCount.Add(c.Family)
		last := a.last()
		roots := a.tasks[last]
		cs.dumpA = canonGraph(a.ord, roots)
		graphs.Add(cs.dumpA)
		compare := func(view, dump string) {
			atomic.AddInt64(&evaluations, 1)
			if dump != cs.dumpA {
				violate(cs, "differs/"+view, "compilation "+view+" yields a different task graph than the driver's first compilation",
					firstDiff(cs.dumpA, dump))
			}
		}
		// structural invariants on every invocation's graph
		cachedAny := false
		for k := range c.CachePos {
			if c.CacheMask[k] != 0 {
				cachedAny = true
			}
		}
		for s := range a.invs {
			issues, notes := checkInvariants(a.ord, a.invs[s].Index(), a.invs[s].Slice(), a.tasks[s], invOpts{mayBeCached: cachedAny})
			atomic.AddInt64(&evaluations, 1)
			for _, is := range issues {
				violate(cs, "invariant/"+is.class, "structural invariant of the statement violated: "+is.class, is.detail)
			}
			for _, n := range notes {
				noteCounter.Add(n[:strings.Index(n, ":")])
			}
		}
		// mechanisms (vacuity)
		all, _ := reach(roots)
		names := map[string]bool{}
		mech := &localMech{global: mech, seen: map[string]bool{}}
		defer mech.flush()
		for _, t := range all {
			if len(t.Group) > 0 {
				mech.Add("shuffle-group")
			}
			if t.CombineKey != "" {
				mech.Add("machine-combine-key")
			}
			if !t.Combiner.IsNil() {
				mech.Add("combiner")
			}
			if partKind(t) == "custom" {
				mech.Add("custom-partitioner")
			}
			if t.Pragma != nil && t.Pragma.Materialize() {
				mech.Add("materialize")
			}
			if t.Pragma != nil && (t.Pragma.Exclusive() || t.Pragma.Procs() > 1) {
				mech.Add("procs/exclusive")
			}
			if len(t.Slices) > 1 {
				mech.Add("pipelined>1")
			}
			if producerClass(t) == "result-reshuffle" {
				mech.Add("result-reshuffle")
			}
			if t.Name.InvIndex != a.invs[last].Index() {
				mech.Add("reused-result-task")
			}
			if trailingDigits.MatchString(t.Name.Op) {
				mech.Add("namer-suffix(recompiled stage)")
			}
			names[t.Name.Op] = true
		}
		if a.invs[last].EnvCached() > 0 {
			mech.Add("env-cached-shards")
		}
		nontrivialMu.Lock()
		if len(all) > len(roots) {
			nontrivialSet[cs.dumpA] = true
		}
		nontrivialMu.Unlock()

		// A2: same invocation, same slice, compiled again
		t2, err := a.invs[last].Compile(c.MC)
		if err != nil {
			violate(cs, "differs/A2-recompile", "recompiling the same invocation fails", err.Error())
		} else {
			compare("A2-recompile", canonGraph(a.ord, t2))
		}
		// B: fresh invocations of the same Funcs with the same arguments
		b, err := buildCase(c, prefix)
		if err != nil {
			violate(cs, "differs/B-fresh-invocation", "a second invocation of the same program fails", err.Error())
		} else {
			compare("B-fresh-invocation", canonGraph(b.ord, b.tasks[b.last()]))
		}
		// complement the cache state: from here on only the transported CompileEnv may matter
		if c.Flip {
			for k, pos := range c.CachePos {
				full := 1<<uint(c.CacheShards[k]) - 1
				if err := setCache(cachePrefixAt(prefix, pos), c.CacheShards[k], full&^c.CacheMask[k]); err != nil {
					ev.Fatal("cache files: %v", err)
				}
			}
			mech.Add("cache-state-flipped")
		}
		// A3: the same frozen invocation, Func invoked again (as a worker does), compiled again
		if ri, err := a.invs[last].Reinvoke(); err != nil {
			violate(cs, "differs/A3-reinvoke", "re-invoking the invocation fails", err.Error())
		} else if t3, err := ri.Compile(c.MC); err != nil {
			violate(cs, "differs/A3-reinvoke", "compiling the re-invoked invocation fails", err.Error())
		} else {
			compare("A3-reinvoke", canonGraph(a.ord, t3))
		}
		// ship: real driver-side registration and encoding (mutates Result args into refs)
		cs.lookups = nil
		for _, t := range all {
			cs.lookups = append(cs.lookups, t.Name)
			cs.lines = append(cs.lines, taskLine(a.ord, t))
		}
		d := exec.VerifC08NewDriver()
		job := &Job{ID: i, MC: c.MC, Top: a.invs[last].Index(), Ord: a.ord, Lookups: cs.lookups}
		for s := range a.invs {
			// the real on-disk invocation cache (one zstd context = ~90 ms CPU) for every
			// 61st case; the direct gob encoding otherwise. (C16 exercises the disk cache.)
			viaDisk := i%61 == 0
			if viaDisk {
				atomic.AddInt64(&nViaDisk, 1)
			}
			p, err := d.Ship(a.invs[s], viaDisk)
			if err != nil && strings.Contains(err.Error(), "VERIF-MACHINERY") {
				ev.Fatal("%v", err)
			}
			if err != nil {
				violate(cs, "ship-error", "the invocation cannot be encoded for transport", err.Error())
				d.Close()
				return
			}
			job.Invs = append(job.Invs, p)
		}
		for s, st := range c.Steps {
			if len(st.Args) > 0 && len(d.Deps(a.invs[s].Index())) > 0 {
				mech.Add("invocationRef-substitution")
			}
		}
		d.Close()
		cs.job = job
		cs.skip = false
		// C: in-process worker
		checkReply(cs, "C-worker-inprocess", workerCompileCopy(job), compare, violate)
	})

	// ---- phase 2: two separately started child processes ------------------------------
	var jobs []*Job
	for _, cs := range states {
		if cs != nil && !cs.skip {
			jobs = append(jobs, cs.job)
		}
	}
	childViews := 0
	if len(jobs) > 0 {
		var wg sync.WaitGroup
		reps := make([]map[int]*Reply, 2)
		errs := make([]error, 2)
		for k := 0; k < 2; k++ {
			wg.Add(1)
			go func(k int) {
				defer wg.Done()
				reps[k], errs[k] = runChild(fmt.Sprintf("child%d", k+1), jobs)
			}(k)
		}
		wg.Wait()
		for k := 0; k < 2; k++ {
			if errs[k] != nil {
				ev.Fatal("child process: %v", errs[k])
			}
			view := []string{"D-child-process-1", "E-child-process-2"}[k]
			for _, cs := range states {
				if cs == nil || cs.skip {
					continue
				}
				cs := cs
				compare := func(v, dump string) {
					atomic.AddInt64(&evaluations, 1)
					if dump != cs.dumpA {
						violate(cs, "differs/"+v, "compilation "+v+" yields a different task graph than the driver's first compilation",
							firstDiff(cs.dumpA, dump))
					}
				}
				checkReply(cs, view, *reps[k][cs.idx], compare, violate)
				childViews++
			}
		}
	}

	// ---- report ------------------------------------------------------------------------
	done := 0
	for _, cs := range states {
		if cs != nil && !cs.skip {
			done++
		}
	}
	if atomic.LoadInt32(&overBudget) != 0 {
		r.NotExhaustive(fmt.Sprintf("time budget: %d of %d cases completed", done, len(cases)))
	}
	var sigs []string
	for s := range col.first {
		sigs = append(sigs, s)
	}
	sort.Slice(sigs, func(i, j int) bool {
		a, b := col.first[sigs[i]], col.first[sigs[j]]
		if a.caseIdx != b.caseIdx {
			return a.caseIdx < b.caseIdx
		}
		return a.sig < b.sig
	})
	for _, s := range sigs {
		f := col.first[s]
		d := f.detail.(map[string]interface{})
		d["cases_with_this_signature"] = col.count[s]
		r.Violate(f.sig, f.what, d)
	}
	for i, cs := range states {
		if cs != nil && !cs.skip && i%(len(states)/8+1) == 0 {
			r.Sample(map[string]string{"case": cs.c.String(), "graph": cs.dumpA})
		}
	}
	fams := map[string]int{}
	for _, c := range cases {
		fams[c.Family]++
	}
	pprof.StopCPUProfile()
	r.Note("families (cases enumerated): %v", famSummary(fams))
	r.Note("mechanisms: number of cases whose driver graph / run exercised each: %v", mech.String())
	r.Note("observations outside the statement (not violations), by class: %v", noteCounter.Keys())
	r.Finish(ev.Coverage{
		"evaluations":              atomic.LoadInt64(&evaluations),
		"distinct_nontrivial":      len(nontrivialSet),
		"rule":                     "every program of the generator (one slice value - shared sub-slice, shared sub-slice behind 40 pipelined operators (long task names), materialized slice, reused result - consumed directly and through shuffles into 1, 2 and 3 shards in one invocation, both orders; a cached branch joined with an uncached twin branch of the same operator sequence, every subset of shards pre-cached; operator chains to depth 3 over 16 operators x 1-3 source shards; shared sub-slice shapes; trees of nested shuffles; pragmas at every position; Cache/CachePartial with every subset of shards pre-cached, with and without complementing the cache state after the driver compiled; Result arguments pipelined/shuffled/nested/multiple), each with and without machine combiners; one evaluation = one compiled graph compared with the driver's first compilation (views A2,B,A3,C,D,E) or one invariant pass; distinct_nontrivial = distinct canonical graphs that have at least one non-root task (i.e. at least one stage boundary)",
		"cases":                    len(cases),
		"cases_completed":          done,
		"invocations_compiled_A":   atomic.LoadInt64(&nCompiled),
		"child_process_views":      childViews,
		"shipped_via_real_disk_cache": atomic.LoadInt64(&nViaDisk),
		"distinct_canonical_graphs": graphs.Distinct(),
		"distinct_outcomes":        len(col.first) + 1,
		"violating_signatures":     len(col.first),
		"families":                 len(fams),
	})
}

// caseCounter counts, per mechanism, the number of cases that exercised it.
type caseCounter struct {
	mu sync.Mutex
	m  map[string]int
}

func (c *caseCounter) String() string {
	c.mu.Lock()
	defer c.mu.Unlock()
	var ks []string
	for k := range c.m {
		ks = append(ks, k)
	}
	sort.Strings(ks)
	var out []string
	for _, k := range ks {
		out = append(out, fmt.Sprintf("%s=%d", k, c.m[k]))
	}
	return strings.Join(out, " ")
}

type localMech struct {
	global *caseCounter
	seen   map[string]bool
}

func (l *localMech) Add(k string) { l.seen[k] = true }
func (l *localMech) flush() {
	l.global.mu.Lock()
	for k := range l.seen {
		l.global.m[k]++
	}
	l.global.mu.Unlock()
}

func famSummary(f map[string]int) string {
	top := map[string]int{}
	for k, v := range f {
		top[topFamily(k)] += v
	}
	var ks []string
	for k := range top {
		ks = append(ks, k)
	}
	sort.Strings(ks)
	var out []string
	for _, k := range ks {
		out = append(out, fmt.Sprintf("%s=%d", k, top[k]))
	}
	return strings.Join(out, " ")
}

// workerCompileCopy runs workerCompile on a job (in this process).
func workerCompileCopy(j *Job) Reply { return workerCompile(j) }

func checkReply(cs *caseState, view string, rep Reply, compare func(view, dump string), violate func(cs *caseState, check, what, detail string)) {
	if rep.Err != "" {
		violate(cs, "differs/"+view, "the worker cannot compile the transported invocation that the driver compiled", rep.Err)
		return
	}
	compare(view, rep.Dump)
	for k, l := range rep.Lines {
		if l != cs.lines[k] {
			what := "a task name the driver uses does not denote the same task on the worker"
			violate(cs, "lookup/"+view, what, fmt.Sprintf("driver: %s\nworker: %s", cs.lines[k], l))
			break
		}
	}
}
