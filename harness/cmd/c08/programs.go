// Program universe of the C08 check: bigslice.Funcs registered at init (identical in
// the parent and in the re-exec'd children) whose behaviour is selected by a
// gob-encodable descriptor, plus the enumerator of descriptors.
package main

import (
	"context"
	"fmt"
	"os"
	"path/filepath"
	"strings"

	"github.com/grailbio/bigslice"
	"github.com/grailbio/bigslice/exec"
	"github.com/grailbio/bigslice/sliceio"
)

// Prog selects a slice program inside a Func. It is an ordinary Func argument
// (a gob-encoded struct), exactly like user programs pass configuration.
type Prog struct {
	Kind   string // "chain" | "shared" | "tree" | "pragma" | "multi"
	N      int    // shard count of the (first) source
	M      int    // second shard count (shape specific)
	K      int    // third shard count (shape specific)
	Shape  int    // fixed-shape selector
	Ops    []int  // operator chain applied bottom-up
	Ops2   []int  // second chain (tree shapes)
	Prag   []int  // pragma code per element of Ops (pragma family)
	Src    int    // 0 Const, 1 ReaderFunc (with pragma Prag[len(Ops)] if present)
	Prefix string // cache file prefix (directory/base); "" if the program has no cache operator
}

const (
	opMap = iota
	opFilter
	opFlatmap
	opFold
	opHead
	opReduce
	opCogroup1
	opCogroup2
	opReshuffle
	opRepartition
	opReshard1
	opReshard2
	opReshard3
	opPrefixedReduce
	opMapMat
	opPrefixed
	numChainOps // ops below are not part of the generic chain alphabet
)

const (
	opCache        = numChainOps
	opCachePartial = numChainOps + 1
)

var opNames = map[int]string{
	opMap: "Map", opFilter: "Filter", opFlatmap: "Flatmap", opFold: "Fold", opHead: "Head", opReduce: "Reduce",
	opCogroup1: "Cogroup1", opCogroup2: "Cogroup2", opReshuffle: "Reshuffle", opRepartition: "Repartition",
	opReshard1: "Reshard1", opReshard2: "Reshard2", opReshard3: "Reshard3", opPrefixedReduce: "PrefixedReduce",
	opMapMat: "MapMat", opPrefixed: "Prefixed", opCache: "Cache", opCachePartial: "CachePartial",
}

func opsString(ops []int) string {
	s := make([]string, len(ops))
	for i, o := range ops {
		s[i] = opNames[o]
	}
	return strings.Join(s, ">")
}

func (p Prog) String() string {
	s := fmt.Sprintf("%s n=%d", p.Kind, p.N)
	if p.Kind == "shared" || p.Kind == "multi" || p.Kind == "dshuf" || p.Kind == "twin" {
		s += fmt.Sprintf(" shape=%d m=%d k=%d", p.Shape, p.M, p.K)
	}
	if len(p.Ops) > 0 {
		s += " ops=" + opsString(p.Ops)
	}
	if len(p.Ops2) > 0 {
		s += " ops2=" + opsString(p.Ops2)
	}
	if len(p.Prag) > 0 {
		s += fmt.Sprintf(" prag=%v src=%d", p.Prag, p.Src)
	}
	if p.Prefix != "" {
		s += " cache"
	}
	return s
}

func pragmas(code int) []bigslice.Pragma {
	switch code {
	case 1:
		return []bigslice.Pragma{bigslice.ExperimentalMaterialize}
	case 2:
		return []bigslice.Pragma{bigslice.Procs(2)}
	case 3:
		return []bigslice.Pragma{bigslice.Exclusive}
	case 4:
		return []bigslice.Pragma{bigslice.ExperimentalMaterialize, bigslice.Procs(3)}
	}
	return nil
}

func constSrc(n int) bigslice.Slice {
	return bigslice.Const(n, []int{0, 1, 2, 3, 4, 5, 6, 7}, []int{1, 1, 2, 3, 5, 8, 13, 21})
}

type readerState struct{ done bool }

func readerSrc(n int, prags ...bigslice.Pragma) bigslice.Slice {
	return bigslice.ReaderFunc(n, func(shard int, st *readerState, ks, vs []int) (int, error) {
		if st.done || len(ks) == 0 {
			return 0, sliceio.EOF
		}
		st.done = true
		ks[0], vs[0] = shard, 1
		return 1, nil
	}, prags...)
}

func add(a, b int) int { return a + b }

// applyOp applies one operator to a Slice<int,int>, returning a Slice<int,int>.
func applyOp(s bigslice.Slice, op int, prag []bigslice.Pragma, cachePrefix string) bigslice.Slice {
	switch op {
	case opMap:
		return bigslice.Map(s, func(k, v int) (int, int) { return k, v + 1 }, prag...)
	case opMapMat:
		return bigslice.Map(s, func(k, v int) (int, int) { return k, v + 1 }, bigslice.ExperimentalMaterialize)
	case opFilter:
		return bigslice.Filter(s, func(k, v int) bool { return v%2 == 1 }, prag...)
	case opFlatmap:
		return bigslice.Flatmap(s, func(k, v int) ([]int, []int) { return []int{k, k + 1}, []int{v, v} }, prag...)
	case opFold:
		return bigslice.Fold(s, func(acc, v int) int { return acc + v })
	case opHead:
		return bigslice.Head(s, 3)
	case opReduce:
		return bigslice.Reduce(s, add)
	case opCogroup1:
		return bigslice.Map(bigslice.Cogroup(s), func(k int, vs []int) (int, int) { return k, len(vs) })
	case opCogroup2:
		return bigslice.Map(bigslice.Cogroup(s, s), func(k int, a, b []int) (int, int) { return k, len(a) + len(b) })
	case opReshuffle:
		return bigslice.Reshuffle(s)
	case opRepartition:
		return bigslice.Repartition(s, func(nshard, k, v int) int { return (k + 1) % nshard })
	case opReshard1:
		return bigslice.Reshard(s, 1)
	case opReshard2:
		return bigslice.Reshard(s, 2)
	case opReshard3:
		return bigslice.Reshard(s, 3)
	case opPrefixedReduce:
		s3 := bigslice.Map(s, func(k, v int) (int, int, int) { return k, v % 2, v })
		r := bigslice.Reduce(bigslice.Prefixed(s3, 2), add)
		// Map keeps the prefix (2) of its input; restore prefix 1 for the operators that follow.
		return bigslice.Prefixed(bigslice.Map(r, func(k, k2, v int) (int, int) { return k*2 + k2, v }), 1)
	case opPrefixed:
		return bigslice.Prefixed(s, 1)
	case opCache:
		return bigslice.Cache(context.Background(), s, cachePrefix)
	case opCachePartial:
		return bigslice.CachePartial(context.Background(), s, cachePrefix)
	}
	panic(fmt.Sprintf("unknown op %d", op))
}

// shardsAfter is the harness-side bookkeeping of the shard count after an operator
// (needed to know which cache files exist for a cache operator at a given position).
func shardsAfter(n, op int) int {
	switch op {
	case opReshard1:
		return 1
	case opReshard2:
		return 2
	case opReshard3:
		return 3
	}
	return n
}

func cachePrefixAt(prefix string, pos int) string {
	if prefix == "" {
		return ""
	}
	return fmt.Sprintf("%s_%d", prefix, pos)
}

func applyChain(s bigslice.Slice, p Prog, ops []int) bigslice.Slice {
	for i, op := range ops {
		var prag []bigslice.Pragma
		if i < len(p.Prag) {
			prag = pragmas(p.Prag[i])
		}
		s = applyOp(s, op, prag, cachePrefixAt(p.Prefix, i))
	}
	return s
}

func source(p Prog) bigslice.Slice {
	if p.Src == 1 {
		var prag []bigslice.Pragma
		if len(p.Prag) > len(p.Ops) {
			prag = pragmas(p.Prag[len(p.Ops)])
		}
		return readerSrc(p.N, prag...)
	}
	return constSrc(p.N)
}

// build builds the program; in holds the Result arguments (already Slices).
func build(p Prog, in ...bigslice.Slice) bigslice.Slice {
	switch p.Kind {
	case "chain", "pragma":
		var s bigslice.Slice
		if len(in) > 0 {
			s = in[0]
		} else {
			s = source(p)
		}
		return applyChain(s, p, p.Ops)
	case "tree":
		// Cogroup of two independent chains (nested shuffles), then a Map.
		a := applyChain(constSrc(p.N), p, p.Ops)
		b := applyChain(constSrc(p.M), Prog{}, p.Ops2)
		return bigslice.Map(bigslice.Cogroup(a, b), func(k int, x, y []int) (int, int) { return k, len(x) + len(y) })
	case "shared":
		var s bigslice.Slice
		if len(in) > 0 {
			s = in[0]
		} else {
			s = bigslice.Map(constSrc(p.N), func(k, v int) (int, int) { return k, v })
		}
		join := func(a, b bigslice.Slice) bigslice.Slice {
			return bigslice.Map(bigslice.Cogroup(a, b), func(k int, x, y []int) (int, int) { return k, len(x) + len(y) })
		}
		repart := func(s bigslice.Slice) bigslice.Slice {
			return bigslice.Repartition(s, func(nshard, k, v int) int { return k % nshard })
		}
		switch p.Shape {
		case 0: // the shared slice is shuffled into M partitions and into N partitions
			return join(bigslice.Reshard(s, p.M), bigslice.Reduce(s, add))
		case 1: // shuffled into M and into K partitions
			return join(bigslice.Reshard(s, p.M), bigslice.Reshard(s, p.K))
		case 2: // custom partitioners are never shared
			return join(repart(s), repart(s))
		case 3: // combiners are never shared
			return join(bigslice.Reduce(s, add), bigslice.Reduce(s, add))
		case 4: // pipelined twice (not materialised)
			return join(bigslice.Map(s, func(k, v int) (int, int) { return k, v }), bigslice.Filter(s, func(k, v int) bool { return true }))
		case 5: // materialised once, consumed twice without shuffle
			m := bigslice.Map(s, func(k, v int) (int, int) { return k, v }, bigslice.ExperimentalMaterialize)
			return join(bigslice.Map(m, func(k, v int) (int, int) { return k, v }), bigslice.Filter(m, func(k, v int) bool { return true }))
		case 6: // consumed once with a shuffle and once without
			return join(bigslice.Reshuffle(s), bigslice.Map(s, func(k, v int) (int, int) { return k, v }))
		case 7: // shuffled twice with the same partition count: may be shared
			return join(bigslice.Reshuffle(s), bigslice.Reshuffle(s))
		case 8: // a reduce of a reduce of a shared reshard
			r := bigslice.Reshard(s, p.M)
			return join(bigslice.Reduce(bigslice.Reduce(r, add), add), bigslice.Reshard(r, p.K))
		}
	case "twin":
		// A cached branch joined with an UNCACHED twin branch that has the same operator
		// sequence (hence the same op-name sequence), in one invocation. Shape 1: both
		// branches are built on one shared sub-slice. K selects Cache/CachePartial, M the
		// branch order. The cache operator sits at "position" len(Ops).
		src := func() bigslice.Slice { return constSrc(p.N) }
		if p.Shape == 1 {
			shared := bigslice.Map(constSrc(p.N), func(k, v int) (int, int) { return k, v })
			src = func() bigslice.Slice { return shared }
		}
		cached := applyOp(applyChain(src(), Prog{}, p.Ops), p.K, nil, cachePrefixAt(p.Prefix, len(p.Ops)))
		twin := applyChain(src(), Prog{}, p.Ops)
		a, b := cached, twin
		if p.M == 1 {
			a, b = twin, cached
		}
		return bigslice.Map(bigslice.Cogroup(a, b), func(k int, x, y []int) (int, int) { return k, len(x) + len(y) })
	case "dshuf":
		// One slice value x consumed BOTH directly (pipelined / narrow dependency) and
		// through shuffles into 1, 2 and 3 shards, in one invocation. Ops lists the
		// consumers in dependency (= compilation) order; M=1 constructs them in reverse.
		var x bigslice.Slice
		switch p.Shape {
		case 0: // an ordinary shared sub-slice
			x = bigslice.Map(constSrc(p.N), func(k, v int) (int, int) { return k, v })
		case 1: // a materialized slice (pipeline cut)
			x = bigslice.Map(constSrc(p.N), func(k, v int) (int, int) { return k, v }, bigslice.ExperimentalMaterialize)
		case 2: // a reused result (pipeline cut)
			x = in[0]
		case 3: // a reused result behind Prefixed
			x = bigslice.Prefixed(in[0], 1)
		case 4: // an ordinary shared sub-slice at the end of a long pipeline (40 pipelined operators: a long task name)
			x = constSrc(p.N)
			for i := 0; i < 40; i++ {
				x = bigslice.Map(x, func(k, v int) (int, int) { return k, v })
			}
		}
		consumer := func(code int) bigslice.Slice {
			switch code {
			case 0:
				return bigslice.Map(x, func(k, v int) (int, int) { return k, v + 1 })
			case 1, 2, 3:
				if code == x.NumShard() {
					return bigslice.Reshuffle(x)
				}
				return bigslice.Reshard(x, code)
			case 4:
				return bigslice.Filter(x, func(k, v int) bool { return true })
			case 5:
				return x
			case 6: // a 1-shard shuffle consumer that is not a Reshard
				return bigslice.Reshard(bigslice.Map(bigslice.Reshard(x, 1), func(k, v int) (int, int) { return k, v }), 2)
			}
			panic("bad consumer")
		}
		cs := make([]bigslice.Slice, len(p.Ops))
		if p.M == 1 {
			for i := len(p.Ops) - 1; i >= 0; i-- {
				cs[i] = consumer(p.Ops[i])
			}
		} else {
			for i := range p.Ops {
				cs[i] = consumer(p.Ops[i])
			}
		}
		cg := bigslice.Cogroup(cs...)
		switch len(cs) {
		case 2:
			return bigslice.Map(cg, func(k int, a, b []int) (int, int) { return k, len(a) + len(b) })
		case 3:
			return bigslice.Map(cg, func(k int, a, b, c []int) (int, int) { return k, len(a) + len(b) + len(c) })
		case 4:
			return bigslice.Map(cg, func(k int, a, b, c, d []int) (int, int) { return k, len(a) + len(b) + len(c) + len(d) })
		}
	case "multi":
		// consumers of several result arguments
		switch p.Shape {
		case 0:
			return bigslice.Map(bigslice.Cogroup(in[0], in[1]), func(k int, x, y []int) (int, int) { return k, len(x) + len(y) })
		case 1:
			return bigslice.Map(bigslice.Cogroup(in[0], in[0]), func(k int, x, y []int) (int, int) { return k, len(x) + len(y) })
		case 2:
			return bigslice.Map(bigslice.Cogroup(bigslice.Map(in[0], func(k, v int) (int, int) { return k, v }), in[1]),
				func(k int, x, y []int) (int, int) { return k, len(x) + len(y) })
		case 3:
			return bigslice.Map(bigslice.Cogroup(bigslice.Reshard(in[0], p.M), bigslice.Reduce(in[1], add)),
				func(k int, x, y []int) (int, int) { return k, len(x) + len(y) })
		}
	}
	panic("unknown program " + p.String())
}

// The Func registry. Order matters and is identical in every process of this binary.
var (
	fProg  = bigslice.Func(func(p Prog) bigslice.Slice { return build(p) })
	fProgS = bigslice.Func(func(p Prog, in bigslice.Slice) bigslice.Slice { return build(p, in) })
	fProgR = bigslice.Func(func(p Prog, in *exec.Result) bigslice.Slice { return build(p, in) })
	fProg2 = bigslice.Func(func(p Prog, a bigslice.Slice, b *exec.Result) bigslice.Slice { return build(p, a, b) })
	fProgX = bigslice.Func(func(p Prog) bigslice.Slice { return build(p) }).Exclusive()
)

var funcs = []*bigslice.FuncValue{fProg, fProgS, fProgR, fProg2, fProgX}

// A Step is one invocation of a program; Args are the indices of earlier steps
// whose results are passed as arguments.
type Step struct {
	Func int
	P    Prog
	Args []int
}

// A Case is one enumerated program (one or more invocations) with its cache state.
type Case struct {
	Family string
	Steps  []Step
	// cache: for each cache operator position in Steps[0].P.Ops the number of shards
	// at that position and the bitmask of shards pre-cached before the driver compiles.
	CachePos    []int
	CacheShards []int
	CacheMask   []int
	// Flip: complement the cache state after the driver compiled and before anything
	// else compiles the transported invocation.
	Flip bool
	MC   bool
}

func (c Case) String() string {
	var s []string
	for _, st := range c.Steps {
		s = append(s, fmt.Sprintf("f%d(%s;args=%v)", st.Func, st.P, st.Args))
	}
	x := fmt.Sprintf("%s mc=%v %s", c.Family, c.MC, strings.Join(s, " -> "))
	if len(c.CachePos) > 0 {
		x += fmt.Sprintf(" cachepos=%v shards=%v mask=%v flip=%v", c.CachePos, c.CacheShards, c.CacheMask, c.Flip)
	}
	return x
}

// class is the part of a case description that goes into violation signatures.
func (c Case) class() string {
	return c.Family
}

func chains(alphabet []int, maxLen int) [][]int {
	out := [][]int{{}}
	prev := [][]int{{}}
	for l := 1; l <= maxLen; l++ {
		var next [][]int
		for _, p := range prev {
			for _, o := range alphabet {
				c := append(append([]int{}, p...), o)
				next = append(next, c)
			}
		}
		out = append(out, next...)
		prev = next
	}
	return out
}

func allMap(ops []int) bool {
	for _, o := range ops {
		if o != opMap {
			return false
		}
	}
	return true
}

func seq(n int) []int {
	s := make([]int, n)
	for i := range s {
		s[i] = i
	}
	return s
}

// enumerate lists all cases of a tier, simplest first, each with both settings of
// machine combiners.
func enumerate(thorough bool) []Case {
	var cases []Case
	both := func(c Case) {
		c.MC = false
		cases = append(cases, c)
		c.MC = true
		cases = append(cases, c)
	}
	allOps := seq(numChainOps)

	// F0 (first, cheap: a budget cut cannot skip it): the same slice value consumed
	// directly and through shuffles into 1, 2 and 3 shards in one invocation, in both
	// compilation orders and both construction orders; the value is an ordinary
	// sub-slice, a materialized slice, a reused result, a reused result behind Prefixed.
	var consumerLists [][]int
	for _, d := range []int{0, 4, 5} {
		for _, k := range []int{1, 2, 3, 6} {
			consumerLists = append(consumerLists, []int{d, k}, []int{k, d})
		}
	}
	consumerLists = append(consumerLists, []int{0, 1, 2, 3}, []int{3, 2, 1, 0}, []int{1, 0, 3, 2}, []int{0, 1, 5}, []int{1, 5, 0}, []int{1, 2, 0})
	for _, cl := range consumerLists {
		for n := 1; n <= 3; n++ {
			for shape := 0; shape <= 4; shape++ {
				for rev := 0; rev <= 1; rev++ {
					p := Prog{Kind: "dshuf", Shape: shape, N: n, M: rev, Ops: cl}
					fam := fmt.Sprintf("direct+shuffle/x=%s", []string{"shared", "materialized", "result", "prefixed-result", "shared-after-40-pipelined-operators"}[shape])
					if shape <= 1 || shape == 4 {
						both(Case{Family: fam, Steps: []Step{{0, p, nil}}})
						continue
					}
					for _, fn := range []int{1, 2} {
						both(Case{Family: fam, Steps: []Step{
							{0, Prog{Kind: "chain", N: n, Ops: []int{opMap}}, nil},
							{fn, p, []int{0}},
						}})
					}
				}
			}
		}
	}

	// F0b (early, cheap): a cached branch joined with an uncached twin branch with the same
	// operator sequence; Cache and CachePartial; every subset of shards pre-cached
	// (including all: a fully warm cache); both branch orders; twin on a shared sub-slice.
	for _, ops := range [][]int{{opMap, opReduce}, {opReduce}, {opReshard2, opMap}} {
		for _, cop := range []int{opCache, opCachePartial} {
			for n := 1; n <= 3; n++ {
				sh := n
				for _, o := range ops {
					sh = shardsAfter(sh, o)
				}
				for shape := 0; shape <= 1; shape++ {
					for order := 0; order <= 1; order++ {
						for mask := 1<<uint(sh) - 1; mask >= 0; mask-- { // fully warm first
							for _, flip := range []bool{false, true} {
								both(Case{Family: "cache-twin/" + opNames[cop],
									Steps:    []Step{{0, Prog{Kind: "twin", N: n, Shape: shape, M: order, K: cop, Ops: ops}, nil}},
									CachePos: []int{len(ops)}, CacheShards: []int{sh}, CacheMask: []int{mask}, Flip: flip})
							}
						}
					}
				}
			}
		}
	}

	// F1: operator chains to depth 3 over the whole alphabet, 1..3 source shards.
	for _, ch := range chains(allOps, 3) {
		for n := 1; n <= 3; n++ {
			if !thorough && len(ch) == 3 && n != 2 {
				continue // quick: depth-3 chains with 2 source shards only
			}
			both(Case{Family: "chain", Steps: []Step{{0, Prog{Kind: "chain", N: n, Ops: ch}, nil}}})
		}
	}
	// one exclusive Func (Invocation.Exclusive travels with the invocation)
	for n := 1; n <= 3; n++ {
		both(Case{Family: "chain-exclusive-func", Steps: []Step{{4, Prog{Kind: "chain", N: n, Ops: []int{opMap, opReduce}}, nil}}})
	}

	// F2: fixed shapes with shared sub-slices.
	for shape := 0; shape <= 8; shape++ {
		for n := 1; n <= 3; n++ {
			for m := 1; m <= 3; m++ {
				for k := 1; k <= 3; k++ {
					if (shape != 1 && shape != 8) && k != 1 {
						continue
					}
					if (shape >= 2 && shape <= 7) && m != 1 {
						continue
					}
					both(Case{Family: fmt.Sprintf("shared/shape%d", shape), Steps: []Step{{0, Prog{Kind: "shared", Shape: shape, N: n, M: m, K: k}, nil}}})
				}
			}
		}
	}

	// F3: nested shuffles in a tree: Cogroup of two chains over a smaller alphabet.
	small := []int{opMap, opReduce, opReshuffle, opReshard2, opFold, opRepartition}
	depth := 1
	if thorough {
		depth = 2
	}
	for _, a := range chains(small, depth) {
		for _, b := range chains(small, depth) {
			for n := 1; n <= 3; n++ {
				for m := 1; m <= 3; m++ {
					if !thorough && m == 3 {
						continue
					}
					both(Case{Family: "tree", Steps: []Step{{0, Prog{Kind: "tree", N: n, M: m, Ops: a, Ops2: b}, nil}}})
				}
			}
		}
	}

	// F4: pragmas at every position of a pipelined chain, with and without a final shuffle.
	pragOps := []int{opMap, opFilter, opFlatmap}
	for l := 1; l <= 3; l++ {
		var rec func(pos int, ops, pr []int)
		rec = func(pos int, ops, pr []int) {
			if pos == l {
				for src := 0; src <= 1; src++ {
					srcPr := []int{0}
					if src == 1 {
						srcPr = []int{0, 1, 3}
					}
					for _, sp := range srcPr {
						ends := []int{-1, opReduce}
						if thorough {
							ends = append(ends, opHead)
						}
						for _, end := range ends {
							for n := 1; n <= 2; n++ {
								if !thorough && l >= 2 && n == 1 {
									continue // quick: longer pragma chains with 2 shards only
								}
								o := append([]int{}, ops...)
								p := append([]int{}, pr...)
								if end >= 0 {
									o = append(o, end)
									p = append(p, 0)
								}
								p = append(p, sp)
								both(Case{Family: "pragma", Steps: []Step{{0, Prog{Kind: "pragma", N: n, Ops: o, Prag: p, Src: src}, nil}}})
							}
						}
					}
				}
				return
			}
			for _, o := range pragOps {
				if !thorough && (l == 3 && o != opMap || l == 2 && o == opFlatmap) {
					continue
				}
				for pc := 0; pc <= 4; pc++ {
					if !thorough && l == 3 && pc == 4 {
						continue
					}
					// thorough, length 3: all pragmas on Map chains; {none, Materialize} on mixed chains
					if thorough && l == 3 && pc > 1 && (o != opMap || !allMap(ops)) {
						continue
					}
					rec(pos+1, append(ops, o), append(pr, pc))
				}
			}
		}
		rec(0, nil, nil)
	}

	// F5: cache operators with every subset of shards pre-cached.
	pres := [][]int{{}, {opMap}, {opReduce}, {opReshard2}}
	posts := [][]int{{}, {opMap}, {opReduce}, {opReshard2}, {opMap, opReduce}}
	for _, pre := range pres {
		for _, cop := range []int{opCache, opCachePartial} {
			for _, post := range posts {
				for n := 1; n <= 3; n++ {
					ops := append(append(append([]int{}, pre...), cop), post...)
					sh := n
					for _, o := range pre {
						sh = shardsAfter(sh, o)
					}
					for mask := 0; mask < 1<<uint(sh); mask++ {
						for _, flip := range []bool{false, true} {
							both(Case{Family: "cache/" + opNames[cop], Steps: []Step{{0, Prog{Kind: "chain", N: n, Ops: ops}, nil}},
								CachePos: []int{len(pre)}, CacheShards: []int{sh}, CacheMask: []int{mask}, Flip: flip})
						}
					}
				}
			}
		}
	}
	// two cache operators in one program, independent subsets
	for _, c1 := range []int{opCache, opCachePartial} {
		for _, c2 := range []int{opCache, opCachePartial} {
			for _, mid := range []int{opMap, opReduce} {
				ops := []int{c1, mid, c2}
				for m1 := 0; m1 < 4; m1++ {
					for m2 := 0; m2 < 4; m2++ {
						for _, flip := range []bool{false, true} {
							both(Case{Family: "cache/two", Steps: []Step{{0, Prog{Kind: "chain", N: 2, Ops: ops}, nil}},
								CachePos: []int{0, 2}, CacheShards: []int{2, 2}, CacheMask: []int{m1, m2}, Flip: flip})
						}
					}
				}
			}
		}
	}

	// F6: Result arguments. A producer invocation, then a consumer that takes its
	// result as bigslice.Slice (Func 1) or *exec.Result (Func 2) and applies a chain
	// to it: pipelined (Map...) or directly shuffled (Reduce, Reshard, Cogroup...).
	producers := [][]int{{}, {opMap}, {opReduce}, {opReshard2}}
	consDepth := 2
	for _, prod := range producers {
		for n := 1; n <= 3; n++ {
			for _, cons := range chains(allOps, consDepth) {
				if len(cons) == 0 {
					continue
				}
				if !thorough && len(cons) == 2 && (n == 3 || len(prod) > 0 && prod[0] != opReduce) {
					continue
				}
				for _, fn := range []int{1, 2} {
					if fn == 2 && len(cons) == 2 && !thorough {
						continue
					}
					both(Case{Family: "result/" + resultClass(cons), Steps: []Step{
						{0, Prog{Kind: "chain", N: n, Ops: prod}, nil},
						{fn, Prog{Kind: "chain", Ops: cons}, []int{0}},
					}})
				}
			}
		}
	}
	// a shared result consumed with two partition counts etc.
	for shape := 0; shape <= 8; shape++ {
		for n := 1; n <= 3; n++ {
			m, k := n%3+1, (n+1)%3+1
			both(Case{Family: "result/shared-shapes", Steps: []Step{
				{0, Prog{Kind: "chain", N: n, Ops: []int{opMap}}, nil},
				{1, Prog{Kind: "shared", Shape: shape, N: n, M: m, K: k}, []int{0}},
			}})
		}
	}
	// nested results: h(g(f())) and two results into one consumer
	for _, c1 := range [][]int{{opMap}, {opReduce}, {opReshard2}, {opMap, opReduce}} {
		for _, c2 := range [][]int{{opMap}, {opReduce}, {opReshard3}, {opFilter, opReduce}, {opCogroup2}} {
			for n := 1; n <= 2; n++ {
				both(Case{Family: "result/nested/" + resultClass(c1) + "+" + resultClass(c2), Steps: []Step{
					{0, Prog{Kind: "chain", N: n, Ops: []int{opMap}}, nil},
					{1, Prog{Kind: "chain", Ops: c1}, []int{0}},
					{2, Prog{Kind: "chain", Ops: c2}, []int{1}},
				}})
			}
		}
	}
	for shape := 0; shape <= 3; shape++ {
		for n := 1; n <= 3; n++ {
			for m := 1; m <= 3; m++ {
				both(Case{Family: fmt.Sprintf("result/multi/shape%d", shape), Steps: []Step{
					{0, Prog{Kind: "chain", N: n, Ops: []int{opMap}}, nil},
					{0, Prog{Kind: "chain", N: m, Ops: []int{opReduce}}, nil},
					{3, Prog{Kind: "multi", Shape: shape, M: 2}, []int{0, 1}},
				}})
				// the same result passed for both parameters
				both(Case{Family: fmt.Sprintf("result/multi-same/shape%d", shape), Steps: []Step{
					{0, Prog{Kind: "chain", N: n, Ops: []int{opMap}}, nil},
					{3, Prog{Kind: "multi", Shape: shape, M: m}, []int{0, 0}},
				}})
			}
		}
	}
	return cases
}

// resultClass classifies how the consumer chain touches the result argument.
func resultClass(cons []int) string {
	i := 0
	pref := ""
	if len(cons) > 0 && cons[0] == opPrefixed {
		pref = "prefixed-"
		i = 1
	}
	if i >= len(cons) {
		return pref + "returned"
	}
	switch cons[i] {
	case opMap, opFilter, opFlatmap, opHead, opMapMat, opPrefixedReduce:
		return pref + "pipelined"
	}
	return pref + "shuffled-by-" + opNames[cons[i]]
}

// ---- cache files ---------------------------------------------------------------

func cacheFile(prefix string, shard, n int) string {
	return fmt.Sprintf("%s-%04d-of-%04d", prefix, shard, n)
}

// setCache makes exactly the shards in mask present for a cache prefix.
func setCache(prefix string, n, mask int) error {
	for s := 0; s < n; s++ {
		p := cacheFile(prefix, s, n)
		if mask&(1<<uint(s)) != 0 {
			if err := os.MkdirAll(filepath.Dir(p), 0777); err != nil {
				return err
			}
			if err := os.WriteFile(p, nil, 0666); err != nil {
				return err
			}
		} else if err := os.Remove(p); err != nil && !os.IsNotExist(err) {
			return err
		}
	}
	return nil
}
