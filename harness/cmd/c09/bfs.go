package main

// Breadth-first exploration of operation histories with replay on fresh real
// objects (DESIGN.md §4 E2): the successor of history h by operation o is obtained
// by executing h·o on a new real object; histories are de-duplicated on the
// canonical dump of the real object's complete state.

import (
	"fmt"
	"runtime"
	"sort"
	"sync"
	"sync/atomic"
	"time"

	"verifh/ev"
)

type stateID [16]byte

// space is one configuration whose histories are explored.
type space interface {
	label() string
	alpha() alphabet
	// run executes h on fresh real object(s), applies the oracle to the last step
	// (all proper prefixes were checked as histories of their own), and returns the
	// canonical state. ok=false: a violation was recorded, do not extend h.
	run(h hist) (st stateID, ok bool)
}

const nShards = 64

type seenSet [nShards]map[stateID]struct{}

func newSeen() *seenSet {
	var s seenSet
	for i := range s {
		s[i] = map[stateID]struct{}{}
	}
	return &s
}

func (s *seenSet) has(id stateID) bool {
	_, ok := s[id[0]%nShards][id]
	return ok
}

func (s *seenSet) size() int {
	n := 0
	for i := range s {
		n += len(s[i])
	}
	return n
}

// levelMap keeps, per new state of the current level, the smallest history that
// reaches it, so that the representative does not depend on goroutine timing.
type levelMap struct {
	mu [nShards]sync.Mutex
	m  [nShards]map[stateID]hist
}

func newLevel() *levelMap {
	l := &levelMap{}
	for i := range l.m {
		l.m[i] = map[stateID]hist{}
	}
	return l
}

// put reports whether the state was new to the level.
func (l *levelMap) put(id stateID, h hist) bool {
	i := id[0] % nShards
	l.mu[i].Lock()
	old, ok := l.m[i][id]
	if !ok || h.less(old) {
		l.m[i][id] = h
	}
	l.mu[i].Unlock()
	return !ok
}

// newStateChecker is implemented by spaces that run additional (more expensive)
// checks once per distinct state instead of once per history.
type newStateChecker interface {
	onNewState(h hist)
}

// ---- in-flight registry for the hang watchdog --------------------------------

type flight struct {
	sp    space
	h     hist
	start time.Time
}

var inflight [256]atomic.Pointer[flight]

type levelStat struct {
	Depth       int   `json:"depth"`
	Frontier    int   `json:"histories_extended"`
	Transitions int64 `json:"transitions"`
	NewStates   int   `json:"new_states"`
}

type bfsResult struct {
	Space       string      `json:"space"`
	Alphabet    string      `json:"alphabet"`
	AlphabetLen int         `json:"alphabet_size"`
	Depth       int         `json:"depth"`
	States      int         `json:"states"`
	Transitions int64       `json:"transitions"`
	Levels      []levelStat `json:"levels"`
	Complete    bool        `json:"complete"`
	WallS       float64     `json:"wall_s"`
}

// bfs explores all histories of sp up to depth, pruning histories whose state was
// already reached by a shorter (or lexicographically smaller) history.
func bfs(r *ev.Run, sp space, depth int, budget time.Duration) bfsResult {
	t0 := time.Now()
	al := sp.alpha()
	res := bfsResult{Space: sp.label(), Alphabet: al.name, AlphabetLen: len(al.ops), Depth: depth, Complete: true}
	seen := newSeen()
	root, ok := runGuarded(0, sp, hist{})
	if !ok {
		res.Complete = false
		return res
	}
	seen[root[0]%nShards][root] = struct{}{}
	nsc, _ := sp.(newStateChecker)
	if nsc != nil {
		nsc.onNewState(hist{})
	}
	frontier := []hist{{}}
	workers := runtime.NumCPU()
	if workers > len(inflight) {
		workers = len(inflight)
	}
	for d := 0; d < depth && len(frontier) > 0; d++ {
		level := newLevel()
		var next int64
		var trans int64
		var stop atomic.Bool
		var wg sync.WaitGroup
		chunk := len(frontier) / (workers * 8)
		if chunk < 1 {
			chunk = 1
		}
		if chunk > 16 {
			chunk = 16
		}
		for w := 0; w < workers; w++ {
			wg.Add(1)
			go func(w int) {
				defer wg.Done()
				var local int64
				for !stop.Load() {
					lo := int(atomic.AddInt64(&next, int64(chunk))) - chunk
					if lo >= len(frontier) {
						break
					}
					hi := lo + chunk
					if hi > len(frontier) {
						hi = len(frontier)
					}
					if r.Elapsed() > budget {
						stop.Store(true)
						break
					}
					for _, h := range frontier[lo:hi] {
						for o := range al.ops {
							h2 := h.push(o)
							id, ok := runGuarded(w, sp, h2)
							local++
							if !ok || seen.has(id) {
								continue
							}
							if level.put(id, h2) && nsc != nil {
								inflight[w].Store(&flight{sp: sp, h: h2, start: time.Now()})
								nsc.onNewState(h2)
								inflight[w].Store(nil)
							}
						}
					}
				}
				atomic.AddInt64(&trans, local)
			}(w)
		}
		wg.Wait()
		// merge the level into seen, build the next frontier in a deterministic order
		var nf []hist
		for i := range level.m {
			for id, h := range level.m[i] {
				seen[i][id] = struct{}{}
				nf = append(nf, h)
			}
		}
		sort.Slice(nf, func(i, j int) bool { return nf[i].less(nf[j]) })
		res.Levels = append(res.Levels, levelStat{Depth: d + 1, Frontier: len(frontier), Transitions: trans, NewStates: len(nf)})
		res.Transitions += trans
		frontier = nf
		if stop.Load() {
			res.Complete = false
			r.NotExhaustive(fmt.Sprintf("%s alphabet=%s: time budget hit while extending depth-%d histories", sp.label(), al.name, d))
			break
		}
	}
	res.States = seen.size()
	res.WallS = time.Since(t0).Seconds()
	return res
}

// runGuarded registers the execution with the hang watchdog.
func runGuarded(w int, sp space, h hist) (stateID, bool) {
	inflight[w].Store(&flight{sp: sp, h: h, start: time.Now()})
	id, ok := sp.run(h)
	inflight[w].Store(nil)
	return id, ok
}

// hangLimit is > 4000 x the normal duration of one history (10 µs .. 5 ms).
const hangLimit = 20 * time.Second

// watchdog reports a history that does not terminate (e.g. a probe loop on a full
// table). It is re-executed 3 times before it is reported.
func watchdog(r *ev.Run, onHang func(sp space, h hist)) {
	for {
		time.Sleep(5 * time.Second)
		for i := range inflight {
			f := inflight[i].Load()
			if f == nil || time.Since(f.start) < hangLimit {
				continue
			}
			hung := 0
			for k := 0; k < 3; k++ {
				done := make(chan struct{})
				go func() {
					defer close(done)
					f.sp.run(f.h)
					if nsc, ok := f.sp.(newStateChecker); ok {
						nsc.onNewState(f.h)
					}
				}()
				select {
				case <-done:
				case <-time.After(hangLimit):
					hung++
				}
			}
			if hung == 3 {
				onHang(f.sp, f.h)
				return
			}
			// it was slow, not hung: forget this flight
			inflight[i].CompareAndSwap(f, nil)
		}
	}
}
