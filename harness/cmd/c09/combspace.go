package main

// Phase B: the real exec.combiner (combining frame + spilling to disk + merging
// reduce reader).

import (
	"bytes"
	"crypto/md5"
	"encoding/binary"
	"fmt"
	"os"
	"path/filepath"
	"sort"
	"strings"
	"sync"
	"sync/atomic"

	"github.com/grailbio/bigslice/exec"
	"github.com/grailbio/bigslice/frame"
	"github.com/grailbio/bigslice/sliceio"
	"verifh/ev"
)

// sizes are process-wide internal sizes; one sub-phase per value.
type sizes struct {
	InitCap     int `json:"table_init_cap"`
	Scratch     int `json:"table_scratch"`
	Chunk       int `json:"exec_chunk_rows"`   // WriteTo's read vector
	SortioChunk int `json:"sortio_chunk_rows"` // reduce reader's per-run buffer
	SpillBatch  int `json:"spill_batch_rows"`  // rows per encoded batch in a spill file
}

func (z sizes) String() string {
	return fmt.Sprintf("cap%d-scr%d-chunk%d-merge%d-batch%d", z.InitCap, z.Scratch, z.Chunk, z.SortioChunk, z.SpillBatch)
}

type combStats struct {
	traces       int64
	spills       [4]int64 // histories with 0, 1, 2, >=3 spill files
	maxSpills    int64
	splitKey     int64 // some key is held in more than one place (several runs, or a run and the table)
	refill       int64 // some run is longer than the reduce reader's buffer (buffer refill while merging)
	batched      int64 // some run is longer than the spill batch (several encoded batches in one file)
	tableGrown   int64 // the table grew beyond its initial capacity
	spillAfterGr int64 // a spill happened and the table had grown
	readbacks    int64
	outcomes     *ev.Counter
	sample       sync.Once
}

type terminal struct {
	name    string
	outSize int // 0 = WriteTo
}

type combSpace struct {
	r      *ev.Run
	kd     *kind
	z      sizes
	target int
	al     alphabet
	frames []frame.Frame
	terms  []terminal
	st     *combStats
}

func (s *combSpace) label() string {
	return fmt.Sprintf("combiner/%s/spill=%d/%s", s.kd.name, s.target, s.z)
}
func (s *combSpace) alpha() alphabet { return s.al }

func (s *combSpace) violate(h hist, scenario, class string, nspill int, what string, extra map[string]interface{}) {
	// signature: universe + spill threshold + stage (state | Reader | WriteTo) + failure class;
	// output vector size, internal sizes, history and number of spill files are in the detail.
	stage := scenario
	if i := strings.Index(stage, "/"); i > 0 {
		stage = stage[:i]
	}
	sig := fmt.Sprintf("C09/combiner/%s/spill=%d/%s/%s", s.kd.name, s.target, stage, class)
	d := map[string]interface{}{
		"object": "combiner", "universe": s.kd.name, "spill_threshold": s.target, "sizes": s.z, "read_back_by": scenario,
		"history": h.names(s.al), "keys": s.kd.describe()["keys"], "failure": what, "spill_files": nspill,
	}
	for k, v := range extra {
		d[k] = v
	}
	s.r.Violate(sig, fmt.Sprintf("combiner(%s, spill threshold %d, %s) after %v then %s (%d spill files): %s", s.kd.name, s.target, s.z, h.names(s.al), scenario, nspill, what), d)
}

// readAll drains a reader with an output frame of outSize rows.
func (kd *kind) readAll(rd sliceio.Reader, outSize int) (keys []kv, vals []int, calls int, err error) {
	out := frame.Make(kd.typ, outSize, outSize)
	for {
		n, e := rd.Read(bg, out)
		calls++
		if n < 0 || n > outSize {
			return keys, vals, calls, fmt.Errorf("Read returned n=%d for a frame of %d rows", n, outSize)
		}
		if n > 0 {
			k, v := kd.read(out.Slice(0, n))
			keys = append(keys, k...)
			vals = append(vals, v...)
		}
		if e == sliceio.EOF {
			return keys, vals, calls, nil
		}
		if e != nil {
			return keys, vals, calls, e
		}
		if calls > 1<<16 {
			return keys, vals, calls, fmt.Errorf("no EOF after %d Read calls", calls)
		}
	}
}

// checkReadback: strictly ascending keys, one row per key, folded sums.
func (kd *kind) checkReadback(keys []kv, vals []int, m *model) (class, what string) {
	for i := 1; i < len(keys); i++ {
		if !kd.less(keys[i-1], keys[i]) {
			if !kd.less(keys[i], keys[i-1]) {
				return "duplicate-key", fmt.Sprintf("key %s appears in rows %d and %d", kd.str(keys[i]), i-1, i)
			}
			return "not-ascending", fmt.Sprintf("row %d key %s follows row %d key %s", i, kd.str(keys[i]), i-1, kd.str(keys[i-1]))
		}
	}
	return kd.compareHeld(keys, vals, m)
}

func (s *combSpace) replay(h hist) (*exec.VerifC09Combiner, *model, error) {
	c, err := exec.VerifC09NewCombiner(s.kd.typ, "c09", s.kd.comb, s.target)
	if err != nil {
		return nil, nil, err
	}
	m := &model{}
	for i := 0; i < int(h.n); i++ {
		o := &s.al.ops[h.ops[i]]
		if err := c.Combine(bg, s.frames[h.ops[i]]); err != nil {
			c.Discard()
			return nil, nil, err
		}
		for _, r := range o.rows {
			m.add(s.kd, r)
		}
	}
	return c, m, nil
}

// run: replay h on a fresh real combiner, dump its complete state (table slots +
// spilled runs), apply the step oracle, then read it back with the first terminal.
func (s *combSpace) run(h hist) (id stateID, ok bool) {
	nspill := 0
	scenario := "state"
	var cur *exec.VerifC09Combiner
	defer func() {
		if p := recover(); p != nil {
			s.violate(h, scenario, "panic", nspill, fmt.Sprintf("panic: %v", p), nil)
			ok = false
			if cur != nil {
				cur.Discard()
			}
		}
	}()
	kd := s.kd
	c, m, err := s.replay(h)
	if err != nil {
		ev.Fatal("combiner replay: %v", err)
	}
	cur = c
	// complete state: table slots + every spilled run + record count
	d := kd.dumpSlots(c.Table())
	var buf []byte
	buf = kd.canon(buf, d)
	buf = binary.AppendVarint(buf, int64(c.Total()))
	rds, err := c.Spiller().Readers()
	if err != nil {
		ev.Fatal("spiller readers: %v", err)
	}
	nspill = len(rds)
	allK := append([]kv{}, d.okeys...)
	allV := append([]int{}, d.ovals...)
	var runs []string
	maxRun := 0
	places := map[kv]int{}
	for _, k := range d.okeys {
		places[k]++
	}
	for ri, rc := range rds {
		ks, vs, _, err := kd.readAll(rc, 64)
		rc.Close()
		if err != nil {
			for _, rest := range rds[ri+1:] {
				rest.Close()
			}
			s.violate(h, scenario, "spill-file-unreadable", nspill, fmt.Sprintf("reading a spill file back: %v", err), nil)
			c.Discard()
			return id, false
		}
		allK = append(allK, ks...)
		allV = append(allV, vs...)
		var rb []byte
		seenInRun := map[kv]bool{}
		for i, k := range ks {
			if idx, ok := kd.index[k]; ok {
				rb = append(rb, byte(idx))
			} else {
				rb = append(rb, 0xff)
				rb = append(rb, kd.str(k)...)
				rb = append(rb, 0)
			}
			rb = binary.AppendVarint(rb, int64(vs[i]))
			if !seenInRun[k] {
				seenInRun[k] = true
				places[k]++
			}
		}
		runs = append(runs, string(rb))
		if len(ks) > maxRun {
			maxRun = len(ks)
		}
	}
	sort.Strings(runs) // the order of spill files is not part of the state
	for _, rb := range runs {
		buf = binary.AppendVarint(buf, int64(len(rb)))
		buf = append(buf, rb...)
	}
	id = md5.Sum(buf)
	// step oracle: fold of everything held (table + runs) equals the model
	fk, fv, dupInTable := foldHeld(kd, d, allK, allV)
	if dupInTable != "" {
		s.violate(h, scenario, "table-duplicate-key", nspill, "the in-memory table holds key "+dupInTable+" more than once", map[string]interface{}{"slots": slotsString(kd, d)})
		c.Discard()
		return id, false
	}
	if class, what := kd.compareHeld(fk, fv, m); class != "" {
		s.violate(h, scenario, "held-"+class, nspill, "table plus spilled runs, folded: "+what, map[string]interface{}{"slots": slotsString(kd, d), "held_rows": rowsString(kd, allK, allV)})
		c.Discard()
		return id, false
	}
	// non-vacuity
	atomic.AddInt64(&s.st.traces, 1)
	b := nspill
	if b > 3 {
		b = 3
	}
	atomic.AddInt64(&s.st.spills[b], 1)
	atomicMax(&s.st.maxSpills, int64(nspill))
	for _, n := range places {
		if n > 1 {
			atomic.AddInt64(&s.st.splitKey, 1)
			break
		}
	}
	if maxRun > s.z.SortioChunk {
		atomic.AddInt64(&s.st.refill, 1)
	}
	if maxRun > s.z.SpillBatch {
		atomic.AddInt64(&s.st.batched, 1)
	}
	if d.s.Cap > s.z.InitCap {
		atomic.AddInt64(&s.st.tableGrown, 1)
		if nspill > 0 {
			atomic.AddInt64(&s.st.spillAfterGr, 1)
		}
	}
	scenario = s.terms[0].name
	okRead, rows := s.readback(h, c, m, s.terms[0], nspill)
	cur = nil
	if !okRead {
		return id, false
	}
	s.st.outcomes.Add(ev.Hash(kd.name + rows))
	if nspill >= 2 && d.s.Cap > s.z.InitCap {
		s.st.sample.Do(func() {
			s.r.Sample(map[string]interface{}{"object": "combiner", "space": s.label(), "history": h.names(s.al), "spill_files": nspill,
				"rows_held_in_table_and_runs": rowsString(kd, allK, allV), "read_back_by": s.terms[0].name, "rows_read_back": rows, "model": m.String(kd)})
		})
	}
	return id, true
}

// onNewState reads the history back with the remaining terminals (each on a fresh
// replay: reading back invalidates the combiner). Called once per distinct state.
func (s *combSpace) onNewState(h hist) {
	nspill := -1
	scenario := "replay"
	var cur *exec.VerifC09Combiner
	defer func() {
		if p := recover(); p != nil {
			s.violate(h, scenario, "panic", nspill, fmt.Sprintf("panic: %v", p), nil)
			if cur != nil {
				cur.Discard()
			}
		}
	}()
	for _, term := range s.terms[1:] {
		scenario = "replay"
		c, m, err := s.replay(h)
		if err != nil {
			ev.Fatal("combiner replay: %v", err)
		}
		cur = c
		scenario = term.name
		nspill = countFiles(string(c.Spiller()))
		ok, _ := s.readback(h, c, m, term, nspill)
		cur = nil
		if !ok {
			return
		}
	}
}

// countFiles counts the regular files below dir (spill files), for reporting only.
func countFiles(dir string) int {
	n := 0
	filepath.Walk(dir, func(_ string, info os.FileInfo, err error) error {
		if err == nil && info.Mode().IsRegular() {
			n++
		}
		return nil
	})
	return n
}

// readback reads the combiner back through one terminal and applies the readback
// oracle. The combiner is invalid afterwards.
func (s *combSpace) readback(h hist, c *exec.VerifC09Combiner, m *model, term terminal, nspill int) (bool, string) {
	kd := s.kd
	dir := string(c.Spiller())
	var keys []kv
	var vals []int
	if term.outSize > 0 {
		rd, err := c.Reader()
		if err != nil {
			s.violate(h, term.name, "error", nspill, fmt.Sprintf("Reader(): %v", err), nil)
			c.Discard()
			return false, ""
		}
		keys, vals, _, err = kd.readAll(rd, term.outSize)
		if err != nil {
			s.violate(h, term.name, "error", nspill, fmt.Sprintf("reading Reader(): %v", err), map[string]interface{}{"rows_before_error": rowsString(kd, keys, vals)})
			c.Discard()
			return false, ""
		}
	} else {
		var out bytes.Buffer
		total, err := c.WriteTo(bg, sliceio.NewEncodingWriter(&out))
		if err != nil {
			s.violate(h, term.name, "error", nspill, fmt.Sprintf("WriteTo: %v", err), nil)
			c.Discard()
			return false, ""
		}
		keys, vals, _, err = kd.readAll(sliceio.NewDecodingReader(&out), 64)
		if err != nil {
			s.violate(h, term.name, "error", nspill, fmt.Sprintf("decoding what WriteTo wrote: %v", err), nil)
			c.Discard()
			return false, ""
		}
		if int(total) != len(keys) {
			s.violate(h, term.name, "row-count", nspill, fmt.Sprintf("WriteTo returned %d but wrote %d rows", total, len(keys)), nil)
			c.Discard()
			return false, ""
		}
	}
	atomic.AddInt64(&s.st.readbacks, 1)
	if class, what := kd.checkReadback(keys, vals, m); class != "" {
		s.violate(h, term.name, class, nspill, "rows read back: "+what, map[string]interface{}{"rows": rowsString(kd, keys, vals), "model": m.String(kd)})
		c.Discard()
		return false, ""
	}
	if _, err := os.Lstat(dir); err == nil || !os.IsNotExist(err) {
		s.violate(h, term.name, "spill-dir-left", nspill, fmt.Sprintf("spill directory still present after reading back (lstat err=%v)", err), nil)
		os.RemoveAll(dir)
		return false, ""
	}
	return true, fmt.Sprint(rowsString(kd, keys, vals))
}

// foldHeld folds all held rows per key; reports a key held twice in the table.
func foldHeld(kd *kind, d slotDump, keys []kv, vals []int) (fk []kv, fv []int, dupInTable string) {
	seen := map[kv]bool{}
	for _, k := range d.okeys {
		if seen[k] {
			return nil, nil, kd.str(k)
		}
		seen[k] = true
	}
	pos := map[kv]int{}
	for i, k := range keys {
		if p, ok := pos[k]; ok {
			fv[p] += vals[i]
			continue
		}
		pos[k] = len(fk)
		fk = append(fk, k)
		fv = append(fv, vals[i])
	}
	return fk, fv, ""
}
