package main

// Phase A: the real exec.combiningFrame (open-addressing table on a frame).

import (
	"context"
	"crypto/md5"
	"encoding/binary"
	"fmt"
	"sync"
	"sync/atomic"

	"github.com/grailbio/bigslice/exec"
	"github.com/grailbio/bigslice/frame"
	"github.com/grailbio/bigslice/slicefunc"
	"verifh/ev"
)

var addFunc = func() slicefunc.Func {
	f, ok := slicefunc.Of(func(a, b int) int { return a + b })
	if !ok {
		panic("slicefunc.Of")
	}
	return f
}()

var bg = context.Background()

// frameStats are measured over every executed history (non-vacuity).
type frameStats struct {
	traces         int64
	withResize     int64     // a resize happened somewhere in the history
	resizeTo       [40]int64 // histories whose LAST step resized to capacity 1<<i
	displaced      int64     // final table holds a key away from its home slot (probe collision)
	wrapped        int64     // final table holds a key in a slot below its home slot (wrap-around probe)
	rehashCollide  int64     // last step resized AND the new table holds a displaced key
	midBatchResize int64     // last step resized before the last row of its frame (rows remain to be combined after growth)
	compactNonEmpt int64     // last step was Compact of a non-empty table
	compactGrown   int64     // ... of a table that had grown
	maxLen         int64
	maxCap         int64
	sample         sync.Once
}

type frameSpace struct {
	r       *ev.Run
	kd      *kind
	initCap int
	scratch int
	al      alphabet
	frames  []frame.Frame
	st      *frameStats
}

func (s *frameSpace) label() string {
	return fmt.Sprintf("frame/%s/cap=%d/scratch=%d", s.kd.name, s.initCap, s.scratch)
}
func (s *frameSpace) alpha() alphabet { return s.al }

func lastOpClass(al alphabet, h hist) string {
	if h.n == 0 {
		return "init"
	}
	o := al.ops[h.ops[h.n-1]]
	if o.typ == opCompact {
		return "compact"
	}
	return fmt.Sprintf("combine%d", len(o.rows))
}

func (s *frameSpace) violate(h hist, class string, resized bool, what string, extra map[string]interface{}) {
	sig := fmt.Sprintf("C09/frame/%s/%s/%s", s.kd.name, lastOpClass(s.al, h), class)
	if resized {
		sig += "/after-resize"
	}
	d := map[string]interface{}{
		"object": "combiningFrame", "universe": s.kd.name, "init_cap": s.initCap, "scratch": s.scratch,
		"history": h.names(s.al), "keys": s.kd.describe()["keys"], "failure": what,
	}
	for k, v := range extra {
		d[k] = v
	}
	s.r.Violate(sig, fmt.Sprintf("combiningFrame(%s, cap %d, scratch %d) after %v: %s", s.kd.name, s.initCap, s.scratch, h.names(s.al), what), d)
}

// compareHeld compares held rows with the model: exactly one row per key of the
// model, with the folded value. Returns "" if equal.
func (kd *kind) compareHeld(keys []kv, vals []int, m *model) (class, what string) {
	var seen [nKeys]bool
	set := func(c, w string) {
		if classRank(c) > classRank(class) {
			class, what = c, w
		}
	}
	for i, k := range keys {
		idx, ok := kd.index[k]
		if !ok || !m.present[idx] {
			set("spurious-key", fmt.Sprintf("holds key %s (value %s) which was not fed; model %s", kd.str(k), kd.vstr(vals[i]), m.String(kd)))
			continue
		}
		if seen[idx] {
			set("duplicate-key", fmt.Sprintf("key %s=%s is held more than once; model %s", roleNames[idx], kd.str(k), m.String(kd)))
			continue
		}
		seen[idx] = true
		if vals[i] != m.sum[idx] {
			set("wrong-fold", fmt.Sprintf("key %s=%s has value %s, fold of the fed values is %s", roleNames[idx], kd.str(k), kd.vstr(vals[i]), kd.vstr(m.sum[idx])))
		}
	}
	for k := 0; k < nKeys; k++ {
		if m.present[k] && !seen[k] {
			set("key-lost", fmt.Sprintf("key %s=%s (fold %s) is not held; model %s", roleNames[k], kd.str(kd.keys[k]), kd.vstr(m.sum[k]), m.String(kd)))
		}
	}
	return
}

func classRank(c string) int {
	switch c {
	case "duplicate-key":
		return 4
	case "spurious-key":
		return 3
	case "key-lost":
		return 2
	case "wrong-fold":
		return 1
	}
	return 0
}

// slotDump is the decoded full slot state.
type slotDump struct {
	s     exec.VerifC09Slots
	keys  []kv
	vals  []int
	okeys []kv // occupied
	ovals []int
	oslot []int
}

func (kd *kind) dumpSlots(cf *exec.VerifC09Frame) slotDump {
	d := slotDump{s: cf.Slots()}
	d.keys, d.vals = kd.read(d.s.Data)
	for i, h := range d.s.Hits {
		if h != 0 {
			d.okeys = append(d.okeys, d.keys[i])
			d.ovals = append(d.ovals, d.vals[i])
			d.oslot = append(d.oslot, i)
		}
	}
	return d
}

// canon appends the canonical full slot dump: cap, len, threshold, mask, scratch and
// data lengths, then (hits, key, value) for every slot. Slots with hits==0 are
// written as empty: their stale contents are never read by the table.
func (kd *kind) canon(b []byte, d slotDump) []byte {
	b = binary.AppendVarint(b, int64(d.s.Cap))
	b = binary.AppendVarint(b, int64(d.s.Len))
	b = binary.AppendVarint(b, int64(d.s.Threshold))
	b = binary.AppendVarint(b, int64(d.s.Mask))
	b = binary.AppendVarint(b, int64(d.s.ScratchLen))
	b = binary.AppendVarint(b, int64(d.s.DataLen))
	b = binary.AppendVarint(b, int64(len(d.s.Hits)))
	for i, h := range d.s.Hits {
		b = binary.AppendVarint(b, int64(h))
		if h == 0 {
			continue
		}
		if idx, ok := kd.index[d.keys[i]]; ok {
			b = append(b, byte(idx))
		} else {
			b = append(b, 0xff)
			b = append(b, kd.str(d.keys[i])...)
			b = append(b, 0)
		}
		b = binary.AppendVarint(b, int64(d.vals[i]))
	}
	return b
}

func (s *frameSpace) run(h hist) (id stateID, ok bool) {
	resized := false
	defer func() {
		if p := recover(); p != nil {
			s.violate(h, "panic", resized, fmt.Sprintf("panic: %v", p), nil)
			ok = false
		}
	}()
	kd := s.kd
	cf := exec.VerifC09MakeCombiningFrame(kd.typ, kd.comb, s.initCap, s.scratch)
	var m model
	n := int(h.n)
	lastResized, midBatch := false, false
	lastNewCap := 0
	for i := 0; i < n; i++ {
		o := &s.al.ops[h.ops[i]]
		last := i == n-1
		switch o.typ {
		case opCombine:
			c0 := cf.Cap()
			prev := m
			cf.Combine(s.frames[h.ops[i]])
			for _, r := range o.rows {
				m.add(kd, r)
			}
			if c1 := cf.Cap(); c1 != c0 {
				resized = true
				if last {
					lastResized, lastNewCap = true, c1
					// Did rows remain to be combined after the row that triggered growth
					// (the row that made the number of distinct keys exceed the threshold)?
					thr := int(exec.VerifC09LoadFactor * float64(c0))
					for j, r := range o.rows {
						if !prev.present[r.k] {
							prev.present[r.k] = true
							prev.n++
						}
						if prev.n > thr {
							midBatch = j < len(o.rows)-1
							break
						}
					}
				}
			}
		case opCompact:
			out := cf.Compact()
			if last {
				keys, vals := kd.read(out)
				if class, what := kd.compareHeld(keys, vals, &m); class != "" {
					s.violate(h, "compact-"+class, resized, "Compact() returned rows where "+what, map[string]interface{}{"returned_rows": rowsString(kd, keys, vals)})
					return id, false
				}
				if m.n > 0 {
					atomic.AddInt64(&s.st.compactNonEmpt, 1)
					if cf.Cap() > s.initCap {
						atomic.AddInt64(&s.st.compactGrown, 1)
					}
				}
			}
			m.clear()
		}
	}
	d := kd.dumpSlots(cf)
	if class, what := kd.compareHeld(d.okeys, d.ovals, &m); class != "" {
		s.violate(h, "table-"+class, resized, "the table "+what, map[string]interface{}{"slots": slotsString(kd, d)})
		return id, false
	}
	// non-vacuity measurements on the final table
	atomic.AddInt64(&s.st.traces, 1)
	if resized {
		atomic.AddInt64(&s.st.withResize, 1)
	}
	disp, wrap := false, false
	for j, k := range d.okeys {
		home := int(kd.hash[kd.index[k]]) & d.s.Mask
		if home != d.oslot[j] {
			disp = true
			if d.oslot[j] < home {
				wrap = true
			}
		}
	}
	if disp {
		atomic.AddInt64(&s.st.displaced, 1)
	}
	if wrap {
		atomic.AddInt64(&s.st.wrapped, 1)
	}
	if lastResized {
		for b := 0; b < len(s.st.resizeTo); b++ {
			if 1<<b == lastNewCap {
				atomic.AddInt64(&s.st.resizeTo[b], 1)
			}
		}
		if disp {
			atomic.AddInt64(&s.st.rehashCollide, 1)
		}
		if midBatch {
			atomic.AddInt64(&s.st.midBatchResize, 1)
		}
		if disp && wrap && lastNewCap >= 16 {
			s.st.sample.Do(func() {
				s.r.Sample(map[string]interface{}{"object": "combiningFrame", "space": s.label(), "history": h.names(s.al),
					"table_after_last_step": slotsString(kd, d), "model": m.String(kd), "note": "last step grew the table; the rehashed table holds displaced (wrapped) keys"})
			})
		}
	}
	atomicMax(&s.st.maxLen, int64(len(d.okeys)))
	atomicMax(&s.st.maxCap, int64(d.s.Cap))
	var buf [512]byte
	id = md5.Sum(kd.canon(buf[:0], d))
	return id, true
}

func atomicMax(p *int64, v int64) {
	for {
		old := atomic.LoadInt64(p)
		if v <= old || atomic.CompareAndSwapInt64(p, old, v) {
			return
		}
	}
}

func rowsString(kd *kind, keys []kv, vals []int) []string {
	out := make([]string, len(keys))
	for i := range keys {
		out[i] = fmt.Sprintf("%s:%s", kd.str(keys[i]), kd.vstr(vals[i]))
	}
	return out
}

func slotsString(kd *kind, d slotDump) map[string]interface{} {
	slots := make([]string, len(d.s.Hits))
	for i, h := range d.s.Hits {
		if h == 0 {
			slots[i] = "-"
		} else {
			slots[i] = fmt.Sprintf("hits=%d %s:%s", h, kd.str(d.keys[i]), kd.vstr(d.vals[i]))
		}
	}
	return map[string]interface{}{"cap": d.s.Cap, "len": d.s.Len, "threshold": d.s.Threshold, "slots": slots}
}
