package main

// Hot-key family: one key is combined N times since the last Compact, for every N
// in a boundary set around the powers of two (a per-slot counter, index or length
// narrower than int would wrap there), interleaved with cold keys in every
// position, on the real combiningFrame (Combine + Compact) and through the real
// combiner (Reader and WriteTo, with and without spilling). Exhaustive over the
// stated cross product; compared with the reference fold.

import (
	"bytes"
	"fmt"
	"os"
	"runtime"
	"sort"
	"sync"
	"sync/atomic"

	"github.com/grailbio/bigslice/exec"
	"github.com/grailbio/bigslice/frame"
	"github.com/grailbio/bigslice/sliceio"
	"verifh/ev"
)

const hotKey = kA0

// hotNs: 2^k-1, 2^k, 2^k+1.
func hotNs(thorough bool) []int {
	maxK := 16
	if thorough {
		maxK = 18
	}
	var ns []int
	for k := 7; k <= maxK; k++ {
		ns = append(ns, 1<<k-1, 1<<k, 1<<k+1)
	}
	return ns
}

var hotColdSets = []struct {
	name string
	keys []int
}{
	{"cold=A1(collides-with-hot)", []int{kA1}},
	{"cold=D0(no-collision)", []int{kD0}},
	{"cold=6-keys(forces-growth)", []int{kA1, kB0, kC0, kD0, kZ, kB1}},
}

var hotTerms = []terminal{{"Reader/out=3", 3}, {"WriteTo", 0}}

var hotPosNames = []string{"cold-first", "cold-in-the-middle", "cold-last"}

const coldValue = 7

type hotCase struct {
	kd      *kind
	n       int
	coldSet int
	pos     int
	// frame level
	single bool // N Combine calls of one row (else frames of up to 128 rows)
	touch  bool // combine the hot key once more before Compact
	// combiner level
	combiner bool
	spill    bool // spill threshold 1 (else never spills)
	chunked  bool // hot rows in 128-row frames (else one frame of N rows)
	term     terminal
}

// count is how many times the hot key is combined before the failing check can see it.
func (c hotCase) count() int {
	if c.touch {
		return c.n + 1
	}
	return c.n
}

func (c hotCase) level() string {
	if !c.combiner {
		return "frame"
	}
	s := "no-spill"
	if c.spill {
		s = "spill=1"
	}
	return "combiner/" + s
}

func (c hotCase) String() string {
	d := fmt.Sprintf("%s hot=%s x%d, %s, %s", c.kd.name, roleNames[hotKey], c.n, hotColdSets[c.coldSet].name, hotPosNames[c.pos])
	if c.combiner {
		if c.chunked {
			d += ", hot rows in 128-row frames"
		} else {
			d += ", hot rows in one frame"
		}
		return d + ", " + c.level() + " read back by " + c.term.name
	}
	if c.single {
		d += ", one row per Combine (scratch 1)"
	} else {
		d += ", 128-row frames (scratch 3)"
	}
	if c.touch {
		d += ", hot once more, Compact"
	} else {
		d += ", Compact"
	}
	return d
}

type hotFrames struct {
	big  frame.Frame // maxN rows of the hot key, value +1
	cold []frame.Frame
}

type hotFailure struct {
	c           hotCase
	class, what string
}

type hotStats struct {
	Cases          int64    `json:"cases"`
	FrameCases     int64    `json:"frame_cases"`
	CombinerCases  int64    `json:"combiner_cases"`
	Rows           int64    `json:"rows_combined"`
	SpilledCases   int64    `json:"combiner_cases_that_spilled"`
	GrewCases      int64    `json:"cases_where_the_table_grew"`
	MaxHits        int64    `json:"max_hit_count_observed_in_a_slot"`
	Ns             []int    `json:"hot_counts_N"`
	Outcomes       int      `json:"distinct_outcomes"`
	Dimensions     []string `json:"dimensions"`
	Skipped        bool     `json:"skipped_for_budget,omitempty"`
	WallS          float64  `json:"wall_s"`
	ViolatingCases int      `json:"violating_cases"`
}

func (m *model) addN(k, v, n int) {
	if n == 0 {
		return
	}
	if !m.present[k] {
		m.present[k] = true
		m.n++
	}
	m.sum[k] += v * n // hot-key family runs on int-valued universes only (identity encoding)
}

// feedPlan returns the hot counts before and after the cold keys.
func (c hotCase) feedPlan() (before, after int) {
	switch c.pos {
	case 0:
		return 0, c.n
	case 1:
		return c.n / 2, c.n - c.n/2
	}
	return c.n, 0
}

func runHotFrame(c hotCase, hf *hotFrames, st *hotStats) (class, what string) {
	defer func() {
		if p := recover(); p != nil {
			class, what = "panic", fmt.Sprintf("panic: %v", p)
		}
	}()
	kd := c.kd
	scratch := 3
	if c.single {
		scratch = 1
	}
	cf := exec.VerifC09MakeCombiningFrame(kd.typ, kd.comb, 8, scratch)
	var m model
	feedHot := func(x int) {
		m.addN(hotKey, 1, x)
		step := 128
		if c.single {
			step = 1
		}
		for x > 0 {
			k := step
			if x < k {
				k = x
			}
			cf.Combine(hf.big.Slice(0, k))
			x -= k
		}
	}
	b, a := c.feedPlan()
	feedHot(b)
	cf.Combine(hf.cold[c.coldSet])
	for _, k := range hotColdSets[c.coldSet].keys {
		m.addN(k, coldValue, 1)
	}
	feedHot(a)
	atomic.AddInt64(&st.Rows, int64(c.n+len(hotColdSets[c.coldSet].keys)))
	check := func(stage string) bool {
		d := kd.dumpSlots(cf)
		for _, h := range d.s.Hits {
			atomicMax(&st.MaxHits, int64(h))
		}
		if cl, w := kd.compareHeld(d.okeys, d.ovals, &m); cl != "" {
			class, what = "table-"+cl, stage+": the table "+w
			return false
		}
		return true
	}
	if !check("after feeding") {
		return
	}
	if c.touch {
		cf.Combine(hf.big.Slice(0, 1))
		m.addN(hotKey, 1, 1)
		if !check("after combining the hot key once more") {
			return
		}
	}
	if cf.Cap() > 8 {
		atomic.AddInt64(&st.GrewCases, 1)
	}
	out := cf.Compact()
	keys, vals := kd.read(out)
	if cl, w := kd.compareHeld(keys, vals, &m); cl != "" {
		return "compact-" + cl, "Compact() returned rows where " + w
	}
	return "", ""
}

func runHotCombiner(c hotCase, hf *hotFrames, st *hotStats) (class, what string) {
	var cur *exec.VerifC09Combiner
	defer func() {
		if p := recover(); p != nil {
			class, what = "panic", fmt.Sprintf("panic: %v", p)
			if cur != nil {
				cur.Discard()
			}
		}
	}()
	kd := c.kd
	target := 1 << 30
	if c.spill {
		target = 1
	}
	cb, err := exec.VerifC09NewCombiner(kd.typ, "c09", kd.comb, target)
	if err != nil {
		ev.Fatal("newCombiner: %v", err)
	}
	cur = cb
	var m model
	feedHot := func(x int) {
		m.addN(hotKey, 1, x)
		step := x
		if c.chunked {
			step = 128
		}
		for x > 0 {
			k := step
			if x < k {
				k = x
			}
			if err := cb.Combine(bg, hf.big.Slice(0, k)); err != nil {
				ev.Fatal("combiner.Combine: %v", err)
			}
			x -= k
		}
	}
	b, a := c.feedPlan()
	feedHot(b)
	if err := cb.Combine(bg, hf.cold[c.coldSet]); err != nil {
		ev.Fatal("combiner.Combine: %v", err)
	}
	for _, k := range hotColdSets[c.coldSet].keys {
		m.addN(k, coldValue, 1)
	}
	feedHot(a)
	atomic.AddInt64(&st.Rows, int64(c.n+len(hotColdSets[c.coldSet].keys)))
	dir := string(cb.Spiller())
	if countFiles(dir) > 0 {
		atomic.AddInt64(&st.SpilledCases, 1)
	}
	if cb.Table().Cap() > 8 {
		atomic.AddInt64(&st.GrewCases, 1)
	}
	var keys []kv
	var vals []int
	if c.term.outSize > 0 {
		rd, err := cb.Reader()
		if err != nil {
			cb.Discard()
			return "error", fmt.Sprintf("Reader(): %v", err)
		}
		keys, vals, _, err = kd.readAll(rd, c.term.outSize)
		if err != nil {
			cb.Discard()
			return "error", fmt.Sprintf("reading Reader(): %v", err)
		}
	} else {
		var out bytes.Buffer
		total, err := cb.WriteTo(bg, sliceio.NewEncodingWriter(&out))
		if err != nil {
			cb.Discard()
			return "error", fmt.Sprintf("WriteTo: %v", err)
		}
		keys, vals, _, err = kd.readAll(sliceio.NewDecodingReader(&out), 64)
		if err != nil {
			cb.Discard()
			return "error", fmt.Sprintf("decoding what WriteTo wrote: %v", err)
		}
		if int(total) != len(keys) {
			cb.Discard()
			return "row-count", fmt.Sprintf("WriteTo returned %d but wrote %d rows", total, len(keys))
		}
	}
	cur = nil
	if cl, w := kd.checkReadback(keys, vals, &m); cl != "" {
		cb.Discard()
		return cl, fmt.Sprintf("rows read back %v: %s", rowsString(kd, keys, vals), w)
	}
	if _, err := os.Lstat(dir); err == nil || !os.IsNotExist(err) {
		os.RemoveAll(dir)
		return "spill-dir-left", fmt.Sprintf("spill directory still present after reading back (lstat err=%v)", err)
	}
	return "", ""
}

// hotKeyFamily runs the whole cross product. The combiner's internal sizes are
// process-wide, so this must not run concurrently with phase B.
func hotKeyFamily(r *ev.Run, kinds []*kind) *hotStats {
	ns := hotNs(r.Thorough())
	st := &hotStats{Ns: ns, Dimensions: []string{
		"universe: int / string / (int,int) prefix",
		"N: 2^k-1, 2^k, 2^k+1",
		"cold keys: one colliding with the hot key / one not colliding / six (forces growth 8->16)",
		"position of the cold keys: before, in the middle of, after the hot rows",
		"frame level (cap 8): one row per Combine with scratch 1, or 128-row frames with scratch 3; then Compact, or the hot key once more and Compact; table compared after feeding",
		"combiner level (table cap 8, scratch 3, vectors of 3): never spilling or spill threshold 1; hot rows as one frame, or (never spilling) as 128-row frames; read back by Reader(out=3) and by WriteTo",
		"N <= 1025: the full cross product of the above. Larger N: reduced (colliding cold key; frame: cold first+Compact, cold last+touch+Compact in 128-row frames; combiner: cold last, one frame, spill/no spill x Reader/WriteTo) for 65535..65537 in the quick tier and for every N in the thorough tier; quick tier 2047..32769: one frame case and one spilling combiner case, int keys only",
	}}
	t0 := r.Elapsed()
	maxN := ns[len(ns)-1]
	var cases []hotCase
	frames := map[*kind]*hotFrames{}
	for _, kd := range kinds {
		hk := make([]kv, maxN)
		hv := make([]int, maxN)
		for i := range hk {
			hk[i], hv[i] = kd.keys[hotKey], 1
		}
		hf := &hotFrames{big: kd.mk(hk, hv)}
		for _, cs := range hotColdSets {
			ck := make([]kv, len(cs.keys))
			cv := make([]int, len(cs.keys))
			for i, k := range cs.keys {
				ck[i], cv[i] = kd.keys[k], coldValue
			}
			hf.cold = append(hf.cold, kd.mk(ck, cv))
		}
		frames[kd] = hf
		for _, n := range ns {
			switch {
			case n <= 1025:
				// full cross product
				for cs := range hotColdSets {
					for pos := 0; pos < 3; pos++ {
						for _, touch := range []bool{false, true} {
							cases = append(cases,
								hotCase{kd: kd, n: n, coldSet: cs, pos: pos, touch: touch},
								hotCase{kd: kd, n: n, coldSet: cs, pos: pos, touch: touch, single: true})
						}
						if cs == 1 {
							continue // combiner level: the colliding cold key and the six cold keys
						}
						for _, term := range hotTerms {
							cases = append(cases,
								hotCase{kd: kd, n: n, coldSet: cs, pos: pos, combiner: true, spill: false, term: term},
								hotCase{kd: kd, n: n, coldSet: cs, pos: pos, combiner: true, spill: false, chunked: true, term: term},
								hotCase{kd: kd, n: n, coldSet: cs, pos: pos, combiner: true, spill: true, term: term})
						}
					}
				}
			case r.Thorough() || (n >= 65535 && n <= 65537):
				// reduced: colliding cold key; cold first + Compact, cold last + touch + Compact;
				// combiner: cold last, one frame, with and without spilling, Reader and WriteTo
				cases = append(cases,
					hotCase{kd: kd, n: n, coldSet: 0, pos: 0},
					hotCase{kd: kd, n: n, coldSet: 0, pos: 2, touch: true})
				for _, term := range hotTerms {
					cases = append(cases,
						hotCase{kd: kd, n: n, coldSet: 0, pos: 2, combiner: true, spill: false, term: term},
						hotCase{kd: kd, n: n, coldSet: 0, pos: 2, combiner: true, spill: true, term: term})
				}
			case kd.name == "int-keys":
				// minimal (quick tier, 2047..32769): one frame case, one spilling combiner case
				cases = append(cases,
					hotCase{kd: kd, n: n, coldSet: 0, pos: 2, touch: true},
					hotCase{kd: kd, n: n, coldSet: 0, pos: 2, combiner: true, spill: true, term: hotTerms[0]})
			}
		}
	}
	// biggest first (load balance); the report is ordered afterwards
	sort.SliceStable(cases, func(i, j int) bool { return cases[i].n > cases[j].n })
	var mu sync.Mutex
	var fails []hotFailure
	outcomes := ev.NewCounter()
	ev.Parallel(len(cases), runtime.NumCPU(), func(i int) {
		c := cases[i]
		var class, what string
		if c.combiner {
			class, what = runHotCombiner(c, frames[c.kd], st)
			atomic.AddInt64(&st.CombinerCases, 1)
		} else {
			class, what = runHotFrame(c, frames[c.kd], st)
			atomic.AddInt64(&st.FrameCases, 1)
		}
		atomic.AddInt64(&st.Cases, 1)
		outcomes.Add(fmt.Sprintf("%s/%s/%d/%d/%s", c.kd.name, c.level(), c.n, c.coldSet, class))
		if class != "" {
			mu.Lock()
			fails = append(fails, hotFailure{c, class, what})
			mu.Unlock()
		}
	})
	st.Outcomes = outcomes.Distinct()
	st.ViolatingCases = len(fails)
	// One violation per (universe, level, class); its signature names the SMALLEST
	// failing N, which is deterministic because the family is exhaustive.
	groups := map[string][]hotFailure{}
	for _, f := range fails {
		k := fmt.Sprintf("C09/hotkey/%s/%s/%s", f.c.level(), f.c.kd.name, f.class)
		groups[k] = append(groups[k], f)
	}
	var gk []string
	for k := range groups {
		gk = append(gk, k)
	}
	sort.Strings(gk)
	for _, k := range gk {
		g := groups[k]
		sort.SliceStable(g, func(i, j int) bool {
			if g[i].c.count() != g[j].c.count() {
				return g[i].c.count() < g[j].c.count()
			}
			return g[i].c.String() < g[j].c.String()
		})
		seen := map[int]bool{}
		var failingNs []int
		for _, f := range g {
			if !seen[f.c.count()] {
				seen[f.c.count()] = true
				failingNs = append(failingNs, f.c.count())
			}
		}
		f := g[0]
		r.Violate(fmt.Sprintf("%s/first-count=%d", k, f.c.count()),
			fmt.Sprintf("hot key combined %d times since the last Compact: %s: %s (%d failing cases in this class; failing counts: %v)", f.c.count(), f.c, f.what, len(g), failingNs),
			map[string]interface{}{"case": f.c.String(), "failure": f.what, "failing_cases": len(g), "failing_counts": failingNs, "keys": f.c.kd.describe()["keys"]})
	}
	st.WallS = (r.Elapsed() - t0).Seconds()
	return st
}
