package main

// Key universes for C09: int keys, string keys and a 2-column (int,int) key prefix.
// The 13 keys of each universe are CHOSEN AT START from a stream of candidates by
// their real seeded hash (frame.Frame.HashWithSeed with the table's seed), so that
// they collide modulo 8, 16 and 32 in a prescribed pattern (see pattern()).

import (
	"fmt"
	"reflect"
	"strings"

	"github.com/grailbio/bigslice/exec"
	"github.com/grailbio/bigslice/frame"
	"github.com/grailbio/bigslice/slicefunc"
	"github.com/grailbio/bigslice/slicetype"
	"verifh/ev"
)

// kv is a key value of any universe (unused fields are zero).
type kv struct {
	a, b int
	s    string
}

type prefixedType struct {
	slicetype.Type
	prefix int
}

func (p prefixedType) Prefix() int { return p.prefix }

var (
	typInt    = reflect.TypeOf(int(0))
	typString = reflect.TypeOf("")
	typPN     = reflect.TypeOf(PN{})
)

// PN is a pointer-free struct value: a row value +v is {Pos: v}, -v is {Neg: v}; the
// fold is the field-wise sum. gob omits zero-valued struct fields, so such values
// expose any reuse of decode buffers that are not zeroed.
type PN struct{ Pos, Neg int }

const pnShift = 20

var pnFunc = func() slicefunc.Func {
	f, ok := slicefunc.Of(func(a, b PN) PN { return PN{a.Pos + b.Pos, a.Neg + b.Neg} })
	if !ok {
		panic("slicefunc.Of")
	}
	return f
}()

func pnOf(v int) PN {
	if v >= 0 {
		return PN{Pos: v}
	}
	return PN{Neg: -v}
}

func pnEnc(p PN) int { return p.Pos<<pnShift + p.Neg }

// kind describes one key universe.
type kind struct {
	name string
	typ  slicetype.Type
	cand func(i int) kv
	// mk builds a real frame (key columns + int value column) from keys and values.
	mk func(keys []kv, vals []int) frame.Frame
	// read extracts keys and values of rows [0,f.Len()) of a real frame.
	read func(f frame.Frame) ([]kv, []int)
	less func(x, y kv) bool
	str  func(k kv) string
	// value column: comb is the (commutative, associative) combine function; a row value
	// v (+1/-1/...) is stored as mk decides and read back ENCODED as an int such that the
	// encoding of a fold is the sum of the encodings (int values: identity; struct{Pos,Neg}
	// values: Pos<<20 + Neg). enc maps a row value to its encoding, vstr prints one.
	comb slicefunc.Func
	enc  func(v int) int
	vstr func(e int) string

	// chosen at start:
	keys  []kv
	hash  []uint32
	index map[kv]int
	rank  []int // rank[i] = position of key i in ascending key order
}

const nKeys = 13

// key roles (indices into kind.keys)
const (
	kA0 = iota
	kA1
	kA2
	kA3
	kB0
	kB1
	kB2
	kC0
	kC1
	kC2
	kD0
	kD1
	kZ
)

var roleNames = []string{"A0", "A1", "A2", "A3", "B0", "B1", "B2", "C0", "C1", "C2", "D0", "D1", "Z"}

func newKinds() []*kind {
	intKind := &kind{
		name: "int-keys",
		typ:  slicetype.New(typInt, typInt),
		cand: func(i int) kv { return kv{a: i + 1} },
		mk: func(keys []kv, vals []int) frame.Frame {
			ks := make([]int, len(keys))
			for i, k := range keys {
				ks[i] = k.a
			}
			return frame.Slices(ks, append([]int{}, vals...))
		},
		read: func(f frame.Frame) ([]kv, []int) {
			ks := f.Interface(0).([]int)
			vs := f.Interface(1).([]int)
			out := make([]kv, len(ks))
			for i, k := range ks {
				out[i] = kv{a: k}
			}
			return out, append([]int{}, vs...)
		},
		less: func(x, y kv) bool { return x.a < y.a },
		str:  func(k kv) string { return fmt.Sprint(k.a) },
	}
	strKind := &kind{
		name: "string-keys",
		typ:  slicetype.New(typString, typInt),
		cand: func(i int) kv { return kv{s: strings.Repeat("x", i%5) + fmt.Sprint(i)} },
		mk: func(keys []kv, vals []int) frame.Frame {
			ks := make([]string, len(keys))
			for i, k := range keys {
				ks[i] = k.s
			}
			return frame.Slices(ks, append([]int{}, vals...))
		},
		read: func(f frame.Frame) ([]kv, []int) {
			ks := f.Interface(0).([]string)
			vs := f.Interface(1).([]int)
			out := make([]kv, len(ks))
			for i, k := range ks {
				out[i] = kv{s: k}
			}
			return out, append([]int{}, vs...)
		},
		less: func(x, y kv) bool { return x.s < y.s },
		str:  func(k kv) string { return fmt.Sprintf("%q", k.s) },
	}
	pairKind := &kind{
		name: "pair-keys",
		typ:  prefixedType{slicetype.New(typInt, typInt, typInt), 2},
		// (a,b) with a != b most of the time; both orders of a pair occur.
		cand: func(i int) kv { return kv{a: i%37 - 3, b: i/37 - 2} },
		mk: func(keys []kv, vals []int) frame.Frame {
			as := make([]int, len(keys))
			bs := make([]int, len(keys))
			for i, k := range keys {
				as[i], bs[i] = k.a, k.b
			}
			return frame.Slices(as, bs, append([]int{}, vals...)).Prefixed(2)
		},
		read: func(f frame.Frame) ([]kv, []int) {
			as := f.Interface(0).([]int)
			bs := f.Interface(1).([]int)
			vs := f.Interface(2).([]int)
			out := make([]kv, len(as))
			for i := range as {
				out[i] = kv{a: as[i], b: bs[i]}
			}
			return out, append([]int{}, vs...)
		},
		less: func(x, y kv) bool {
			if x.a != y.a {
				return x.a < y.a
			}
			return x.b < y.b
		},
		str: func(k kv) string { return fmt.Sprintf("(%d,%d)", k.a, k.b) },
	}
	for _, kd := range []*kind{intKind, strKind, pairKind} {
		kd.comb = addFunc
		kd.enc = func(v int) int { return v }
		kd.vstr = func(e int) string { return fmt.Sprint(e) }
	}
	// int keys with pointer-free struct values (combiner level only)
	pnKind := &kind{
		name: "int-keys+struct-values",
		typ:  slicetype.New(typInt, typPN),
		cand: intKind.cand,
		mk: func(keys []kv, vals []int) frame.Frame {
			ks := make([]int, len(keys))
			vs := make([]PN, len(keys))
			for i, k := range keys {
				ks[i], vs[i] = k.a, pnOf(vals[i])
			}
			return frame.Slices(ks, vs)
		},
		read: func(f frame.Frame) ([]kv, []int) {
			ks := f.Interface(0).([]int)
			vs := f.Interface(1).([]PN)
			out := make([]kv, len(ks))
			ev := make([]int, len(ks))
			for i, k := range ks {
				out[i], ev[i] = kv{a: k}, pnEnc(vs[i])
			}
			return out, ev
		},
		less: intKind.less,
		str:  intKind.str,
		comb: pnFunc,
		enc:  func(v int) int { return pnEnc(pnOf(v)) },
		vstr: func(e int) string { return fmt.Sprintf("{Pos:%d Neg:%d}", e>>pnShift, e&(1<<pnShift-1)) },
	}
	return []*kind{intKind, strKind, pairKind, pnKind}
}

// realHashes returns the table's hash of each key, computed by the real frame code.
func (kd *kind) realHashes(keys []kv) []uint32 {
	f := kd.mk(keys, make([]int, len(keys)))
	// hash must be taken on a frame with the table's prefix
	f = f.Prefixed(kd.typ.Prefix())
	out := make([]uint32, len(keys))
	for i := range keys {
		out[i] = f.HashWithSeed(i, exec.VerifC09HashSeed)
	}
	return out
}

type pat struct{ mask, want uint32 }

// pattern returns the (mask,want) a key of each role must satisfy. t is the
// home slot modulo 8 of groups A and B.
//
//	A0..A3: identical low 5 bits, all of bits 3,4 set  -> collide modulo 8, 16 and 32,
//	        and sit at the END of the table for t=6,7 (wrap-around probes)
//	B0,B1 : same slot modulo 8 as A, bit 3 clear        -> collide with A modulo 8 only
//	B2    : same slot modulo 16 as B0, bit 4 set        -> splits from B0 only at 32
//	C0..C2: home slot = A's home + 1 at every size      -> sits on A's first probe
//	D0    : home slot = A's home + 3 at every size      -> sits on A's second probe
//	D1    : home slot = A's home + 3 modulo 8
//	Z     : the zero key (0, "", (0,0)) whatever its hash
func pattern(t uint32) []pat {
	hi := t | 24
	return []pat{
		kA0: {31, hi}, kA1: {31, hi}, kA2: {31, hi}, kA3: {31, hi},
		kB0: {31, t}, kB1: {31, t}, kB2: {31, t | 16},
		kC0: {31, (hi + 1) & 31}, kC1: {31, (hi + 1) & 31}, kC2: {31, (hi + 1) & 31},
		kD0: {31, (hi + 3) & 31}, kD1: {7, (t + 3) & 7},
	}
}

// choose picks the 13 keys of a universe. seed only rotates the home slot and
// the start of the candidate stream; the choice is a pure function of seed.
func (kd *kind) choose(seed int64) {
	t := uint32((6 + seed) & 7)
	pats := pattern(t)
	const batch = 4096
	chosen := make([]kv, nKeys)
	have := make([]bool, nKeys)
	used := map[kv]bool{}
	zero := kv{}
	chosen[kZ], have[kZ] = zero, true
	used[zero] = true
	start := int(seed&0xffff) * 7
	need := nKeys - 1
	for off := 0; need > 0 && off < 1<<22; off += batch {
		cands := make([]kv, batch)
		for i := range cands {
			cands[i] = kd.cand(start + off + i)
		}
		hs := kd.realHashes(cands)
		for i, c := range cands {
			if used[c] {
				continue
			}
			for role, p := range pats {
				if have[role] || hs[i]&p.mask != p.want {
					continue
				}
				if kd.name == "pair-keys" && role == kA0 && c.a == c.b {
					continue
				}
				chosen[role], have[role] = c, true
				used[c] = true
				need--
				// for the 2-column prefix, (b,a) has the SAME 32-bit hash as (a,b)
				// (column hashes are xor-ed): a full-hash collision.
				if kd.name == "pair-keys" && role == kA0 && !have[kA1] {
					sw := kv{a: c.b, b: c.a}
					if h := kd.realHashes([]kv{sw})[0]; h == hs[i] && !used[sw] {
						chosen[kA1], have[kA1] = sw, true
						used[sw] = true
						need--
					}
				}
				break
			}
			if need == 0 {
				break
			}
		}
	}
	if need > 0 {
		ev.Fatal("%s: could not find keys for every collision role", kd.name)
	}
	kd.keys = chosen
	kd.hash = kd.realHashes(chosen)
	kd.index = map[kv]int{}
	for i, k := range chosen {
		if _, dup := kd.index[k]; dup {
			ev.Fatal("%s: duplicate chosen key %v", kd.name, k)
		}
		kd.index[k] = i
	}
	// sanity (machinery, not verdict): the chosen keys do collide as intended.
	for _, m := range []uint32{7, 15, 31} {
		for r := kA1; r <= kA3; r++ {
			if kd.hash[r]&m != kd.hash[kA0]&m {
				ev.Fatal("%s: A keys do not collide modulo %d", kd.name, m+1)
			}
		}
	}
	if kd.hash[kB0]&7 != kd.hash[kA0]&7 || kd.hash[kB0]&15 == kd.hash[kA0]&15 {
		ev.Fatal("%s: B0 pattern broken", kd.name)
	}
	kd.rank = make([]int, nKeys)
	for i := range chosen {
		for j := range chosen {
			if kd.less(chosen[j], chosen[i]) {
				kd.rank[i]++
			}
		}
	}
}

func (kd *kind) describe() map[string]interface{} {
	ks := map[string]interface{}{}
	for i, k := range kd.keys {
		ks[roleNames[i]] = fmt.Sprintf("%s hash=%08x slot8=%d slot16=%d slot32=%d", kd.str(k), kd.hash[i], kd.hash[i]&7, kd.hash[i]&15, kd.hash[i]&31)
	}
	return map[string]interface{}{"universe": kd.name, "keys": ks}
}
