// C09 — combining buffers hold one correctly folded value per key at any size.
//
// Model checking of the real exec.combiningFrame and exec.combiner (reached through
// injected accessors): breadth-first enumeration of operation histories over small
// alphabets of Combine(frame of 1–3 rows) / Compact, keys chosen at start so that
// they collide modulo 8, 16 and 32 under the table's real seeded hash, values ±1.
// The successor of a history is obtained by replaying it on a fresh real object;
// histories are de-duplicated on the canonical FULL slot dump. After every step the
// rows held are compared with a plain map; every combiner history is read back
// through Reader() (several output vector sizes) and WriteTo for spill thresholds
// 1,2,3,5. See DESIGN.md §5 C09.
package main

import (
	"flag"
	"fmt"
	"os"
	"runtime/debug"
	"runtime/pprof"
	"sort"
	"strings"
	"sync"
	"time"

	"github.com/grailbio/bigslice/exec"
	"github.com/grailbio/bigslice/sliceio"
	"github.com/grailbio/bigslice/sortio"
	"verifh/ev"
)

type framePlan struct {
	al      alphabet
	depth   int
	caps    []int
	scratch []int
	kinds   string // space separated universes; "" = all
}

type combPlan struct {
	z       sizes
	nops    int
	depth   int
	targets []int
	terms   []terminal
	kinds   string
}

func hasKind(list string, kd *kind) bool {
	return list == "" || strings.Contains(" "+list+" ", " "+kd.name+" ")
}

var (
	flagOnly = flag.String("only", "", "debug: run only spaces whose label contains this string")
	flagProf = flag.String("cpuprofile", "", "debug: write a CPU profile")
)

func main() {
	r := ev.Start("C09", "model_checking")
	// Millions of short-lived real objects: collect less often (the live heap is small).
	debug.SetGCPercent(300)
	if r.Replay != "" {
		ev.Fatal("replay: re-run ./run C09 %s; the violation detail in %s lists the history", r.Tier, r.Replay)
	}
	budget := 4 * time.Minute
	if r.Thorough() {
		budget = 15 * time.Minute
	}
	if *flagProf != "" {
		f, err := os.Create(*flagProf)
		if err != nil {
			ev.Fatal("%v", err)
		}
		pprof.StartCPUProfile(f)
	}
	kinds := newKinds()
	for _, kd := range kinds {
		kd.choose(r.Seed)
		r.Sample(kd.describe())
	}

	// the struct-valued universe takes part at the combiner level only
	allKinds := kinds
	kinds = kinds[:3]

	tmp := os.TempDir()
	before := listDir(tmp)

	var framePlans []framePlan
	var combPlans []combPlan
	allTerms := []terminal{{"Reader/out=1", 1}, {"Reader/out=3", 3}, {"WriteTo", 0}}
	const others = "string-keys pair-keys int-keys+struct-values"
	all4 := []int{1, 2, 3, 5}
	if r.Thorough() {
		// simplest first: when the soft budget is hit only the deepest levels are cut
		framePlans = []framePlan{
			{wideAlphabet(true), 2, []int{2, 4, 8}, []int{1, 2, 3}, ""},
			{midAlphabet(true), 4, []int{1, 4, 8}, []int{1, 3}, ""},
			{deepAlphabet(true), 5, []int{1, 2, 4, 16}, []int{2}, others},
			{deepAlphabet(true), 6, []int{1, 2, 4, 16}, []int{2}, "int-keys"},
			{deepAlphabet(true), 6, []int{8}, []int{1}, others},
			{deepAlphabet(true), 7, []int{8}, []int{3}, ""},
			{deepAlphabet(true), 7, []int{8}, []int{1}, "int-keys"},
		}
		combPlans = []combPlan{
			{sizes{4, 2, 2, 3, 2}, 10, 2, all4, allTerms, ""},
			{sizes{8, 1, 128, 128, 128}, 6, 3, all4, allTerms, ""},
			{sizes{2, 3, 3, 2, 3}, 8, 3, all4, allTerms, ""},
			{sizes{8, 3, 2, 2, 2}, 4, 6, all4, allTerms, others},
			{sizes{8, 3, 2, 2, 2}, 4, 7, all4, allTerms, "int-keys"},
		}
	} else {
		framePlans = []framePlan{
			{wideAlphabet(true), 2, []int{2, 8}, []int{1, 3}, ""},
			{midAlphabet(true), 3, []int{4, 8}, []int{1, 3}, ""},
			{deepAlphabet(true), 5, []int{8}, []int{1, 3}, ""},
			{deepAlphabet(true), 4, []int{1, 2}, []int{2}, ""},
		}
		combPlans = []combPlan{
			{sizes{8, 1, 128, 128, 128}, 8, 2, all4, allTerms, ""},
			{sizes{2, 3, 3, 2, 3}, 6, 3, all4, allTerms, ""},
			{sizes{8, 3, 2, 2, 2}, 4, 5, all4, allTerms, ""},
		}
	}
	// Phase A may use at most 45% of the soft budget, so that the spilling combiner is
	// reached on a slow machine too.
	budgetA := budget * 45 / 100
	if r.Budget != 0 {
		budget = r.Budget
		budgetA = r.Budget * 45 / 100
	}

	fst := &frameStats{}
	cst := &combStats{outcomes: ev.NewCounter()}
	var mu sync.Mutex
	var results []bfsResult
	var hot *hotStats
	var mrs *mrStats
	_ = mrs
	var srs *srStats
	finish := func() {
		mu.Lock()
		defer mu.Unlock()
		// TMPDIR must hold no spiller directory that was not there before.
		var left []string
		for e := range listDir(tmp) {
			if !before[e] && strings.HasPrefix(e, "spiller-c09-") {
				left = append(left, e)
			}
		}
		if len(left) > 0 {
			sort.Strings(left)
			r.Violate("C09/combiner/tmpdir/spill-dir-left", fmt.Sprintf("%d spiller directories left under TMPDIR after all combiners were read back, e.g. %s", len(left), left[0]), left)
		}
		pprof.StopCPUProfile()
		r.Finish(coverage(results, fst, cst, hot, srs, framePlans, combPlans))
	}
	go watchdog(r, func(sp space, h hist) {
		sig := "C09/" + strings.Join(strings.Split(sp.label(), "/")[:2], "/") + "/" + lastOpClass(sp.alpha(), h) + "/hang"
		r.Violate(sig, fmt.Sprintf("%s: history %v does not terminate (3 re-executions, each > %v)", sp.label(), h.names(sp.alpha()), hangLimit),
			map[string]interface{}{"space": sp.label(), "history": h.names(sp.alpha())})
		r.NotExhaustive("stopped at a non-terminating history")
		finish()
	})

	var skipped []string
	want := func(label string) bool { return *flagOnly == "" || strings.Contains(label, *flagOnly) }

	// ---- phase A: combiningFrame ------------------------------------------------
	for _, p := range framePlans {
		for _, kd := range kinds {
			if !hasKind(p.kinds, kd) {
				continue
			}
			frames := p.al.frames(kd)
			for _, c := range p.caps {
				for _, sc := range p.scratch {
					sp := &frameSpace{r: r, kd: kd, initCap: c, scratch: sc, al: p.al, frames: frames, st: fst}
					if !want(sp.label()) {
						continue
					}
					if r.Elapsed() > budgetA {
						skipped = append(skipped, sp.label()+" alphabet="+p.al.name)
						continue
					}
					res := bfs(r, sp, p.depth, budgetA)
					mu.Lock()
					results = append(results, res)
					mu.Unlock()
				}
			}
		}
	}

	// ---- hot-key family: one key combined N times, N around the powers of two -----
	if want("hotkey") {
		if r.Elapsed() > budget {
			hot = &hotStats{Skipped: true}
			r.NotExhaustive("time budget: hot-key family not run")
		} else {
			exec.VerifC09SetCombiningFrameSizes(8, 3)
			if err := flag.Set("bigslice-internal-default-chunk-rows", "3"); err != nil {
				ev.Fatal("flag.Set: %v", err)
			}
			sortio.VerifC09SetChunk(3)
			sliceio.SpillBatchSize = 3
			h := hotKeyFamily(r, kinds)
			mu.Lock()
			hot = h
			mu.Unlock()
		}
	}

	// ---- many-runs family: a combiner that spilled R times, R around the powers of two ---
	if want("manyruns") {
		if r.Elapsed() > budget {
			mrs = &mrStats{Skipped: true}
			mrsGlobal = mrs
			r.NotExhaustive("time budget: many-runs family not run")
		} else {
			exec.VerifC09SetCombiningFrameSizes(8, 3)
			if err := flag.Set("bigslice-internal-default-chunk-rows", "3"); err != nil {
				ev.Fatal("flag.Set: %v", err)
			}
			sortio.VerifC09SetChunk(3)
			sliceio.SpillBatchSize = 3
			x := manyRunsFamily(r, kinds)
			mu.Lock()
			mrs = x
			mrsGlobal = x
			mu.Unlock()
		}
	}

	// ---- struct-value family: pointer-free struct values, runs longer than 3 batches ---
	if want("structvalue") {
		if r.Elapsed() > budget {
			srs = &srStats{Skipped: true}
			r.NotExhaustive("time budget: struct-value family not run")
		} else {
			x := structValueFamily(r, allKinds[3])
			mu.Lock()
			srs = x
			mu.Unlock()
		}
	}

	// ---- phase B: spilling combiner ---------------------------------------------
	for _, p := range combPlans {
		exec.VerifC09SetCombiningFrameSizes(p.z.InitCap, p.z.Scratch)
		if err := flag.Set("bigslice-internal-default-chunk-rows", fmt.Sprint(p.z.Chunk)); err != nil {
			ev.Fatal("flag.Set: %v", err)
		}
		sortio.VerifC09SetChunk(p.z.SortioChunk)
		sliceio.SpillBatchSize = p.z.SpillBatch
		al := spillAlphabet(p.nops)
		for _, kd := range allKinds {
			if !hasKind(p.kinds, kd) {
				continue
			}
			frames := al.frames(kd)
			for _, t := range p.targets {
				sp := &combSpace{r: r, kd: kd, z: p.z, target: t, al: al, frames: frames, terms: p.terms, st: cst}
				if !want(sp.label()) {
					continue
				}
				if r.Elapsed() > budget {
					skipped = append(skipped, sp.label()+" alphabet="+al.name)
					continue
				}
				res := bfs(r, sp, p.depth, budget)
				mu.Lock()
				results = append(results, res)
				mu.Unlock()
			}
		}
	}
	if len(skipped) > 0 {
		r.NotExhaustive(fmt.Sprintf("time budget: %d spaces not explored at all: %s", len(skipped), strings.Join(skipped, "; ")))
	}
	finish()
}

func listDir(dir string) map[string]bool {
	out := map[string]bool{}
	es, err := os.ReadDir(dir)
	if err != nil {
		ev.Fatal("cannot list TMPDIR %s: %v", dir, err)
	}
	for _, e := range es {
		out[e.Name()] = true
	}
	return out
}

var mrsGlobal *mrStats

func coverage(results []bfsResult, f *frameStats, c *combStats, hot *hotStats, srs *srStats, fp []framePlan, cp []combPlan) ev.Coverage {
	if srs == nil {
		srs = &srStats{}
	}
	if hot == nil {
		hot = &hotStats{}
	}
	var states int
	var trans int64
	maxDepth := 0
	fStates, cStates := 0, 0
	var fTrans, cTrans int64
	for _, res := range results {
		states += res.States
		trans += res.Transitions
		if res.Depth > maxDepth {
			maxDepth = res.Depth
		}
		if strings.HasPrefix(res.Space, "frame/") {
			fStates += res.States
			fTrans += res.Transitions
		} else {
			cStates += res.States
			cTrans += res.Transitions
		}
	}
	resizeTo := map[string]int64{}
	for b, n := range f.resizeTo {
		if n > 0 {
			resizeTo[fmt.Sprint(1<<b)] = n
		}
	}
	// per-space table kept compact: one line per space
	var spaces []string
	for _, res := range results {
		lv := make([]string, len(res.Levels))
		for i, l := range res.Levels {
			lv[i] = fmt.Sprint(l.NewStates)
		}
		spaces = append(spaces, fmt.Sprintf("%s alphabet=%s(%d) depth=%d states=%d transitions=%d new_states_per_depth=[%s] complete=%v wall=%.1fs",
			res.Space, res.Alphabet, res.AlphabetLen, res.Depth, res.States, res.Transitions, strings.Join(lv, " "), res.Complete, res.WallS))
	}
	alphabets := map[string][]string{}
	for _, p := range fp {
		alphabets[p.al.name] = p.al.names()
	}
	for _, p := range cp {
		a := spillAlphabet(p.nops)
		alphabets[a.name] = a.names()
	}
	// wide alphabet is long; keep its description short
	if w, ok := alphabets["wide"]; ok {
		alphabets["wide"] = []string{fmt.Sprintf("%d ops: every single row (13 keys x {+1,-1}); every ordered pair of keys incl. the same key twice, values (+1,-1); 13 sliding triples (+1,+1,-1); [A0 A0 A0]; Compact", len(w))}
	}
	return ev.Coverage{
		"states":                        states,
		"transitions":                   trans,
		"traces_validated_against_impl": f.traces + c.readbacks + hot.Cases + srs.Cases + mrCases(), // every replay on a fresh real object
		"max_depth":                     maxDepth,
		// non-vacuity, measured over every executed history:
		"histories_reaching_a_resize":         f.withResize,
		"histories_ending_in_probe_collision": f.displaced,
		"histories_with_2plus_spills":         c.spills[2] + c.spills[3],
		"distinct_readback_outcomes":          c.outcomes.Distinct(),
		"rule": "BFS over operation histories; successor = replay of h·o on a fresh real combiningFrame/combiner; de-duplication on the canonical full slot dump " +
			"(cap,len,threshold,mask,hits/key/value of every slot; for the combiner also every spilled run and the record count); oracle after the last step of every executed history " +
			"(every prefix is itself an executed history): rows held == plain map model; Compact returns every key once; Reader()/WriteTo: strictly ascending keys, one row per key, folded sums; spill directory gone",
		"frame": map[string]interface{}{
			"states": fStates, "transitions": fTrans,
			"histories_executed":                            f.traces,
			"histories_with_a_resize":                       f.withResize,
			"histories_whose_last_step_resized_to_capacity": resizeTo,
			"histories_ending_with_probe_collision":         f.displaced,
			"histories_ending_with_wrapped_probe":           f.wrapped,
			"rehash_with_collision_in_new_table":            f.rehashCollide,
			"resize_in_the_middle_of_a_batch":               f.midBatchResize,
			"compact_of_nonempty_table":                     f.compactNonEmpt,
			"compact_of_grown_table":                        f.compactGrown,
			"max_keys_in_table":                             f.maxLen,
			"max_capacity":                                  f.maxCap,
		},
		"combiner": map[string]interface{}{
			"states": cStates, "transitions": cTrans,
			"histories_executed":           c.traces,
			"readbacks_checked":            c.readbacks,
			"histories_with_0_spills":      c.spills[0],
			"histories_with_1_spill":       c.spills[1],
			"histories_with_2_spills":      c.spills[2],
			"histories_with_3plus_spills":  c.spills[3],
			"max_spill_files":              c.maxSpills,
			"key_held_in_several_places":   c.splitKey,
			"run_longer_than_merge_buffer": c.refill,
			"run_longer_than_spill_batch":  c.batched,
			"table_grew":                   c.tableGrown,
			"spilled_and_table_grew":       c.spillAfterGr,
			"distinct_readback_outcomes":   c.outcomes.Distinct(),
		},
		"hotkey":      hot,
		"many_runs":   mrsGlobal,
		"structvalue": srs,
		"spaces":      spaces,
		"alphabets":   alphabets,
	}
}

func mrCases() int64 {
	if mrsGlobal == nil {
		return 0
	}
	return mrsGlobal.Cases
}
