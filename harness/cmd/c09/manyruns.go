package main

// Many-runs family: "including when the buffer spills to disk many times". A
// combiner with spill threshold 1 spills at (about) every second Combine call, so R calls leave
// about R/2 sorted runs (plus the in-memory remainder) for the final merge-reduce. R is
// taken around the powers of two (2^k-1, 2^k, 2^k+1): a merge that treats runs
// in groups, caps its width or sizes a buffer per run fails at such a count only.
//
// Call i feeds two or three rows: the hot key (in every run), one of three
// rotating keys (each in about a third of the runs) and, in the first, the
// middle and the last call, a key that occurs in that run only.

import (
	"bytes"
	"fmt"
	"os"
	"runtime"
	"sort"
	"sync"
	"sync/atomic"

	"github.com/grailbio/bigslice/exec"
	"github.com/grailbio/bigslice/frame"
	"github.com/grailbio/bigslice/sliceio"
	"verifh/ev"
)

type mrCase struct {
	kd   *kind
	runs int
	term terminal
}

func (c mrCase) String() string {
	return fmt.Sprintf("%s, %d Combine calls at spill threshold 1, read back by %s", c.kd.name, c.runs, c.term.name)
}

type mrStats struct {
	Cases      int64   `json:"cases"`
	Runs       []int   `json:"combine_calls_R"`
	MaxFiles   int64   `json:"max_spill_files_seen"`
	FilesTotal int64   `json:"spill_files_total"`
	Outcomes   int     `json:"distinct_outcomes"`
	Violating  int     `json:"violating_cases"`
	Skipped    bool    `json:"skipped_for_budget,omitempty"`
	WallS      float64 `json:"wall_s"`
	Rule       string  `json:"rule"`
}

func mrRuns(thorough bool) []int {
	maxK := 9
	if thorough {
		maxK = 11
	}
	ns := []int{1, 2}
	for k := 2; k <= maxK; k++ {
		ns = append(ns, 1<<k-1, 1<<k, 1<<k+1)
	}
	// multiples of 64 plus a remainder (neither a power of two nor next to one)
	ns = append(ns, 100, 192, 200, 300, 320)
	sort.Ints(ns)
	return ns
}

var mrRotating = []int{kA1, kB0, kC0}

func runManyRuns(c mrCase, st *mrStats) (class, what string) {
	var cur *exec.VerifC09Combiner
	defer func() {
		if p := recover(); p != nil {
			class, what = "panic", fmt.Sprintf("panic: %v", p)
			if cur != nil {
				cur.Discard()
			}
		}
	}()
	kd := c.kd
	cb, err := exec.VerifC09NewCombiner(kd.typ, "c09mr", kd.comb, 1)
	if err != nil {
		ev.Fatal("newCombiner: %v", err)
	}
	cur = cb
	var m model
	for i := 0; i < c.runs; i++ {
		roles := []int{hotKey, mrRotating[i%len(mrRotating)]}
		switch i {
		case 0:
			roles = append(roles, kD0)
		case c.runs / 2:
			roles = append(roles, kZ)
		}
		if i == c.runs-1 && i != 0 {
			roles = append(roles, kB1)
		}
		ks := make([]kv, len(roles))
		vs := make([]int, len(roles))
		for j, role := range roles {
			ks[j], vs[j] = kd.keys[role], 1+i%5
			m.addN(role, vs[j], 1)
		}
		var f frame.Frame = kd.mk(ks, vs)
		if err := cb.Combine(bg, f); err != nil {
			ev.Fatal("combiner.Combine: %v", err)
		}
	}
	dir := string(cb.Spiller())
	nf := int64(countFiles(dir))
	atomic.AddInt64(&st.FilesTotal, nf)
	for {
		old := atomic.LoadInt64(&st.MaxFiles)
		if nf <= old || atomic.CompareAndSwapInt64(&st.MaxFiles, old, nf) {
			break
		}
	}
	var keys []kv
	var vals []int
	if c.term.outSize > 0 {
		rd, err := cb.Reader()
		if err != nil {
			cb.Discard()
			return "error", fmt.Sprintf("Reader(): %v", err)
		}
		keys, vals, _, err = kd.readAll(rd, c.term.outSize)
		if err != nil {
			cb.Discard()
			return "error", fmt.Sprintf("reading Reader(): %v", err)
		}
	} else {
		var out bytes.Buffer
		total, err := cb.WriteTo(bg, sliceio.NewEncodingWriter(&out))
		if err != nil {
			cb.Discard()
			return "error", fmt.Sprintf("WriteTo: %v", err)
		}
		keys, vals, _, err = kd.readAll(sliceio.NewDecodingReader(&out), 64)
		if err != nil {
			cb.Discard()
			return "error", fmt.Sprintf("decoding what WriteTo wrote: %v", err)
		}
		if int(total) != len(keys) {
			cb.Discard()
			return "row-count", fmt.Sprintf("WriteTo returned %d but wrote %d rows", total, len(keys))
		}
	}
	cur = nil
	if cl, w := kd.checkReadback(keys, vals, &m); cl != "" {
		cb.Discard()
		return cl, fmt.Sprintf("rows read back %v: %s", rowsString(kd, keys, vals), w)
	}
	if _, err := os.Lstat(dir); err == nil || !os.IsNotExist(err) {
		os.RemoveAll(dir)
		return "spill-dir-left", fmt.Sprintf("spill directory still present after reading back (lstat err=%v)", err)
	}
	return "", ""
}

// manyRunsFamily must not run concurrently with families that change the
// combiner's process-wide sizes.
func manyRunsFamily(r *ev.Run, kinds []*kind) *mrStats {
	st := &mrStats{Runs: mrRuns(r.Thorough()),
		Rule: "R Combine calls on a combiner with spill threshold 1 (the combiner spills at about every second call, so up to R/2 sorted runs plus the in-memory remainder; the maximum number of spill files seen is reported), R = 1, 2, 2^k-1, 2^k, 2^k+1 (k up to 9 quick / 11 thorough) and 100, 192, 200, 300, 320; rows per call: the hot key (every run), one of three rotating keys, and a key unique to the first / middle / last call; universes int / string / (int,int) prefix; read back by Reader(out=3) and by WriteTo; oracle: one row per key, ascending, value = fold of everything fed, spill directory removed"}
	t0 := r.Elapsed()
	var cases []mrCase
	for _, kd := range kinds {
		for _, n := range st.Runs {
			for _, term := range hotTerms {
				cases = append(cases, mrCase{kd: kd, runs: n, term: term})
			}
		}
	}
	sort.SliceStable(cases, func(i, j int) bool { return cases[i].runs > cases[j].runs })
	type fail struct {
		c           mrCase
		class, what string
	}
	var mu sync.Mutex
	var fails []fail
	outcomes := ev.NewCounter()
	ev.Parallel(len(cases), runtime.NumCPU(), func(i int) {
		c := cases[i]
		class, what := runManyRuns(c, st)
		atomic.AddInt64(&st.Cases, 1)
		outcomes.Add(fmt.Sprintf("%s/%d/%s/%s", c.kd.name, c.runs, c.term.name, class))
		if class != "" {
			mu.Lock()
			fails = append(fails, fail{c, class, what})
			mu.Unlock()
		}
	})
	st.Outcomes = outcomes.Distinct()
	st.Violating = len(fails)
	groups := map[string][]fail{}
	for _, f := range fails {
		k := fmt.Sprintf("C09/many-runs/%s/%s", f.c.kd.name, f.class)
		groups[k] = append(groups[k], f)
	}
	var gk []string
	for k := range groups {
		gk = append(gk, k)
	}
	sort.Strings(gk)
	for _, k := range gk {
		g := groups[k]
		sort.SliceStable(g, func(i, j int) bool {
			if g[i].c.runs != g[j].c.runs {
				return g[i].c.runs < g[j].c.runs
			}
			return g[i].c.String() < g[j].c.String()
		})
		seen := map[int]bool{}
		var failing []int
		for _, f := range g {
			if !seen[f.c.runs] {
				seen[f.c.runs] = true
				failing = append(failing, f.c.runs)
			}
		}
		f := g[0]
		r.Violate(fmt.Sprintf("%s/first-runs=%d", k, f.c.runs),
			fmt.Sprintf("combiner that spilled %d times: %s: %s (%d failing cases in this class; failing run counts: %v)", f.c.runs, f.c, f.what, len(g), failing),
			map[string]interface{}{"case": f.c.String(), "failure": f.what, "failing_cases": len(g), "failing_run_counts": failing})
	}
	st.WallS = (r.Elapsed() - t0).Seconds()
	return st
}
