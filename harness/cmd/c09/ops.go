package main

import (
	"fmt"
	"strings"

	"github.com/grailbio/bigslice/frame"
)

type row struct {
	k int // key index (role)
	v int // +1 / -1
}

const (
	opCombine = iota
	opCompact
)

type op struct {
	typ  int
	rows []row
	name string
}

func combineOp(rows ...row) op {
	var b strings.Builder
	b.WriteString("Combine[")
	for i, r := range rows {
		if i > 0 {
			b.WriteString(" ")
		}
		fmt.Fprintf(&b, "%s:%+d", roleNames[r.k], r.v)
	}
	b.WriteString("]")
	return op{typ: opCombine, rows: rows, name: b.String()}
}

var compactOp = op{typ: opCompact, name: "Compact"}

// alphabet is a named list of operations; frames are prebuilt per key universe
// (Combine never writes to its argument; they are shared read-only).
type alphabet struct {
	name string
	ops  []op
}

func (a alphabet) names() []string {
	out := make([]string, len(a.ops))
	for i, o := range a.ops {
		out[i] = o.name
	}
	return out
}

// The four disjoint triples reach 12 distinct keys in 4 operations (8->16 at the
// 6th key, 16->32 at the 12th); every triple mixes collision groups.
var triples = []op{
	combineOp(row{kA0, 1}, row{kB0, 1}, row{kC0, 1}),
	combineOp(row{kA1, 1}, row{kB1, 1}, row{kD0, 1}),
	combineOp(row{kA2, 1}, row{kC1, -1}, row{kZ, 1}),
	combineOp(row{kA3, 1}, row{kB2, -1}, row{kD1, 1}),
}

// deepAlphabet: small, for the deepest histories (growth 8->16->32, compaction
// after growth, refill after compaction, growth in the middle of a batch).
func deepAlphabet(withCompact bool) alphabet {
	ops := append([]op{}, triples...)
	ops = append(ops,
		combineOp(row{kC2, 1}, row{kA0, -1}), // 13th key + existing key
		combineOp(row{kA1, 1}, row{kA1, 1}),  // duplicate key inside one frame
		combineOp(row{kA0, 1}),
		combineOp(row{kA0, -1}),
		combineOp(row{kA2, 1}),
		combineOp(row{kB0, -1}),
		combineOp(row{kC0, 1}),
		combineOp(row{kD0, -1}),
	)
	if withCompact {
		ops = append(ops, compactOp)
	}
	return alphabet{"deep", ops}
}

// midAlphabet: every key as a single row, some negative values, the triples.
func midAlphabet(withCompact bool) alphabet {
	var ops []op
	for k := 0; k < nKeys; k++ {
		ops = append(ops, combineOp(row{k, 1}))
	}
	for _, k := range []int{kA0, kA1, kB0, kC0} {
		ops = append(ops, combineOp(row{k, -1}))
	}
	ops = append(ops, triples...)
	ops = append(ops,
		combineOp(row{kC2, 1}, row{kA0, -1}),
		combineOp(row{kA1, 1}, row{kA1, 1}),
	)
	if withCompact {
		ops = append(ops, compactOp)
	}
	return alphabet{"mid", ops}
}

// wideAlphabet: all single rows (13 keys x +-1), all ordered key pairs (incl. the
// same key twice) with values (+1,-1), sliding triples, Compact.
func wideAlphabet(withCompact bool) alphabet {
	var ops []op
	for k := 0; k < nKeys; k++ {
		ops = append(ops, combineOp(row{k, 1}), combineOp(row{k, -1}))
	}
	for i := 0; i < nKeys; i++ {
		for j := 0; j < nKeys; j++ {
			ops = append(ops, combineOp(row{i, 1}, row{j, -1}))
		}
	}
	for i := 0; i < nKeys; i++ {
		ops = append(ops, combineOp(row{i, 1}, row{(i + 1) % nKeys, 1}, row{(i + 2) % nKeys, -1}))
	}
	ops = append(ops, combineOp(row{kA0, 1}, row{kA0, 1}, row{kA0, 1}))
	if withCompact {
		ops = append(ops, compactOp)
	}
	return alphabet{"wide", ops}
}

// spillAlphabet: for the spilling combiner (Combine only; spilling is decided by
// the combiner itself).
func spillAlphabet(n int) alphabet {
	ops := []op{
		triples[0],                           // A0 B0 C0
		triples[1],                           // A1 B1 D0
		combineOp(row{kC2, 1}, row{kA0, -1}), // new key + a key that may already be spilled
		combineOp(row{kA0, 1}),
		combineOp(row{kA1, -1}),
		triples[2],
		combineOp(row{kB0, 1}, row{kB0, 1}),
		triples[3],
		combineOp(row{kZ, -1}),
		combineOp(row{kC0, 1}, row{kD0, 1}),
	}
	if n > len(ops) {
		n = len(ops)
	}
	return alphabet{fmt.Sprintf("spill%d", n), ops[:n]}
}

// frames builds the real input frame of every Combine op for a universe.
func (a alphabet) frames(kd *kind) []frame.Frame {
	out := make([]frame.Frame, len(a.ops))
	for i, o := range a.ops {
		if o.typ != opCombine {
			continue
		}
		keys := make([]kv, len(o.rows))
		vals := make([]int, len(o.rows))
		for j, r := range o.rows {
			keys[j] = kd.keys[r.k]
			vals[j] = r.v
		}
		out[i] = kd.mk(keys, vals)
	}
	return out
}

// hist is an operation history (indices into an alphabet).
const maxDepth = 8

type hist struct {
	n   uint8
	ops [maxDepth]uint8
}

func (h hist) push(o int) hist {
	h.ops[h.n] = uint8(o)
	h.n++
	return h
}

func (h hist) less(g hist) bool {
	if h.n != g.n {
		return h.n < g.n
	}
	for i := 0; i < int(h.n); i++ {
		if h.ops[i] != g.ops[i] {
			return h.ops[i] < g.ops[i]
		}
	}
	return false
}

func (h hist) names(a alphabet) []string {
	out := make([]string, h.n)
	for i := 0; i < int(h.n); i++ {
		out[i] = a.ops[h.ops[i]].name
	}
	return out
}

// model is the reference: a plain map from key index to folded value.
type model struct {
	present [nKeys]bool
	sum     [nKeys]int
	n       int
}

// add folds a row into the model; sums are kept in the universe's value encoding.
func (m *model) add(kd *kind, r row) {
	e := kd.enc(r.v)
	if !m.present[r.k] {
		m.present[r.k] = true
		m.sum[r.k] = e
		m.n++
		return
	}
	m.sum[r.k] += e
}

func (m *model) clear() { *m = model{} }

func (m *model) String(kd *kind) string {
	var parts []string
	for k := 0; k < nKeys; k++ {
		if m.present[k] {
			parts = append(parts, fmt.Sprintf("%s=%s:%s", roleNames[k], kd.str(kd.keys[k]), kd.vstr(m.sum[k])))
		}
	}
	return "{" + strings.Join(parts, " ") + "}"
}
