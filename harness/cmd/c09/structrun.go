package main

// Struct-value long-run family (combiner level): int keys with a pointer-free struct
// value (PN{Pos,Neg}, fold = field-wise sum). Spilled runs are longer than 3 spill
// batches / merge windows, and the values are chosen so that zero and non-zero
// fields alternate between consecutive batches (or windows, or rows) at the same
// slot: a run is decoded batch after batch into the same memory by the merging
// reader, and gob omits zero-valued struct fields. Read back by Reader (several
// output vector sizes) and WriteTo, compared with the reference fold. Exhaustive
// over the stated cross product.

import (
	"bytes"
	"flag"
	"fmt"
	"os"
	"runtime"
	"sort"
	"sync"
	"sync/atomic"

	"github.com/grailbio/bigslice/exec"
	"github.com/grailbio/bigslice/frame"
	"github.com/grailbio/bigslice/sliceio"
	"github.com/grailbio/bigslice/sortio"
	"verifh/ev"
)

type srSizes struct {
	Batch int `json:"spill_batch_rows"`
	Merge int `json:"sortio_chunk_rows"`
	Chunk int `json:"exec_chunk_rows"`
}

var srPatterns = []struct {
	name string
	val  func(i, batch, merge int) PN
}{
	{"alternate-by-spill-batch: {i+1,0} / {0,i+1}", func(i, b, _ int) PN {
		if (i/b)%2 == 0 {
			return PN{Pos: i + 1}
		}
		return PN{Neg: i + 1}
	}},
	{"alternate-by-spill-batch: {i+1,i+2} / {0,0}", func(i, b, _ int) PN {
		if (i/b)%2 == 0 {
			return PN{i + 1, i + 2}
		}
		return PN{}
	}},
	{"alternate-by-merge-window: {i+1,0} / {0,i+1}", func(i, _, m int) PN {
		if (i/m)%2 == 0 {
			return PN{Pos: i + 1}
		}
		return PN{Neg: i + 1}
	}},
	{"alternate-by-row: {i+1,0} / {0,i+1}", func(i, _, _ int) PN {
		if i%2 == 0 {
			return PN{Pos: i + 1}
		}
		return PN{Neg: i + 1}
	}},
}

var srScenarios = []string{"1-run", "2-runs+memory"}

var srTerms = []terminal{{"Reader/out=1", 1}, {"Reader/out=3", 3}, {"Reader/out=128", 128}, {"WriteTo", 0}}

type srCase struct {
	z        srSizes
	k        int // keys per run
	pattern  int
	scenario int
	term     terminal
}

func (c srCase) String() string {
	return fmt.Sprintf("int keys 0..%d with struct{Pos,Neg int} values, %s; %s of %d rows (spill batch %d rows, merge window %d rows, WriteTo vector %d rows); read back by %s",
		c.k-1, srPatterns[c.pattern].name, srScenarios[c.scenario], c.k, c.z.Batch, c.z.Merge, c.z.Chunk, c.term.name)
}

type srStats struct {
	Cases          int64    `json:"cases"`
	Rows           int64    `json:"rows_combined"`
	Runs           int64    `json:"spilled_runs"`
	LongRuns       int64    `json:"spilled_runs_longer_than_2_batches_and_2_merge_windows"`
	MinBatchesRun  int64    `json:"min_batches_per_run"`
	Unplanned      int64    `json:"cases_that_did_not_spill_as_planned"`
	MaxTableCap    int64    `json:"max_table_capacity"`
	Sizes          []string `json:"internal_sizes"`
	Dimensions     []string `json:"dimensions"`
	Outcomes       int      `json:"distinct_outcomes"`
	ViolatingCases int      `json:"violating_cases"`
	WallS          float64  `json:"wall_s"`
	Skipped        bool     `json:"skipped_for_budget,omitempty"`
}

func pnFrame(keys []int, vals []PN) frame.Frame {
	return frame.Slices(append([]int{}, keys...), append([]PN{}, vals...))
}

func runStructCase(c srCase, typ *kind, st *srStats) (class, what string) {
	var cur *exec.VerifC09Combiner
	defer func() {
		if p := recover(); p != nil {
			class, what = "panic", fmt.Sprintf("panic: %v", p)
			if cur != nil {
				cur.Discard()
			}
		}
	}()
	cb, err := exec.VerifC09NewCombiner(typ.typ, "c09", typ.comb, c.k)
	if err != nil {
		ev.Fatal("newCombiner: %v", err)
	}
	cur = cb
	model := map[int]PN{}
	feed := func(keys []int, vals []PN) {
		for i, k := range keys {
			p := model[k]
			model[k] = PN{p.Pos + vals[i].Pos, p.Neg + vals[i].Neg}
		}
		if err := cb.Combine(bg, pnFrame(keys, vals)); err != nil {
			ev.Fatal("combiner.Combine: %v", err)
		}
		atomic.AddInt64(&st.Rows, int64(len(keys)))
	}
	full := func(shift int) ([]int, []PN) {
		keys := make([]int, c.k)
		vals := make([]PN, c.k)
		for i := range keys {
			// fed in a scrambled order; the run is sorted by the combiner
			j := (i*7 + 3) % c.k
			if c.k%7 == 0 {
				j = i
			}
			keys[i] = j
			// shift moves the alternation by one batch / window / row
			vals[i] = srPatterns[c.pattern].val(j+shift, c.z.Batch, c.z.Merge)
		}
		return keys, vals
	}
	k1, v1 := full(0)
	feed(k1, v1)
	feed([]int{c.k - 1}, []PN{{Pos: 1}}) // table holds k keys >= threshold: spilled after this
	if c.scenario == 1 {
		shift := c.z.Batch
		if c.pattern == 2 {
			shift = c.z.Merge
		} else if c.pattern == 3 {
			shift = 1
		}
		k2, v2 := full(shift)
		feed(k2, v2)
		feed([]int{0}, []PN{{Neg: 1}}) // second run
		feed([]int{0, c.k / 2, c.k - 1, c.k + 5}, []PN{{Neg: 2}, {Pos: 3}, {}, {Pos: 1, Neg: 1}})
	}
	dir := string(cb.Spiller())
	nruns := countFiles(dir)
	atomic.AddInt64(&st.Runs, int64(nruns))
	if (c.k+c.z.Batch-1)/c.z.Batch > 2 && (c.k+c.z.Merge-1)/c.z.Merge > 2 {
		atomic.AddInt64(&st.LongRuns, int64(nruns))
	}
	atomicMax(&st.MaxTableCap, int64(cb.Table().Cap()))
	if nruns != c.scenario+1 {
		// When and how often the combiner spills is not part of the property: only counted.
		atomic.AddInt64(&st.Unplanned, 1)
	}
	var out frame.Frame
	var keys []int
	var vals []PN
	collect := func(rd sliceio.Reader, size int, fresh bool) error {
		out = frame.Make(typ.typ, size, size)
		for calls := 0; ; calls++ {
			if fresh && calls > 0 {
				out = frame.Make(typ.typ, size, size)
			}
			n, e := rd.Read(bg, out)
			if n < 0 || n > size {
				return fmt.Errorf("Read returned n=%d for a frame of %d rows", n, size)
			}
			keys = append(keys, out.Slice(0, n).Interface(0).([]int)...)
			vals = append(vals, out.Slice(0, n).Interface(1).([]PN)...)
			if e == sliceio.EOF {
				return nil
			}
			if e != nil {
				return e
			}
			if calls > 1<<16 {
				return fmt.Errorf("no EOF after %d Read calls", calls)
			}
		}
	}
	if c.term.outSize > 0 {
		rd, err := cb.Reader()
		if err != nil {
			cb.Discard()
			return "error", fmt.Sprintf("Reader(): %v", err)
		}
		if err := collect(rd, c.term.outSize, false); err != nil {
			cb.Discard()
			return "error", fmt.Sprintf("reading Reader(): %v", err)
		}
	} else {
		var buf bytes.Buffer
		total, err := cb.WriteTo(bg, sliceio.NewEncodingWriter(&buf))
		if err != nil {
			cb.Discard()
			return "error", fmt.Sprintf("WriteTo: %v", err)
		}
		// Decode what was written into a FRESH frame per batch, so that a finding here is
		// about what the combiner wrote, not about how the harness reads it.
		if err := collect(sliceio.NewDecodingReader(&buf), 1024, true); err != nil {
			return "error", fmt.Sprintf("decoding what WriteTo wrote: %v", err)
		}
		if int(total) != len(keys) {
			return "row-count", fmt.Sprintf("WriteTo returned %d but wrote %d rows", total, len(keys))
		}
	}
	cur = nil
	for i := 1; i < len(keys); i++ {
		if keys[i] == keys[i-1] {
			return "duplicate-key", fmt.Sprintf("key %d appears in rows %d and %d", keys[i], i-1, i)
		}
		if keys[i] < keys[i-1] {
			return "not-ascending", fmt.Sprintf("row %d key %d follows row %d key %d", i, keys[i], i-1, keys[i-1])
		}
	}
	seen := map[int]bool{}
	wrong, firstWrong := 0, ""
	for i, k := range keys {
		w, ok := model[k]
		if !ok {
			return "spurious-key", fmt.Sprintf("row %d has key %d (value %+v) which was not fed", i, k, vals[i])
		}
		seen[k] = true
		if vals[i] != w {
			if wrong == 0 {
				firstWrong = fmt.Sprintf("row %d key %d has value %+v, fold of the fed values is %+v", i, k, vals[i], w)
			}
			wrong++
		}
	}
	for k := range model {
		if !seen[k] {
			return "key-lost", fmt.Sprintf("key %d (fold %+v) was not read back (%d rows read, %d keys fed)", k, model[k], len(keys), len(model))
		}
	}
	if wrong > 0 {
		return "wrong-fold", fmt.Sprintf("%d of %d rows have a wrong value; first: %s", wrong, len(keys), firstWrong)
	}
	if _, err := os.Lstat(dir); err == nil || !os.IsNotExist(err) {
		os.RemoveAll(dir)
		return "spill-dir-left", fmt.Sprintf("spill directory still present after reading back (lstat err=%v)", err)
	}
	return "", ""
}

// structValueFamily sets process-wide internal sizes: it must not run concurrently
// with phase B or the hot-key family.
func structValueFamily(r *ev.Run, pn *kind) *srStats {
	t0 := r.Elapsed()
	sizes := []srSizes{
		{128, 128, 128}, // the defaults (internal/defaultsize.Chunk)
		{3, 3, 3},
		{2, 3, 2}, // batch < merge window: decoded straight into the window
		{3, 2, 3}, // batch > merge window: decoded into the reader's own buffer
	}
	if r.Thorough() {
		sizes = append(sizes, srSizes{4, 4, 2}, srSizes{5, 2, 128}, srSizes{2, 5, 3}, srSizes{64, 128, 128}, srSizes{128, 64, 128})
	}
	st := &srStats{MinBatchesRun: 1 << 30, Dimensions: []string{
		"value type: struct{Pos,Neg int} (no pointers), fold = field-wise sum; keys: int 0..K-1 fed in a scrambled order",
		"K (rows per spilled run) = 3*max(batch,window)+1 and 4*max(batch,window)+2: every run spans more than 3 spill batches and 3 merge windows",
		"value patterns: zero/non-zero fields alternate by spill batch (two variants), by merge window, by row",
		"scenario: one spilled run; or two spilled runs holding the same keys with the alternation shifted by one batch/window/row, plus rows in memory (incl. a key not in the runs and an all-zero value)",
		"read back by Reader with output vectors of 1, 3, 128 rows and by WriteTo",
		"internal sizes (spill batch, sortio merge window, exec chunk): see internal_sizes",
	}}
	var mu sync.Mutex
	type fail struct {
		c           srCase
		class, what string
	}
	var fails []fail
	outcomes := ev.NewCounter()
	for _, z := range sizes {
		st.Sizes = append(st.Sizes, fmt.Sprintf("batch=%d merge=%d chunk=%d", z.Batch, z.Merge, z.Chunk))
		exec.VerifC09SetCombiningFrameSizes(8, 3)
		if err := flag.Set("bigslice-internal-default-chunk-rows", fmt.Sprint(z.Chunk)); err != nil {
			ev.Fatal("flag.Set: %v", err)
		}
		sortio.VerifC09SetChunk(z.Merge)
		sliceio.SpillBatchSize = z.Batch
		big := z.Batch
		if z.Merge > big {
			big = z.Merge
		}
		var cases []srCase
		for _, k := range []int{3*big + 1, 4*big + 2} {
			if nb := int64((k + big - 1) / big); nb < st.MinBatchesRun {
				st.MinBatchesRun = nb
			}
			for p := range srPatterns {
				for sc := range srScenarios {
					for _, term := range srTerms {
						cases = append(cases, srCase{z: z, k: k, pattern: p, scenario: sc, term: term})
					}
				}
			}
		}
		ev.Parallel(len(cases), runtime.NumCPU(), func(i int) {
			c := cases[i]
			class, what := runStructCase(c, pn, st)
			atomic.AddInt64(&st.Cases, 1)
			outcomes.Add(fmt.Sprintf("%v/%d/%d/%d/%s/%s", c.z, c.k, c.pattern, c.scenario, c.term.name, class))
			if class != "" {
				mu.Lock()
				fails = append(fails, fail{c, class, what})
				mu.Unlock()
			}
		})
	}
	st.Outcomes = outcomes.Distinct()
	st.ViolatingCases = len(fails)
	// one violation per (scenario, Reader|WriteTo, class); the smallest failing case is written out
	groups := map[string][]fail{}
	for _, f := range fails {
		stage := "Reader"
		if f.c.term.outSize == 0 {
			stage = "WriteTo"
		}
		k := fmt.Sprintf("C09/structvalue/combiner/%s/%s/%s", srScenarios[f.c.scenario], stage, f.class)
		groups[k] = append(groups[k], f)
	}
	var gk []string
	for k := range groups {
		gk = append(gk, k)
	}
	sort.Strings(gk)
	for _, k := range gk {
		g := groups[k]
		sort.SliceStable(g, func(i, j int) bool {
			if g[i].c.k != g[j].c.k {
				return g[i].c.k < g[j].c.k
			}
			return g[i].c.String() < g[j].c.String()
		})
		szs := map[string]bool{}
		for _, f := range g {
			szs[fmt.Sprintf("batch=%d merge=%d", f.c.z.Batch, f.c.z.Merge)] = true
		}
		var szl []string
		for s := range szs {
			szl = append(szl, s)
		}
		sort.Strings(szl)
		f := g[0]
		r.Violate(k, fmt.Sprintf("pointer-free struct values through the spilling combiner: %s: %s (%d failing cases in this class; failing internal sizes: %v)", f.c, f.what, len(g), szl),
			map[string]interface{}{"case": f.c.String(), "failure": f.what, "failing_cases": len(g), "failing_internal_sizes": szl})
	}
	st.WallS = (r.Elapsed() - t0).Seconds()
	return st
}
