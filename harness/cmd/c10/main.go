// C10 — external sort, merge and reduce-merge are correct at any spill size.
//
// Bounded-exhaustive exploration (DESIGN.md §5 C10) of the real
// sortio.SortReader, sortio.NewMergeReader and sortio.Reduce against a plain-Go
// model (sorted permutation / sorted union / one folded row per key), over
// inputs x key types x internal sizes (canary, spill batch, spill target, chunk)
// x destination sizes x upstream chunkings x an upstream error at every read
// ordinal.
//
// The parent process re-executes itself as N single-threaded workers, each with
// a private $TMPDIR (so "no spill directory survives the creation of the
// reader" is checked exactly, after every single SortReader call) and private
// copies of the process-global size knobs. Groups of cases are dealt to workers
// round-robin in simplest-first order; each worker runs its share sequentially.
package main

import (
	"encoding/json"
	"flag"
	"fmt"
	"os"
	"os/exec"
	"os/signal"
	"path/filepath"
	"runtime"
	"runtime/pprof"
	"sort"
	"strconv"
	"strings"
	"sync"
	"sync/atomic"
	"syscall"
	"time"
	"unsafe"

	"verifh/ev"
)

var (
	flagWorker  = flag.Int("c10worker", -1, "internal: run as worker i")
	flagWorkers = flag.Int("c10workers", 0, "internal: number of workers")
	flagOut     = flag.String("c10out", "", "internal: worker result file")
	flagWBudget = flag.Duration("c10budget", 0, "internal: worker soft budget")
	flagCounter = flag.String("c10counter", "", "internal: shared group counter file")
	flagOnly    = flag.String("c10only", "", "debug: run only groups whose name has this prefix")
)

func fatalf(format string, a ...interface{}) {
	ev.Fatal("c10: "+format, a...)
}

// ---- worker process ---------------------------------------------------------------

type workerResult struct {
	Evals       int64                  `json:"evals"`
	Counters    map[string]int64       `json:"counters"`
	Outcomes    []string               `json:"outcomes"`
	Viols       []*viol                `json:"viols"`
	Samples     map[string]interface{} `json:"samples"`
	GroupsRun   int                    `json:"groups_run"`
	GroupsMine  int                    `json:"groups_mine"`
	GroupsTotal int                    `json:"groups_total"`
	Skipped     map[string]int         `json:"skipped"`
	GroupSecs   map[string]float64     `json:"group_secs"`
	WallS       float64                `json:"wall_s"`
	CPUS        float64                `json:"cpu_s"`
}

func workerMain(tier string) {
	runtime.GOMAXPROCS(2)
	if p := os.Getenv("C10_CPUPROFILE"); p != "" { // debugging aid
		f, err := os.Create(p + fmt.Sprint(*flagWorker))
		if err == nil {
			pprof.StartCPUProfile(f)
			defer pprof.StopCPUProfile()
		}
	}
	tmp := os.Getenv("TMPDIR")
	if tmp == "" || *flagOut == "" || *flagWorkers <= 0 {
		fatalf("worker needs TMPDIR, -c10out and -c10workers")
	}
	w := newWorker(tmp)
	if left := w.listTmp(); len(left) > 0 {
		fatalf("worker temp dir %s not empty at start: %v", tmp, left)
	}
	start := time.Now()
	res := workerResult{Skipped: map[string]int{}, GroupSecs: map[string]float64{}}
	idx := 0
	over := false
	// Groups are claimed dynamically, in blocks, from a counter shared by all
	// workers (8 bytes of a file mapped MAP_SHARED): every worker walks the same
	// enumeration and runs the groups of the blocks it claimed. What is run never
	// depends on the assignment; VERIF_SEED only changes the block size.
	block := 4
	if v, err := strconv.Atoi(os.Getenv("VERIF_SEED")); err == nil && v > 0 {
		block = 2 + v%7
	}
	cf, err := os.OpenFile(*flagCounter, os.O_RDWR, 0)
	if err != nil {
		fatalf("counter file: %v", err)
	}
	mem, err := syscall.Mmap(int(cf.Fd()), 0, 8, syscall.PROT_READ|syscall.PROT_WRITE, syscall.MAP_SHARED)
	if err != nil {
		fatalf("mmap counter: %v", err)
	}
	ctr := (*int64)(unsafe.Pointer(&mem[0]))
	blockStart, blockEnd := 0, 0
	cpuNow := func() float64 {
		var ru syscall.Rusage
		if syscall.Getrusage(syscall.RUSAGE_SELF, &ru) != nil {
			return 0
		}
		return float64(ru.Utime.Sec+ru.Stime.Sec) + float64(ru.Utime.Usec+ru.Stime.Usec)/1e6
	}
	enumerate(tier, func(name string, body func(w *worker)) {
		i := idx
		idx++
		if *flagOnly != "" && !strings.HasPrefix(name, *flagOnly) {
			return
		}
		for i >= blockEnd {
			s := int(atomic.AddInt64(ctr, int64(block))) - block
			blockStart, blockEnd = s, s+block
		}
		if i < blockStart {
			return
		}
		res.GroupsMine++
		if !over && *flagWBudget > 0 && time.Since(start) > *flagWBudget {
			over = true
		}
		if over {
			res.Skipped[name]++
			return
		}
		w.rank = i
		t0 := cpuNow()
		body(w)
		res.GroupSecs[name] += cpuNow() - t0
		res.GroupsRun++
	})
	res.GroupsTotal = idx
	res.Evals = w.evals
	res.Counters = w.counters
	for o := range w.outcomes {
		res.Outcomes = append(res.Outcomes, o)
	}
	for _, v := range w.viols {
		res.Viols = append(res.Viols, v)
	}
	res.Samples = w.samples
	res.WallS = time.Since(start).Seconds()
	res.CPUS = cpuNow()
	if left := w.listTmp(); len(left) > 0 {
		fatalf("worker temp dir %s not empty at end: %v", tmp, left)
	}
	b, err := json.Marshal(res)
	if err != nil {
		fatalf("marshal: %v", err)
	}
	if err := os.WriteFile(*flagOut, b, 0666); err != nil {
		fatalf("write result: %v", err)
	}
}

// ---- parent -------------------------------------------------------------------------

// spillRoot creates the directory under which every worker gets its private
// $TMPDIR. SortReader costs ~10 directory/file operations per spilled run; on
// the disk file system that is ~3 ms per case and does not scale over 16
// workers, on tmpfs it is ~0.1 ms. So the root is put on /dev/shm when that is a
// writable directory (override with C10_SPILLROOT), else under $TMPDIR. It is
// removed on exit; roots left by killed runs (pid gone) are removed at start.
func spillRoot() (root, where string) {
	base := os.Getenv("C10_SPILLROOT")
	where = "C10_SPILLROOT"
	if base == "" {
		base, where = "/dev/shm", "tmpfs /dev/shm"
		if st, err := os.Stat(base); err != nil || !st.IsDir() {
			base, where = os.TempDir(), "$TMPDIR"
		}
	}
	if stale, _ := filepath.Glob(filepath.Join(base, "c10-*-*")); len(stale) > 0 {
		for _, d := range stale {
			parts := strings.Split(filepath.Base(d), "-")
			if pid, err := strconv.Atoi(parts[1]); err == nil && syscall.Kill(pid, 0) == syscall.ESRCH {
				os.RemoveAll(d)
			}
		}
	}
	root, err := os.MkdirTemp(base, fmt.Sprintf("c10-%d-", os.Getpid()))
	if err != nil && base != os.TempDir() {
		base, where = os.TempDir(), "$TMPDIR"
		root, err = os.MkdirTemp(base, fmt.Sprintf("c10-%d-", os.Getpid()))
	}
	if err != nil {
		fatalf("cannot create a spill root: %v", err)
	}
	return root, where
}

func main() {
	flag.Parse()
	if *flagWorker >= 0 {
		workerMain(flag.Lookup("tier").Value.String())
		return
	}
	r := ev.Start("C10", "exploration")
	budget := 55 * time.Second
	if r.Thorough() {
		budget = 9 * time.Minute
	}
	if r.Budget > 0 {
		budget = r.Budget
	}
	nw := runtime.NumCPU()
	if nw > 16 {
		nw = 16
	}
	if nw < 2 {
		nw = 2
	}
	exe, err := os.Executable()
	if err != nil {
		fatalf("os.Executable: %v", err)
	}
	root, rootKind := spillRoot()
	defer os.RemoveAll(root)
	sigc := make(chan os.Signal, 1)
	signal.Notify(sigc, syscall.SIGINT, syscall.SIGTERM)
	go func() {
		<-sigc
		os.RemoveAll(root)
		os.Exit(2)
	}()

	counter := filepath.Join(root, "counter")
	if err := os.WriteFile(counter, make([]byte, 8), 0666); err != nil {
		fatalf("counter file: %v", err)
	}
	results := make([]workerResult, nw)
	errs := make([]error, nw)
	var wg sync.WaitGroup
	for i := 0; i < nw; i++ {
		wg.Add(1)
		go func(i int) {
			defer wg.Done()
			tmp := filepath.Join(root, fmt.Sprintf("w%d", i))
			if err := os.Mkdir(tmp, 0777); err != nil {
				errs[i] = err
				return
			}
			out := filepath.Join(root, fmt.Sprintf("res%d.json", i))
			args := []string{"-tier", r.Tier, "-c10worker", fmt.Sprint(i), "-c10workers", fmt.Sprint(nw),
				"-c10out", out, "-c10budget", budget.String(), "-c10counter", counter}
			if *flagOnly != "" {
				args = append(args, "-c10only", *flagOnly)
			}
			cmd := exec.Command(exe, args...)
			cmd.Env = append(os.Environ(), "TMPDIR="+tmp)
			cmd.Stdout = os.Stderr
			cmd.Stderr = os.Stderr
			if err := cmd.Start(); err != nil {
				errs[i] = err
				return
			}
			// hang watchdog: far above the soft budget (workers stop by themselves at the budget).
			done := make(chan error, 1)
			go func() { done <- cmd.Wait() }()
			select {
			case err := <-done:
				if err != nil {
					errs[i] = fmt.Errorf("worker %d: %v", i, err)
					return
				}
			case <-time.After(4*budget + 10*time.Minute):
				cmd.Process.Kill()
				errs[i] = fmt.Errorf("worker %d did not finish within %v (hang?)", i, 4*budget+10*time.Minute)
				return
			}
			b, err := os.ReadFile(out)
			if err != nil {
				errs[i] = err
				return
			}
			if err := json.Unmarshal(b, &results[i]); err != nil {
				errs[i] = err
			}
		}(i)
	}
	wg.Wait()
	for _, e := range errs {
		if e != nil {
			os.RemoveAll(root)
			fatalf("%v", e)
		}
	}

	// aggregate
	var evals int64
	counters := map[string]int64{}
	outcomes := map[string]struct{}{}
	viols := map[string]*viol{}
	samples := map[string]interface{}{}
	skipped := map[string]int{}
	groupsRun, groupsTotal := 0, 0
	groupSecs := map[string]float64{}
	cpuS := 0.0
	for _, res := range results {
		evals += res.Evals
		for k, v := range res.Counters {
			if strings.Contains(k, ".max_") {
				counters[k] = max(counters[k], v)
			} else {
				counters[k] += v
			}
		}
		for _, o := range res.Outcomes {
			outcomes[o] = struct{}{}
		}
		for _, v := range res.Viols {
			if old, ok := viols[v.Sig]; !ok || v.Rank < old.Rank {
				viols[v.Sig] = v
			}
		}
		for c, s := range res.Samples {
			if _, ok := samples[c]; !ok {
				samples[c] = s
			}
		}
		for g, n := range res.Skipped {
			skipped[g] += n
		}
		for g, t := range res.GroupSecs {
			groupSecs[g] += float64(int(t*10)) / 10
		}
		groupsRun += res.GroupsRun
		cpuS += res.CPUS
		groupsTotal = res.GroupsTotal
	}
	var vs []*viol
	for _, v := range viols {
		vs = append(vs, v)
	}
	sort.Slice(vs, func(i, j int) bool {
		if vs[i].Rank != vs[j].Rank {
			return vs[i].Rank < vs[j].Rank
		}
		return vs[i].Sig < vs[j].Sig
	})
	for _, v := range vs {
		r.Violate(v.Sig, v.What, v.Detail)
	}
	var sk []string
	for c := range samples {
		sk = append(sk, c)
	}
	sort.Strings(sk)
	for _, c := range sk {
		r.Sample(samples[c])
	}
	if len(skipped) > 0 {
		var parts []string
		for g, n := range skipped {
			parts = append(parts, fmt.Sprintf("%s:%d", g, n))
		}
		sort.Strings(parts)
		r.NotExhaustive(fmt.Sprintf("soft budget %v reached; groups not run: %s", budget, strings.Join(parts, " ")))
	}
	outcomeClasses := map[string]int{}
	for o := range outcomes {
		parts := strings.SplitN(o, "/", 3)
		c := parts[0]
		if len(parts) > 1 {
			c += "/" + parts[1]
		}
		outcomeClasses[c]++
	}
	sp := spaceOf(r.Tier)
	cov := ev.Coverage{
		"evaluations":                 evals,
		"distinct_nontrivial":         counters["nontrivial"],
		"rule":                        ruleText(sp),
		"groups_total":                groupsTotal,
		"groups_run":                  groupsRun,
		"mechanism_counts":            counters,
		"distinct_outcomes":           len(outcomes),
		"distinct_outcome_classes":    outcomeClasses,
		"workers":                     nw,
		"spill_root":                  rootKind,
		"worker_cpu_seconds_by_group": groupSecs,
		"worker_cpu_seconds":          float64(int(cpuS*10)) / 10,
	}
	os.RemoveAll(root)
	r.Finish(cov)
}
