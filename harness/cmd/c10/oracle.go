package main

import (
	"context"
	"fmt"
	"os"
	"sort"
	"strings"

	"github.com/grailbio/bigslice/frame"
	"github.com/grailbio/bigslice/slicefunc"
	"github.com/grailbio/bigslice/sliceio"
	"github.com/grailbio/bigslice/sortio"
)

// ---- per-worker bookkeeping ---------------------------------------------------

type viol struct {
	Sig    string      `json:"sig"`
	What   string      `json:"what"`
	Detail interface{} `json:"detail"`
	Rank   int         `json:"rank"` // group index: smaller = simpler case
}

type worker struct {
	tmp      string // this worker's private $TMPDIR
	rank     int    // current group index
	evals    int64
	counters map[string]int64
	outcomes map[string]struct{}
	viols    map[string]*viol
	samples  map[string]interface{}
}

func newWorker(tmp string) *worker {
	return &worker{tmp: tmp, counters: map[string]int64{}, outcomes: map[string]struct{}{}, viols: map[string]*viol{}, samples: map[string]interface{}{}}
}

func (w *worker) count(k string)   { w.counters[k]++ }
func (w *worker) outcome(k string) { w.outcomes[k] = struct{}{} }

func (w *worker) violate(sig, what string, detail interface{}) {
	if _, ok := w.viols[sig]; ok {
		return
	}
	w.viols[sig] = &viol{Sig: sig, What: what, Detail: detail, Rank: w.rank}
}

func (w *worker) sample(class string, s interface{}) {
	if _, ok := w.samples[class]; !ok {
		w.samples[class] = s
	}
}

// listTmp returns the entries of the worker's private temp dir.
func (w *worker) listTmp() []string {
	ents, err := os.ReadDir(w.tmp)
	if err != nil {
		fatalf("cannot list %s: %v", w.tmp, err)
	}
	var names []string
	for _, e := range ents {
		names = append(names, e.Name())
	}
	return names
}

func (w *worker) cleanTmp(names []string) {
	for _, n := range names {
		os.RemoveAll(w.tmp + "/" + n)
	}
}

// ---- driving a reader under test --------------------------------------------------

type driveRes struct {
	rows     []row
	decodeOK bool
	reads    int
	eof      bool   // ended with EOF
	err      error  // ended with this non-EOF error
	stuck    bool   // 1000 consecutive (0, nil) reads
	badN     string // a Read returned n outside [0, len(out)]
	post     string // what two further reads after a non-EOF error returned, if not an error again
}

// drive reads R to the end with a destination frame of d rows.
func drive(k kind, R sliceio.Reader, d int) (res driveRes) {
	ctx := context.Background()
	out := frame.Make(typOf(k), d, d)
	res.decodeOK = true
	zero := 0
	for {
		n, err := R.Read(ctx, out)
		res.reads++
		if n < 0 || n > d {
			res.badN = fmt.Sprintf("Read returned n=%d for a frame of %d rows", n, d)
			return
		}
		var ok bool
		res.rows, ok = decodeRows(k, out, n, res.rows)
		if !ok {
			res.decodeOK = false
		}
		if err == sliceio.EOF {
			res.eof = true
			return
		}
		if err != nil {
			res.err = err
			break
		}
		if n == 0 {
			zero++
			if zero >= 1000 {
				res.stuck = true
				return
			}
		} else {
			zero = 0
		}
	}
	// After an error: it must not be followed by success or by a clean EOF.
	for i := 0; i < 2; i++ {
		n, err := R.Read(ctx, out)
		if err == nil {
			res.post = fmt.Sprintf("read %d after the error returned (n=%d, err=nil)", i+1, n)
			return
		}
		if err == sliceio.EOF {
			res.post = fmt.Sprintf("read %d after the error returned (n=%d, EOF)", i+1, n)
			return
		}
	}
	return
}

// guard runs f and converts a panic into a string.
func guard(f func()) (panicked string) {
	defer func() {
		if e := recover(); e != nil {
			panicked = fmt.Sprint(e)
		}
	}()
	f()
	return ""
}

func panicClass(p string) string {
	p = strings.ToLower(p)
	switch {
	case strings.Contains(p, "divide by zero"):
		return "divide-by-zero"
	case strings.Contains(p, "out of range") || strings.Contains(p, "out of bounds"):
		return "index-out-of-range"
	case strings.Contains(p, "fill on nonempty"):
		return "fill-on-nonempty-buffer"
	case strings.Contains(p, "nil pointer"):
		return "nil-dereference"
	}
	if len(p) > 40 {
		p = p[:40]
	}
	return p
}

func vseq(rows []row) string {
	var b strings.Builder
	for i, r := range rows {
		if i > 0 {
			b.WriteByte(' ')
		}
		fmt.Fprintf(&b, "%d:%d", r.V, r.P)
	}
	return b.String()
}

func vkeys(rows []row) string {
	if len(rows) > 12 {
		return fmt.Sprintf("n=%d", len(rows))
	}
	var b strings.Builder
	for _, r := range rows {
		fmt.Fprintf(&b, "%d.", r.V)
	}
	return b.String()
}

func clip(rows []row) string {
	if len(rows) > 40 {
		return vseq(rows[:40]) + fmt.Sprintf(" … (%d rows)", len(rows))
	}
	return vseq(rows)
}

func sortedByV(rows []row) bool {
	for i := 1; i < len(rows); i++ {
		if rows[i].V < rows[i-1].V {
			return false
		}
	}
	return true
}

func sameMultiset(a, b []row) bool {
	if len(a) != len(b) {
		return false
	}
	x := append([]row(nil), a...)
	y := append([]row(nil), b...)
	less := func(s []row) func(i, j int) bool {
		return func(i, j int) bool {
			if s[i].P != s[j].P {
				return s[i].P < s[j].P
			}
			return s[i].V < s[j].V
		}
	}
	sort.Slice(x, less(x))
	sort.Slice(y, less(y))
	for i := range x {
		if x[i] != y[i] {
			return false
		}
	}
	return true
}

// subMultiset: every row of a occurs in b (with multiplicity).
func subMultiset(a, b []row) bool {
	m := map[row]int{}
	for _, r := range b {
		m[r]++
	}
	for _, r := range a {
		if m[r] == 0 {
			return false
		}
		m[r]--
	}
	return true
}

func runsClass(r int) string {
	switch {
	case r < 0:
		return "runs=?"
	case r <= 1:
		return fmt.Sprintf("runs=%d", r)
	}
	return "runs>=2"
}

// ---- SortReader -----------------------------------------------------------------

type sortCfg struct {
	canary, batch, spill int
}

func (c sortCfg) String() string {
	return fmt.Sprintf("canary=%d/spillbatch=%d/spilltarget=%dB", c.canary, c.batch, c.spill)
}

type sortCase struct {
	Scenario string `json:"scenario"`
	Kind     string `json:"key_type"`
	Cfg      string `json:"config"`
	Input    string `json:"input_rows_key:payload"`
	Dest     int    `json:"destination_frame_rows"`
	Chunking string `json:"upstream_chunking"`
	ErrAt    int    `json:"error_injected_at_read_ordinal"`
	Runs     int    `json:"nonempty_spill_runs"`
	Got      string `json:"got,omitempty"`
}

// sortCase runs one SortReader case; it returns the number of upstream Read
// calls of the run (up to and including the first EOF).
func (w *worker) sortCase(k kind, cfg sortCfg, in []row, d int, ch chunking, errAt int) (calls int) {
	sortio.VerifC10SetCanary(cfg.canary)
	sliceio.VerifC10SetSpillBatch(cfg.batch)
	w.evals++
	w.count("sort.cases")
	up := newScript(k, in, ch, errAt)
	var (
		R    sliceio.Reader
		err  error
		runs = -1
		res  driveRes
		left []string
	)
	desc := func(got string) sortCase {
		return sortCase{"SortReader", kindName[k], cfg.String(), clip(in), d, ch.String(), errAt, runs, got}
	}
	base := "C10/sort/" + structSig(k)
	class := func() string { return runsClass(runs) }

	p := guard(func() {
		R, err = sortio.SortReader(context.Background(), cfg.spill, typOf(k), up)
		// Spill files must not outlive the creation of the reader.
		left = w.listTmp()
		if R != nil && err == nil {
			runs = sortio.VerifC10MergeRuns(R)
			res = drive(k, R, d)
		}
	})
	calls = up.calls
	if p != "" {
		left = w.listTmp()
		w.violate(base+"panic/"+panicClass(p),
			"SortReader (or reading its result) panicked: "+p, desc("panic: "+p))
		w.cleanTmp(left)
		w.outcome("sort/panic")
		return
	}
	if len(left) > 0 {
		how := "ok"
		if err != nil {
			how = "error"
		}
		w.violate(base+"spill-survives-creation/creation-"+how,
			fmt.Sprintf("after SortReader returned, its temporary spill directory still exists: %v", left), desc(""))
		w.cleanTmp(left)
	}
	if up.zeroReads > 0 {
		w.count("sort.cases_with_zero_row_nonfinal_reads")
	}

	if errAt >= 0 && up.fired {
		w.count("sort.error_cases_fired")
		w.count("nontrivial")
		switch {
		case err == sliceio.EOF:
			w.violate(base+"error-swallowed/creation-returned-EOF/"+class(), "the injected upstream error was turned into EOF by SortReader", desc("creation err=EOF"))
		case err != nil:
			// reported at creation: fine
			if err == errInjected {
				w.outcome("sort/err-at-creation/identical")
			} else {
				w.outcome("sort/err-at-creation/other:" + panicClass(err.Error()))
			}
		case res.eof:
			w.violate(base+"error-swallowed/clean-EOF/"+class(),
				"an upstream read failed, yet SortReader succeeded and its reader ended with a clean EOF", desc("rows "+clip(res.rows)+" then EOF"))
		case res.stuck || res.badN != "":
			w.violate(base+"error-swallowed/no-progress/"+class(), "an upstream read failed; the reader neither reports it nor ends", desc(res.badN))
		default:
			// reported later by Read: acceptable
			w.outcome("sort/err-at-read")
			if res.post != "" {
				w.violate(base+"error-then-success/"+class(), "the reader reported the error and then "+res.post, desc(res.post))
			}
		}
		return
	}
	if errAt >= 0 {
		w.count("sort.error_cases_not_fired")
	}

	// No error was injected (or the ordinal was never reached): full oracle.
	if err != nil {
		if envErr(err) {
			fatalf("environment error in SortReader (not a verdict): %v (case %+v)", err, desc(""))
		}
		w.violate(base+"spurious-error/"+class(), "SortReader failed although no input read failed: "+err.Error(), desc("creation err="+err.Error()))
		w.outcome("sort/spurious-error")
		return
	}
	if runs >= 2 {
		w.count("sort.cases_spilled_2plus_runs")
		w.count("nontrivial")
	}
	w.counters["sort.max_runs"] = max(w.counters["sort.max_runs"], int64(runs))
	got := clip(res.rows)
	switch {
	case res.badN != "":
		w.violate(base+"bad-count/"+class(), res.badN, desc(got))
	case res.stuck:
		w.violate(base+"no-progress/"+class(), "1000 consecutive reads returned (0, nil)", desc(got))
	case res.err != nil && envErr(res.err):
		fatalf("environment error while reading a sorted stream (not a verdict): %v (case %+v)", res.err, desc(""))
	case res.err != nil:
		w.violate(base+"spurious-error/read/"+class(), "reading the sorted stream failed although no input read failed: "+res.err.Error(), desc(got+" then "+res.err.Error()))
	case !res.decodeOK:
		w.violate(base+"invented-key/"+class(), "output contains a key that is not in the input alphabet", desc(got))
	case len(res.rows) != len(in):
		w.violate(base+fmt.Sprintf("row-count/%s/", cmpWord(len(res.rows), len(in)))+class(),
			fmt.Sprintf("sorted stream has %d rows, input had %d", len(res.rows), len(in)), desc(got))
	case !sameMultiset(res.rows, in):
		w.violate(base+"not-a-permutation/"+class(), "output rows are not a permutation of the input rows", desc(got))
	case !sortedByV(res.rows):
		w.violate(base+"not-sorted/"+class(), "output is not in non-decreasing key order", desc(got))
	}
	if len(in) <= 6 {
		w.outcome(fmt.Sprintf("sort/%s/%s", runsClass(runs), vkeys(res.rows)))
	} else {
		w.outcome(fmt.Sprintf("sort/long/n=%d/runs=%d", len(res.rows), runs))
	}
	if runs >= 2 {
		w.sample("sort-spilled", desc(got))
	}
	return
}

// envErr recognises failures of the sandbox (descriptor or space limits) that
// must not be reported as verdicts about bigslice.
func envErr(err error) bool {
	m := err.Error()
	return strings.Contains(m, "too many open files") || strings.Contains(m, "no space left") ||
		strings.Contains(m, "cannot allocate memory") || strings.Contains(m, "quota exceeded")
}

func cmpWord(a, b int) string {
	if a < b {
		return "rows-lost"
	}
	return "rows-duplicated"
}

// ---- NewMergeReader ---------------------------------------------------------------

type mergeCase struct {
	Scenario string   `json:"scenario"`
	Kind     string   `json:"key_type"`
	Batch    int      `json:"spill_batch_size(per-stream buffer rows)"`
	Streams  []string `json:"sorted_input_streams_key:payload"`
	Dest     int      `json:"destination_frame_rows"`
	Chunking string   `json:"upstream_chunking"`
	ErrAt    string   `json:"error_injected_at(stream,read ordinal)"`
	Got      string   `json:"got,omitempty"`
}

func streamsDesc(streams [][]row) []string {
	s := make([]string, len(streams))
	for i := range streams {
		s[i] = clip(streams[i])
	}
	return s
}

func streamsClass(streams [][]row) string {
	if len(streams) >= 2 {
		return "k>=2"
	}
	return fmt.Sprintf("k=%d", len(streams))
}

// mergeCase runs one NewMergeReader case; errStream/errAt select the injected
// error (-1: none). It returns the per-stream Read call counts.
func (w *worker) mergeCase(k kind, batch int, streams [][]row, d int, ch chunking, errStream, errAt int) (calls []int) {
	sliceio.VerifC10SetSpillBatch(batch)
	w.evals++
	w.count("merge.cases")
	ups := make([]*script, len(streams))
	readers := make([]sliceio.Reader, len(streams))
	var all []row
	for i, s := range streams {
		e := -1
		if i == errStream {
			e = errAt
		}
		ups[i] = newScript(k, s, ch, e)
		readers[i] = ups[i]
		all = append(all, s...)
	}
	var (
		R   sliceio.Reader
		err error
		res driveRes
	)
	desc := func(got string) mergeCase {
		return mergeCase{"NewMergeReader", kindName[k], batch, streamsDesc(streams), d, ch.String(), fmt.Sprintf("(%d,%d)", errStream, errAt), got}
	}
	base := "C10/merge/" + structSig(k)
	class := streamsClass(streams)
	p := guard(func() {
		R, err = sortio.NewMergeReader(context.Background(), typOf(k), readers)
		if R != nil && err == nil {
			res = drive(k, R, d)
		}
	})
	calls = make([]int, len(ups))
	refills := false
	for i, u := range ups {
		calls[i] = u.calls
		if u.calls > 2 {
			refills = true
		}
	}
	if p != "" {
		w.violate(base+"panic/"+panicClass(p)+"/"+class, "NewMergeReader (or reading it) panicked: "+p, desc("panic: "+p))
		w.outcome("merge/panic")
		return
	}
	fired := errStream >= 0 && ups[errStream].fired
	if fired {
		w.count("merge.error_cases_fired")
		w.count("nontrivial")
		got := clip(res.rows)
		switch {
		case err == sliceio.EOF:
			w.violate(base+"error-swallowed/creation-returned-EOF/"+class, "the injected upstream error was turned into EOF by NewMergeReader", desc("creation err=EOF"))
		case err != nil:
			w.outcome("merge/err-at-creation")
		case res.eof:
			w.violate(base+"error-swallowed/clean-EOF/"+class,
				"a read of an input stream failed, yet the merged stream ended with a clean EOF", desc(got+" then EOF"))
		case res.stuck || res.badN != "":
			w.violate(base+"error-swallowed/no-progress/"+class, "a read of an input stream failed; the merged stream neither reports it nor ends", desc(got+" "+res.badN))
		default:
			w.outcome("merge/err-at-read")
			if res.post != "" {
				w.violate(base+"error-then-success/"+class, "the merged stream reported the error and then "+res.post, desc(res.post))
			}
			if !res.decodeOK || !subMultiset(res.rows, all) {
				w.violate(base+"rows-before-error-not-from-input/"+class, "rows delivered before the error are not rows of the inputs", desc(got))
			} else if !sortedByV(res.rows) {
				w.violate(base+"rows-before-error-not-sorted/"+class, "rows delivered before the error are out of key order", desc(got))
			}
		}
		return
	}
	if errStream >= 0 {
		w.count("merge.error_cases_not_fired")
	}
	if err != nil {
		w.violate(base+"spurious-error/"+class, "NewMergeReader failed although no input read failed: "+err.Error(), desc("creation err="+err.Error()))
		return
	}
	if refills {
		w.count("merge.cases_with_buffer_refill")
		w.count("nontrivial")
	}
	got := clip(res.rows)
	switch {
	case res.badN != "":
		w.violate(base+"bad-count/"+class, res.badN, desc(got))
	case res.stuck:
		w.violate(base+"no-progress/"+class, "1000 consecutive reads returned (0, nil)", desc(got))
	case res.err != nil:
		w.violate(base+"spurious-error/read/"+class, "reading the merged stream failed although no input read failed: "+res.err.Error(), desc(got+" then "+res.err.Error()))
	case !res.decodeOK:
		w.violate(base+"invented-key/"+class, "output contains a key that is in no input", desc(got))
	case len(res.rows) != len(all):
		w.violate(base+cmpWord(len(res.rows), len(all))+"/"+class, fmt.Sprintf("merged stream has %d rows, inputs have %d", len(res.rows), len(all)), desc(got))
	case !sameMultiset(res.rows, all):
		w.violate(base+"not-the-union/"+class, "merged rows are not the union of the input rows", desc(got))
	case !sortedByV(res.rows):
		w.violate(base+"not-sorted/"+class, "merged stream is not in non-decreasing key order", desc(got))
	}
	w.outcome(fmt.Sprintf("merge/k=%d/%s", len(streams), vkeys(res.rows)))
	if refills && len(streams) >= 2 {
		w.sample("merge", desc(got))
	}
	return
}

// ---- Reduce (reducing merge) --------------------------------------------------------

var sumCombiner = func() slicefunc.Func {
	f, ok := slicefunc.Of(func(a, b int) int { return a + b })
	if !ok {
		panic("slicefunc.Of")
	}
	return f
}()

// pointCombiner adds points field by field; on the packed model payload
// (X<<16 | Y, no carry out of Y in the enumerated inputs) that is integer addition.
var pointCombiner = func() slicefunc.Func {
	f, ok := slicefunc.Of(func(a, b point) point { return point{a.X + b.X, a.Y + b.Y} })
	if !ok {
		panic("slicefunc.Of")
	}
	return f
}()

// structSig puts the pointer-free struct column kinds in a signature class of their own.
func structSig(k kind) string {
	if isStructKind(k) {
		return "struct-column/"
	}
	return ""
}

type reduceCase struct {
	Scenario string   `json:"scenario"`
	Kind     string   `json:"key_type"`
	Chunk    int      `json:"sortio_chunk_size(per-stream buffer rows)"`
	Streams  []string `json:"sorted_unique_key_streams_key:value"`
	Dest     int      `json:"destination_frame_rows"`
	Chunking string   `json:"upstream_chunking"`
	ErrAt    string   `json:"error_injected_at(stream,read ordinal)"`
	Want     string   `json:"want,omitempty"`
	Got      string   `json:"got,omitempty"`
}

// reduceCase runs one sortio.Reduce case. Values are distinct powers of four, so
// the sum of a key's values identifies exactly which values were folded, and
// how often.
func (w *worker) reduceCase(k kind, chunk int, streams [][]row, d int, ch chunking, errStream, errAt int) (calls []int) {
	sortio.VerifC10SetChunk(chunk)
	w.evals++
	w.count("reduce.cases")
	ups := make([]*script, len(streams))
	readers := make([]sliceio.Reader, len(streams))
	want := map[int]int{}
	multi := false
	for i, s := range streams {
		e := -1
		if i == errStream {
			e = errAt
		}
		ups[i] = newScript(k, s, ch, e)
		readers[i] = ups[i]
		for _, r := range s {
			if _, ok := want[r.V]; ok {
				multi = true
			}
			want[r.V] += r.P
		}
	}
	var wantRows []row
	for v, p := range want {
		wantRows = append(wantRows, row{v, p})
	}
	sort.Slice(wantRows, func(i, j int) bool { return wantRows[i].V < wantRows[j].V })
	var res driveRes
	desc := func(got string) reduceCase {
		return reduceCase{"Reduce", kindName[k], chunk, streamsDesc(streams), d, ch.String(), fmt.Sprintf("(%d,%d)", errStream, errAt), clip(wantRows), got}
	}
	base := "C10/reduce/" + structSig(k)
	class := streamsClass(streams)
	p := guard(func() {
		comb := sumCombiner
		if k == kPt {
			comb = pointCombiner
		}
		R := sortio.Reduce(typOf(k), "c10", readers, comb)
		res = drive(k, R, d)
	})
	calls = make([]int, len(ups))
	refills := false
	for i, u := range ups {
		calls[i] = u.calls
		if u.calls > 2 {
			refills = true
		}
	}
	if p != "" {
		w.violate(base+"panic/"+panicClass(p)+"/"+class, "the reduce reader panicked: "+p, desc("panic: "+p))
		w.outcome("reduce/panic")
		return
	}
	got := clip(res.rows)
	fired := errStream >= 0 && ups[errStream].fired
	if fired {
		w.count("reduce.error_cases_fired")
		w.count("nontrivial")
		switch {
		case res.eof:
			w.violate(base+"error-swallowed/clean-EOF/"+class,
				"a read of an input stream failed, yet the reduced stream ended with a clean EOF", desc(got+" then EOF"))
		case res.stuck || res.badN != "":
			w.violate(base+"error-swallowed/no-progress/"+class, "a read of an input stream failed; the reduced stream neither reports it nor ends", desc(got+" "+res.badN))
		default:
			w.outcome("reduce/err-at-read")
			if res.post != "" {
				w.violate(base+"error-then-success/"+class, "the reduced stream reported the error and then "+res.post, desc(res.post))
			}
		}
		return
	}
	if errStream >= 0 {
		w.count("reduce.error_cases_not_fired")
	}
	if multi {
		w.count("reduce.cases_folding_a_key_from_2plus_streams")
	}
	if refills {
		w.count("reduce.cases_with_buffer_refill")
	}
	if multi || refills {
		w.count("nontrivial")
	}
	switch {
	case res.badN != "":
		w.violate(base+"bad-count/"+class, res.badN, desc(got))
	case res.stuck:
		w.violate(base+"no-progress/"+class, "1000 consecutive reads returned (0, nil)", desc(got))
	case res.err != nil:
		w.violate(base+"spurious-error/"+class, "reading the reduced stream failed although no input read failed: "+res.err.Error(), desc(got+" then "+res.err.Error()))
	case !res.decodeOK:
		w.violate(base+"invented-key/"+class, "output contains a key that is in no input", desc(got))
	default:
		gotMap := map[int]int{}
		dup := false
		for _, r := range res.rows {
			if _, ok := gotMap[r.V]; ok {
				dup = true
			}
			gotMap[r.V] = r.P
		}
		switch {
		case dup:
			w.violate(base+"key-emitted-twice/"+class, "a key appears in more than one output row", desc(got))
		case len(gotMap) < len(want):
			w.violate(base+"key-missing/"+class, "a key of the inputs has no output row", desc(got))
		case len(gotMap) > len(want):
			w.violate(base+"key-invented/"+class, "output has a key that is in no input", desc(got))
		default:
			for v, p := range want {
				if gp, ok := gotMap[v]; !ok {
					w.violate(base+"key-missing/"+class, "a key of the inputs has no output row", desc(got))
					break
				} else if gp != p {
					w.violate(base+"wrong-fold/"+class, fmt.Sprintf("key %d carries %d, the sum of its values is %d", v, gp, p), desc(got))
					break
				}
			}
		}
	}
	if sortedByV(res.rows) {
		w.outcome(fmt.Sprintf("reduce/k=%d/sorted/%s", len(streams), vkeys(res.rows)))
	} else {
		w.outcome(fmt.Sprintf("reduce/k=%d/unsorted/%s", len(streams), vkeys(res.rows)))
	}
	if multi && refills {
		w.sample("reduce", desc(got))
	}
	return
}
