package main

import (
	"bytes"
	"context"
	"errors"
	"fmt"
	"reflect"
	"strconv"

	"github.com/grailbio/bigslice/frame"
	"github.com/grailbio/bigslice/sliceio"
	"github.com/grailbio/bigslice/slicetype"
)

// ---- row types ----------------------------------------------------------------
//
// A row of the model is (V, P): V is the ordinal of the key (keys of every kind
// are strictly monotone in V, so "non-decreasing key order" is "non-decreasing
// V"), P is a payload that is unique per row within a case (sort, merge) or the
// value that is folded (reduce).

type kind int

const (
	kInt  kind = iota // (int key | int payload)
	kStr              // (string key | int payload)
	kPfx2             // (int, string key | int payload), prefix 2
	kUnit             // (int16 key | struct{} payload): rows that encode to almost nothing
	kRLE              // (rleKey): one column whose registered codec run-length encodes, so equal keys encode to well under a byte per row
	kPt               // (int key | point payload): a pointer-free struct VALUE column, gob-encoded (gob omits zero-valued struct fields)
	kPKey             // (pkey key | int payload): a pointer-free struct KEY column with registered Less/Hash, gob-encoded
)

// point is a pointer-free struct value. The model payload P packs it: X = P>>16,
// Y = P&0xffff, so inputs choose which fields are zero.
type point struct{ X, Y int32 }

// pkey is a pointer-free struct key: ordinal V <-> (A, B) = (V/3, V%3), ordered
// lexicographically, so B is zero for every third key.
type pkey struct{ A, B int32 }

func init() {
	frame.RegisterOps(func(s []pkey) frame.Ops {
		return frame.Ops{
			Less: func(i, j int) bool {
				if s[i].A != s[j].A {
					return s[i].A < s[j].A
				}
				return s[i].B < s[j].B
			},
			HashWithSeed: func(i int, seed uint32) uint32 {
				return (uint32(s[i].A)*2654435761 + uint32(s[i].B)*40503) ^ seed
			},
		}
	})
}

func isStructKind(k kind) bool { return k == kPt || k == kPKey }

// rleKey is a key type with a user codec (frame.Ops.Encode/Decode), as the
// frame package documents: a vector is written as (value, run length) pairs.
type rleKey int32

func init() {
	frame.RegisterOps(func(s []rleKey) frame.Ops {
		return frame.Ops{
			Less:         func(i, j int) bool { return s[i] < s[j] },
			HashWithSeed: func(i int, seed uint32) uint32 { return uint32(s[i])*2654435761 ^ seed },
			Encode: func(e frame.Encoder, i, j int) error {
				var runs []int32
				for k := i; k < j; k++ {
					if n := len(runs); n > 0 && runs[n-2] == int32(s[k]) {
						runs[n-1]++
					} else {
						runs = append(runs, int32(s[k]), 1)
					}
				}
				return e.Encode(runs)
			},
			Decode: func(d frame.Decoder, i, j int) error {
				var runs []int32
				if err := d.Decode(&runs); err != nil {
					return err
				}
				k := i
				for r := 0; r+1 < len(runs); r += 2 {
					for c := int32(0); c < runs[r+1]; c++ {
						if k >= j {
							return errors.New("rleKey: more values than rows")
						}
						s[k] = rleKey(runs[r])
						k++
					}
				}
				if k != j {
					return errors.New("rleKey: fewer values than rows")
				}
				return nil
			},
		}
	})
}

var kindName = map[kind]string{kInt: "int", kStr: "string", kPfx2: "int+string/prefix2", kUnit: "int16+struct{}", kRLE: "rle-coded key (custom codec)",
	kPt: "int key + struct{X,Y int32} value", kPKey: "struct{A,B int32} key + int value"}

type row struct{ V, P int }

type tdesc struct {
	cols   []reflect.Type
	prefix int
}

func (t tdesc) NumOut() int            { return len(t.cols) }
func (t tdesc) Out(i int) reflect.Type { return t.cols[i] }
func (t tdesc) Prefix() int            { return t.prefix }

var (
	tInt    = reflect.TypeOf(int(0))
	tStr    = reflect.TypeOf("")
	tInt16  = reflect.TypeOf(int16(0))
	tStruct = reflect.TypeOf(struct{}{})
)

func typOf(k kind) slicetype.Type {
	switch k {
	case kInt:
		return tdesc{[]reflect.Type{tInt, tInt}, 1}
	case kStr:
		return tdesc{[]reflect.Type{tStr, tInt}, 1}
	case kPfx2:
		return tdesc{[]reflect.Type{tInt, tStr, tInt}, 2}
	case kUnit:
		return tdesc{[]reflect.Type{tInt16, tStruct}, 1}
	case kRLE:
		return tdesc{[]reflect.Type{reflect.TypeOf(rleKey(0))}, 1}
	case kPt:
		return tdesc{[]reflect.Type{tInt, reflect.TypeOf(point{})}, 1}
	case kPKey:
		return tdesc{[]reflect.Type{reflect.TypeOf(pkey{}), tInt}, 1}
	}
	panic("kind")
}

// Key encodings, strictly monotone in v (v in [0, 9999]).
func keyInt(v int) int { return v*3 - 5 }
func keyStr(v int) string {
	// fixed-width prefix decides the order; the suffix only varies the length.
	return fmt.Sprintf("%04d", v) + "xx"[:v%3]
}
func keyPfxA(v int) int    { return v / 2 }
func keyPfxB(v int) string { return strconv.Itoa(v % 2) }

// buildFrame makes a frame holding rows (fresh memory).
func buildFrame(k kind, rows []row) frame.Frame {
	n := len(rows)
	pay := make([]int, n)
	for i, r := range rows {
		pay[i] = r.P
	}
	switch k {
	case kInt:
		keys := make([]int, n)
		for i, r := range rows {
			keys[i] = keyInt(r.V)
		}
		return frame.Slices(keys, pay)
	case kStr:
		keys := make([]string, n)
		for i, r := range rows {
			keys[i] = keyStr(r.V)
		}
		return frame.Slices(keys, pay)
	case kPfx2:
		a := make([]int, n)
		b := make([]string, n)
		for i, r := range rows {
			a[i] = keyPfxA(r.V)
			b[i] = keyPfxB(r.V)
		}
		return frame.Slices(a, b, pay).Prefixed(2)
	case kUnit:
		keys := make([]int16, n)
		for i, r := range rows {
			keys[i] = int16(r.V)
		}
		return frame.Slices(keys, make([]struct{}, n))
	case kRLE:
		keys := make([]rleKey, n)
		for i, r := range rows {
			keys[i] = rleKey(r.V)
		}
		return frame.Slices(keys)
	case kPt:
		keys := make([]int, n)
		vals := make([]point, n)
		for i, r := range rows {
			keys[i] = keyInt(r.V)
			vals[i] = point{int32(r.P >> 16), int32(r.P & 0xffff)}
		}
		return frame.Slices(keys, vals)
	case kPKey:
		keys := make([]pkey, n)
		for i, r := range rows {
			keys[i] = pkey{int32(r.V / 3), int32(r.V % 3)}
		}
		return frame.Slices(keys, pay)
	}
	panic("kind")
}

// decodeRows converts rows [0,n) of f back to model rows. ok=false if a key is
// not the encoding of any ordinal (a torn or invented row).
func decodeRows(k kind, f frame.Frame, n int, dst []row) ([]row, bool) {
	ok := true
	g := f.Slice(0, n)
	switch k {
	case kInt:
		keys := g.Interface(0).([]int)
		pay := g.Interface(1).([]int)
		for i := 0; i < n; i++ {
			x := keys[i] + 5
			if x%3 != 0 || x < 0 {
				ok = false
			}
			dst = append(dst, row{x / 3, pay[i]})
		}
	case kStr:
		keys := g.Interface(0).([]string)
		pay := g.Interface(1).([]int)
		for i := 0; i < n; i++ {
			v := -1
			if len(keys[i]) >= 4 {
				if x, err := strconv.Atoi(keys[i][:4]); err == nil && keyStr(x) == keys[i] {
					v = x
				}
			}
			if v < 0 {
				ok = false
			}
			dst = append(dst, row{v, pay[i]})
		}
	case kPfx2:
		a := g.Interface(0).([]int)
		b := g.Interface(1).([]string)
		pay := g.Interface(2).([]int)
		for i := 0; i < n; i++ {
			v := -1
			if b[i] == "0" {
				v = a[i] * 2
			} else if b[i] == "1" {
				v = a[i]*2 + 1
			}
			if v < 0 || a[i] < 0 {
				ok = false
			}
			dst = append(dst, row{v, pay[i]})
		}
	case kUnit:
		keys := g.Interface(0).([]int16)
		for i := 0; i < n; i++ {
			dst = append(dst, row{int(keys[i]), 0})
		}
	case kRLE:
		keys := g.Interface(0).([]rleKey)
		for i := 0; i < n; i++ {
			dst = append(dst, row{int(keys[i]), 0})
		}
	case kPt:
		keys := g.Interface(0).([]int)
		vals := g.Interface(1).([]point)
		for i := 0; i < n; i++ {
			x := keys[i] + 5
			if x%3 != 0 || x < 0 || vals[i].X < 0 || vals[i].Y < 0 || vals[i].Y > 0xffff {
				ok = false
			}
			dst = append(dst, row{x / 3, int(vals[i].X)<<16 | int(vals[i].Y)&0xffff})
		}
	case kPKey:
		keys := g.Interface(0).([]pkey)
		pay := g.Interface(1).([]int)
		for i := 0; i < n; i++ {
			if keys[i].A < 0 || keys[i].B < 0 || keys[i].B > 2 {
				ok = false
			}
			dst = append(dst, row{int(keys[i].A)*3 + int(keys[i].B), pay[i]})
		}
	}
	return dst, ok
}

// ---- scripted upstream reader ---------------------------------------------------

var errInjected = errors.New("c10: injected upstream read error")

// chunking describes how an upstream delivers its rows.
type chunking struct {
	// pat is a cyclic pattern of the maximum number of rows per Read call;
	// -1 = as many as asked for, 0 = a read that returns (0, nil) while rows remain.
	pat []int
	// eofWithData: the last rows are returned together with EOF; otherwise EOF
	// comes on a separate, empty read.
	eofWithData bool
	// enc > 0: the upstream is an encoded stream instead: the rows are written
	// with sliceio.NewEncodingWriter in batches of enc rows and every Read is
	// served by one sliceio.NewDecodingReader over those bytes, decoding
	// straight into the caller's frame (what a task output or a spill file is
	// to the merge buffers). pat is unused.
	enc int
}

func (c chunking) String() string {
	if c.enc > 0 {
		return fmt.Sprintf("encoded stream read through sliceio.NewDecodingReader, batches of %d rows", c.enc)
	}
	s := "pat="
	for i, p := range c.pat {
		if i > 0 {
			s += ","
		}
		if p < 0 {
			s += "all"
		} else {
			s += strconv.Itoa(p)
		}
	}
	if c.eofWithData {
		return s + "/eof-with-last-rows"
	}
	return s + "/eof-separate"
}

func (c chunking) hasZero() bool {
	for _, p := range c.pat {
		if p == 0 {
			return true
		}
	}
	return false
}

// script is a sliceio.Reader over a fixed frame, with a chunking and an optional
// error injected in place of the errAt'th Read call.
type script struct {
	src   frame.Frame
	pos   int
	ch    chunking
	errAt int // -1: none

	calls     int // Read calls up to and including the first EOF / the injected error
	zeroReads int // (0, nil) results delivered while rows remained
	done      bool
	afterEOF  int
	fired     bool
	afterErr  int

	dec sliceio.Reader // ch.enc > 0: the decoding reader over the encoded rows
}

func newScript(k kind, rows []row, ch chunking, errAt int) *script {
	s := &script{src: buildFrame(k, rows), ch: ch, errAt: errAt}
	if ch.enc > 0 {
		var buf bytes.Buffer
		w := sliceio.NewEncodingWriter(&buf)
		for i := 0; i < len(rows); i += ch.enc {
			if err := w.Write(context.Background(), s.src.Slice(i, min(i+ch.enc, len(rows)))); err != nil {
				fatalf("encoding an upstream stream: %v", err)
			}
		}
		s.dec = sliceio.NewDecodingReader(&buf)
	}
	return s
}

func (s *script) Read(_ context.Context, out frame.Frame) (int, error) {
	if s.fired {
		s.afterErr++
		return 0, errInjected
	}
	if s.done {
		s.afterEOF++
		return 0, sliceio.EOF
	}
	c := s.calls
	s.calls++
	if c == s.errAt {
		s.fired = true
		return 0, errInjected
	}
	if s.dec != nil {
		n, err := s.dec.Read(context.Background(), out)
		if err == sliceio.EOF {
			s.done = true
		}
		return n, err
	}
	rem := s.src.Len() - s.pos
	n := out.Len()
	if want := s.ch.pat[c%len(s.ch.pat)]; want >= 0 && want < n {
		n = want
	}
	if rem < n {
		n = rem
	}
	if n > 0 {
		frame.Copy(out.Slice(0, n), s.src.Slice(s.pos, s.pos+n))
		s.pos += n
	} else if rem > 0 {
		s.zeroReads++
		return 0, nil
	}
	if s.pos == s.src.Len() && (s.ch.eofWithData || n == 0) {
		s.done = true
		return n, sliceio.EOF
	}
	return n, nil
}
