package main

import "fmt"

// ---- the enumerated space ---------------------------------------------------------

var (
	kinds3   = []kind{kInt, kStr, kPfx2}
	dests    = []int{1, 2, 5}
	canaries = []int{1, 2, 3, 256}
	batches  = []int{1, 2, 128}
	spills   = []int{1, 16, 1024}

	patsPlain = [][]int{{-1}, {1}, {2}, {1, 2}, {3, 1}}
	patsZero  = [][]int{{0, -1}, {0, 1}, {1, 0, 0, 2}}
)

// chunkings returns the upstream chunkings: every pattern with EOF delivered
// together with the last rows and on a separate empty read. The first two are
// the "plain" ones (every read is served in full).
func chunkings(zero bool) []chunking {
	var cs []chunking
	pats := patsPlain
	if zero {
		pats = append(append([][]int{}, patsPlain...), patsZero...)
	}
	for _, p := range pats {
		cs = append(cs, chunking{p, true, 0}, chunking{p, false, 0})
	}
	return cs
}

// space holds the per-tier bounds.
type space struct {
	// SortReader, inputs = every 3-key sequence up to length 6.
	sortDestLen  int        // inputs up to this length: every destination size x the plain chunkings; longer: destination 2, first plain chunking, key type rotating with the input
	plainCh      []chunking // the plain chunkings used in the destination product
	sortChunkLen int        // inputs up to this length (+ one representative per greater length): every chunking, destination 2
	sortErrLen   int        // inputs up to this length (+ one representative per greater length): an error at every read ordinal, for errCh, destination 2
	errCh        []chunking
	// NewMergeReader: k streams, each every sorted 3-key sequence up to mergeLen[k].
	mergeLen    [4]int
	mergeErrLen [4]int // error at every (stream, ordinal) when the longest stream is at most this long
	// Reduce: error at every (stream, ordinal) for k up to this.
	reduceErrK int
	// long structured inputs
	longLens256     []int
	longShapes      []string
	longDests       []int
	longRotateKinds bool // long sort inputs: one key type per (length, shape), rotating, instead of all three
	longChunking    []chunking
}

func spaceOf(tier string) space {
	all := chunkings(true)
	if tier == "thorough" {
		return space{
			sortDestLen: 6, plainCh: all[:2], sortChunkLen: 4, sortErrLen: 3, errCh: all,
			mergeLen: [4]int{0, 3, 3, 2}, mergeErrLen: [4]int{0, 3, 2, 2}, reduceErrK: 3,
			longLens256:  []int{255, 256, 257, 512, 513, 1024},
			longShapes:   []string{"all-equal", "descending", "stride37"},
			longDests:    dests,
			longChunking: []chunking{{[]int{-1}, true, 0}, {[]int{-1}, false, 0}, {[]int{3, 1}, true, 0}, {[]int{0, -1}, false, 0}, {[]int{1, 0, 0, 2}, true, 0}},
		}
	}
	return space{
		sortDestLen: 4, plainCh: all[:1], sortChunkLen: 2, sortErrLen: 2,
		errCh:    []chunking{all[0], all[1], all[3], all[8], all[11], all[13], all[14]},
		mergeLen: [4]int{0, 3, 2, 2}, mergeErrLen: [4]int{0, 3, 2, 1}, reduceErrK: 2,
		longLens256: []int{255, 256, 257, 513, 1024},
		longShapes:  []string{"all-equal", "descending"},
		longDests:   []int{2}, longRotateKinds: true,
		longChunking: []chunking{{[]int{-1}, true, 0}, {[]int{1, 0, 0, 2}, false, 0}},
	}
}

// seqs3 calls f for every sequence over {0,1,2} of length n.
func seqs3(n int, f func([]int)) {
	s := make([]int, n)
	var rec func(i int)
	rec = func(i int) {
		if i == n {
			f(s)
			return
		}
		for v := 0; v < 3; v++ {
			s[i] = v
			rec(i + 1)
		}
	}
	rec(0)
}

// sorted3 returns every non-decreasing sequence over {0,1,2} of length <= n, shortest first.
func sorted3(n int) [][]int {
	var out [][]int
	for l := 0; l <= n; l++ {
		seqs3(l, func(s []int) {
			for i := 1; i < len(s); i++ {
				if s[i] < s[i-1] {
					return
				}
			}
			out = append(out, append([]int(nil), s...))
		})
	}
	return out
}

func rowsOf(vs []int, p0 int) []row {
	rows := make([]row, len(vs))
	for i, v := range vs {
		rows[i] = row{v, p0 + i}
	}
	return rows
}

// tuples calls f for every k-tuple over [0,n), in odometer order.
func tuples(k, n int, f func([]int)) {
	t := make([]int, k)
	var rec func(i int)
	rec = func(i int) {
		if i == k {
			f(t)
			return
		}
		for v := 0; v < n; v++ {
			t[i] = v
			rec(i + 1)
		}
	}
	rec(0)
}

func longLengths(sp space, canary int) []int {
	if canary >= 100 {
		return sp.longLens256
	}
	var ls []int
	for n := 7; n <= 4*canary; n++ {
		ls = append(ls, n)
	}
	return append(ls, 31, 64)
}

func shape(name string, n int, unit bool) []row {
	rows := make([]row, n)
	for i := range rows {
		switch name {
		case "all-equal":
			rows[i] = row{1, i}
		case "descending":
			rows[i] = row{n - 1 - i, i}
		case "stride37":
			rows[i] = row{(i * 37) % n, i}
		}
		if unit {
			rows[i].P = 0
		}
	}
	return rows
}

// sortCfgs: the (canary, spill batch, spill target) product. With at most 6 input
// rows and a canary of 256 the first fill ends the input, the spill target is
// never consulted and there is one run: those inputs take every batch size with
// one spill target only. Long inputs take the full product.
func sortCfgs(short bool) []sortCfg {
	var cfgs []sortCfg
	for _, c := range canaries {
		for _, b := range batches {
			for _, s := range spills {
				if short && c >= 100 && s != 16 {
					continue
				}
				cfgs = append(cfgs, sortCfg{c, b, s})
			}
		}
	}
	return cfgs
}

// enumerate calls visit(name, body) for every group of the tier's space,
// simplest first. Bodies are cheap closures; costly inputs are built inside.
func enumerate(tier string, visit func(name string, body func(w *worker))) {
	sp := spaceOf(tier)
	sortCh := chunkings(true)
	mergeCh := chunkings(false)
	plain1 := mergeCh[:1]

	// --- reducing merge: k streams, each any subset of a 3-key alphabet ---
	subsets := [][]int{{}, {0}, {1}, {2}, {0, 1}, {0, 2}, {1, 2}, {0, 1, 2}}
	reduceStreams := func(t []int, sets [][]int) [][]row {
		streams := make([][]row, len(t))
		mul := 1
		for j, si := range t {
			for _, v := range sets[si] {
				streams[j] = append(streams[j], row{v, (v + 1) * mul})
			}
			mul *= 1000
		}
		return streams
	}
	reduceBody := func(k kind, chunk int, mk func() [][]row, ds []int, chs []chunking, errs bool) func(w *worker) {
		return func(w *worker) {
			streams := mk()
			for _, d := range ds {
				for _, ch := range chs {
					calls := w.reduceCase(k, chunk, streams, d, ch, -1, -1)
					if !errs {
						continue
					}
					for j, c := range calls {
						for e := 0; e < c; e++ {
							w.reduceCase(k, chunk, streams, d, ch, j, e)
						}
					}
				}
			}
		}
	}
	reduceShort := func(k int) {
		tuples(k, len(subsets), func(t []int) {
			streams := reduceStreams(t, subsets)
			mk := func() [][]row { return streams }
			for _, kd := range kinds3 {
				for _, chunk := range batches {
					visit(fmt.Sprintf("reduce/short/k=%d", k), reduceBody(kd, chunk, mk, dests, mergeCh, k <= sp.reduceErrK))
				}
			}
		})
	}

	// --- merge: k streams, each any sorted 3-key sequence up to mergeLen[k] ---
	mergeBody := func(k kind, batch int, mk func() [][]row, ds []int, chs []chunking, errs bool) func(w *worker) {
		return func(w *worker) {
			streams := mk()
			for _, d := range ds {
				for _, ch := range chs {
					calls := w.mergeCase(k, batch, streams, d, ch, -1, -1)
					if !errs {
						continue
					}
					for j, c := range calls {
						for e := 0; e < c; e++ {
							w.mergeCase(k, batch, streams, d, ch, j, e)
						}
					}
				}
			}
		}
	}
	mergeShort := func(k int) {
		srt := sorted3(sp.mergeLen[k])
		tuples(k, len(srt), func(t []int) {
			streams := make([][]row, k)
			p, maxLen := 0, 0
			for j, si := range t {
				streams[j] = rowsOf(srt[si], p)
				p += len(srt[si])
				maxLen = max(maxLen, len(srt[si]))
			}
			mk := func() [][]row { return streams }
			for _, kd := range kinds3 {
				for _, b := range batches {
					visit(fmt.Sprintf("merge/short/k=%d", k), mergeBody(kd, b, mk, dests, mergeCh, maxLen <= sp.mergeErrLen[k]))
				}
			}
		})
	}

	// --- SortReader: every 3-key sequence up to length 6 ---
	cfgsShort := sortCfgs(true)
	inputNo := 0
	sortShort := func(lmin, lmax int) {
		for l := lmin; l <= lmax; l++ {
			l := l
			seqs3(l, func(s []int) {
				in := rowsOf(s, 0)
				// one representative per length: 2,1,0,2,1,0 cut to the length
				rep := true
				for i, v := range s {
					if v != 2-i%3 {
						rep = false
					}
				}
				no := inputNo
				inputNo++
				for ki, kd := range kinds3 {
					if l > sp.sortDestLen && !rep && ki != no%3 {
						continue
					}
					for _, cfg := range cfgsShort {
						kd, cfg := kd, cfg
						visit(fmt.Sprintf("sort/short/len=%d", l), func(w *worker) {
							memo := map[string]int{} // chunking -> upstream calls, destination 2
							base := func(d int, ch chunking) int {
								if d == 2 {
									if c, ok := memo[ch.String()]; ok {
										return c
									}
								}
								c := w.sortCase(kd, cfg, in, d, ch, -1)
								if d == 2 {
									memo[ch.String()] = c
								}
								return c
							}
							if l <= sp.sortDestLen {
								for _, d := range dests {
									for _, ch := range sp.plainCh {
										base(d, ch)
									}
								}
							} else {
								base(2, sp.plainCh[0])
							}
							if l <= sp.sortChunkLen || rep {
								for _, ch := range sortCh {
									base(2, ch)
								}
							}
							// an upstream error surfaces while the reader is created, before any
							// destination frame exists: one destination size.
							if l <= sp.sortErrLen || rep {
								for _, ch := range sp.errCh {
									calls := base(2, ch)
									for e := 0; e < calls; e++ {
										w.sortCase(kd, cfg, in, 2, ch, e)
									}
								}
							}
						})
					}
				}
			})
		}

	}
	compactRows := func() {
		// --- rows that encode to (almost) nothing: struct{} payload (DESIGN §9 #13) ---
		for _, c := range canaries {
			var inputs []func() []row
			for l := 0; l <= 3; l++ {
				seqs3(l, func(s []int) {
					rows := rowsOf(s, 0)
					for i := range rows {
						rows[i].P = 0
					}
					inputs = append(inputs, func() []row { return rows })
				})
			}
			lens := longLengths(sp, c)
			if c < 100 {
				lens = []int{4 * c, 64}
			}
			for _, n := range lens {
				for _, sh := range []string{"all-equal", "descending"} {
					n, sh := n, sh
					inputs = append(inputs, func() []row { return shape(sh, n, true) })
				}
			}
			for _, mk := range inputs {
				for _, b := range batches {
					for _, s := range spills {
						mk, cfg := mk, sortCfg{c, b, s}
						visit("sort/struct{}", func(w *worker) {
							in := mk()
							w.count("sort.struct{}_cases")
							w.sortCase(kUnit, cfg, in, 2, chunking{[]int{-1}, true, 0}, -1)
							w.sortCase(kUnit, cfg, in, 5, chunking{[]int{1, 0, 0, 2}, false, 0}, -1)
						})
						visit("sort/compact-codec", func(w *worker) {
							in := mk()
							w.count("sort.compact_codec_cases")
							w.sortCase(kRLE, cfg, in, 2, chunking{[]int{-1}, true, 0}, -1)
							w.sortCase(kRLE, cfg, in, 5, chunking{[]int{1, 0, 0, 2}, false, 0}, -1)
						})
					}
				}
			}
		}
	}
	// --- pointer-free struct columns (value: kPt, key: kPKey) ---------------------------
	// gob omits zero-valued struct fields, so a decoder that reuses a frame must
	// clear it first: the inputs alternate which field is zero between consecutive
	// buffer-fulls (period = rows per encoded batch), runs / streams are longer
	// than two buffer-fulls, and the merge and reduce readers are fed by real
	// decoding readers (encoded-stream upstream) as well as by scripted ones.
	structKinds := []kind{kPt, kPKey}
	// alt gives the payload of the row at position pos of a run/stream: the
	// non-zero field flips every `period` rows. kPKey rows keep plain payloads
	// (their zero fields are in the key: B = V%3).
	alt := func(k kind, pos, period, val int) int {
		if k != kPt {
			return val
		}
		if (pos/period)%2 == 0 {
			return val << 16
		}
		return val
	}
	structCols := func() {
		// short, exhaustive: every 3-key sequence x small canaries
		maxLen := 3
		if tier == "thorough" {
			maxLen = 4
		}
		for l := 0; l <= maxLen; l++ {
			seqs3(l, func(sq []int) {
				vs := append([]int(nil), sq...)
				for _, kd := range structKinds {
					for _, cfg := range cfgsShort {
						if cfg.canary >= 100 {
							continue
						}
						kd, cfg := kd, cfg
						visit("sort/struct-col/short", func(w *worker) {
							in := rowsOf(vs, 0)
							for i := range in {
								in[i].P = alt(kd, i, 1, i+1)
							}
							w.sortCase(kd, cfg, in, 2, chunking{pat: []int{-1}, eofWithData: true}, -1)
							w.sortCase(kd, cfg, in, 5, chunking{enc: cfg.batch}, -1)
						})
					}
				}
			})
		}
		// long runs: more than two buffer-fulls per run
		type lc struct {
			cfg sortCfg
			ns  []int
		}
		for _, c := range []lc{
			{sortCfg{4, 1, 1}, []int{7, 16, 31}}, {sortCfg{3, 1, 16}, []int{7, 16}}, {sortCfg{7, 2, 16}, []int{7, 16, 31}}, {sortCfg{5, 2, 1024}, []int{16, 31}},
			{sortCfg{256, 128, 1024}, []int{300, 700, 1000}}, {sortCfg{400, 128, 1 << 20}, []int{300, 700, 1000}}, {sortCfg{130, 128, 16}, []int{300, 700}},
		} {
			for _, n := range c.ns {
				for _, sh := range []string{"descending", "ascending", "stride37"} {
					for _, kd := range structKinds {
						kd, cfg, n, sh := kd, c.cfg, n, sh
						visit("sort/struct-col/long", func(w *worker) {
							mk := func(period int) []row {
								in := make([]row, n)
								for i := range in {
									v := n - 1 - i
									switch sh {
									case "ascending":
										v = i
									case "stride37":
										v = (i * 37) % n
									}
									// position in a sorted run is the key rank up to an offset; rows
									// `period` ranks apart share a buffer slot in consecutive fills.
									in[i] = row{v, alt(kd, v, period, v+1)}
									if kd == kPKey {
										in[i].P = i
									}
								}
								return in
							}
							in := mk(cfg.batch)
							for _, d := range dests {
								w.sortCase(kd, cfg, in, d, chunking{pat: []int{-1}, eofWithData: true}, -1)
							}
							w.sortCase(kd, cfg, in, 2, chunking{pat: []int{3, 1}}, -1)
							for _, e := range []int{cfg.batch, 2*cfg.batch + 1} {
								w.sortCase(kd, cfg, mk(e), 2, chunking{enc: e}, -1)
							}
						})
					}
				}
			}
		}
		// merge and reduce readers over real decoding readers
		encs := func(b int) []int { return []int{b, 2*b + 1, max(1, b/2)} }
		for _, b := range batches {
			b := b
			for _, lens := range [][]int{{3*b + 1}, {2*b + 1, 3*b + 2}, {3 * b, 0, 2*b + 1}} {
				for _, sh := range []string{"interleaved", "disjoint", "identical"} {
					for _, kd := range structKinds {
						for _, e := range encs(b) {
							lens, sh, kd, e := lens, sh, kd, e
							mk := func() [][]row {
								streams := make([][]row, len(lens))
								p, base := 0, 0
								for j, n := range lens {
									for i := 0; i < n; i++ {
										v := i
										switch sh {
										case "interleaved":
											v = i*len(lens) + j
										case "disjoint":
											v = base + i
										}
										streams[j] = append(streams[j], row{v, alt(kd, i, e, p+1)})
										p++
									}
									base += n
								}
								return streams
							}
							visit("merge/struct-col", mergeBody(kd, b, mk, dests, []chunking{{enc: e}}, len(lens) == 2 && b <= 2))
							visit("merge/struct-col", mergeBody(kd, b, mk, []int{2}, []chunking{{pat: []int{-1}, eofWithData: true}}, false))
						}
					}
				}
			}
			// reduce: unique keys per stream; chunk = b
			n := 3*b + 2
			all := make([]int, n)
			for i := range all {
				all[i] = i
			}
			var ev2, th3 []int
			for v := 0; v < n; v++ {
				if v%2 == 0 {
					ev2 = append(ev2, v)
				}
				if v%3 == 0 {
					th3 = append(th3, v)
				}
			}
			sets := [][]int{all, ev2, th3}
			for _, t := range [][]int{{0}, {0, 0}, {0, 1}, {1, 2}, {0, 1, 2}, {0, 0, 0}} {
				for _, kd := range structKinds {
					for _, e := range encs(b) {
						t, kd, e := t, kd, e
						mk := func() [][]row {
							streams := make([][]row, len(t))
							mul := 1
							for j, si := range t {
								for i, v := range sets[si] {
									if kd == kPt {
										streams[j] = append(streams[j], row{v, alt(kd, i, e, v+1)})
									} else {
										streams[j] = append(streams[j], row{v, (v + 1) * mul})
									}
								}
								mul *= 1000
							}
							return streams
						}
						visit("reduce/struct-col", reduceBody(kd, b, mk, dests, []chunking{{enc: e}}, len(t) == 2 && b <= 2))
						visit("reduce/struct-col", reduceBody(kd, b, mk, []int{2}, []chunking{{pat: []int{-1}, eofWithData: true}}, false))
					}
				}
			}
		}
		// short, exhaustive merge / reduce over decoding readers (k <= 2)
		srt2 := sorted3(2)
		for k := 1; k <= 2; k++ {
			tuples(k, len(srt2), func(t []int) {
				tt := append([]int(nil), t...)
				for _, kd := range structKinds {
					for _, b := range []int{1, 2} {
						kd, b := kd, b
						mk := func() [][]row {
							streams := make([][]row, len(tt))
							p := 0
							for j, si := range tt {
								for _, v := range srt2[si] {
									streams[j] = append(streams[j], row{v, alt(kd, p, 1, p+1)})
									p++
								}
							}
							return streams
						}
						visit("merge/struct-col", mergeBody(kd, b, mk, []int{1, 2}, []chunking{{enc: 1}, {enc: 2}}, false))
					}
				}
			})
			tuples(k, len(subsets), func(t []int) {
				tt := append([]int(nil), t...)
				for _, kd := range structKinds {
					for _, b := range []int{1, 2} {
						kd, b := kd, b
						mk := func() [][]row {
							streams := make([][]row, len(tt))
							mul := 1
							for j, si := range tt {
								for i, v := range subsets[si] {
									if kd == kPt {
										streams[j] = append(streams[j], row{v, alt(kd, i+j, 1, v+1)})
									} else {
										streams[j] = append(streams[j], row{v, (v + 1) * mul})
									}
								}
								mul *= 1000
							}
							return streams
						}
						visit("reduce/struct-col", reduceBody(kd, b, mk, []int{1, 2}, []chunking{{enc: 1}, {enc: 2}}, false))
					}
				}
			})
		}
	}
	// simplest first across the three readers
	compactRows() // first: cheap, and the only family with rows of less than a byte; never cut by the time budget
	reduceShort(0)
	mergeShort(0)
	reduceShort(1)
	mergeShort(1)
	sortShort(0, 2)
	structCols() // early as well: cheap, and the only family with struct columns and decoding-reader upstreams
	reduceShort(2)
	mergeShort(2)
	sortShort(3, 3)
	reduceShort(3)
	mergeShort(3)
	sortShort(4, 4)

	// --- long, structured inputs -------------------------------------------------
	// reduce: streams longer than the chunk size
	for _, n := range []int{5, 130, 300} {
		n := n
		sets := func() [][]int {
			all := make([]int, n)
			for i := range all {
				all[i] = i
			}
			mult := func(m, off int) []int {
				var s []int
				for v := off; v < n; v += m {
					s = append(s, v)
				}
				return s
			}
			return [][]int{all, mult(2, 0), mult(2, 1), mult(3, 0), all[:n/2], all[n/2:], {}}
		}
		for _, t := range [][]int{{0}, {0, 0}, {1, 2}, {1, 3}, {4, 5}, {0, 6}, {0, 0, 0}, {1, 2, 3}, {3, 6, 0}, {5, 4, 1}} {
			t := t
			mk := func() [][]row { return reduceStreams(t, sets()) }
			for _, kd := range kinds3 {
				for _, chunk := range batches {
					visit("reduce/long", reduceBody(kd, chunk, mk, sp.longDests, plain1, n <= 130))
				}
			}
		}
	}
	// merge: streams longer than the spill batch size
	for _, lens := range [][]int{{129}, {127, 129}, {128, 128}, {300, 0}, {1, 257}, {128, 129, 130}, {0, 300, 5}, {64, 64, 64}} {
		for _, sh := range []string{"interleaved", "all-equal", "disjoint", "identical"} {
			lens, sh := lens, sh
			mk := func() [][]row {
				streams := make([][]row, len(lens))
				p, base := 0, 0
				for j, n := range lens {
					for i := 0; i < n; i++ {
						var v int
						switch sh {
						case "interleaved":
							v = i*len(lens) + j
						case "all-equal":
							v = 5
						case "disjoint":
							v = base + i
						case "identical":
							v = i
						}
						streams[j] = append(streams[j], row{v, p})
						p++
					}
					base += n
				}
				return streams
			}
			for _, kd := range kinds3 {
				for _, b := range batches {
					visit("merge/long", mergeBody(kd, b, mk, sp.longDests, plain1, len(lens) <= 2 && lens[0] < 200))
				}
			}
		}
	}
	// sort: all-equal / strictly descending / strided inputs up to 4 x canary
	for _, c := range canaries {
		for _, n := range longLengths(sp, c) {
			for si, sh := range sp.longShapes {
				for ki, kd := range kinds3 {
					if sp.longRotateKinds && ki != (n+si)%3 {
						continue
					}
					for _, b := range batches {
						for _, s := range spills {
							kd, cfg, n, sh := kd, sortCfg{c, b, s}, n, sh
							visit(fmt.Sprintf("sort/long/canary=%d", c), func(w *worker) {
								in := shape(sh, n, false)
								for _, d := range sp.longDests {
									w.sortCase(kd, cfg, in, d, sp.longChunking[0], -1)
								}
								for _, ch := range sp.longChunking[1:] {
									w.sortCase(kd, cfg, in, 2, ch, -1)
								}
								// upstream error at the first, a middle and the last read ordinal
								ch := chunking{[]int{3, 1}, false, 0}
								calls := w.sortCase(kd, cfg, in, 2, ch, -1)
								for _, e := range []int{0, calls / 2, calls - 1} {
									w.sortCase(kd, cfg, in, 2, ch, e)
								}
							})
						}
					}
				}
			}
		}
	}

	// the bulk of the short inputs last: under a time budget the long inputs above are not the ones cut
	sortShort(5, 6)
}

func ruleText(sp space) string {
	return fmt.Sprintf("one evaluation = one creation (+ full read) of a real sortio.SortReader / NewMergeReader / Reduce reader on scripted upstream readers, compared with a plain-Go model. "+
		"SORT: every sequence over 3 keys up to length 6 (unique payload per row) x key types {int, string, (int,string) prefix 2} x canary %v x spill batch %v x spill target %v B (canary 256 with these <=6-row inputs: one spill target, the input ends in the first fill); "+
		"inputs up to length %d: x destination sizes %v x %d plain chunking(s); longer inputs: destination 2, key type rotating with the input; "+
		"inputs up to length %d and one representative per greater length: x all 16 upstream chunkings (5 read-size patterns + 3 with zero-row non-final reads, each with EOF together with / after the last rows); "+
		"inputs up to length %d and one representative per greater length: an upstream error in place of every read ordinal for %d chunkings; "+
		"all-equal / strictly descending%s inputs of 7..4*canary, 31, 64 rows for canary 1,2,3 and of %v rows for canary 256 (%s), full canary x batch x target product, with an error at the first, a middle and the last read ordinal; "+
		"an (int16, struct{}) row type and a one-column row type whose registered codec run-length encodes (rows well under one byte each), over short and long inputs. "+
		"STRUCT COLUMNS: an (int | struct{X,Y int32}) and a (struct{A,B int32} key with registered ops | int) row type, gob-encoded, whose zero fields alternate between consecutive buffer-fulls: every 3-key sequence up to length 3 (quick) / 4 (thorough) x canary 1,2,3 x batch x target through SortReader (scripted and encoded-stream upstream); distinct-key inputs of 7..1000 rows with runs of more than two buffer-fulls (batch 1, 2, 128); NewMergeReader and Reduce over sliceio decoding readers (encoded batches of b, 2b+1, b/2 rows) with streams of 2b+1..3b+2 rows, b in {1,2,128}, 1..3 streams, and every <=2-stream short case. "+
		"MERGE: k in 0..3 streams, each every sorted 3-key sequence up to length %v (by k; so some streams empty) x spill batch %v x destination sizes x 10 chunkings (no zero-row reads: a merge buffer documents an empty read as end of input), an error at every (stream, read ordinal) when the longest stream has at most %v rows (by k); 8 long stream sets (64..300 rows) in 4 shapes. "+
		"REDUCE: k in 0..3 streams, each every subset of 3 keys (sorted, unique keys; value = (key+1)*1000^stream so that a sum identifies the folded values) x chunk %v x destination sizes x 10 chunkings, an error at every (stream, ordinal) for k <= %d; long unique-key streams over 5, 130, 300 keys. "+
		"After every SortReader call the worker's private temp dir is listed: it must be empty. "+
		"non-trivial = a sort that spilled >= 2 non-empty runs (read from the merge heap right after creation), a merge whose per-stream buffer was refilled, a reduce that folded a key from >= 2 streams or refilled a buffer, or an error case whose injected error was actually reached",
		canaries, batches, spills, sp.sortDestLen, dests, len(sp.plainCh), sp.sortChunkLen, sp.sortErrLen, len(sp.errCh),
		map[bool]string{true: " / stride-37", false: ""}[len(sp.longShapes) > 2], sp.longLens256,
		map[bool]string{true: "one key type per (length, shape), rotating", false: "all three key types"}[sp.longRotateKinds],
		sp.mergeLen[1:], batches, sp.mergeErrLen[1:], batches, sp.reduceErrK)
}
