// C11 — frame views are transparent and never touch rows outside the view.
//
// Bounded-exhaustive exploration of operation sequences on the real frame.Frame
// against a model made of plain Go slices (DESIGN.md §5 C11). Every sequence of
// up to `depth` operations, starting from every view (off,len) of a parent
// frame, over several column-type combinations; after every step the whole
// underlying storage (inside and outside the view) is compared with the model.
package main

import (
	"bytes"
	"context"
	"encoding/json"
	"fmt"
	"reflect"
	"runtime"
	"sort"
	"strings"
	"sync/atomic"
	"time"

	"github.com/grailbio/bigslice/frame"
	"github.com/grailbio/bigslice/sliceio"
	"verifh/ev"
)

// ---- column type universe -------------------------------------------------

type pstruct struct {
	P *int
	S string
}

// cc is a pointer-free 8-byte type with a custom codec and ops.
type cc struct{ A, B int32 }

// wide is a pointer-free 24-byte type (typedmemmove path of assign).
type wide [3]int64

func init() {
	frame.RegisterOps(func(s []cc) frame.Ops {
		return frame.Ops{
			Less: func(i, j int) bool { return s[i].A < s[j].A },
			HashWithSeed: func(i int, seed uint32) uint32 {
				return uint32(s[i].A)*2654435761 ^ seed
			},
			Encode: func(e frame.Encoder, i, j int) error { return e.Encode(s[i:j]) },
			Decode: func(d frame.Decoder, i, j int) error {
				p := s[i:j]
				return d.Decode(&p)
			},
		}
	})
	frame.RegisterOps(func(s []wide) frame.Ops {
		return frame.Ops{
			Less:         func(i, j int) bool { return s[i][0] < s[j][0] },
			HashWithSeed: func(i int, seed uint32) uint32 { return uint32(s[i][0])*40503 + seed },
		}
	})
}

type colKind int

const (
	kInt colKind = iota
	kString
	kBytes
	kPStruct
	kCC
	kWide
	kInt8
)

var kindNames = map[colKind]string{kInt: "int", kString: "string", kBytes: "[]byte", kPStruct: "pstruct", kCC: "cc", kWide: "wide", kInt8: "int8"}

type typeCombo struct {
	name   string
	cols   []colKind
	prefix int
	// capx[c] is the extra capacity (beyond the parent's rows) of column c's slice in the
	// REAL parent frame: a frame built from columns of unequal capacities has the
	// smallest one, whichever column it belongs to.
	capx []int
	// short > 0: the constructor (frame.Values) is given columns whose LENGTH is short
	// rows less than their capacity (n rows): a frame built from slices with spare
	// capacity. The parent view used by the check is root.Slice(0, n) — legal, since
	// Slice/Ensure may extend a frame up to its capacity — and every row of it must
	// behave like a row of an independent copy.
	short int
}

var combos = []typeCombo{
	{"int", []colKind{kInt}, 1, nil, 0},
	{"string", []colKind{kString}, 1, nil, 0},
	{"bytes", []colKind{kBytes}, 1, nil, 0},
	{"int+string/1", []colKind{kInt, kString}, 1, nil, 0},
	{"int+string/2", []colKind{kInt, kString}, 2, nil, 0},
	{"int+pstruct", []colKind{kInt, kPStruct}, 1, nil, 0},
	{"cc", []colKind{kCC}, 1, nil, 0},
	{"wide+int8/2", []colKind{kWide, kInt8}, 2, nil, 0},
	{"int+string/1/cap+3,+0", []colKind{kInt, kString}, 1, []int{3, 0}, 0},
	{"wide+int8/2/cap+0,+2", []colKind{kWide, kInt8}, 2, []int{0, 2}, 0},
	{"int/len-2", []colKind{kInt}, 1, nil, 2},
	{"int+string/1/len-1", []colKind{kInt, kString}, 1, nil, 1},
	{"wide+int8/2/len-3,cap+0,+2", []colKind{kWide, kInt8}, 2, []int{0, 2}, 3},
}

var intBox [256]int

func init() {
	for i := range intBox {
		intBox[i] = i
	}
}

// mk returns the value with ordinal v for kind k; ordinals are small ints.
// Keys deliberately repeat modulo 3 so that sorting has ties.
func mk(k colKind, v int) interface{} {
	key := v % 3
	switch k {
	case kInt:
		return key*1000 + v // distinct values, ordered mostly by key
	case kString:
		return fmt.Sprintf("%c%02d", 'a'+key, v)
	case kBytes:
		return []byte(fmt.Sprintf("%c%02d", 'a'+key, v))
	case kPStruct:
		return pstruct{P: &intBox[v%256], S: fmt.Sprint("p", v)}
	case kCC:
		return cc{A: int32(key), B: int32(v)}
	case kWide:
		return wide{int64(key), int64(v), int64(-v)}
	case kInt8:
		return int8(v)
	}
	panic("kind")
}

func sliceTypeOf(k colKind) reflect.Type { return reflect.SliceOf(reflect.TypeOf(mk(k, 0))) }

// newCols makes one slice per column with values ord(base+i).
func newCols(tc typeCombo, n, cap_, base int) []reflect.Value {
	cols := make([]reflect.Value, len(tc.cols))
	for c, k := range tc.cols {
		s := reflect.MakeSlice(sliceTypeOf(k), n, cap_)
		for i := 0; i < n; i++ {
			s.Index(i).Set(reflect.ValueOf(mk(k, base+i)))
		}
		cols[c] = s
	}
	return cols
}

// ---- model ----------------------------------------------------------------

// storage is one underlying allocation: real root frame + model columns.
type storage struct {
	real  frame.Frame     // off 0, len == cap == n
	model []reflect.Value // full-length slices, independent memory
	n     int
}

type state struct {
	tc     typeCombo
	st     *storage
	f      frame.Frame // real view
	off    int         // model view coordinates into st.model
	len    int
	cap    int
	prefix int
	all    []*storage // every storage ever reachable (for "outside rows unchanged")
}

func (s *state) mview() []reflect.Value {
	out := make([]reflect.Value, len(s.st.model))
	for c, m := range s.st.model {
		out[c] = m.Slice3(s.off, s.off+s.len, s.off+s.cap)
	}
	return out
}

func newState(tc typeCombo, n, off, ln int) *state {
	realCols := newCols(tc, n, n, 1)
	for c, x := range tc.capx {
		if x > 0 { // same rows, larger capacity
			wider := reflect.MakeSlice(realCols[c].Type(), n, n+x)
			reflect.Copy(wider, realCols[c])
			realCols[c] = wider
		}
	}
	modelCols := newCols(tc, n, n, 1)
	if tc.short > 0 {
		for c := range realCols {
			realCols[c] = realCols[c].Slice(0, n-tc.short) // same storage, spare capacity holds rows n-short..n-1
		}
	}
	root := frame.Values(realCols).Prefixed(tc.prefix)
	if tc.short > 0 {
		if root.Len() != n-tc.short || root.Cap() != n {
			failf("frame.Values of columns with len %d cap>=%d: Len()=%d Cap()=%d", n-tc.short, n, root.Len(), root.Cap())
		}
		root = root.Slice(0, n)
	}
	st := &storage{real: root, model: modelCols, n: n}
	return &state{tc: tc, st: st, f: root.Slice(off, off+ln), off: off, len: ln, cap: n - off, prefix: tc.prefix, all: []*storage{st}}
}

type failure struct{ what string }

func failf(format string, a ...interface{}) { panic(failure{fmt.Sprintf(format, a...)}) }

// check compares the real frame and every storage against the model.
func (s *state) check(deep bool) {
	if s.f.Len() != s.len {
		failf("Len()=%d model %d", s.f.Len(), s.len)
	}
	if s.f.Cap() != s.cap {
		failf("Cap()=%d model %d", s.f.Cap(), s.cap)
	}
	if s.f.Prefix() != s.prefix {
		failf("Prefix()=%d model %d", s.f.Prefix(), s.prefix)
	}
	for _, st := range s.all {
		for c := range st.model {
			got := st.real.Interface(c)
			want := st.model[c].Interface()
			if !reflect.DeepEqual(got, want) {
				failf("storage col %d = %v, model %v (view off=%d len=%d)", c, got, want, s.off, s.len)
			}
		}
	}
	mv := s.mview()
	for c := range mv {
		// Value / Interface / Index / SliceHeader address exactly the view.
		got := s.f.Interface(c)
		if !reflect.DeepEqual(got, mv[c].Interface()) {
			failf("Interface(%d)=%v model %v", c, got, mv[c].Interface())
		}
		if v := s.f.Value(c); v.Len() != s.len {
			failf("Value(%d).Len()=%d model %d", c, v.Len(), s.len)
		}
		for i := 0; i < s.len; i++ {
			if g, w := s.f.Index(c, i).Interface(), mv[c].Index(i).Interface(); !reflect.DeepEqual(g, w) {
				failf("Index(%d,%d)=%v model %v", c, i, g, w)
			}
		}
		if s.len > 0 {
			sh := s.f.SliceHeader(c)
			if sh.Data != mvAddr(s.f.Value(c)) {
				failf("SliceHeader(%d).Data does not address the view's first row", c)
			}
			if sh.Len != s.len {
				failf("SliceHeader(%d).Len=%d model %d", c, sh.Len, s.len)
			}
			if uintptr(s.f.UnsafeIndexPointer(c, s.len-1)) != s.f.Index(c, s.len-1).Addr().Pointer() {
				failf("UnsafeIndexPointer(%d,%d) wrong", c, s.len-1)
			}
		}
	}
	if !deep {
		return
	}
	// Less / Hash are position independent: compare with a fresh frame at offset 0.
	if s.len > 0 {
		fresh := make([]reflect.Value, len(mv))
		for c := range mv {
			fs := reflect.MakeSlice(mv[c].Type(), s.len, s.len)
			reflect.Copy(fs, mv[c])
			fresh[c] = fs
		}
		ff := frame.Values(fresh).Prefixed(s.prefix)
		for i := 0; i < s.len; i++ {
			if g, w := s.f.Hash(i), ff.Hash(i); g != w {
				failf("Hash(%d)=%x but %x for the same row in an independent frame", i, g, w)
			}
			if g, w := s.f.HashWithSeed(i, 7), ff.HashWithSeed(i, 7); g != w {
				failf("HashWithSeed(%d,7)=%x but %x for the same row in an independent frame", i, g, w)
			}
			for j := 0; j < s.len; j++ {
				if g, w := s.f.Less(i, j), ff.Less(i, j); g != w {
					failf("Less(%d,%d)=%v but %v in an independent frame", i, j, g, w)
				}
				if w := modelLess(s.tc, s.prefix, mv, i, j); s.f.Less(i, j) != w {
					failf("Less(%d,%d)=%v model %v", i, j, s.f.Less(i, j), w)
				}
			}
		}
	}
	// Encoding a view yields exactly the view's rows.
	var buf bytes.Buffer
	enc := sliceio.NewEncodingWriter(&buf)
	if err := enc.Write(context.Background(), s.f); err != nil {
		failf("encode: %v", err)
	}
	out := frame.Make(s.f, s.len+1, s.len+1)
	n, err := sliceio.NewDecodingReader(&buf).Read(context.Background(), out)
	if s.len == 0 {
		if n != 0 {
			failf("decode of empty view returned %d rows", n)
		}
	} else {
		if err != nil || n != s.len {
			failf("decode of encoded view: n=%d err=%v, want %d rows", n, err, s.len)
		}
		for c := range mv {
			if g, w := out.Slice(0, n).Interface(c), mv[c].Interface(); !reflect.DeepEqual(g, w) {
				failf("encode/decode col %d = %v model %v", c, g, w)
			}
		}
	}
}

func mvAddr(v reflect.Value) uintptr { return v.Pointer() }

func keyOf(k colKind, v interface{}) int {
	switch k {
	case kInt:
		return v.(int)
	case kString:
		s := v.(string)
		return int(s[0])*1000 + int(s[1]-'0')*10 + int(s[2]-'0')
	case kBytes:
		s := v.([]byte)
		return int(s[0])*1000 + int(s[1]-'0')*10 + int(s[2]-'0')
	case kCC:
		return int(v.(cc).A)
	case kWide:
		return int(v.(wide)[0])
	case kInt8:
		return int(v.(int8))
	}
	panic("no key for kind")
}

func zeroKey(k colKind, v interface{}) (int, bool) {
	switch k {
	case kString:
		if v.(string) == "" {
			return -1, true
		}
	case kBytes:
		if len(v.([]byte)) == 0 {
			return -1, true
		}
	}
	return 0, false
}

func cmpKey(k colKind, a, b interface{}) int {
	ka, kb := 0, 0
	if z, ok := zeroKey(k, a); ok {
		ka = z
	} else {
		ka = keyOf(k, a)
	}
	if z, ok := zeroKey(k, b); ok {
		kb = z
	} else {
		kb = keyOf(k, b)
	}
	switch {
	case ka < kb:
		return -1
	case ka > kb:
		return 1
	}
	return 0
}

func modelLess(tc typeCombo, prefix int, mv []reflect.Value, i, j int) bool {
	for c := 0; c < prefix; c++ {
		switch cmpKey(tc.cols[c], mv[c].Index(i).Interface(), mv[c].Index(j).Interface()) {
		case -1:
			return true
		case 1:
			return false
		}
	}
	return false
}

// ---- operations -------------------------------------------------------------

type op struct {
	name string
	a, b int
	c, d int
}

type opJSON struct {
	Name       string `json:"op"`
	A, B, C, D int
}

func (o op) MarshalJSON() ([]byte, error) { return json.Marshal(opJSON{o.name, o.a, o.b, o.c, o.d}) }
func (o *op) UnmarshalJSON(b []byte) error {
	var j opJSON
	if err := json.Unmarshal(b, &j); err != nil {
		return err
	}
	*o = op{j.Name, j.A, j.B, j.C, j.D}
	return nil
}

func (o op) String() string { return fmt.Sprintf("%s(%d,%d,%d,%d)", o.name, o.a, o.b, o.c, o.d) }

// ops enumerates the operations applicable in state s (bounded alphabet).
func (s *state) ops() []op {
	var out []op
	L, C := s.len, s.cap
	for i := 0; i <= C; i++ {
		for j := i; j <= C; j++ {
			out = append(out, op{name: "Slice", a: i, b: j})
		}
	}
	// Copy within the same storage (aliasing, overlap in both directions).
	for a := 0; a < L; a++ {
		for c := 0; c < L; c++ {
			if a != c {
				out = append(out, op{name: "CopySelf", a: a, b: L, c: c, d: L})
			}
		}
	}
	if L >= 2 {
		out = append(out, op{name: "CopySelf", a: 0, b: 1, c: L - 1, d: L}) // single element fast path
		out = append(out, op{name: "CopySelf", a: L - 1, b: L, c: 0, d: 1})
	}
	// Copy from an external frame.
	for a := 0; a < L; a++ {
		out = append(out, op{name: "CopyExt", a: a, b: L, c: 1})
		if L-a >= 2 {
			out = append(out, op{name: "CopyExt", a: a, b: L, c: 2})
		}
	}
	for k := 1; k <= 3; k++ {
		out = append(out, op{name: "AppendExt", a: k})
	}
	if L >= 1 {
		out = append(out, op{name: "AppendSelf", a: 0, b: L})
		out = append(out, op{name: "AppendSelf", a: L - 1, b: L})
	}
	for _, n := range uniq(0, 1, 2, C-L, C-L+1) {
		if n >= 0 {
			out = append(out, op{name: "Grow", a: n})
		}
	}
	for _, n := range uniq(0, L-1, L, L+1, C, C+1) {
		if n >= 0 {
			out = append(out, op{name: "Ensure", a: n})
		}
	}
	for i := 0; i < L; i++ {
		for j := i + 1; j < L; j++ {
			out = append(out, op{name: "Swap", a: i, b: j})
		}
	}
	out = append(out, op{name: "Zero"})
	for p := 1; p <= len(s.tc.cols); p++ {
		if p != s.prefix && canKey(s.tc, p) {
			out = append(out, op{name: "Prefixed", a: p})
		}
	}
	out = append(out, op{name: "Sort"})
	// Decode k external rows into the sub-view [a, a+k).
	for a := 0; a < L; a++ {
		for k := 1; k <= 2 && a+k <= L; k++ {
			out = append(out, op{name: "DecodeInto", a: a, b: k})
		}
	}
	return out
}

func canKey(tc typeCombo, p int) bool {
	for c := 0; c < p; c++ {
		if tc.cols[c] == kPStruct {
			return false
		}
	}
	return true
}

func uniq(xs ...int) []int {
	seen := map[int]bool{}
	var out []int
	for _, x := range xs {
		if !seen[x] {
			seen[x] = true
			out = append(out, x)
		}
	}
	return out
}

var extBase = 40

func extCols(tc typeCombo, k int) []reflect.Value { return newCols(tc, k, k, extBase) }

// apply applies o to both the real frame and the model.
func (s *state) apply(o op) {
	mv := s.mview()
	switch o.name {
	case "Slice":
		s.f = s.f.Slice(o.a, o.b)
		s.off, s.len, s.cap = s.off+o.a, o.b-o.a, s.cap-o.a
	case "CopySelf":
		n := frame.Copy(s.f.Slice(o.a, o.b), s.f.Slice(o.c, o.d))
		want := 0
		for c := range mv {
			want = reflect.Copy(mv[c].Slice(o.a, o.b), mv[c].Slice(o.c, o.d))
		}
		if n != want {
			failf("Copy returned %d, model %d", n, want)
		}
	case "CopyExt":
		ext := frame.Values(extCols(s.tc, o.c))
		n := frame.Copy(s.f.Slice(o.a, o.b), ext)
		mext := extCols(s.tc, o.c)
		want := 0
		for c := range mv {
			want = reflect.Copy(mv[c].Slice(o.a, o.b), mext[c])
		}
		if n != want {
			failf("Copy returned %d, model %d", n, want)
		}
	case "AppendExt", "AppendSelf":
		var src frame.Frame
		var msrc []reflect.Value
		if o.name == "AppendExt" {
			src = frame.Values(extCols(s.tc, o.a))
			msrc = extCols(s.tc, o.a)
		} else {
			src = s.f.Slice(o.a, o.b)
			// model source must be snapshotted: append may write into rows that alias it
			msrc = make([]reflect.Value, len(mv))
			for c := range mv {
				cp := reflect.MakeSlice(mv[c].Type(), o.b-o.a, o.b-o.a)
				reflect.Copy(cp, mv[c].Slice(o.a, o.b))
				msrc[c] = cp
			}
		}
		k := src.Len()
		g := frame.AppendFrame(s.f, src)
		s.grown(g, k)
		mv = s.mview()
		for c := range mv {
			reflect.Copy(mv[c].Slice(s.len-k, s.len), msrc[c])
		}
	case "Grow":
		g := s.f.Grow(o.a)
		s.grown(g, o.a)
	case "Ensure":
		g := s.f.Ensure(o.a)
		switch {
		case o.a <= s.cap:
			s.f = g
			s.len = o.a
		default:
			s.grown(g, o.a-s.len)
		}
	case "Swap":
		s.f.Swap(o.a, o.b)
		for c := range mv {
			x := reflect.ValueOf(mv[c].Index(o.a).Interface())
			mv[c].Index(o.a).Set(mv[c].Index(o.b))
			mv[c].Index(o.b).Set(x)
		}
	case "Zero":
		s.f.Zero()
		for c := range mv {
			z := reflect.Zero(mv[c].Type().Elem())
			for i := 0; i < s.len; i++ {
				mv[c].Index(i).Set(z)
			}
		}
	case "Prefixed":
		s.f = s.f.Prefixed(o.a)
		s.prefix = o.a
	case "Sort":
		before := rowsOf(mv, s.len)
		sort.Sort(s.f)
		// The order among equal keys is not specified: verify permutation + order, then adopt.
		after := make([]reflect.Value, len(mv))
		for c := range mv {
			after[c] = s.f.Value(c)
		}
		got := rowsOf(after, s.len)
		a, b := append([]string{}, before...), append([]string{}, got...)
		sort.Strings(a)
		sort.Strings(b)
		if strings.Join(a, "|") != strings.Join(b, "|") {
			failf("sort is not a permutation: before %v after %v", before, got)
		}
		for i := 1; i < s.len; i++ {
			if modelLess(s.tc, s.prefix, after, i, i-1) {
				failf("sort left rows %d,%d out of key order: %v", i-1, i, got)
			}
		}
		for c := range mv {
			reflect.Copy(mv[c], after[c])
		}
	case "DecodeInto":
		ext := frame.Values(extCols(s.tc, o.b))
		var buf bytes.Buffer
		if err := sliceio.NewEncodingWriter(&buf).Write(context.Background(), ext); err != nil {
			failf("encode ext: %v", err)
		}
		n, err := sliceio.NewDecodingReader(&buf).Read(context.Background(), s.f.Slice(o.a, o.a+o.b))
		if err != nil || n != o.b {
			failf("DecodeInto: n=%d err=%v", n, err)
		}
		mext := extCols(s.tc, o.b)
		for c := range mv {
			reflect.Copy(mv[c].Slice(o.a, o.a+o.b), mext[c])
		}
	default:
		panic("unknown op " + o.name)
	}
}

func rowsOf(cols []reflect.Value, n int) []string {
	out := make([]string, n)
	for i := 0; i < n; i++ {
		var b strings.Builder
		for c := range cols {
			v := cols[c].Index(i).Interface()
			if ps, ok := v.(pstruct); ok {
				if ps.P == nil {
					fmt.Fprintf(&b, "{nil %s};", ps.S)
				} else {
					fmt.Fprintf(&b, "{&%d %s};", *ps.P, ps.S)
				}
			} else {
				fmt.Fprintf(&b, "%v;", v)
			}
		}
		out[i] = b.String()
	}
	return out
}

// grown updates the model after a real grow by `need` rows that returned g.
func (s *state) grown(g frame.Frame, need int) {
	i1 := s.len + need
	if i1 <= s.cap {
		// must share storage
		s.f = g
		s.len = i1
		return
	}
	// must be a new allocation: rows [0,len) copied, the rest zero.
	if g.Cap() < i1 {
		failf("grow(%d): cap %d < len %d", need, g.Cap(), i1)
	}
	nc := g.Cap()
	mv := s.mview()
	ncols := make([]reflect.Value, len(mv))
	for c := range mv {
		ns := reflect.MakeSlice(mv[c].Type(), nc, nc)
		reflect.Copy(ns, mv[c])
		ncols[c] = ns
	}
	st := &storage{real: g.Slice(0, nc), model: ncols, n: nc}
	s.all = append(s.all, st)
	s.st = st
	s.f = g
	s.off, s.len, s.cap = 0, i1, nc
}

// ---- exploration ------------------------------------------------------------

type job struct {
	tc       typeCombo
	n        int
	off, len int
	first    op
	hasFirst bool
}

type stats struct {
	seqs, steps int64
}

var stopFlag int32

// runSeq replays seq on a fresh state, checking after each step; returns the failure, if any.
func runSeq(tc typeCombo, n, off, ln int, seq []op, deepLast bool) (fail string) {
	defer func() {
		if r := recover(); r != nil {
			if f, ok := r.(failure); ok {
				fail = f.what
				return
			}
			fail = fmt.Sprintf("panic: %v", r)
		}
	}()
	s := newState(tc, n, off, ln)
	s.check(true)
	for i, o := range seq {
		s.apply(o)
		s.check(deepLast || i == len(seq)-1)
	}
	return ""
}

// explore enumerates all sequences of length <= depth below the given prefix by DFS with replay.
func explore(r *ev.Run, j job, depth int, st *stats, states *ev.Counter, opsSeen *ev.Counter) {
	var rec func(seq []op)
	rec = func(seq []op) {
		if atomic.LoadInt32(&stopFlag) != 0 {
			return
		}
		if n := atomic.AddInt64(&st.seqs, 0); n%4096 == 0 && r.OverBudget(budget(r)) {
			if atomic.CompareAndSwapInt32(&stopFlag, 0, 1) {
				r.NotExhaustive(fmt.Sprintf("time budget hit inside job %s off=%d len=%d (depth %d); jobs are ordered simplest first", j.tc.name, j.off, j.len, depth))
			}
			return
		}
		// replay to get the state (fresh real object each time)
		var s *state
		fail := func() (fail string) {
			defer func() {
				if rr := recover(); rr != nil {
					if f, ok := rr.(failure); ok {
						fail = f.what
						return
					}
					fail = fmt.Sprintf("panic: %v", rr)
				}
			}()
			s = newState(j.tc, j.n, j.off, j.len)
			for i, o := range seq {
				s.apply(o)
				if i == len(seq)-1 {
					s.check(true)
				}
			}
			if len(seq) == 0 {
				s.check(true)
			}
			return ""
		}()
		atomic.AddInt64(&st.seqs, 1)
		atomic.AddInt64(&st.steps, int64(len(seq)))
		if fail != "" {
			report(r, j, seq, fail)
			return // do not extend a failing history
		}
		if states != nil {
			states.Add(s.canon())
		}
		if len(seq) > 0 {
			opsSeen.Add(seq[len(seq)-1].name)
		}
		if len(seq) >= depth {
			return
		}
		for _, o := range s.ops() {
			rec(append(seq[:len(seq):len(seq)], o))
		}
	}
	if j.hasFirst {
		rec([]op{j.first})
	} else {
		rec(nil)
	}
}

func (s *state) canon() string {
	var b strings.Builder
	fmt.Fprintf(&b, "%s|%d,%d,%d,%d|", s.tc.name, s.off, s.len, s.cap, s.prefix)
	for _, st := range s.all {
		b.WriteString(strings.Join(rowsOf(st.model, st.n), ","))
		b.WriteString("#")
	}
	return b.String()
}

func report(r *ev.Run, j job, seq []op, what string) {
	// minimal signature: type combo + last op name + whether the view has a non-zero offset + failure class
	last := "init"
	if len(seq) > 0 {
		last = seq[len(seq)-1].name
	}
	class := what
	if i := strings.IndexAny(class, "=(:"); i > 0 {
		class = class[:i]
	}
	sig := fmt.Sprintf("C11/%s/%s/%s", j.tc.name, last, strings.TrimSpace(class))
	names := make([]string, len(seq))
	for i, o := range seq {
		names[i] = o.String()
	}
	r.Violate(sig, fmt.Sprintf("frame view (type %s, parent len %d, view off=%d len=%d) after %v: %s", j.tc.name, j.n, j.off, j.len, names, what),
		map[string]interface{}{"combo": j.tc.name, "n": j.n, "off": j.off, "len": j.len, "seq": seq, "failure": what})
}

func main() {
	ev.ReplayHandler = replayDetail
	r := ev.Start("C11", "model_checking")
	depth := 2
	n := 5
	deepCombos := map[string]bool{"int": true}
	if r.Thorough() {
		depth = 3
		n = 6
	}
	var jobs []job
	for _, tc := range combos {
		for off := 0; off <= n; off++ {
			for ln := 0; off+ln <= n; ln++ {
				jobs = append(jobs, job{tc: tc, n: n, off: off, len: ln})
			}
		}
	}
	// simplest first: small views (small alphabets) before large ones
	sort.SliceStable(jobs, func(a, b int) bool { return jobs[a].off+jobs[a].len < jobs[b].off+jobs[b].len })
	var st stats
	states := ev.NewCounter()
	opsSeen := ev.NewCounter()
	maxDepth := depth
	width := widthLayer(r, &st, states, opsSeen)
	shared := sharedColumnFamily(r, &st, opsSeen)
	ev.Parallel(len(jobs), runtime.NumCPU(), func(i int) {
		j := jobs[i]
		d := depth
		// one extra level for the pointer-free single-column type, from the smaller views
		// (the number of sequences grows with alphabet^depth; alphabet ~ 40-70 operations)
		if deepCombos[j.tc.name] && ((!r.Thorough() && j.off+j.len <= 4) || (r.Thorough() && j.off+j.len <= 3)) {
			d = depth + 1
		}
		if r.OverBudget(budget(r)) {
			r.NotExhaustive(fmt.Sprintf("budget hit before job %s off=%d len=%d", j.tc.name, j.off, j.len))
			return
		}
		explore(r, j, d, &st, states, opsSeen)
		if i == 0 {
			r.Sample(map[string]interface{}{"combo": j.tc.name, "parent_len": j.n, "view": []int{j.off, j.len}, "depth": d, "alphabet_at_root": fmt.Sprint(newState(j.tc, j.n, j.off, j.len).ops())})
		}
	})
	if deepCombos["int"] {
		maxDepth = depth + 1
	}
	r.Sample(map[string]interface{}{"example_sequence": []string{"Slice(2,5)", "Swap(0,2)", "Grow(3)"}, "meaning": "ops are applied to the real frame.Frame view and to plain Go slices; whole storage compared after every step"})
	r.Finish(ev.Coverage{
		"states":                        states.Distinct(),
		"transitions":                   st.steps,
		"traces_validated_against_impl": st.seqs,
		"max_depth":                     maxDepth,
		"type_combos":                   len(combos),
		"start_views":                   len(jobs),
		"ops_exercised":                 opsSeen.Keys(),
		"width_layer":                   width,
		"shared_column_family":          shared,
		"rule":                          "every operation sequence up to max_depth from every (off,len) view of a parent frame, per column-type combination; state = canonical dump of model storage + view coordinates; each trace is executed on the real frame.Frame (fresh object per trace)",
	})
}

func budget(r *ev.Run) time.Duration {
	if r.Thorough() {
		return 12 * time.Minute
	}
	return 4 * time.Minute
}

// replayDetail re-executes a recorded operation sequence on a fresh real frame (twice)
// and prints what the oracle says now.
func replayDetail(detail json.RawMessage) bool {
	var d struct {
		Combo string `json:"combo"`
		Width string `json:"width_type"`
		N     int    `json:"n"`
		Off   int    `json:"off"`
		Len   int    `json:"len"`
		Seq   []op   `json:"seq"`
		WSeq  []wop  `json:"wseq"`
	}
	if json.Unmarshal(detail, &d) != nil || (d.Combo == "" && d.Width == "") {
		return false
	}
	for _, t := range widthTypes {
		if t.name != d.Width {
			continue
		}
		for i := 0; i < 2; i++ {
			res := runWSeq(t, d.N, d.Off, d.Len, d.WSeq)
			if res == "" {
				res = "no failure: the view agrees with the model after every step"
			}
			fmt.Printf("  re-execution %d: single-column frame of %s, parent of %d rows, view off=%d len=%d, ops %v: %s\n", i+1, d.Width, d.N, d.Off, d.Len, d.WSeq, res)
		}
		return true
	}
	for _, tc := range combos {
		if tc.name != d.Combo {
			continue
		}
		for i := 0; i < 2; i++ {
			res := runSeq(tc, d.N, d.Off, d.Len, d.Seq, true)
			if res == "" {
				res = "no failure: the view agrees with the model after every step"
			}
			fmt.Printf("  re-execution %d: type %s, parent of %d rows, view off=%d len=%d, ops %v: %s\n", i+1, d.Combo, d.N, d.Off, d.Len, d.Seq, res)
		}
		return true
	}
	return false
}
