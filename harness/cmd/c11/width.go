package main

// Width layer of C11: the operations whose implementation depends on the element
// representation (frame.Copy's single-row fast path `assign`, the block copy,
// Frame.Zero -> internal/zero, Frame.Swap, Index/UnsafeIndexPointer address
// arithmetic) are run, over every (off,len) view of a small parent and every
// sequence of up to `depth` such operations, for a WIDE universe of element types:
// every size class the code distinguishes (1, 2, 4, 8 bytes, "other" pointer-free
// sizes that are and are not multiples of 8, pointer-sized and larger
// pointer-carrying types, strings, slices, maps, interfaces). The oracle is the same
// as in the main layer: plain Go slices, compared over the WHOLE parent (and the
// external source) after every step, so a write that leaves the view is seen.

import (
	"fmt"
	"reflect"
	"runtime"
	"strings"
	"sync/atomic"

	"github.com/grailbio/bigslice/frame"
	"verifh/ev"
)

type s12 struct{ A, B, C int32 }
type padded struct {
	A int8
	B int64
}
type ptrOnly struct{ P *int }
type named16 struct{ A, B int64 }

type elemT struct {
	name string
	mk   func(v int) interface{}
}

var widthTypes = []elemT{
	{"int8", func(v int) interface{} { return int8(v) }},
	{"bool", func(v int) interface{} { return v%2 == 1 }},
	{"int16", func(v int) interface{} { return int16(v*257 + 1) }},
	{"int32", func(v int) interface{} { return int32(v*65793 + 1) }},
	{"float32", func(v int) interface{} { return float32(v) + 0.5 }},
	{"int64", func(v int) interface{} { return int64(v)*0x0101010101010101 + 1 }},
	{"float64", func(v int) interface{} { return float64(v) + 0.25 }},
	{"[3]uint8", func(v int) interface{} { return [3]uint8{uint8(v), uint8(v + 50), uint8(v + 100)} }},
	{"[5]uint16", func(v int) interface{} {
		return [5]uint16{uint16(v), uint16(v + 300), uint16(v + 600), uint16(v + 900), uint16(v + 1200)}
	}},
	{"[7]uint8", func(v int) interface{} {
		return [7]uint8{uint8(v), uint8(v + 1), uint8(v + 2), uint8(v + 3), uint8(v + 4), uint8(v + 5), uint8(v + 6)}
	}},
	{"s12", func(v int) interface{} { return s12{int32(v), int32(v<<8 | 1), int32(-v - 1)} }},
	{"[2]int64", func(v int) interface{} { return [2]int64{int64(v), ^int64(v)} }},
	{"named16", func(v int) interface{} { return named16{int64(v) << 33, int64(-v - 7)} }},
	{"complex128", func(v int) interface{} { return complex(float64(v), -float64(v)-0.5) }},
	{"complex64", func(v int) interface{} { return complex64(complex(float32(v), -float32(v)-0.5)) }},
	{"padded", func(v int) interface{} { return padded{int8(v), int64(v) << 40} }},
	{"wide", func(v int) interface{} { return wide{int64(v), int64(v) << 20, int64(-v)} }},
	{"[5]int64", func(v int) interface{} { return [5]int64{int64(v), 2, int64(v) << 8, 4, int64(-v)} }},
	{"*int", func(v int) interface{} { return &intBox[v%256] }},
	{"ptrOnly", func(v int) interface{} { return ptrOnly{&intBox[v%256]} }},
	{"string", func(v int) interface{} { return fmt.Sprintf("s%03d", v) }},
	{"[]byte", func(v int) interface{} { return []byte(fmt.Sprintf("b%03d", v)) }},
	{"[2]string", func(v int) interface{} { return [2]string{fmt.Sprint("x", v), fmt.Sprint("y", v)} }},
	{"pstruct", func(v int) interface{} { return pstruct{P: &intBox[v%256], S: fmt.Sprint("p", v)} }},
	{"map[int]int", func(v int) interface{} { return map[int]int{v: v + 1} }},
	{"interface{}", func(v int) interface{} {
		if v%2 == 0 {
			return fmt.Sprint("i", v)
		}
		return v
	}},
}

// wstate is one (real, model) pair for a single-column frame of one element type.
type wstate struct {
	t         elemT
	et        reflect.Type
	root      frame.Frame   // whole parent
	model     reflect.Value // independent copy of the parent
	ext       frame.Frame   // external source, never written
	extModel  reflect.Value
	view      frame.Frame
	off, ln   int
	n, extLen int
}

func (t elemT) slice(n, base int) reflect.Value {
	et := reflect.TypeOf((*interface{})(nil)).Elem()
	if t.name != "interface{}" {
		et = reflect.TypeOf(t.mk(0))
	}
	s := reflect.MakeSlice(reflect.SliceOf(et), n, n)
	for i := 0; i < n; i++ {
		s.Index(i).Set(reflect.ValueOf(t.mk(base + i)))
	}
	return s
}

func newWState(t elemT, n, off, ln int) *wstate {
	const extLen = 3
	real := t.slice(n, 1)
	w := &wstate{t: t, et: real.Type().Elem(), n: n, off: off, ln: ln, extLen: extLen}
	w.root = frame.Values([]reflect.Value{real})
	w.model = t.slice(n, 1)
	w.ext = frame.Values([]reflect.Value{t.slice(extLen, 40)})
	w.extModel = t.slice(extLen, 40)
	w.view = w.root.Slice(off, off+ln)
	return w
}

type wop struct {
	Name       string `json:"name"`
	A, B, C, K int
}

func (o wop) String() string { return fmt.Sprintf("%s(%d,%d,%d)", o.Name, o.A, o.C, o.K) }

func (w *wstate) ops() []wop {
	var out []wop
	L := w.ln
	out = append(out, wop{Name: "Zero"})
	for a := 0; a < L; a++ {
		out = append(out, wop{Name: "ZeroSub", A: a, K: 1}) // Zero of a one-row sub-view
		for c := 0; c < L; c++ {
			if a == c {
				continue
			}
			out = append(out, wop{Name: "Copy1", A: a, C: c}) // single-row fast path
			if a < c {
				out = append(out, wop{Name: "Swap", A: a, C: c})
			}
			for k := 2; a+k <= L && c+k <= L; k++ {
				out = append(out, wop{Name: "CopyBlock", A: a, C: c, K: k}) // overlapping block copies
			}
		}
		for c := 0; c < w.extLen; c++ {
			out = append(out, wop{Name: "CopyExt1", A: a, C: c})
		}
		if L-a >= 2 {
			out = append(out, wop{Name: "CopyExtBlock", A: a, C: 0, K: 2})
		}
	}
	return out
}

func (w *wstate) apply(o wop) {
	m := w.model.Slice(w.off, w.off+w.ln)
	zero := reflect.Zero(w.et)
	switch o.Name {
	case "Zero":
		w.view.Zero()
		for i := 0; i < w.ln; i++ {
			m.Index(i).Set(zero)
		}
	case "ZeroSub":
		w.view.Slice(o.A, o.A+o.K).Zero()
		for i := o.A; i < o.A+o.K; i++ {
			m.Index(i).Set(zero)
		}
	case "Copy1":
		if n := frame.Copy(w.view.Slice(o.A, o.A+1), w.view.Slice(o.C, o.C+1)); n != 1 {
			failf("Copy of one row returned %d", n)
		}
		m.Index(o.A).Set(m.Index(o.C))
	case "CopyBlock":
		if n := frame.Copy(w.view.Slice(o.A, o.A+o.K), w.view.Slice(o.C, o.C+o.K)); n != o.K {
			failf("Copy of %d rows returned %d", o.K, n)
		}
		reflect.Copy(m.Slice(o.A, o.A+o.K), m.Slice(o.C, o.C+o.K))
	case "CopyExt1":
		if n := frame.Copy(w.view.Slice(o.A, o.A+1), w.ext.Slice(o.C, o.C+1)); n != 1 {
			failf("Copy of one external row returned %d", n)
		}
		m.Index(o.A).Set(w.extModel.Index(o.C))
	case "CopyExtBlock":
		if n := frame.Copy(w.view.Slice(o.A, o.A+o.K), w.ext.Slice(o.C, o.C+o.K)); n != o.K {
			failf("Copy of %d external rows returned %d", o.K, n)
		}
		reflect.Copy(m.Slice(o.A, o.A+o.K), w.extModel.Slice(o.C, o.C+o.K))
	case "Swap":
		w.view.Swap(o.A, o.C)
		tmp := reflect.New(w.et).Elem()
		tmp.Set(m.Index(o.A))
		m.Index(o.A).Set(m.Index(o.C))
		m.Index(o.C).Set(tmp)
	default:
		panic("wop " + o.Name)
	}
}

func (w *wstate) check() {
	if g, want := w.root.Interface(0), w.model.Interface(); !reflect.DeepEqual(g, want) {
		failf("parent = %v, model %v (view off=%d len=%d)", g, want, w.off, w.ln)
	}
	if g, want := w.ext.Interface(0), w.extModel.Interface(); !reflect.DeepEqual(g, want) {
		failf("external source = %v, model %v", g, want)
	}
	m := w.model.Slice(w.off, w.off+w.ln)
	if g := w.view.Interface(0); !reflect.DeepEqual(g, m.Interface()) {
		failf("Interface(0) = %v, model %v", g, m.Interface())
	}
	for i := 0; i < w.ln; i++ {
		if g, want := w.view.Index(0, i).Interface(), m.Index(i).Interface(); !reflect.DeepEqual(g, want) {
			failf("Index(0,%d) = %v, model %v", i, g, want)
		}
		p := reflect.NewAt(w.et, w.view.UnsafeIndexPointer(0, i)).Elem().Interface()
		if !reflect.DeepEqual(p, m.Index(i).Interface()) {
			failf("UnsafeIndexPointer(0,%d) addresses %v, model %v", i, p, m.Index(i).Interface())
		}
	}
}

func runWSeq(t elemT, n, off, ln int, seq []wop) (fail string) {
	defer func() {
		if r := recover(); r != nil {
			if f, ok := r.(failure); ok {
				fail = f.what
				return
			}
			fail = fmt.Sprintf("panic: %v", r)
		}
	}()
	w := newWState(t, n, off, ln)
	w.check()
	for _, o := range seq {
		w.apply(o)
		w.check()
	}
	return ""
}

// widthLayer enumerates all sequences; returns (sequences, steps, distinct states).
func widthLayer(r *ev.Run, st *stats, states *ev.Counter, opsSeen *ev.Counter) map[string]interface{} {
	n, depth := 5, 2
	if r.Thorough() {
		n, depth = 6, 3
	}
	type wjob struct {
		t       elemT
		off, ln int
	}
	var jobs []wjob
	for _, t := range widthTypes {
		for off := 0; off <= n; off++ {
			for ln := 1; off+ln <= n; ln++ {
				jobs = append(jobs, wjob{t, off, ln})
			}
		}
	}
	var seqs, steps int64
	ev.Parallel(len(jobs), runtime.NumCPU(), func(i int) {
		j := jobs[i]
		d := depth
		if r.Thorough() && j.ln > 4 {
			d = 2 // alphabet ~70 at len 6: depth 3 only for views of up to 4 rows
		}
		var rec func(seq []wop)
		rec = func(seq []wop) {
			fail := runWSeq(j.t, n, j.off, j.ln, seq)
			atomic.AddInt64(&seqs, 1)
			atomic.AddInt64(&steps, int64(len(seq)))
			if fail != "" {
				last := "init"
				if len(seq) > 0 {
					last = seq[len(seq)-1].Name
				}
				class := fail
				for k, c := range class {
					if c == '=' || c == '(' || c == ':' {
						class = class[:k]
						break
					}
				}
				r.Violate(fmt.Sprintf("C11/width/%s/%s/%s", j.t.name, last, trim(class)),
					fmt.Sprintf("single-column frame of %s, parent of %d rows, view off=%d len=%d, after %v: %s", j.t.name, n, j.off, j.ln, seq, fail),
					map[string]interface{}{"width_type": j.t.name, "n": n, "off": j.off, "len": j.ln, "wseq": seq, "failure": fail})
				return
			}
			if len(seq) > 0 {
				opsSeen.Add("width:" + seq[len(seq)-1].Name)
			}
			if len(seq) >= d {
				return
			}
			w := newWState(j.t, n, j.off, j.ln)
			for _, o := range w.ops() {
				rec(append(seq[:len(seq):len(seq)], o))
			}
		}
		rec(nil)
	})
	atomic.AddInt64(&st.seqs, seqs)
	atomic.AddInt64(&st.steps, steps)
	names := make([]string, len(widthTypes))
	for i, t := range widthTypes {
		names[i] = t.name
	}
	return map[string]interface{}{
		"element_types": names, "parent_rows": n, "max_depth": depth, "start_views": len(jobs),
		"sequences": seqs, "steps": steps,
		"rule": "single-column frames of every listed element type; every (off,len>=1) view; every sequence up to max_depth of Zero, ZeroSub, Copy1 (single-row fast path), CopyBlock (overlapping), CopyExt1/CopyExtBlock, Swap; whole parent and external source compared with plain Go slices after every step",
	}
}

func trim(s string) string {
	for len(s) > 0 && s[len(s)-1] == ' ' {
		s = s[:len(s)-1]
	}
	return s
}

// ---- shared-column family ---------------------------------------------------------
//
// Two DIFFERENT frames may share a column (frame.Slices(keys, a) and
// frame.Slices(keys, b)), and all slices of a zero-size element type share one base
// address: whether two frames are "the same storage" cannot be decided from the first
// column. Copies between such frames, at equal and at different offsets, are compared
// with plain slices.

func sharedColumnFamily(r *ev.Run, st *stats, opsSeen *ev.Counter) map[string]interface{} {
	const n = 5
	type firstCol struct {
		name string
		mk   func() reflect.Value // ONE slice shared by both frames
	}
	firsts := []firstCol{
		{"shared-int-keys", func() reflect.Value { return widthTypes[5].slice(n, 1) }},
		{"shared-string-keys", func() reflect.Value {
			for _, t := range widthTypes {
				if t.name == "string" {
					return t.slice(n, 1)
				}
			}
			panic("no string type")
		}},
		{"zero-size-struct{}", func() reflect.Value { return reflect.ValueOf(make([]struct{}, n)) }},
	}
	var cases int64
	for _, fc := range firsts {
		for _, vt := range widthTypes {
			fail := func() (fail string) {
				defer func() {
					if rr := recover(); rr != nil {
						if f, ok := rr.(failure); ok {
							fail = f.what
							return
						}
						fail = fmt.Sprintf("panic: %v", rr)
					}
				}()
				for a := 0; a < n; a++ {
					for c := 0; c < n; c++ {
						for k := 1; a+k <= n && c+k <= n; k++ {
							var k1, k2 reflect.Value
							if fc.name == "zero-size-struct{}" {
								k1, k2 = fc.mk(), fc.mk() // distinct slices, one base address
							} else {
								k1 = fc.mk()
								k2 = k1
							}
							va, vb := vt.slice(n, 1), vt.slice(n, 40)
							ma := vt.slice(n, 1)
							mb := vt.slice(n, 40)
							dst := frame.Values([]reflect.Value{k1, va})
							src := frame.Values([]reflect.Value{k2, vb})
							if got := frame.Copy(dst.Slice(a, a+k), src.Slice(c, c+k)); got != k {
								failf("Copy(dst[%d:%d], src[%d:%d]) returned %d", a, a+k, c, c+k, got)
							}
							reflect.Copy(ma.Slice(a, a+k), mb.Slice(c, c+k))
							if g, w := dst.Interface(1), ma.Interface(); !reflect.DeepEqual(g, w) {
								failf("after Copy(dst[%d:%d], src[%d:%d]) between two frames that share their first column, dst's value column = %v, model %v", a, a+k, c, c+k, g, w)
							}
							if g, w := src.Interface(1), mb.Interface(); !reflect.DeepEqual(g, w) {
								failf("Copy altered its source: %v, model %v", g, w)
							}
							atomic.AddInt64(&cases, 1)
						}
					}
				}
				return ""
			}()
			if fail != "" {
				class := fail
				for k, c := range class {
					if c == '=' || c == '(' || c == ':' {
						class = class[:k]
						break
					}
				}
				if strings.HasPrefix(fail, "after Copy") {
					class = "value-column-not-copied"
				}
				r.Violate(fmt.Sprintf("C11/shared-column/%s/%s", fc.name, trim(class)),
					fmt.Sprintf("frames (%s, %s): %s", fc.name, vt.name, fail), map[string]interface{}{"first_column": fc.name, "value_type": vt.name, "failure": fail})
			}
		}
	}
	opsSeen.Add("shared-column:Copy")
	atomic.AddInt64(&st.seqs, cases)
	atomic.AddInt64(&st.steps, cases)
	return map[string]interface{}{"first_columns": []string{"shared-int-keys", "shared-string-keys", "zero-size-struct{}"}, "value_types": len(widthTypes), "copies": cases,
		"rule": "two different two-column frames whose first column is the same slice (or a zero-size element type: one base address for all slices); every Copy(dst[a:a+k], src[c:c+k]) with 5 rows, equal and different offsets; value columns compared with plain slices"}
}
