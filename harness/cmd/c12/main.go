// C12 — results can be reused, rescanned and discarded without changing their rows.
//
// Layer H (this file): every history (sequence) over the alphabet
//
//	R        r_n = Run(f)            (first op, or to create a second result)
//	S<i>     Scan(r_i)               direct scan through Result.Scanner
//	P<i>     Run(g_pipelined, r_i)   Map over the result
//	H<i>     Run(g_shuffle, r_i)     Map then Reduce over the result
//	D<i>     Run(g_direct, r_i)      Reduce applied DIRECTLY to the result (DESIGN §9 #5)
//	X<i>     Discard(r_i)
//	K<k>     Kill(k-th alive machine)   (verifsystem cluster only)
//
// up to a depth bound, on the local executor and on an in-process bigmachine
// cluster (verifsystem), each history replayed in a fresh session, compared op by
// op with a plain-Go model of the rows. Histories are executed in batches by child
// processes (re-exec of this binary) so that a hang or a crash is contained.
//
// Layer S (concurrent scanners/evaluators/discarders under the controlled
// scheduler) is computed by the sibling binary c19-sched -layer C12 and merged.
package main

import (
	"bufio"
	"bytes"
	"context"
	"encoding/json"
	"flag"
	"fmt"
	"io"
	"os"
	osexec "os/exec"
	"regexp"
	"runtime"
	"runtime/pprof"
	"sort"
	"strings"
	"sync"
	"time"

	"github.com/grailbio/bigslice"
	"github.com/grailbio/bigslice/exec"
	"verifh/ev"
	"verifh/vsys"
)

// ---- programs (registered at init, same order in every process) ---------------

var (
	srcKeys = []int{1, 2, 3, 1, 2}
	srcVals = []int{10, 20, 30, 40, 50}
)

// fSrc: shuffle-free source, nshard shards; tag distinguishes the two results.
var fSrc = bigslice.Func(func(nshard, tag int) bigslice.Slice {
	s := bigslice.Const(nshard, append([]int{}, srcKeys...), append([]int{}, srcVals...))
	return bigslice.Map(s, func(k, v int) (int, int) { return k, v + 100*tag })
})

// fSrcShuf: 2-shard source whose result comes out of a shuffle (two task phases).
var fSrcShuf = bigslice.Func(func(tag int) bigslice.Slice {
	s := bigslice.Const(2, append([]int{}, srcKeys...), append([]int{}, srcVals...))
	s = bigslice.Map(s, func(k, v int) (int, int) { return k, v + 100*tag })
	return bigslice.Reduce(s, func(a, b int) int { return a + b })
})

// gPipe: pipelined consumer.
var gPipe = bigslice.Func(func(r bigslice.Slice) bigslice.Slice {
	return bigslice.Map(r, func(k, v int) (int, int) { return k, 3*v + 1 })
})

// gShuf: consumer through a shuffle (Map then Reduce).
var gShuf = bigslice.Func(func(r bigslice.Slice) bigslice.Slice {
	s := bigslice.Map(r, func(k, v int) (int, int) { return k % 2, v })
	return bigslice.Reduce(s, func(a, b int) int { return a + b })
})

// gDirect: Reduce applied directly to the result.
var gDirect = bigslice.Func(func(r bigslice.Slice) bigslice.Slice {
	return bigslice.Reduce(r, func(a, b int) int { return a + b })
})

// gReshard: Reshard applied directly to the result (identity when n equals the
// result's shard count).
var gReshard = bigslice.Func(func(r bigslice.Slice, n int) bigslice.Slice {
	return bigslice.Reshard(r, n)
})

// gRepart: Repartition applied directly to the result, by (mul*k+add) mod nshard.
var gRepart = bigslice.Func(func(r bigslice.Slice, mul, add int) bigslice.Slice {
	return bigslice.Repartition(r, func(nshard, k, v int) int { return (mul*k + add) % nshard })
})

// joinCode folds one Cogroup row (k, a, b) into an int so that results keep the
// (int, int) row type: counts and sums of both groups.
func joinCode(a, b []int) int {
	sa, sb := 0, 0
	for _, x := range a {
		sa += x
	}
	for _, x := range b {
		sb += x
	}
	return (len(a)*10+len(b))*1000000 + sa*1000 + sb
}

// gJoin1: ONE Func that sends the result into TWO different shuffles:
// Cogroup(Reshard(r,2), Repartition(r, (2k+1) mod n)).
var gJoin1 = bigslice.Func(func(r bigslice.Slice) bigslice.Slice {
	a := bigslice.Reshard(r, 2)
	b := bigslice.Repartition(r, func(nshard, k, v int) int { return (2*k + 1) % nshard })
	return bigslice.Map(bigslice.Cogroup(a, b), func(k int, x, y []int) (int, int) { return k, joinCode(x, y) })
})

// gJoin2: Cogroup(Reduce(r,+), r): the result goes into the Reduce's shuffle and
// directly into the Cogroup's shuffle.
var gJoin2 = bigslice.Func(func(r bigslice.Slice) bigslice.Slice {
	a := bigslice.Reduce(r, func(x, y int) int { return x + y })
	return bigslice.Map(bigslice.Cogroup(a, r), func(k int, x, y []int) (int, int) { return k, joinCode(x, y) })
})

// ---- model --------------------------------------------------------------------

type row [2]int

func fmtRows(rs []row) []string {
	out := make([]string, len(rs))
	for i, r := range rs {
		out[i] = fmt.Sprintf("%d:%d", r[0], r[1])
	}
	return out
}

func reduceRows(rs []row) []row {
	m := map[int]int{}
	for _, r := range rs {
		m[r[0]] += r[1]
	}
	var ks []int
	for k := range m {
		ks = append(ks, k)
	}
	sort.Ints(ks)
	var out []row
	for _, k := range ks {
		out = append(out, row{k, m[k]})
	}
	return out
}

// modelSrc returns the rows of the source program and whether their order is
// fixed (shuffle-free result: shards in order, rows in Const order).
func modelSrc(prog string, tag int) ([]row, bool) {
	var rs []row
	for i, k := range srcKeys {
		rs = append(rs, row{k, srcVals[i] + 100*tag})
	}
	if prog == "sh" {
		return reduceRows(rs), false
	}
	return rs, true
}

func modelUse(kind byte, src []row) []row {
	switch kind {
	case 'P':
		out := make([]row, len(src))
		for i, r := range src {
			out[i] = row{r[0], 3*r[1] + 1}
		}
		return out
	case 'H':
		out := make([]row, len(src))
		for i, r := range src {
			out[i] = row{r[0] % 2, r[1]}
		}
		return reduceRows(out)
	case 'D':
		return reduceRows(src)
	case 'A', 'B', 'O', 'Q', 'U':
		return src // a redistribution keeps the multiset of rows
	case 'J', 'C':
		groups := map[int][]int{}
		var ks []int
		for _, r := range src {
			if _, ok := groups[r[0]]; !ok {
				ks = append(ks, r[0])
			}
			groups[r[0]] = append(groups[r[0]], r[1])
		}
		sort.Ints(ks)
		var out []row
		for _, k := range ks {
			a := groups[k]
			if kind == 'C' {
				sum := 0
				for _, x := range a {
					sum += x
				}
				a = []int{sum}
			}
			out = append(out, row{k, joinCode(a, groups[k])})
		}
		return out
	}
	panic("kind")
}

func sorted(s []string) []string {
	o := append([]string{}, s...)
	sort.Strings(o)
	return o
}

func eqStrings(a, b []string) bool {
	if len(a) != len(b) {
		return false
	}
	for i := range a {
		if a[i] != b[i] {
			return false
		}
	}
	return true
}

// subMultiset reports whether got ⊆ want as multisets.
func subMultiset(got, want []string) bool {
	m := map[string]int{}
	for _, w := range want {
		m[w]++
	}
	for _, g := range got {
		m[g]--
		if m[g] < 0 {
			return false
		}
	}
	return true
}

func isPrefix(got, want []string) bool {
	return len(got) <= len(want) && eqStrings(got, want[:len(got)])
}

// ---- records exchanged between child and parent --------------------------------

type viol struct {
	// Safety: wrong rows delivered by a successful use. Unlike an error or a hang
	// this cannot be an artefact of a busy host, so one occurrence is a violation
	// (it is still re-executed and the reproduction count recorded).
	Safety bool                   `json:"safety,omitempty"`
	Sig    string                 `json:"sig"`
	What   string                 `json:"what"`
	Detail map[string]interface{} `json:"detail"`
}

type histRec struct {
	Idx      int      `json:"idx"`
	Kind     string   `json:"kind"`
	Prog     string   `json:"prog"`
	Ops      []string `json:"ops"`
	Outcomes []string `json:"outcomes"` // one per executed op
	States   []string `json:"states"`   // canonical state after each executed op
	Mech     []string `json:"mech"`     // mechanism tags (for non-vacuity counts)
	Viol     []viol   `json:"viol,omitempty"`
	Hang     bool     `json:"hang,omitempty"`
	HangOp   int      `json:"hang_op,omitempty"` // index of the op that was executing when the watchdog fired
	Dump     string   `json:"dump,omitempty"`
	Ms       int64    `json:"ms"`
	OpMs     []int64  `json:"op_ms"`
}

// ---- executing one history ------------------------------------------------------

var invRe = regexp.MustCompile(`inv[0-9]+`)

type world struct {
	kind, prog string
	sess       *exec.Session
	sys        *vsys.System
	res        []*exec.Result // primary results r0, r1
	derived    []*exec.Result // results of Funcs over r_i (also of failed runs)
	discarded  [2]bool
	killed     bool
	badDirect  bool
	directs    [2][]byte // direct-redistribution ops applied to r_i so far
	fault      *discardFault
	faulted    string // variant of a faulty Discard executed earlier in this history
	rec        *histRec
}

func (w *world) state() string {
	var b strings.Builder
	for i, r := range w.res {
		var ts []string
		for _, t := range exec.VerifC12Tasks(r) {
			ts = append(ts, invRe.ReplaceAllString(t.Name, "inv")+"="+t.State)
		}
		sort.Strings(ts)
		fmt.Fprintf(&b, "r%d{%s} ", i, strings.Join(ts, ","))
	}
	if w.sys != nil {
		b.WriteString("alive=")
		for _, h := range w.sys.Hosts() {
			if w.sys.Alive(h) {
				b.WriteByte('1')
			} else {
				b.WriteByte('0')
			}
		}
	}
	return b.String()
}

func (w *world) rootsOK(i int) bool {
	for _, t := range exec.VerifC12Tasks(w.res[i]) {
		if t.Root && t.State != "OK" {
			return false
		}
	}
	return true
}

func (w *world) allOK(i int) bool {
	for _, t := range exec.VerifC12Tasks(w.res[i]) {
		if t.State != "OK" {
			return false
		}
	}
	return true
}

func (w *world) cond(i int) string {
	var c []string
	if w.discarded[i] {
		c = append(c, "discarded")
	}
	if w.killed {
		c = append(c, "killed")
	}
	if w.badDirect {
		c = append(c, "after-failed-direct")
	}
	if len(w.directs[i]) > 0 {
		c = append(c, "after-direct-redistribution")
	}
	if w.faulted != "" && i == 0 {
		c = append(c, "after-failed-discard-rpc")
	}
	if len(c) == 0 {
		return "intact"
	}
	return strings.Join(c, "+")
}

func (w *world) violate(opi int, sig, what string, extra map[string]interface{}) {
	d := map[string]interface{}{
		"executor": w.kind, "program": w.prog, "history": strings.Join(w.rec.Ops, " "),
		"failing_op_index": opi, "failing_op": w.rec.Ops[opi],
		"states_before": append([]string{}, w.rec.States...),
	}
	for k, v := range extra {
		d[k] = v
	}
	safety := strings.Contains(sig, "wrong-rows") || extra["wrong_rows"] == true
	w.rec.Viol = append(w.rec.Viol, viol{Safety: safety, Sig: "C12/H/" + w.kind + "/" + sig, What: what, Detail: d})
}

func scanAll(ctx context.Context, r *exec.Result) (rows []string, err error) {
	sc := r.Scanner()
	defer sc.Close()
	var k, v int
	for sc.Scan(ctx, &k, &v) {
		rows = append(rows, fmt.Sprintf("%d:%d", k, v))
	}
	return rows, sc.Err()
}

func errStr(err error) string {
	if err == nil {
		return ""
	}
	s := err.Error()
	if len(s) > 600 {
		s = s[:600] + "..."
	}
	return s
}

func (w *world) runSrc(ctx context.Context, tag int) (*exec.Result, error) {
	switch w.prog {
	case "s1":
		return w.sess.Run(ctx, fSrc, 1, tag)
	case "s2":
		return w.sess.Run(ctx, fSrc, 2, tag)
	case "s3":
		return w.sess.Run(ctx, fSrc, 3, tag)
	case "sh":
		return w.sess.Run(ctx, fSrcShuf, tag)
	}
	panic("prog " + w.prog)
}

var opNames = map[byte]string{'P': "pipelined", 'H': "shuffle", 'D': "direct-reduce",
	'A': "direct-reshard-2", 'B': "direct-reshard-3", 'Q': "direct-repartition-k", 'U': "direct-repartition-2k+1",
	'O': "direct-reshard-1", 'J': "cogroup-of-reshard-and-repartition", 'C': "cogroup-of-reduce-and-result"}

func isDirect(c byte) bool { return strings.IndexByte("DABOQUJC", c) >= 0 }

// isJoin: ops whose single Func re-shuffles the result twice.
func isJoin(c byte) bool { return c == 'J' || c == 'C' }

// step executes op number opi; it returns false when the history cannot continue.
func (w *world) step(ctx context.Context, opi int) bool {
	op := w.rec.Ops[opi]
	mech := func(s string) { w.rec.Mech = append(w.rec.Mech, s) }
	idx := 0
	if len(op) > 1 && op[0] != 'F' {
		idx = int(op[1] - '0')
	}
	// outcome of the op, tagged with what happened to its operand before
	tag := ""
	if strings.IndexByte("SPHDXABOQUJC", op[0]) >= 0 {
		tag = "[" + w.cond(idx) + "]"
	}
	out := func(s string) { w.rec.Outcomes = append(w.rec.Outcomes, op+tag+":"+s) }
	switch op[0] {
	case 'R':
		tag := len(w.res)
		r, err := w.runSrc(ctx, tag)
		if err != nil {
			w.violate(opi, "run-of-source-fails/"+w.condAll(), "Run(f) of a plain source program returned an error",
				map[string]interface{}{"error": errStr(err)})
			out("err")
			return false
		}
		w.res = append(w.res, r)
		out("ok")
	case 'S':
		src, ordered := modelSrc(w.prog, idx)
		want := fmtRows(src)
		gone := !w.rootsOK(idx)
		mayFail := gone || (w.sys != nil && w.killed)
		cond := w.cond(idx)
		rows, err := scanAll(ctx, w.res[idx])
		cmpGot, cmpWant := rows, want
		if !ordered {
			cmpGot, cmpWant = sorted(rows), sorted(want)
		}
		ex := map[string]interface{}{"want_rows": want, "got_rows": rows, "error": errStr(err), "order_checked": ordered, "root_outputs_gone_before_scan": gone}
		switch {
		case err == nil && eqStrings(cmpGot, cmpWant):
			out("ok")
			if gone {
				mech("scan/gone/recomputed-all-rows")
			} else {
				mech("scan/" + cond + "/ok")
			}
		case err == nil:
			class := "different-rows"
			if len(rows) < len(want) && subMultiset(rows, want) {
				class = "fewer-rows"
			} else if eqStrings(sorted(rows), sorted(want)) {
				class = "different-order"
			}
			w.violate(opi, "scan-succeeds-with-wrong-rows/"+class+"/"+cond,
				"a direct Scan of a result ended without error but did not deliver the rows of the first evaluation", ex)
			out("ok-WRONG")
		default:
			// error: allowed only when outputs are gone (or a machine was killed); rows so far must be correct
			okPrefix := isPrefix(rows, want)
			if !ordered {
				okPrefix = subMultiset(rows, want)
			}
			if !okPrefix {
				w.violate(opi, "scan-delivers-wrong-rows-before-error/"+cond,
					"a direct Scan delivered rows that are not a prefix of the first evaluation's rows, then an error", ex)
				out("err-WRONGROWS")
			} else if !mayFail {
				w.violate(opi, "scan-of-available-result-fails/"+cond,
					"a direct Scan of a result whose root outputs are all present (tasks OK, no machine lost) returned an error", ex)
				out("err-UNEXPECTED")
			} else {
				out(fmt.Sprintf("err@%d", len(rows)))
				mech(fmt.Sprintf("scan/gone/error-after-%d-rows", len(rows)))
			}
		}
	case 'P', 'H', 'D', 'A', 'B', 'O', 'Q', 'U', 'J', 'C':
		src, _ := modelSrc(w.prog, idx)
		want := sorted(fmtRows(modelUse(op[0], src)))
		cond := w.cond(idx)
		lost := !w.allOK(idx)
		var g *bigslice.FuncValue
		args := []interface{}{w.res[idx]}
		switch op[0] {
		case 'P':
			g = gPipe
		case 'H':
			g = gShuf
		case 'D':
			g = gDirect
		case 'A':
			g, args = gReshard, append(args, 2)
		case 'B':
			g, args = gReshard, append(args, 3)
		case 'O':
			g, args = gReshard, append(args, 1)
		case 'Q':
			g, args = gRepart, append(args, 1, 0)
		case 'U':
			g, args = gRepart, append(args, 2, 1)
		case 'J':
			g = gJoin1
		default: // 'C'
			g = gJoin2
		}
		// earlier direct redistributions of the same result
		earlier := string(w.directs[idx])
		relation := ""
		if isDirect(op[0]) {
			if earlier != "" {
				relation = "same-redistribution"
				for i := range earlier {
					if earlier[i] != op[0] {
						relation = "different-redistribution"
					}
				}
			}
			w.directs[idx] = append(w.directs[idx], op[0])
		}
		sigOf := func(oracle string) string {
			short := map[string]string{"func-over-result-fails": "fails", "scan-of-fresh-func-result-fails": "scan-fails", "func-over-result-wrong-rows": "wrong-rows"}[oracle]
			switch {
			case isJoin(op[0]):
				// one Func that sends the result into two shuffles
				return "two-direct-reshuffles-in-one-func-" + short
			case isDirect(op[0]) && relation == "":
				// first direct redistribution of this result (DESIGN §9 #5, C08-1): one signature per executor
				return "direct-shuffle-of-result"
			case isDirect(op[0]):
				// a result that was already re-shuffled directly by an earlier invocation
				return "second-direct-reshuffle-" + short + "/" + relation
			}
			return oracle + "/" + opNames[op[0]] + "/" + cond
		}
		d, err := w.sess.Run(ctx, g, args...)
		if err != nil {
			if d != nil {
				w.derived = append(w.derived, d)
			}
			w.violate(opi, sigOf("func-over-result-fails"),
				"Run of a Func ("+opNames[op[0]]+") over a result returned an error (it must recompute what is missing and succeed)",
				map[string]interface{}{"error": errStr(err), "want_rows": want, "condition": cond, "earlier_direct_redistributions_of_this_result": earlier})
			if isDirect(op[0]) {
				w.badDirect = true
			}
			out("runerr")
			break
		}
		w.derived = append(w.derived, d)
		rows, serr := scanAll(ctx, d)
		got := sorted(rows)
		ex := map[string]interface{}{"want_rows(sorted)": want, "got_rows(sorted)": got, "error": errStr(serr), "condition": cond, "earlier_direct_redistributions_of_this_result": earlier}
		if relation != "" {
			mech("func/direct/second-redistribution-of-a-result/" + relation)
		}
		switch {
		case serr != nil && w.sys != nil && w.killed && subMultiset(got, want):
			// the scan of the fresh result is itself a direct scan; after a machine
			// loss it may report an error, never wrong rows
			out(fmt.Sprintf("scanerr@%d", len(rows)))
			mech("func/" + opNames[op[0]] + "/scan-of-derived-errs-after-kill")
		case serr != nil:
			w.violate(opi, sigOf("scan-of-fresh-func-result-fails"),
				"the result of a successful Run of a Func ("+opNames[op[0]]+") over a result could not be scanned", ex)
			out("scanerr-UNEXPECTED")
		case !eqStrings(got, want):
			ex["wrong_rows"] = true
			w.violate(opi, sigOf("func-over-result-wrong-rows"),
				"a Func ("+opNames[op[0]]+") over a result succeeded but did not observe the rows of the first evaluation", ex)
			out("ok-WRONG")
		default:
			out("ok")
			if lost {
				mech("func/" + opNames[op[0]] + "/recomputed-lost-tasks")
			} else {
				mech("func/" + opNames[op[0]] + "/reused-ok-tasks")
			}
		}
	case 'F':
		// Discard(r0) during which the Worker.Discard RPC of one task fails: F<variant><n>
		f := w.fault
		f.mu.Lock()
		f.armed, f.variant, f.n = true, op[1], int(op[2]-'0')
		f.mu.Unlock()
		dctx, cancel := ctx, func() {}
		if op[1] == 'T' {
			dctx, cancel = context.WithTimeout(ctx, 300*time.Millisecond)
		}
		w.res[0].Discard(dctx)
		cancel()
		f.mu.Lock()
		f.armed = false
		fired, victim := f.fired, f.victim
		f.mu.Unlock()
		w.discarded[0] = true
		w.faulted = string(op[1])
		if fired && op[1] != 'T' {
			w.killed = true
			// as for K: wait until the driver has noticed the loss of the machine
			deadline := time.Now().Add(10 * time.Second)
			for time.Now().Before(deadline) {
				n := 0
				for _, t := range exec.VerifC12Tasks(w.res[0]) {
					if strings.TrimPrefix(t.Host, "http://") == victim && t.State == "OK" {
						n++
					}
				}
				if n == 0 && exec.VerifC12Machines(w.sess)["http://"+victim] == "STOPPED" {
					break
				}
				time.Sleep(2 * time.Millisecond)
			}
		}
		nOK, nRunning := 0, 0
		for _, t := range exec.VerifC12Tasks(w.res[0]) {
			switch t.State {
			case "OK":
				nOK++
			case "RUNNING", "WAITING":
				nRunning++
			}
		}
		out(fmt.Sprintf("done(fired=%v,ok-after=%d,running-after=%d)", fired, nOK, nRunning))
		if fired {
			mech("faulty-discard/" + string(op[1]) + "/rpc-failed")
		} else {
			mech("faulty-discard/" + string(op[1]) + "/not-fired")
		}
	case 'X':
		before := w.allOK(idx)
		w.res[idx].Discard(ctx)
		w.discarded[idx] = true
		stillOK := 0
		for _, t := range exec.VerifC12Tasks(w.res[idx]) {
			if t.State == "OK" {
				stillOK++
			}
		}
		out(fmt.Sprintf("done(ok-after=%d)", stillOK))
		if before {
			mech("discard/of-complete-result")
		} else {
			mech("discard/of-partly-lost-result")
		}
	case 'K':
		// candidates: machines that are up (bigmachine state RUNNING); a machine
		// that is still booting holds nothing and its loss is a boot failure,
		// which bigmachine resolves on its boot time-out (minutes), not here
		w.settle()
		ms := exec.VerifC12Machines(w.sess)
		var alive []string
		for _, h := range w.sys.Hosts() {
			if w.sys.Alive(h) && ms["http://"+h] == "RUNNING" {
				alive = append(alive, h)
			}
		}
		if idx >= len(alive) {
			out("noop")
			mech("kill/no-such-machine")
			break
		}
		host := alive[idx]
		holds := 0
		all := append(append([]*exec.Result{}, w.res...), w.derived...)
		for _, r := range w.res {
			for _, t := range exec.VerifC12Tasks(r) {
				if strings.TrimPrefix(t.Host, "http://") == host && t.State == "OK" {
					holds++
				}
			}
		}
		w.sys.Kill(host)
		w.killed = true
		// wait until the driver has noticed: no task located on the killed machine is still OK
		deadline := time.Now().Add(10 * time.Second)
		noticed := false
		for time.Now().Before(deadline) {
			n := 0
			for _, r := range all {
				for _, t := range exec.VerifC12Tasks(r) {
					if strings.TrimPrefix(t.Host, "http://") == host && t.State == "OK" {
						n++
					}
				}
			}
			if n == 0 {
				noticed = true
				break
			}
			time.Sleep(2 * time.Millisecond)
		}
		if holds > 0 {
			mech("kill/machine-holding-result-tasks")
		} else {
			mech("kill/machine-without-result-tasks")
		}
		if !noticed {
			mech("kill/driver-did-not-notice-within-10s")
		}
		out(fmt.Sprintf("killed(held=%d)", holds))
	default:
		panic("op " + op)
	}
	return true
}

func (w *world) condAll() string {
	if len(w.res) == 0 {
		if w.killed {
			return "killed"
		}
		return "fresh"
	}
	return w.cond(0)
}

// quiesce waits until no task of any result is still WAITING or RUNNING: a failed
// evaluation leaves task goroutines behind, and Session.Shutdown under their feet
// makes them panic ("call after close" in the invocation disk cache), which is not
// what this check is about.
func (w *world) quiesce() {
	all := append(append([]*exec.Result{}, w.res...), w.derived...)
	deadline := time.Now().Add(10 * time.Second)
	for time.Now().Before(deadline) {
		busy := false
		for _, r := range all {
			for _, t := range exec.VerifC12Tasks(r) {
				if t.State == "WAITING" || t.State == "RUNNING" {
					busy = true
				}
			}
		}
		if !busy {
			return
		}
		time.Sleep(2 * time.Millisecond)
	}
}

// settle waits until no machine is still booting.
func (w *world) settle() {
	if w.sys == nil {
		return
	}
	deadline := time.Now().Add(10 * time.Second)
	for time.Now().Before(deadline) {
		booting := false
		for _, st := range exec.VerifC12Machines(w.sess) {
			if st == "STARTING" || st == "UNSTARTED" {
				booting = true
			}
		}
		if !booting {
			return
		}
		time.Sleep(2 * time.Millisecond)
	}
}

// progress of the history being executed, for the watchdog's hang record
var (
	progMu       sync.Mutex
	progOutcomes []string
	progStates   []string
	progOp       int
)

// discardFault makes the Worker.Discard RPC of ONE task fail (DESIGN E4 interposer):
// the task is the n-th distinct task for which a Worker.Discard call arrives.
//
//	T  transport error on every attempt for that task, machine stays alive; the
//	   Discard context (300 ms) expires while the RPC is being retried
//	B  the machine dies before the request arrives
//	A  the handler runs (output discarded), the reply is lost, the machine dies
type discardFault struct {
	mu      sync.Mutex
	sys     *vsys.System
	armed   bool
	variant byte
	n       int
	order   map[string]int // task key -> order of first Worker.Discard call
	fired   bool
	victim  string
}

func (f *discardFault) target(c *vsys.Call) bool {
	if c.Method != "Worker.Discard" {
		return false
	}
	f.mu.Lock()
	defer f.mu.Unlock()
	if !f.armed {
		return false
	}
	key := c.Label
	if i := strings.LastIndexByte(key, '#'); i >= 0 {
		key = key[:i]
	}
	if _, ok := f.order[key]; !ok {
		f.order[key] = len(f.order) + 1
	}
	if f.order[key] != f.n {
		return false
	}
	f.fired = true
	f.victim = c.Host
	return true
}

func (f *discardFault) hook(c *vsys.Call) error {
	if !f.target(c) {
		return nil
	}
	switch f.variant {
	case 'T':
		return fmt.Errorf("dial %s: injected transport error (c12)", c.Host)
	case 'B':
		f.sys.Kill(c.Host) // RoundTrip then refuses the connection
	}
	return nil
}

func (f *discardFault) after(c *vsys.Call, status int, body []byte) {
	if f.variant == 'A' && f.target(c) {
		f.sys.Kill(c.Host) // RoundTrip then reports a reset connection: reply lost
	}
}

func runHistory(idx int, kind, prog string, ops []string) *histRec {
	t0 := time.Now()
	rec := &histRec{Idx: idx, Kind: kind, Prog: prog, Ops: ops}
	w := &world{kind: kind, prog: prog, rec: rec}
	if kind == "local" {
		w.sess = exec.Start(exec.Local, exec.Parallelism(4))
	} else {
		w.sys = vsys.New(2)
		// keepalive: period 20 ms, time-out 200 ms (default of verifsystem: 60 ms).
		// The driver notices a killed machine after one keepalive time-out, so this
		// is what a Kill operation costs; 60 ms gives spurious machine losses when
		// the host is busy (seen as "lost on 5 consecutive attempts" flakes).
		w.sys.Keepalive = [3]time.Duration{20 * time.Millisecond, 200 * time.Millisecond, 100 * time.Millisecond}
		w.fault = &discardFault{sys: w.sys, order: map[string]int{}}
		w.sys.Hook = w.fault.hook
		w.sys.After = w.fault.after
		if kind == "vsys1" {
			// ONE machine (2 procs): whatever is recomputed after a Discard or a later use
			// lands on the machine that ran it before (worker-side state of re-run tasks)
			w.sess = exec.Start(exec.Bigmachine(w.sys), exec.Parallelism(2))
		} else {
			w.sess = exec.Start(exec.Bigmachine(w.sys), exec.Parallelism(4))
		}
	}
	ctx := context.Background()
	for i := range ops {
		t1 := time.Now()
		progMu.Lock()
		progOp, progOutcomes, progStates = i, append([]string{}, rec.Outcomes...), append([]string{}, rec.States...)
		progMu.Unlock()
		cont := w.step(ctx, i)
		rec.OpMs = append(rec.OpMs, time.Since(t1).Milliseconds())
		rec.States = append(rec.States, w.state())
		if !cont {
			break
		}
	}
	t2 := time.Now()
	w.quiesce()
	w.settle()
	w.sess.Shutdown()
	rec.OpMs = append(rec.OpMs, time.Since(t2).Milliseconds())
	if w.sys != nil {
		for _, h := range w.sys.Hosts() {
			w.sys.Kill(h)
		}
	}
	rec.Ms = time.Since(t0).Milliseconds()
	return rec
}

// ---- child: execute the histories given on stdin --------------------------------

const hangAfter = 60 * time.Second

func childMain() {
	if p := os.Getenv("C12_CPUPROFILE"); p != "" {
		f, _ := os.Create(p)
		pprof.StartCPUProfile(f)
		defer pprof.StopCPUProfile()
	}
	vsys.Quiet()
	vsys.FastRetries()
	exec.DoShuffleReaders = false
	// a machine that returned one RPC-level error is not offered for 30 s by
	// default; with 1 task proc per machine that stalls a history for 30 s
	exec.ProbationTimeout = 500 * time.Millisecond
	in := bufio.NewScanner(os.Stdin)
	in.Buffer(make([]byte, 1<<20), 1<<20)
	w := bufio.NewWriter(os.Stdout)
	enc := json.NewEncoder(w)
	for in.Scan() {
		f := strings.Split(in.Text(), "\t")
		if len(f) != 4 {
			continue
		}
		var idx int
		fmt.Sscan(f[0], &idx)
		ops := strings.Split(f[3], ",")
		done := make(chan *histRec, 1)
		go func() { done <- runHistory(idx, f[1], f[2], ops) }()
		select {
		case rec := <-done:
			enc.Encode(rec)
			w.Flush()
		case <-time.After(hangAfter):
			buf := make([]byte, 1<<20)
			buf = buf[:runtime.Stack(buf, true)]
			rec := &histRec{Idx: idx, Kind: f[1], Prog: f[2], Ops: ops, Hang: true, Dump: trimDump(string(buf)), Ms: hangAfter.Milliseconds()}
			progMu.Lock()
			rec.HangOp, rec.Outcomes, rec.States = progOp, progOutcomes, progStates
			progMu.Unlock()
			enc.Encode(rec)
			w.Flush()
			os.Exit(3)
		}
	}
}

// trimDump keeps the goroutines that are inside bigslice code.
func trimDump(s string) string {
	var keep []string
	for _, g := range strings.Split(s, "\n\n") {
		if strings.Contains(g, "bigslice/exec") || strings.Contains(g, "main.(*world)") {
			keep = append(keep, g)
		}
	}
	out := strings.Join(keep, "\n\n")
	if len(out) > 12000 {
		out = out[:12000] + "\n...[truncated]"
	}
	return out
}

// ---- parent -----------------------------------------------------------------------

type job struct {
	idx        int
	kind, prog string
	ops        []string
	space      string // "A" general alphabet, "B" direct-redistribution family
}

// enumerate lists every history of exactly the given length.
func enumerate(kind string, length int) [][]string {
	var out [][]string
	var rec func(h []string, nres int)
	rec = func(h []string, nres int) {
		if len(h) == length {
			out = append(out, append([]string{}, h...))
			return
		}
		if len(h) == 0 {
			rec(append(h, "R"), 1)
			return
		}
		for i := 0; i < nres; i++ {
			for _, o := range []string{"S", "P", "H", "X"} {
				rec(append(h, fmt.Sprintf("%s%d", o, i)), nres)
			}
		}
		if nres < 2 {
			rec(append(h, "R"), nres+1)
		}
		if kind == "vsys" {
			rec(append(h, "K0"), nres)
			rec(append(h, "K1"), nres)
		}
	}
	rec(nil, 0)
	return out
}

// enumerateB lists the histories of exactly the given length of space B: R followed
// by operations on r0 out of the direct redistributions D0 A0 B0 Q0 U0, Discard X0
// and (cluster) Kill K0, with at least one direct redistribution.
func enumerateB(kind string, length int) [][]string {
	alpha := []string{"D0", "A0", "B0", "Q0", "U0", "X0"}
	if kind == "vsys" {
		alpha = append(alpha, "K0")
	}
	var out [][]string
	var rec func(h []string, direct bool)
	rec = func(h []string, direct bool) {
		if len(h) == length {
			if direct {
				out = append(out, append([]string{}, h...))
			}
			return
		}
		for _, o := range alpha {
			rec(append(h, o), direct || isDirect(o[0]))
		}
	}
	if length >= 2 {
		rec([]string{"R"}, false)
	}
	return out
}

// enumerateC lists the histories of exactly the given length of space C: R followed
// by operations on r0 out of J0 C0 (one Func, two shuffles of the result), Q0,
// Discard X0 and (cluster) Kill K0, with at least one J0 or C0.
func enumerateC(kind string, length int) [][]string {
	alpha := []string{"J0", "C0", "Q0", "X0"}
	if kind == "vsys" {
		alpha = append(alpha, "K0")
	}
	var out [][]string
	var rec func(h []string, join bool)
	rec = func(h []string, join bool) {
		if len(h) == length {
			if join {
				out = append(out, append([]string{}, h...))
			}
			return
		}
		for _, o := range alpha {
			rec(append(h, o), join || isJoin(o[0]))
		}
	}
	if length >= 2 {
		rec([]string{"R"}, false)
	}
	return out
}

// enumerateD lists the histories of exactly the given length of space D: R, then one
// direct redistribution of r0 (D A B O Q U J C; O = Reshard(r,1), a consumer of ONE
// shard), then a word over P0 H0 X0 O0 (and K0 on the cluster) that contains at
// least one P0 or H0: every direct op followed by the pipelined and the shuffling
// consumer, with and without a Discard / Kill / 1-shard Reshard in between.
func enumerateD(kind string, length int) [][]string {
	first := []string{"D0", "A0", "B0", "O0", "Q0", "U0", "J0", "C0"}
	alpha := []string{"P0", "H0", "X0", "O0"}
	if kind == "vsys" {
		alpha = append(alpha, "K0")
	}
	var out [][]string
	var rec func(h []string, use bool)
	rec = func(h []string, use bool) {
		if len(h) == length {
			if use {
				out = append(out, append([]string{}, h...))
			}
			return
		}
		for _, o := range alpha {
			rec(append(h, o), use || o == "P0" || o == "H0")
		}
	}
	if length >= 3 {
		for _, f := range first {
			rec([]string{"R", f}, false)
		}
	}
	return out
}

// ntasks is the number of tasks (= Worker.Discard calls) of a program's result.
var ntasks = map[string]int{"s1": 1, "s2": 2, "s3": 3, "sh": 4}

// enumerateF lists the histories of exactly the given length of space F (cluster
// only): R, then F<v><n> = Discard(r0) during which the Worker.Discard RPC of the
// n-th task fails in variant v (T, B, A; see discardFault), then a word over
// P0 H0 S0 X0. Quick: all words of length 1 and the length-2 words P0 P0, X0 P0,
// X0 S0, S0 P0; thorough: all words up to the depth.
func enumerateF(prog string, length int, thorough bool) [][]string {
	if length < 3 {
		return nil
	}
	alpha := []string{"P0", "H0", "S0", "X0"}
	var words [][]string
	var rec func(h []string)
	rec = func(h []string) {
		if len(h) == length-2 {
			words = append(words, append([]string{}, h...))
			return
		}
		for _, o := range alpha {
			rec(append(h, o))
		}
	}
	if thorough || length == 3 {
		rec(nil)
	} else if length == 4 {
		words = [][]string{{"P0", "P0"}, {"X0", "P0"}, {"X0", "S0"}, {"S0", "P0"}}
	}
	var out [][]string
	for n := 1; n <= ntasks[prog]; n++ {
		for _, v := range []string{"T", "B", "A"} {
			for _, w := range words {
				out = append(out, append([]string{"R", fmt.Sprintf("F%s%d", v, n)}, w...))
			}
		}
	}
	return out
}

// runBatch executes jobs in child processes, feeding one history at a time (a new
// child after a hang or crash), and returns one record per executed job. If over is
// non-nil and reports true, no further history is started.
func runBatch(self string, jobs []job, over func() bool) []*histRec {
	var recs []*histRec
	crashed := map[int]int{}
	for len(jobs) > 0 {
		if over != nil && over() {
			return recs
		}
		cmd := osexec.Command(self, "-child")
		var stderr bytes.Buffer
		cmd.Stderr = &limitWriter{w: &stderr, n: 1 << 16}
		stdin, err := cmd.StdinPipe()
		if err != nil {
			ev.Fatal("pipe: %v", err)
		}
		pipe, err := cmd.StdoutPipe()
		if err != nil {
			ev.Fatal("pipe: %v", err)
		}
		if err := cmd.Start(); err != nil {
			ev.Fatal("start child: %v", err)
		}
		rd := bufio.NewReaderSize(pipe, 1<<20)
		got := 0
		died := false
		stopped := false
		for got < len(jobs) {
			if over != nil && over() {
				stopped = true
				break
			}
			j := jobs[got]
			if _, err := fmt.Fprintf(stdin, "%d\t%s\t%s\t%s\n", j.idx, j.kind, j.prog, strings.Join(j.ops, ",")); err != nil {
				died = true
				break
			}
			var rec *histRec
			for rec == nil {
				line, err := rd.ReadBytes('\n')
				if len(bytes.TrimSpace(line)) > 0 {
					var r histRec
					if jerr := json.Unmarshal(line, &r); jerr == nil && r.Idx == j.idx {
						rec = &r
					}
				}
				if err != nil {
					break
				}
			}
			if rec == nil {
				died = true
				break
			}
			recs = append(recs, rec)
			got++
			if rec.Hang {
				break // the child exits after reporting a hang
			}
		}
		stdin.Close()
		io.Copy(io.Discard, rd)
		werr := cmd.Wait()
		if stopped {
			return recs
		}
		if !died {
			jobs = jobs[got:]
			continue
		}
		// the child died while executing jobs[got]; goroutines left behind by an
		// earlier history of the same child may be the cause, so the history gets a
		// second chance at the head of a new child before it is blamed
		j := jobs[got]
		if crashed[j.idx] == 0 {
			crashed[j.idx]++
			jobs = jobs[got:]
			continue
		}
		tail := stderr.String()
		if len(tail) > 3000 {
			tail = tail[len(tail)-3000:]
		}
		recs = append(recs, &histRec{Idx: j.idx, Kind: j.kind, Prog: j.prog, Ops: j.ops,
			Viol: []viol{{Sig: "C12/H/" + j.kind + "/driver-process-died", What: "the driver process died while executing a history",
				Detail: map[string]interface{}{"executor": j.kind, "program": j.prog, "history": strings.Join(j.ops, " "), "exit": fmt.Sprint(werr), "stderr_tail": tail}}}})
		jobs = jobs[got+1:]
	}
	return recs
}

type limitWriter struct {
	w io.Writer
	n int
}

func (l *limitWriter) Write(p []byte) (int, error) {
	if l.n > 0 {
		q := p
		if len(q) > l.n {
			q = q[:l.n]
		}
		l.w.Write(q)
		l.n -= len(q)
	}
	return len(p), nil
}

func sigsOf(rec *histRec) []viol {
	vs := rec.Viol
	if rec.Hang {
		sig := "history-hangs"
		for i, op := range rec.Ops {
			if op[0] == 'F' && i < rec.HangOp && rec.HangOp < len(rec.Ops) {
				// never returns: an operation on a result after a Discard whose Worker.Discard RPC failed
				kinds := map[byte]string{'P': "func-over-result", 'H': "func-over-result", 'S': "scan", 'X': "discard"}
				sig = "op-after-failed-discard-rpc-hangs/" + map[byte]string{'T': "rpc-error+context-expired", 'B': "machine-died-before-request", 'A': "machine-died-after-handler"}[op[1]] + "/" + kinds[rec.Ops[rec.HangOp][0]]
			}
		}
		vs = append(vs, viol{Sig: "C12/H/" + rec.Kind + "/" + sig, What: fmt.Sprintf("a history did not finish within %v (normal: well under 1 s)", hangAfter),
			Detail: map[string]interface{}{"executor": rec.Kind, "program": rec.Prog, "history": strings.Join(rec.Ops, " "),
				"executing_op_index": rec.HangOp, "outcomes_before": rec.Outcomes, "states_before": rec.States, "goroutines": rec.Dump}})
	}
	return vs
}

var flagChild = flag.Bool("child", false, "internal: execute the histories listed on stdin")
var flagNoS = flag.Bool("no-layer-s", false, "skip the schedule-exploration layer (debugging)")
var flagOnly = flag.String("only", "", "debugging: run only this history, e.g. vsys:s2:R,X0,S0")

type layerOut struct {
	Coverage      map[string]interface{} `json:"coverage"`
	Violations    int                    `json:"violations"`
	Machinery     int                    `json:"machinery"`
	ViolationList []ev.Violation         `json:"violation_list"`
}

func runLayerS(tier string) (*layerOut, string) {
	bin := os.Getenv("VERIF_BIN_DIR")
	if bin == "" {
		return nil, "layer S skipped: VERIF_BIN_DIR not set (run through ./run)"
	}
	bin += "/c19-sched"
	if _, err := os.Stat(bin); err != nil {
		return nil, "layer S skipped: " + bin + " not built"
	}
	cmd := osexec.Command(bin, "-layer", "C12", "-tier", tier)
	var stderr bytes.Buffer
	cmd.Stderr = &limitWriter{w: &stderr, n: 1 << 16}
	outb, err := cmd.Output()
	for _, line := range bytes.Split(outb, []byte("\n")) {
		if bytes.HasPrefix(line, []byte("LAYER ")) {
			var lo layerOut
			if jerr := json.Unmarshal(line[6:], &lo); jerr != nil {
				return nil, "layer S: cannot parse LAYER line: " + jerr.Error()
			}
			return &lo, ""
		}
	}
	tail := stderr.String()
	if len(tail) > 500 {
		tail = tail[len(tail)-500:]
	}
	return nil, fmt.Sprintf("layer S: c19-sched printed no LAYER line (exit: %v; stderr tail: %q)", err, tail)
}

func num(m map[string]interface{}, k string) int64 {
	if f, ok := m[k].(float64); ok {
		return int64(f)
	}
	return 0
}

func main() {
	flag.Parse()
	if *flagChild {
		childMain()
		return
	}
	r := ev.Start("C12", "model_checking")
	self, err := os.Executable()
	if err != nil {
		ev.Fatal("os.Executable: %v", err)
	}
	depth := 4
	budget := 150 * time.Second
	if r.Thorough() {
		depth = 5
		budget = 9 * time.Minute
	}
	progs := []string{"s1", "s2", "s3", "sh"}
	// Space A: general alphabet R S P H X (K0 K1), no direct redistribution.
	// Space B: R then {D0 A0 B0 Q0 U0 X0 (K0)}* with >= 1 direct redistribution.
	// A history on the cluster costs ~0.5 CPU-seconds, so the cluster part is less
	// deep for some programs (stated in the evidence rule).
	depthOf := func(space, kind, prog string) int {
		if kind == "local" {
			return depth
		}
		if space == "A" {
			if r.Thorough() {
				if prog == "s1" || prog == "s2" {
					return depth
				}
				return depth - 1
			}
			return depth - 1
		}
		if r.Thorough() {
			if prog == "s2" || prog == "s3" {
				return depth
			}
			return depth - 1
		}
		if prog == "sh" || prog == "s1" {
			return depth - 1
		}
		if space == "B" && prog == "s2" {
			return depth - 1 // quick: the pairs of direct re-shuffles are explored to full depth on s3
		}
		return depth
	}

	// layer S runs concurrently in its own process (it uses few cores)
	var (
		lsWG  sync.WaitGroup
		ls    *layerOut
		lsWhy string
	)
	if !*flagNoS && *flagOnly == "" {
		lsWG.Add(1)
		go func() {
			defer lsWG.Done()
			ls, lsWhy = runLayerS(r.Tier)
		}()
	} else {
		lsWhy = "layer S skipped by flag"
	}

	// ---- enumerate, simplest first
	var jobs []job
	if *flagOnly != "" {
		f := strings.Split(*flagOnly, ":")
		jobs = append(jobs, job{0, f[0], f[1], strings.Split(f[2], ","), "only"})
	} else {
		for l := 1; l <= depth; l++ {
			for _, kind := range []string{"local", "vsys", "vsys1"} {
				for _, space := range []string{"A", "B", "C", "D", "F"} {
					if kind == "vsys1" {
						// one-machine cluster: space A (no Kill) on the 2-shard and the shuffling program
						if space == "A" && l <= depth-1 {
							for _, prog := range []string{"s2", "sh"} {
								for _, h := range enumerate(kind, l) {
									jobs = append(jobs, job{len(jobs), kind, prog, h, space})
								}
							}
						}
						continue
					}
					if space == "F" {
						// discard-under-fault histories: cluster only, depend on the program
						if kind == "vsys" {
							for _, prog := range progs {
								for _, h := range enumerateF(prog, l, r.Thorough()) {
									jobs = append(jobs, job{len(jobs), kind, prog, h, space})
								}
							}
						}
						continue
					}
					hs := enumerate(kind, l)
					if space == "D" {
						hs = enumerateD(kind, l)
					}
					if space == "B" {
						hs = enumerateB(kind, l)
					} else if space == "C" {
						hs = enumerateC(kind, l)
					}
					for _, prog := range progs {
						if l > depthOf(space, kind, prog) {
							continue
						}
						for _, h := range hs {
							jobs = append(jobs, job{len(jobs), kind, prog, h, space})
						}
					}
				}
			}
		}
	}
	// batches: local histories are fast, cluster histories cost 0.1–1 s
	var batches [][]job
	for i := 0; i < len(jobs); {
		n := 40
		if jobs[i].kind == "local" {
			n = 150
		}
		if jobs[i].space == "F" {
			n = 6 // a history that hangs costs its child 60 s
		}
		j := i
		for j < len(jobs) && j-i < n && jobs[j].kind == jobs[i].kind && jobs[j].space == jobs[i].space {
			j++
		}
		batches = append(batches, jobs[i:j])
		i = j
	}
	recs := make([]*histRec, len(jobs))
	var skipped int64
	var mu sync.Mutex
	over := func() bool { return r.OverBudget(budget) }
	ev.Parallel(len(batches), 20, func(b int) {
		rr := runBatch(self, batches[b], over)
		for _, rec := range rr {
			recs[rec.Idx] = rec
		}
		if len(rr) < len(batches[b]) {
			mu.Lock()
			skipped += int64(len(batches[b]) - len(rr))
			mu.Unlock()
		}
	})
	if skipped > 0 {
		r.NotExhaustive(fmt.Sprintf("layer H: time budget %v reached, %d of %d histories not executed", budget, skipped, len(jobs)))
	}

	// ---- aggregate
	states := ev.NewCounter()
	outcomes := ev.NewCounter()
	opOutcomes := map[string]int{}
	mech := map[string]int{}
	perSpace := map[string]int{}
	var transitions, executed int64
	var maxMs int64
	var slowest string
	nSlow := 0
	cands := map[string][]*histRec{} // signature -> histories (simplest first)
	var sigOrder []string
	for _, rec := range recs {
		if rec == nil {
			continue
		}
		executed++
		perSpace[jobs[rec.Idx].space+"/"+rec.Kind+"/"+rec.Prog]++
		transitions += int64(len(rec.Outcomes))
		for _, s := range rec.States {
			states.Add(rec.Kind + "/" + rec.Prog + " " + s)
		}
		for _, o := range rec.Outcomes {
			opOutcomes[rec.Kind+" "+stripIdx(o)]++
		}
		for _, m := range rec.Mech {
			mech[rec.Kind+" "+m]++
		}
		outcomes.Add(rec.Kind + "/" + rec.Prog + " " + strings.Join(rec.Outcomes, " "))
		if rec.Ms > maxMs {
			maxMs = rec.Ms
			slowest = fmt.Sprintf("%s/%s %s op_ms=%v", rec.Kind, rec.Prog, strings.Join(rec.Ops, " "), rec.OpMs)
		}
		if rec.Ms > 5000 {
			nSlow++
		}
		for _, v := range sigsOf(rec) {
			if _, ok := cands[v.Sig]; !ok {
				sigOrder = append(sigOrder, v.Sig)
			}
			if len(cands[v.Sig]) < 4 {
				cands[v.Sig] = append(cands[v.Sig], rec)
			}
		}
	}

	// ---- confirm: a signature is reported only if one of its simplest histories
	// shows it again in two more executions (3 of 3)
	type confirm struct {
		sig  string
		rec  *histRec
		ok   bool
		n    int
		twin string
		v    viol
	}
	var conf []*confirm
	for _, sig := range sigOrder {
		for _, rec := range cands[sig] {
			conf = append(conf, &confirm{sig: sig, rec: rec})
		}
	}
	ev.Parallel(len(conf), 16, func(i int) {
		c := conf[i]
		for _, v := range sigsOf(c.rec) {
			if v.Sig == c.sig {
				c.v = v
			}
		}
		c.n = 1
		for rep := 0; rep < 2; rep++ {
			rr := runBatch(self, []job{{c.rec.Idx, c.rec.Kind, c.rec.Prog, c.rec.Ops, ""}}, nil)
			again := false
			for _, rec := range rr {
				for _, v := range sigsOf(rec) {
					if v.Sig == c.sig {
						again = true
					}
				}
			}
			if again {
				c.n++
			}
		}
		c.ok = c.n == 3 || c.v.Safety
		if c.ok && strings.Contains(c.sig, "op-after-failed-discard-rpc-hangs") {
			// the same history with a fault-free Discard must complete, otherwise the
			// hang is not a consequence of the failed RPC (spaces A-D report that case)
			twin := append([]string{}, c.rec.Ops...)
			for i, op := range twin {
				if op[0] == 'F' {
					twin[i] = "X0"
				}
			}
			for _, rec := range runBatch(self, []job{{c.rec.Idx, c.rec.Kind, c.rec.Prog, twin, ""}}, nil) {
				if rec.Hang || len(rec.Viol) > 0 {
					c.ok = false
				} else {
					c.twin = fmt.Sprintf("%s completes in %d ms with outcomes %v", strings.Join(twin, " "), rec.Ms, rec.Outcomes)
				}
			}
		}
	})
	confirmed := map[string]bool{}
	unconfirmed := 0
	for _, c := range conf {
		if c.ok && !confirmed[c.sig] {
			confirmed[c.sig] = true
			c.v.Detail["reproduced"] = fmt.Sprintf("%d of 3 executions of this history in fresh processes", c.n)
			c.v.Detail["histories_with_this_signature_first_pass"] = countSig(recs, c.sig)
			if c.twin != "" {
				c.v.Detail["same_history_with_fault_free_discard"] = c.twin
			}
			r.Violate(c.sig, c.v.What, c.v.Detail)
		}
	}
	var unconfDetail []interface{}
	for _, sig := range sigOrder {
		if !confirmed[sig] {
			for _, v := range sigsOf(cands[sig][0]) {
				if v.Sig == sig {
					b, _ := json.Marshal(v.Detail)
					if len(b) > 6000 {
						b = b[:6000]
					}
					unconfDetail = append(unconfDetail, map[string]string{"signature": sig, "detail": string(b)})
				}
			}
			unconfirmed++
			r.Note("not reported (not reproduced 3 of 3): %s, first seen in %s/%s %s", sig, cands[sig][0].Kind, cands[sig][0].Prog, strings.Join(cands[sig][0].Ops, " "))
		}
	}

	// ---- samples: a few histories written out
	for _, want := range []string{"local/s2 R X0 S0", "local/sh R X0 H0 S0", "vsys/s2 R K0 S0", "vsys/s2 R K0 P0 S0", "vsys/sh R X0 K1 H0", "local/s1 R R X0 P1", "vsys/s3 R A0 Q0", "vsys/s3 R Q0 X0 U0", "vsys/s2 R FB1 P0"} {
		for _, rec := range recs {
			if rec != nil && rec.Kind+"/"+rec.Prog+" "+strings.Join(rec.Ops, " ") == want {
				r.Sample(map[string]interface{}{"executor": rec.Kind, "program": rec.Prog, "history": strings.Join(rec.Ops, " "),
					"outcomes": rec.Outcomes, "final_state": last(rec.States), "ms": rec.Ms})
				break
			}
		}
	}

	if r.NumSamples() == 0 {
		for _, rec := range recs {
			if rec != nil {
				r.Sample(map[string]interface{}{"executor": rec.Kind, "program": rec.Prog, "history": strings.Join(rec.Ops, " "),
					"outcomes": rec.Outcomes, "final_state": last(rec.States), "ms": rec.Ms})
				break
			}
		}
	}

	depthTable := map[string]int{}
	for _, space := range []string{"A", "B", "C", "D"} {
		for _, kind := range []string{"local", "vsys"} {
			for _, prog := range progs {
				depthTable[space+"/"+kind+"/"+prog] = depthOf(space, kind, prog)
			}
		}
	}
	for _, prog := range progs {
		depthTable["F/vsys/"+prog] = depth
	}
	depthTable["A/vsys1(one machine)/s2"] = depth - 1
	depthTable["A/vsys1(one machine)/sh"] = depth - 1
	layerH := map[string]interface{}{
		"depth":                     depthTable,
		"alphabet":                  "space A: R | S<i> P<i> H<i> X<i> for i in live results (max 2) | K0 K1 (cluster only).  space B: R then {D0 A0 B0 Q0 U0 X0 | K0 (cluster only)}* with at least one direct redistribution; D=Reduce, A=Reshard(r,2), B=Reshard(r,3), Q=Repartition(r, k mod n), U=Repartition(r, (2k+1) mod n), each applied DIRECTLY to the result.  space C: R then {J0 C0 Q0 X0 | K0 (cluster only)}* with at least one J0/C0; J=Cogroup(Reshard(r,2),Repartition(r,(2k+1) mod n)), C=Cogroup(Reduce(r,+), r), rows folded to (k, counts and sums of both groups).  space D: R, one of D0 A0 B0 O0 Q0 U0 J0 C0 (O=Reshard(r,1)), then {P0 H0 X0 O0 | K0 (cluster only)}* with at least one P0/H0.  space F (cluster only): R, F<T|B|A><n> (Discard with a failing Worker.Discard RPC), then words over {P0 H0 S0 X0}",
		"program_descriptions":      "s1/s2/s3: Const(1/2/3 shards, 5 rows)->Map; sh: Const(2)->Map->Reduce (result out of a shuffle)",
		"histories_enumerated":      len(jobs),
		"histories_executed":        executed,
		"histories_per_space":       perSpace,
		"states":                    states.Distinct(),
		"transitions":               transitions,
		"distinct_outcomes":         len(opOutcomes),
		"distinct_history_outcomes": outcomes.Distinct(),
		"op_outcome_counts":         opOutcomes, // executor, op kind [what happened to the operand before] : outcome
		"mechanism_counts":          mech,
		"slowest_history_ms":        maxMs,
		"slowest_history":           slowest,
		"histories_over_5s":         nSlow,
		"signatures_first_pass":     len(sigOrder),
		"signatures_not_confirmed":  unconfirmed,
		"unconfirmed":               unconfDetail,
		"rule":                      "(plus kind vsys1: space A without Kill on a ONE-machine cluster, Parallelism(2), programs s2 and sh, one level less deep: recomputation lands on the machine that ran the task before) four spaces of histories, each history replayed in a fresh session (state de-duplication is used for counting only). Space A = all histories over the general alphabet (no direct redistribution) up to the depth in the depth table; space B = all histories R·w, w over five DIFFERENT direct redistributions of r0 plus Discard and (cluster) Kill, containing at least one direct redistribution, up to the depth in the table, so that every ordered pair of direct re-shuffles of one result occurs, also with a Discard or Kill in between; space C = all histories R·w, w over {J0 C0 Q0 X0, K0 on the cluster} containing at least one J0 or C0, where J/C are ONE Func that sends the result into TWO shuffles (J: Cogroup(Reshard(r,2), Repartition(r,(2k+1) mod n)); C: Cogroup(Reduce(r,+), r)), same depths as space B; space D = all histories R·d·w, d one of the eight direct ops D A B O Q U J C (O = Reshard(r,1), a ONE-shard consumer; Q/U on program s1 are 1-shard Repartitions), w over {P0 H0 X0 O0, K0 on the cluster} containing at least one P0 or H0, same depths as space B; space F (cluster only) = R, then F<v><n> = Discard(r0) during which the Worker.Discard RPC of the n-th task (n = 1..number of tasks of the result) FAILS in variant v (T: transport error on every attempt, machine alive, Discard context of 300 ms expires during the retries; B: machine dies before the request arrives; A: handler ran, reply lost, machine dies), then a word over {P0 H0 S0 X0}: quick all words of length 1 plus P0·P0, X0·P0, X0·S0, S0·P0, thorough all words up to the depth; the follow-ups must end with the model rows or (scans) an error, never hang (60 s watchdog per history, reported only if it hangs 3 of 3 times AND the same history with a fault-free Discard completes) (every direct op followed by the pipelined and the shuffling consumer, with and without Discard/Kill/1-shard Reshard in between). To keep the cluster part affordable (about 0.5 CPU-seconds per history) space A is one level less deep on the cluster for all programs (quick) / for s3 and sh (thorough), and spaces B, C, D one level less deep for the 1-shard program s1 and for sh (both tiers), space B in the quick tier also for s2 (full depth on the 3-shard program s3); direct redistributions are not mixed with P/H/second results. Cluster: verifsystem, 2 procs/machine, Parallelism(4), fast retries, keepalive 20/200/100 ms, ProbationTimeout 0.5 s, DoShuffleReaders=false; an error/hang signature is reported only when one of its simplest histories reproduces it 3 of 3 times, a wrong-rows signature on its first occurrence (re-executed, reproduction count recorded)",
	}

	// ---- layer S
	lsWG.Wait()
	cov := ev.Coverage{"layerH": layerH}
	totStates, totTrans, totTraces := int64(states.Distinct()), transitions, executed
	if ls == nil {
		r.NotExhaustive(lsWhy)
	} else {
		cov["layerS"] = ls.Coverage
		for _, v := range ls.ViolationList {
			r.Violate(v.Signature, v.What, v.Detail)
		}
		if ls.Machinery > 0 {
			r.NotExhaustive(fmt.Sprintf("layer S: %d plans hit a machinery error", ls.Machinery))
		}
		if ex, ok := ls.Coverage["exhaustive"].(bool); ok && !ex {
			r.NotExhaustive(fmt.Sprintf("layer S not exhaustive: %v", ls.Coverage["not_exhaustive_because"]))
		}
		totStates += num(ls.Coverage, "states")
		totTrans += num(ls.Coverage, "transitions")
		totTraces += num(ls.Coverage, "traces_validated_against_impl")
	}
	cov["states"] = totStates
	cov["transitions"] = totTrans
	cov["traces_validated_against_impl"] = totTraces
	cov["distinct_outcomes"] = len(opOutcomes)
	r.Assume = append(r.Assume,
		"verifsystem (in-process bigmachine.System, RPC by function call) stands for a cluster; machine loss = RPCs to the machine fail and its supervisor context is cancelled",
		"histories on the cluster run free (goroutine timing inside the cluster is not controlled): task placement varies between runs, so the state count of the cluster part is a measured, not a fixed number",
		"layer S: see C19 assumptions (vsched)")
	r.Finish(cov)
}

func countSig(recs []*histRec, sig string) int {
	n := 0
	for _, rec := range recs {
		if rec == nil {
			continue
		}
		for _, v := range sigsOf(rec) {
			if v.Sig == sig {
				n++
				break
			}
		}
	}
	return n
}

var idxRe = regexp.MustCompile(`^([A-Z])[0-9]?`)

// stripIdx turns "S1[discarded]:ok" into "S[discarded]:ok".
func stripIdx(o string) string { return idxRe.ReplaceAllString(o, "$1") }

func last(s []string) string {
	if len(s) == 0 {
		return ""
	}
	return s[len(s)-1]
}
