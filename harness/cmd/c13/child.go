package main

// Child process: executes single runs -- one program, one fresh session, one fresh
// volume holding the given shard files, the given faults armed -- and reports what it
// observed, including the files that are committed when the run returns (= when the
// process ends). It passes no verdicts; the parent does, and the parent chains a first
// run and the second run over the files it left.

import (
	"bufio"
	"context"
	"encoding/json"
	"flag"
	"fmt"
	"os"
	"runtime"
	"sort"
	"strings"
	"sync/atomic"
	"time"

	"github.com/grailbio/base/compress/zstd"
	"github.com/grailbio/bigslice"
	"github.com/grailbio/bigslice/exec"
	"github.com/grailbio/bigslice/frame"
	"github.com/grailbio/bigslice/sliceio"
	"github.com/grailbio/bigslice/sortio"

	"verifh/vfs"
	"verifh/vsys"
)

const cacheRel = "d/p" // the prefix within a volume

type fault struct {
	Label string   `json:"label"`
	Mode  vfs.Mode `json:"mode"`
}

type job struct {
	ID     int            `json:"id"`
	Prog   prog           `json:"prog"`
	Exec   string         `json:"exec"`            // local | vsys
	Files  map[int][]byte `json:"files,omitempty"` // shard files present when the run starts
	Faults []fault        `json:"faults,omitempty"`
	// Upstream = [shard, rows]: the source of that shard fails after that many rows.
	Upstream []int `json:"upstream,omitempty"`
	Plain    bool  `json:"plain,omitempty"` // run the uncached program (op none)
	// Reuse: after the run and the scan of its result, the result is discarded
	// (Result.Discard: "if the results are needed by another computation, they will be
	// recomputed") and handed to a second Func in the same session, which makes the
	// session evaluate the same compiled tasks a second time. On the cluster one
	// machine is used, so that the re-evaluation lands on the worker that ran them.
	Reuse bool `json:"reuse,omitempty"`
	// Gen: the generation of the input computed in this run (see fProg); the given
	// files are always of generation 0.
	Gen int `json:"gen,omitempty"`
	// Many > 0: the many-shard history (many.go) with that many shards; ManyRuns runs.
	Many     int `json:"many,omitempty"`
	ManyRuns int `json:"many_runs,omitempty"`
	// Tries > 1 (fault-free runs only): a failed run is repeated, on a fresh copy of the
	// same files, up to Tries times; only a run that fails every time is reported as
	// failed (an overloaded machine makes the in-process cluster lose tasks).
	Tries int `json:"tries,omitempty"`
}

type runObs struct {
	OK       bool           `json:"ok"`
	Err      string         `json:"err,omitempty"`
	Injected bool           `json:"injected,omitempty"` // the error is/wraps an injected fault
	Rows     []string       `json:"rows"`
	Counts   map[string]int `json:"counts"`
	Log      []string       `json:"log"`
	Fired    []string       `json:"fired,omitempty"`
	Crashed  bool           `json:"crashed,omitempty"`
	Before   []int          `json:"before"` // shards whose file existed when the run started
	Ms       int64          `json:"ms"`
	Reuse    *reuseObs      `json:"reuse,omitempty"`
}

// reuseObs: the second evaluation (Discard, then Run(consumer, result)).
type reuseObs struct {
	OK   bool     `json:"ok"`
	Err  string   `json:"err,omitempty"`
	Rows []string `json:"rows"`
}

// fileObs is what reading one shard file directly (the way the cache reader does)
// gives.
type fileObs struct {
	Size     int      `json:"size"`
	Rows     []string `json:"rows"`
	Complete bool     `json:"complete"` // decoded up to a clean end of stream
	Err      string   `json:"err,omitempty"`
	// Strict: error of decompressing the whole file in one shot (ZSTD_decompress, which
	// unlike the streaming reader insists on a complete frame); "" if it is complete.
	Strict string `json:"strict,omitempty"`
	Bytes  []byte `json:"bytes,omitempty"`
}

type result struct {
	ID       int             `json:"id"`
	Run      *runObs         `json:"run"`
	After    map[int]fileObs `json:"after,omitempty"` // shard files committed when the run returned
	Extra    []string        `json:"extra,omitempty"` // other files on the volume
	Attempts int             `json:"attempts"`
	Flaky    []string        `json:"flaky,omitempty"` // errors of attempts that were repeated
	Hang     bool            `json:"hang,omitempty"`
	Dump     string          `json:"dump,omitempty"`
	Many     *manyObs        `json:"many,omitempty"`
}

const hangAfter = 120 * time.Second

var (
	volSeq int64
	tagSeq int64
)

func newVol() *vfs.FS {
	return vfs.New(fmt.Sprintf("c13v%d", atomic.AddInt64(&volSeq, 1)))
}

func shardRel(s int) string {
	return strings.TrimPrefix(bigslice.VerifC13Path("x://"+cacheRel, s, nShard), "x://")
}

func shardOfRel(rel string) int {
	for s := 0; s < nShard; s++ {
		if rel == shardRel(s) {
			return s
		}
	}
	return -1
}

func setupProcess() {
	vsys.Quiet()
	vsys.FastRetries()
	exec.DoShuffleReaders = false
	// vector size 2: a 5-row shard takes three vectors (three encoded batches per file).
	if err := flag.Set("bigslice-internal-default-chunk-rows", "2"); err != nil {
		fmt.Fprintln(os.Stderr, "c13: cannot set chunk rows:", err)
		os.Exit(2)
	}
	bigslice.VerifCommonSetChunk(2)
	sliceio.VerifCommonSetChunk(2)
	sortio.VerifCommonSetChunk(2)
}

// runOnce runs the program once in a fresh session with the cache prefix on vol.
// It returns nil if the run did not come back within hangAfter.
func runOnce(p prog, op, kind string, vol *vfs.FS, upstream []int, reuse bool, gen int) *runObs {
	tag := int(atomic.AddInt64(&tagSeq, 1))
	obs := &runObs{Rows: []string{}}
	for rel := range vol.Files() {
		if s := shardOfRel(rel); s >= 0 {
			obs.Before = append(obs.Before, s)
		}
	}
	sort.Ints(obs.Before)
	logStart := len(vol.Log())
	prefix := vol.Prefix() + cacheRel
	var (
		sess *exec.Session
		sys  *vsys.System
	)
	if kind == "local" {
		sess = exec.Start(exec.Local, exec.Parallelism(4))
	} else {
		sys = vsys.New(2)
		par := 4
		if reuse {
			par = 1 // one machine
		}
		sess = exec.Start(exec.Bigmachine(sys), exec.Parallelism(par))
	}
	t0 := time.Now()
	type out struct {
		rows  []string
		err   error
		reuse *reuseObs
	}
	scan := func(ctx context.Context, res *exec.Result) ([]string, error) {
		sc := res.Scanner()
		var (
			k    string
			v    int
			rows = []string{}
		)
		for sc.Scan(ctx, &k, &v) {
			rows = append(rows, row{k, v}.String())
		}
		err := sc.Err()
		sc.Close()
		return rows, err
	}
	done := make(chan out, 1)
	go func() {
		ctx := context.Background()
		failShard, failAfter := -1, -1
		if len(upstream) == 2 {
			failShard, failAfter = upstream[0], upstream[1]
		}
		res, err := sess.Run(ctx, fProg, tag, p.Shape, op, prefix, p.Data, failShard, failAfter, gen)
		if err != nil {
			done <- out{nil, err, nil}
			return
		}
		rows, err := scan(ctx, res)
		if err != nil || !reuse {
			done <- out{rows, err, nil}
			return
		}
		ro := &reuseObs{Rows: []string{}}
		res.Discard(ctx)
		res2, err2 := sess.Run(ctx, fConsume, tag, res)
		if err2 == nil {
			ro.Rows, err2 = scan(ctx, res2)
		}
		if err2 != nil {
			ro.Err = err2.Error()
			if len(ro.Err) > 600 {
				ro.Err = ro.Err[:600] + "..."
			}
		} else {
			ro.OK = true
		}
		done <- out{rows, nil, ro}
	}()
	select {
	case o := <-done:
		obs.Rows = o.rows
		obs.Reuse = o.reuse
		if obs.Rows == nil {
			obs.Rows = []string{}
		}
		if o.err != nil {
			obs.Err = o.err.Error()
			if len(obs.Err) > 600 {
				obs.Err = obs.Err[:600] + "..."
			}
			obs.Injected = vfs.IsInjected(o.err)
		} else {
			obs.OK = true
		}
	case <-time.After(hangAfter):
		return nil
	}
	obs.Ms = time.Since(t0).Milliseconds()
	obs.Counts = takeCounts(tag)
	dropCounts(tag)
	obs.Log = vol.Log()[logStart:]
	obs.Fired = vol.Fired()
	obs.Crashed = vol.Crashed()
	// The "process" ends here. Stop the machines so that the keepalive loops of this
	// session do not load the next case (Session.Shutdown on bigmachine waits for log
	// tails that verifsystem does not have).
	if sys != nil {
		for _, h := range sys.Hosts() {
			sys.Kill(h)
		}
	} else {
		sess.Shutdown()
	}
	return obs
}

// readShardFile reads rel on vol with the implementation's own cache reader.
func readShardFile(vol *vfs.FS, rel string) (rows []string, complete bool, errs string) {
	ctx := context.Background()
	rd := bigslice.VerifC13FileReader(vol.Prefix() + rel)
	f := frame.Make(rowType, 4, 4)
	rows = []string{}
	for i := 0; i < 1000; i++ {
		n, err := rd.Read(ctx, f)
		for j := 0; j < n; j++ {
			rows = append(rows, row{f.Index(0, j).String(), int(f.Index(1, j).Int())}.String())
		}
		if err == sliceio.EOF {
			return rows, true, ""
		}
		if err != nil {
			return rows, false, err.Error()
		}
	}
	return rows, false, "c13: no end of stream after 1000 reads"
}

// inspect decodes every shard file of a snapshot on a scratch volume.
func inspect(files map[string][]byte) (map[int]fileObs, []string) {
	out := map[int]fileObs{}
	var extra []string
	if len(files) == 0 {
		return out, nil
	}
	vol := newVol()
	defer vol.Reset()
	for rel, b := range files {
		s := shardOfRel(rel)
		if s < 0 {
			extra = append(extra, rel)
			continue
		}
		vol.Put(rel, b)
		fo := fileObs{Size: len(b)}
		fo.Rows, fo.Complete, fo.Err = readShardFile(vol, rel)
		if _, err := zstd.Decompress(make([]byte, 1<<16), b); err != nil {
			fo.Strict = err.Error()
		}
		fo.Bytes = b
		out[s] = fo
	}
	sort.Strings(extra)
	return out, extra
}

func nextTag() int64 { return atomic.AddInt64(&tagSeq, 1) }

func runJob(j *job) *result {
	if j.Many > 0 {
		return runMany(j)
	}
	res := &result{ID: j.ID}
	op := j.Prog.Op
	if op == "read" {
		op = "cache" // any value but "none": the rc-* shapes use ReadCache
	}
	if j.Plain {
		op = "none"
	}
	tries := j.Tries
	if tries < 1 || len(j.Faults) > 0 || j.Upstream != nil {
		tries = 1
	}
	for {
		res.Attempts++
		vol := newVol()
		for s, b := range j.Files {
			vol.Put(shardRel(s), b)
		}
		for _, f := range j.Faults {
			vol.FailAt(f.Label, f.Mode)
		}
		res.Run = runOnce(j.Prog, op, j.Exec, vol, j.Upstream, j.Reuse, j.Gen)
		if res.Run == nil {
			res.Hang = true
			return res
		}
		// The process is gone: what is committed now is what a new process finds.
		// (The next run gets its own volume, so goroutines left over from this session
		// -- a real process exit would have ended them -- cannot touch its files.)
		snap := vol.Files()
		vol.Reset()
		if failed, msg := runFailed(res.Run); failed && res.Attempts < tries {
			res.Flaky = append(res.Flaky, msg)
			continue
		}
		res.After, res.Extra = inspect(snap)
		return res
	}
}

func runFailed(o *runObs) (bool, string) {
	if !o.OK {
		return true, o.Err
	}
	if o.Reuse != nil && !o.Reuse.OK {
		return true, "reuse: " + o.Reuse.Err
	}
	return false, ""
}

// childMain: one JSON job per input line, one JSON result per output line.
func childMain() {
	setupProcess()
	in := bufio.NewReaderSize(os.Stdin, 1<<20)
	w := bufio.NewWriter(os.Stdout)
	enc := json.NewEncoder(w)
	for {
		line, err := in.ReadBytes('\n')
		if len(strings.TrimSpace(string(line))) > 0 {
			var j job
			if jerr := json.Unmarshal(line, &j); jerr != nil {
				fmt.Fprintln(os.Stderr, "c13 child: bad job:", jerr)
				os.Exit(2)
			}
			res := runJob(&j)
			if res.Hang {
				buf := make([]byte, 1<<20)
				buf = buf[:runtime.Stack(buf, true)]
				res.Dump = trimDump(string(buf))
			}
			enc.Encode(res)
			w.Flush()
			if res.Hang {
				os.Exit(3)
			}
		}
		if err != nil {
			return
		}
	}
}

func trimDump(s string) string {
	var keep []string
	for _, g := range strings.Split(s, "\n\n") {
		if strings.Contains(g, "bigslice") {
			keep = append(keep, g)
		}
	}
	out := strings.Join(keep, "\n\n")
	if len(out) > 12000 {
		out = out[:12000] + "\n...[truncated]"
	}
	return out
}
