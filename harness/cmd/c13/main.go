// c13: caching is transparent, complete-or-absent, and skips recomputation
// (property C13, DESIGN.md §5 C13; level fault_enumeration).
//
// Programs with Cache / CachePartial / ReadCache at the head of a pipeline, in the
// middle, before a shuffle, after a shuffle and under Head (progs.go) run on both
// executors with the cache prefix on the fault-injecting vfs:// file system.
// Enumerated, simplest first:
//
//  1. every subset of pre-existing (valid) shard files, no fault;
//  2. the computation under the cache failing by itself: the source of shard s returns
//     an error after r rows, for every s and r;
//  3. every file operation of the failure-free history of (program, executor, subset)
//     failed (Fail; FailPartial for writes) and crashed (Crash = the process dies:
//     pending files vanish, every later operation fails);
//  4. ordered pairs: a failed operation, then any operation of the rest of THAT history
//     failed or crashed (quick: the smallest writer program on the local executor;
//     thorough: the two smallest on both executors).
//
// After every first run a second, fault-free run happens in a fresh session over
// whatever files are left. Oracle (judgeRun, judgeFiles): a run that succeeds yields the
// rows of the uncached program; a fault-free run succeeds (ReadCache: if all files are
// there) and calls no upstream user function of a shard whose file existed when it
// started (Cache/ReadCache: only if all existed); after every run each shard file is
// absent or a complete zstd frame that the cache reader decodes, up to a clean end of
// stream, to exactly the rows of that shard; a fault-free completed run that read all
// shards to the end leaves all files.
//
// Runs execute in child processes (child.go); this file enumerates and judges.
package main

import (
	"bufio"
	"bytes"
	"encoding/json"
	"flag"
	"fmt"
	"io"
	"os"
	osexec "os/exec"
	"sort"
	"strconv"
	"strings"
	"sync"
	"time"

	"verifh/ev"
	"verifh/vfs"
)

var (
	flagChild = flag.Bool("c13child", false, "internal: run as child")
	flagProbe = flag.String("probe", "", "debug: print the failure-free histories of this program (or 'all')")
	flagOnly  = flag.String("only", "", "debug: restrict to programs whose name contains this")
	flagRace  = flag.Int("racepass", 0, "internal (race flavour): probe complete caches N times free-running")
)

func main() {
	flag.Parse()
	if *flagChild {
		childMain()
		return
	}
	if *flagRace > 0 {
		racePass(*flagRace)
		return
	}
	r := ev.Start("C13", "fault_enumeration")
	c := newChecker(r)
	if *flagProbe != "" {
		c.probe(*flagProbe)
		return
	}
	c.run()
}

// ---- programs ------------------------------------------------------------------------

func allPrograms(thorough bool) []prog {
	var ps []prog
	for _, op := range []string{"cache", "partial"} {
		for _, sh := range []string{"head", "mid", "presh", "postsh", "underhead"} {
			ps = append(ps, prog{Shape: sh, Op: op})
		}
	}
	for _, sh := range []string{"rc-head", "rc-map", "rc-reduce", "rc-underhead"} {
		ps = append(ps, prog{Shape: sh, Op: "read"})
	}
	// the cached slice wrapped by Prefixed (an operator that only re-describes the slice)
	ps = append(ps, prog{Shape: "preshpfx", Op: "cache"}, prog{Shape: "preshpfx", Op: "partial"})
	// second data set: an empty shard and a shard of exactly one vector
	ps = append(ps, prog{Shape: "mid", Op: "cache", Data: 1}, prog{Shape: "mid", Op: "partial", Data: 1})
	if thorough {
		ps = append(ps, prog{Shape: "postsh", Op: "partial", Data: 1}, prog{Shape: "underhead", Op: "cache", Data: 1},
			prog{Shape: "rc-head", Op: "read", Data: 1})
	}
	if *flagOnly != "" {
		var f []prog
		for _, p := range ps {
			if strings.Contains(p.Name(), *flagOnly) {
				f = append(f, p)
			}
		}
		ps = f
	}
	return ps
}

var executors = []string{"local", "vsys"}

// ---- child pool ------------------------------------------------------------------

type child struct {
	cmd   *osexec.Cmd
	in    io.WriteCloser
	out   *bufio.Reader
	err   *bytes.Buffer
	count int
}

// childProcs: GOMAXPROCS of the children (the many-shard phase raises it).
var childProcs = "2"

func startChild() *child {
	exe, err := os.Executable()
	if err != nil {
		ev.Fatal("executable: %v", err)
	}
	cmd := osexec.Command(exe, "-c13child")
	// 16 children share the cores; a few threads each are enough
	cmd.Env = append(os.Environ(), "GOMAXPROCS="+childProcs)
	in, err := cmd.StdinPipe()
	if err != nil {
		ev.Fatal("pipe: %v", err)
	}
	out, err := cmd.StdoutPipe()
	if err != nil {
		ev.Fatal("pipe: %v", err)
	}
	ch := &child{cmd: cmd, in: in, out: bufio.NewReaderSize(out, 1<<20), err: &bytes.Buffer{}}
	cmd.Stderr = &limitWriter{w: ch.err, n: 1 << 15}
	if err := cmd.Start(); err != nil {
		ev.Fatal("start child: %v", err)
	}
	return ch
}

type limitWriter struct {
	w *bytes.Buffer
	n int
}

func (l *limitWriter) Write(p []byte) (int, error) {
	if l.w.Len() < l.n {
		l.w.Write(p)
	}
	return len(p), nil
}

func (ch *child) stop() {
	ch.in.Close()
	done := make(chan struct{})
	go func() { ch.cmd.Wait(); close(done) }()
	select {
	case <-done:
	case <-time.After(5 * time.Second):
		ch.cmd.Process.Kill()
		<-done
	}
}

const childJobs = 300 // a child is replaced after this many cases (sessions leak goroutines)

type childStatus int

const (
	stOK      childStatus = iota
	stDied                // the child process ended (signal, panic, exit) instead of answering
	stTimeout             // no answer in time (child killed)
	stGarbage             // an answer that is not the result of this job
)

// do runs one job in the child.
func (ch *child) do(j *job) (*result, childStatus) {
	b, _ := json.Marshal(j)
	b = append(b, '\n')
	if _, err := ch.in.Write(b); err != nil {
		return nil, stDied
	}
	type lineT struct {
		b   []byte
		err error
	}
	lc := make(chan lineT, 1)
	go func() {
		l, err := ch.out.ReadBytes('\n')
		lc <- lineT{l, err}
	}()
	select {
	case l := <-lc:
		var res result
		if json.Unmarshal(l.b, &res) != nil || res.ID != j.ID {
			if l.err != nil {
				return nil, stDied // end of the child's output
			}
			return nil, stGarbage
		}
		ch.count++
		return &res, stOK
	case <-time.After(3*hangAfter + 30*time.Second):
		ch.cmd.Process.Kill()
		return nil, stTimeout
	}
}

// reap waits for a child that died and describes how.
func (ch *child) reap() (how, stderr string) {
	ch.in.Close()
	done := make(chan error, 1)
	go func() { done <- ch.cmd.Wait() }()
	var err error
	select {
	case err = <-done:
	case <-time.After(10 * time.Second):
		ch.cmd.Process.Kill()
		err = <-done
	}
	how = "exit status 0"
	if err != nil {
		how = err.Error()
	}
	return how, ch.err.String()
}

// harnessExit: the child ended itself with one of its own error messages.
func harnessExit(stderr string) bool {
	return strings.Contains(stderr, "c13 child:") || strings.Contains(stderr, "c13: cannot")
}

type crash struct {
	j      *job
	how    []string
	stderr string
}

// runJobs executes jobs on a pool of children; handle is called serially.
//
// A child that DIES on a job (SIGABRT from a C library, SIGSEGV, a Go panic that
// nothing recovers) is not a machinery problem: the job is repeated, alone, in two
// fresh children; if the process dies each time, the case is recorded as a crash (a
// violation, see reportCrashes); if not, the result of the repetition is used (the
// death may have been caused by goroutines left over from an earlier job of that
// child) and the incident is noted. Time-outs, garbage and children that end with
// one of the harness' own error messages stay machinery errors.
func (c *checker) runJobs(jobs []*job, handle func(*job, *result)) {
	if len(jobs) == 0 {
		return
	}
	var mu sync.Mutex
	workers := 16
	if len(jobs) < workers {
		workers = len(jobs)
	}
	jc := make(chan *job)
	var wg sync.WaitGroup
	machinery := func(format string, a ...interface{}) {
		mu.Lock()
		c.r.Machinery(fmt.Sprintf(format, a...))
		mu.Unlock()
	}
	for w := 0; w < workers; w++ {
		wg.Add(1)
		go func() {
			defer wg.Done()
			var ch *child
			for j := range jc {
				var res *result
				for attempt := 0; attempt < 2 && res == nil; attempt++ {
					if ch == nil {
						ch = startChild()
					}
					r, st := ch.do(j)
					if st == stOK {
						res = r
						break
					}
					if st != stDied {
						stderr := ch.err.String()
						ch.cmd.Process.Kill()
						ch.cmd.Wait()
						ch = nil
						if attempt == 1 {
							machinery("child gave no (valid) answer twice on case %s: %s", c.caseName(j), tail(stderr, 1500))
						}
						continue
					}
					// the child died
					how, stderr := ch.reap()
					ch = nil
					if harnessExit(stderr) {
						machinery("child ended itself on case %s (%s): %s", c.caseName(j), how, tail(stderr, 1500))
						break
					}
					cr := crash{j: j, how: []string{how}, stderr: stderr}
					for i := 0; i < 2 && res == nil; i++ {
						fresh := startChild()
						r2, st2 := fresh.do(j)
						switch st2 {
						case stOK:
							res = r2
							fresh.stop()
						case stDied:
							how2, stderr2 := fresh.reap()
							cr.how = append(cr.how, how2)
							if len(stderr2) > 0 {
								cr.stderr = stderr2 // of a child that ran nothing else
							}
						default:
							fresh.cmd.Process.Kill()
							fresh.cmd.Wait()
							cr.how = append(cr.how, "no answer")
						}
					}
					mu.Lock()
					if res == nil && len(cr.how) == 3 && cr.how[1] != "no answer" && cr.how[2] != "no answer" {
						c.crashes = append(c.crashes, cr)
					} else if res != nil {
						c.mech["child died once, case fine when repeated alone in a fresh child"]++
						if c.mech["child died once, case fine when repeated alone in a fresh child"] <= 5 {
							c.r.Note("child died (%s) while running %s; not reproduced in a fresh child: %s", how, c.caseName(j), tail(stderr, 600))
						}
					} else {
						c.r.Machinery(fmt.Sprintf("child died on case %s and the repetitions gave no answer: %v", c.caseName(j), cr.how))
					}
					mu.Unlock()
					break
				}
				if ch != nil && res != nil && (res.Hang || ch.count >= childJobs) {
					if res.Hang {
						ch.cmd.Wait()
					} else {
						ch.stop()
					}
					ch = nil
				}
				if res != nil {
					mu.Lock()
					c.runs++
					handle(j, res)
					mu.Unlock()
				}
			}
			if ch != nil {
				ch.stop()
			}
		}()
	}
	for _, j := range jobs {
		jc <- j
	}
	close(jc)
	wg.Wait()
}

func tail(s string, n int) string {
	if len(s) > n {
		return "..." + s[len(s)-n:]
	}
	return s
}

// ---- checker -----------------------------------------------------------------------

type viol struct {
	sig, what string
	detail    interface{}
}

// firstRun is a run whose successor (the fault-free run over the files it left) is
// being looked up or waited for.
type firstRun struct {
	j   *job
	res *result
}

type checker struct {
	r      *ev.Run
	nextID int
	runs   int // runs executed (child jobs)
	cases  int // first runs judged together with their second run

	valid    map[string]map[int][]byte // program name -> valid shard file contents
	keyShard map[int]map[string]int    // data set -> key -> post-shuffle shard (learned)
	logs     map[string][]string       // prog/exec/subset -> union of failure-free labels

	// A fault-free run is a function of (program, executor, file contents): it happens
	// in a fresh session on a fresh volume. memo holds the ones already executed.
	memo    map[string]*result
	waiting map[string][]firstRun
	queued  []*job

	pending  map[string]*pendingViol
	nontriv  *ev.Counter // distinct (program, executor, subset, label class, mode) whose faults all fired
	outcomes *ev.Counter
	states   *ev.Counter // distinct file states left by first runs
	mech     map[string]int
	notFired int
	faultRun int
	sampled  map[string]bool
	phase    string
	crashes  []crash
	// reuseOK: the UNCACHED program survives Discard + reuse with the right rows on
	// this executor (the baseline of the reuse histories)
	reuseOK map[string]bool
	// cold: call counts of a clean first run without files (local executor): which
	// upstream user functions a complete computation of the program calls
	cold map[string]map[string]int
}

type pendingViol struct {
	v     viol
	cases []*job
	count int
}

func newChecker(r *ev.Run) *checker {
	return &checker{r: r, valid: map[string]map[int][]byte{}, keyShard: map[int]map[string]int{}, logs: map[string][]string{},
		memo: map[string]*result{}, waiting: map[string][]firstRun{},
		pending: map[string]*pendingViol{}, nontriv: ev.NewCounter(), outcomes: ev.NewCounter(), states: ev.NewCounter(), mech: map[string]int{},
		sampled: map[string]bool{}, reuseOK: map[string]bool{}, cold: map[string]map[string]int{}}
}

func (c *checker) newJob(p prog, kind string, files map[int][]byte, faults []fault) *job {
	c.nextID++
	j := &job{ID: c.nextID, Prog: p, Exec: kind, Files: files, Faults: faults}
	if len(faults) == 0 && !(p.reads() && len(files) < nShard) {
		// (ReadCache without all its files fails by design: nothing to repeat)
		j.Tries = 3
	}
	return j
}

func subsetName(files map[int][]byte) string {
	var s []string
	for i := 0; i < nShard; i++ {
		if _, ok := files[i]; ok {
			s = append(s, strconv.Itoa(i))
		}
	}
	return "{" + strings.Join(s, ",") + "}"
}

func stateKey(p prog, kind string, files map[int][]byte) string {
	k := p.Name() + "/" + kind
	for s := 0; s < nShard; s++ {
		if b, ok := files[s]; ok {
			k += "/" + ev.Hash(string(b))
		} else {
			k += "/-"
		}
	}
	return k
}

func (c *checker) caseName(j *job) string {
	s := fmt.Sprintf("%s/%s files=%s", j.Prog.Name(), j.Exec, subsetName(j.Files))
	for _, f := range j.Faults {
		s += fmt.Sprintf(" %s@%s", f.Mode, f.Label)
	}
	if len(j.Upstream) == 2 {
		s += fmt.Sprintf(" source of shard %d fails after %d rows", j.Upstream[0], j.Upstream[1])
	}
	if j.Reuse {
		s += " [reuse history]"
	}
	if j.Gen != 0 {
		s += fmt.Sprintf(" [the files are of generation 0, the input now is of generation %d]", j.Gen)
	}
	return s
}

func labelOp(label string) string {
	if i := strings.IndexByte(label, ':'); i >= 0 {
		return label[:i]
	}
	return label
}

// labelClass strips the directory: "Write:d/p-0001-of-0003#0" -> "Write:s1#0".
func labelClass(label string) string {
	for s := 0; s < nShard; s++ {
		label = strings.Replace(label, ":"+shardRel(s)+"#", fmt.Sprintf(":s%d#", s), 1)
	}
	return label
}

func labelOrdinal(label string) int {
	i := strings.LastIndexByte(label, '#')
	n, _ := strconv.Atoi(label[i+1:])
	return n
}

// faultClass is the <op-class> of signatures: "Write-failpartial", "Stat-fail+Close-fail",
// "Write-fail+crash", "upstream-error", "no-fault".
func faultClass(j *job) string {
	fs := j.Faults
	if len(j.Upstream) == 2 {
		return "upstream-error"
	}
	if len(fs) == 0 {
		return "no-fault"
	}
	var s []string
	for i, f := range fs {
		if i > 0 && f.Mode == vfs.Crash {
			// after a first fault, where exactly the process dies matters little
			s = append(s, "crash")
			continue
		}
		s = append(s, labelOp(f.Label)+"-"+f.Mode.String())
	}
	return strings.Join(s, "+")
}

func faultFree(j *job) bool { return len(j.Faults) == 0 && j.Upstream == nil }

func (c *checker) violate(j *job, v viol) {
	p, ok := c.pending[v.sig]
	if !ok {
		p = &pendingViol{v: v}
		c.pending[v.sig] = p
	}
	p.count++
	if len(p.cases) < 4 {
		for _, x := range p.cases {
			if x == j {
				return
			}
		}
		p.cases = append(p.cases, j)
	}
}

// ---- the oracle ----------------------------------------------------------------------

// cachedShards: which shards a run that starts with the files of `before` must read
// from their files (cache.go: Cache shortcuts "if all shards exist"; CachePartial uses
// what is there and recomputes only the missing data; ReadCache only reads).
func cachedShards(p prog, before []int) []int {
	if p.Op == "partial" || len(before) == nShard {
		return before
	}
	return nil
}

// recomputed lists upstream user functions of cached shards that were called.
func (c *checker) recomputed(p prog, cached []int, counts map[string]int) []string {
	var bad []string
	if len(cached) == 0 {
		return nil
	}
	isCached := map[int]bool{}
	for _, s := range cached {
		isCached[s] = true
	}
	valShard := srcShardOfValue(p.Data)
	all := len(cached) == nShard
	var keys []string
	for k := range counts {
		keys = append(keys, k)
	}
	sort.Strings(keys)
	for _, k := range keys {
		n := counts[k]
		if n == 0 {
			continue
		}
		fn, arg, _ := strings.Cut(k, "/")
		hit := false
		switch fn {
		case "src":
			s, _ := strconv.Atoi(arg)
			if p.postShuffle() {
				hit = all
			} else {
				hit = isCached[s]
			}
		case "map1":
			v, _ := strconv.Atoi(arg)
			if p.postShuffle() {
				hit = all
			} else {
				hit = isCached[valShard[v]]
			}
		case "comb":
			// upstream of the cache only in the post-shuffle program
			hit = p.postShuffle() && all
		case "map3":
			s, ok := c.keyShard[p.Data][arg]
			hit = ok && isCached[s]
		}
		if p.reads() && (fn == "src" || fn == "map1") {
			hit = true // ReadCache has no upstream at all
		}
		if hit {
			bad = append(bad, fmt.Sprintf("%s×%d", k, n))
		}
	}
	return bad
}

func fnClass(bad []string) string {
	set := map[string]bool{}
	for _, b := range bad {
		fn, _, _ := strings.Cut(b, "/")
		fn, _, _ = strings.Cut(fn, "×")
		set[fn] = true
	}
	var s []string
	for k := range set {
		s = append(s, k)
	}
	sort.Strings(s)
	return strings.Join(s, "+")
}

func (c *checker) shardRows(p prog) [][]string {
	return cachedShardRows(p, c.keyShard[p.Data])
}

// workerViewFaultOnly: all faults are failed (not crashed) Stat calls of ordinal >= 1
// on the cluster executor, i.e. re-probes of the cache by workers (the driver's probe
// is the first Stat of each path: Session.Run invokes the Func on the driver before
// anything is sent to a worker). The driver's decision is shipped in CompileEnv, so
// such a run, if it succeeds, must still not recompute what the driver saw as cached.
func workerViewFaultOnly(j *job) bool {
	if j.Exec != "vsys" || len(j.Faults) == 0 || j.Upstream != nil {
		return false
	}
	for _, f := range j.Faults {
		if labelOp(f.Label) != "Stat" || f.Mode != vfs.Fail || labelOrdinal(f.Label) < 1 {
			return false
		}
	}
	return true
}

func orOK(s string) string {
	if s == "" {
		return "ok"
	}
	return "error: " + s
}

func slim(files map[int]fileObs) map[int]fileObs {
	out := map[int]fileObs{}
	for s, fo := range files {
		out[s] = fo
	}
	return out
}

// judgeFiles: complete-or-absent. j is the case (its first run), when says which run
// left the files.
func (c *checker) judgeFiles(j *job, when string, files map[int]fileObs, detail map[string]interface{}) (vs []viol) {
	p := j.Prog
	want := c.shardRows(p)
	for s := 0; s < nShard; s++ {
		fo, ok := files[s]
		if !ok {
			continue
		}
		good := fo.Complete && fo.Strict == ""
		if good {
			if p.postShuffle() {
				good = sameMultiset(fo.Rows, want[s])
			} else {
				good = sameSeq(fo.Rows, want[s])
			}
		}
		if !good {
			vs = append(vs, viol{
				sig: fmt.Sprintf("C13/%s/%s/incomplete-file-left/%s", p.Name(), j.Exec, faultClass(j)),
				what: fmt.Sprintf("%s: the file of shard %d %s is neither absent nor the complete encoded shard: %d bytes; the cache reader decodes it to %v (end of stream reached=%v err=%q); "+
					"decompressing it as one complete zstd frame: %s; the shard holds %v",
					c.caseName(j), s, when, fo.Size, fo.Rows, fo.Complete, fo.Err, orOK(fo.Strict), want[s]),
				detail: detail,
			})
		}
	}
	return
}

// judgeRun judges one run of case j. which = "run1" (j's own run) or "run2" (the
// fault-free run over the files run1 left).
func (c *checker) judgeRun(j *job, which string, res *result, detail map[string]interface{}) (vs []viol) {
	p := j.Prog
	obs := res.Run
	name, kind := p.Name(), j.Exec
	fc := faultClass(j)
	noFault := which == "run2" || faultFree(j)
	if obs.OK {
		exp := expectedRows(p)
		expWhat := "the uncached program yields"
		if j.Gen != 0 {
			// shards that must be read from their (generation 0) files are stale by
			// design; everything else is computed now
			gens := c.gensOf(j, obs.Before)
			exp = expectedMixed(p, c.keyShard[p.Data], gens)
			expWhat = fmt.Sprintf("with shards %v of the cached slice read from their files and the others computed (generations %v) the program yields", cachedShards(p, obs.Before), gens)
			fc = "generation"
		}
		same := sameMultiset(obs.Rows, exp)
		if same && p.ordered() {
			same = sameSeq(obs.Rows, exp)
		}
		if !same {
			vs = append(vs, viol{
				sig:    fmt.Sprintf("C13/%s/%s/wrong-rows/%s/%s", name, kind, which, fc),
				what:   fmt.Sprintf("%s: %s succeeded with rows %v, %s %v (files at start: %v)", c.caseName(j), which, obs.Rows, expWhat, exp, obs.Before),
				detail: detail,
			})
		}
	}
	// Cache is all-or-nothing: "If all shards exist, then Cache shortcuts computation"
	// (cache.go) -- with fewer files everything is computed: every upstream user
	// function that a complete computation calls is called.
	if obs.OK && noFault && p.Op == "cache" && len(obs.Before) < nShard {
		if len(obs.Before) > 0 {
			c.mech["all-or-nothing checks (Cache, some but not all files present)"]++
		}
		var missing []string
		for k, n := range c.cold[name] {
			fn, _, _ := strings.Cut(k, "/")
			if n > 0 && (fn == "src" || fn == "map1" || fn == "comb" || fn == "map3") && obs.Counts[k] == 0 {
				missing = append(missing, k)
			}
		}
		sort.Strings(missing)
		if len(missing) > 0 {
			vs = append(vs, viol{
				sig: fmt.Sprintf("C13/%s/%s/cache-not-all-or-nothing/%s/%s", name, kind, fnClass(missing), which),
				what: fmt.Sprintf("%s: %s started with the files of shards %v only, so Cache must compute everything; upstream user functions that a complete computation calls were not called: %v (calls: %v)",
					c.caseName(j), which, obs.Before, missing, obs.Counts),
				detail: detail,
			})
		}
	}
	mustSucceed := noFault && !(p.reads() && len(obs.Before) < nShard)
	if mustSucceed && !obs.OK {
		sig := fmt.Sprintf("C13/%s/%s/second-run-fails/%s", name, kind, fc)
		if which == "run1" {
			sig = fmt.Sprintf("C13/%s/%s/fault-free-run-fails/files=%d-of-%d", name, kind, len(obs.Before), nShard)
		}
		vs = append(vs, viol{
			sig: sig,
			what: fmt.Sprintf("%s: %s (no fault armed; files at start: %v) failed in each of %d attempts: %s",
				c.caseName(j), which, obs.Before, res.Attempts, obs.Err),
			detail: detail,
		})
	}
	if obs.OK && (noFault || workerViewFaultOnly(j)) {
		cached := cachedShards(p, obs.Before)
		c.mech["zero-call checks: cached shards checked"] += len(cached)
		if bad := c.recomputed(p, cached, obs.Counts); len(bad) > 0 {
			cls := which
			if !noFault {
				cls = "run1-worker-stat-fault"
			}
			vs = append(vs, viol{
				sig:    fmt.Sprintf("C13/%s/%s/recomputed-cached-shard/%s/%s", name, kind, fnClass(bad), cls),
				what:   fmt.Sprintf("%s: %s started with the files of shards %v, so shards %v are cached, yet their upstream user functions ran: %v", c.caseName(j), which, obs.Before, cached, bad),
				detail: detail,
			})
		}
	}
	// A completed run that read every shard of the cached slice to its end has written
	// every shard.
	if obs.OK && noFault && !p.underHead() && !p.reads() && len(res.After) < nShard {
		vs = append(vs, viol{
			sig:    fmt.Sprintf("C13/%s/%s/shard-not-cached-after-completed-run/%s", name, kind, which),
			what:   fmt.Sprintf("%s: %s completed without any fault and read every shard to its end, but only the files of shards %v exist", c.caseName(j), which, keysOf(res.After)),
			detail: detail,
		})
	}
	return
}

func (c *checker) judgeFirst(j *job, res *result) []viol {
	detail := map[string]interface{}{"case": c.caseName(j), "job": j, "run1": res.Run, "files_after_run1": slim(res.After)}
	vs := c.judgeRun(j, "run1", res, detail)
	vs = append(vs, c.judgeFiles(j, "after the first run", res.After, detail)...)
	if len(res.Extra) > 0 {
		c.r.Note("case %s: files that are no shard files: %v", c.caseName(j), res.Extra)
	}
	return vs
}

func (c *checker) judgeSecond(j *job, res1, res2 *result) []viol {
	detail := map[string]interface{}{"case": c.caseName(j), "job": j, "run1": res1.Run, "files_after_run1": slim(res1.After),
		"run2": res2.Run, "run2_attempts": res2.Attempts, "files_after_run2": slim(res2.After)}
	vs := c.judgeRun(j, "run2", res2, detail)
	vs = append(vs, c.judgeFiles(j, "after the second run", res2.After, detail)...)
	return vs
}

func outcome(o *runObs) string {
	if o.OK {
		return "ok"
	}
	if o.Injected {
		return "error(injected)"
	}
	return "error"
}

func bytesOf(files map[int]fileObs) map[int][]byte {
	m := map[int][]byte{}
	for s, fo := range files {
		m[s] = fo.Bytes
	}
	return m
}

// ---- execution of cases -----------------------------------------------------------------

// second judges the pair (first run, its fault-free successor) once the successor is known.
func (c *checker) second(f firstRun, res2 *result) {
	c.cases++
	for _, v := range c.judgeSecond(f.j, f.res, res2) {
		c.violate(f.j, v)
	}
	c.outcomes.Add(fmt.Sprintf("run1=%s files-left=%d run2=%s", outcome(f.res.Run), len(f.res.After), outcome(res2.Run)))
}

// first handles the result of a case's own run.
func (c *checker) first(j *job, res *result) {
	if res.Hang {
		// not a C13 verdict; reported as a machinery problem
		c.r.Machinery(fmt.Sprintf("case %s: the run did not return within %v\n%s", c.caseName(j), hangAfter, tail(res.Dump, 3000)))
		return
	}
	c.noteFlaky(j, res)
	if faultFree(j) {
		k := stateKey(j.Prog, j.Exec, j.Files)
		if c.memo[k] == nil {
			c.memo[k] = res
		}
	}
	for _, v := range c.judgeFirst(j, res) {
		c.violate(j, v)
	}
	after := bytesOf(res.After)
	k := stateKey(j.Prog, j.Exec, after)
	c.states.Add(k)
	f := firstRun{j, res}
	if res2 := c.memo[k]; res2 != nil {
		c.second(f, res2)
		return
	}
	if len(c.waiting[k]) == 0 {
		c.queued = append(c.queued, c.newJob(j.Prog, j.Exec, after, nil))
	}
	c.waiting[k] = append(c.waiting[k], f)
}

// noteFlaky records (in the evidence, never as a verdict) fault-free runs that failed
// and succeeded when repeated on the same files. On an overloaded machine the
// in-process cluster loses tasks ("lost on 5 consecutive attempts"); "task ... not
// found" is something else: a worker whose task graph differs from the driver's (see
// /verif/.build/findings/C13-2.md).
func (c *checker) noteFlaky(j *job, res *result) {
	if len(res.Flaky) == 0 || !res.Run.OK {
		return
	}
	const k = "fault-free runs that failed once and succeeded when repeated"
	c.mech[k]++
	notFound := false
	for _, e := range res.Flaky {
		notFound = notFound || (strings.Contains(e, "task ") && strings.Contains(e, " not found"))
	}
	if notFound {
		c.mech[k+": 'task ... not found' (worker's task graph differs from the driver's)"]++
	}
	if c.mech[k] <= 5 || notFound && c.mech[k] <= 20 {
		c.r.Note("repeated: %s: %v", c.caseName(j), res.Flaky)
	}
}

// drain executes the queued fault-free successor runs.
func (c *checker) drain() {
	for len(c.queued) > 0 {
		q := c.queued
		c.queued = nil
		c.runJobs(q, func(j *job, res *result) {
			c.mech["runs:second:"+j.Exec]++
			k := stateKey(j.Prog, j.Exec, j.Files)
			if res.Hang {
				c.r.Machinery(fmt.Sprintf("second run of %s: did not return within %v\n%s", c.caseName(j), hangAfter, tail(res.Dump, 3000)))
				delete(c.waiting, k)
				return
			}
			c.noteFlaky(j, res)
			c.memo[k] = res
			for _, f := range c.waiting[k] {
				c.second(f, res)
			}
			delete(c.waiting, k)
			// the files the second run left are judged (judgeSecond); no third run
		})
	}
}

// runCases executes first runs (in chunks, so that the time budget drops the last,
// most complex ones) and their successors. It returns the number of cases not run.
func (c *checker) runCases(jobs []*job, budget time.Duration, handle func(*job, *result)) int {
	const chunk = 400
	for i := 0; i < len(jobs); i += chunk {
		if c.r.OverBudget(budget) {
			return len(jobs) - i
		}
		end := i + chunk
		if end > len(jobs) {
			end = len(jobs)
		}
		c.runJobs(jobs[i:end], func(j *job, res *result) {
			c.mech["runs:"+c.phase+":"+j.Exec]++
			c.first(j, res)
			if handle != nil && !res.Hang {
				handle(j, res)
			}
		})
		c.drain()
	}
	return 0
}

// ---- phases ----------------------------------------------------------------------------

func subsets() []int {
	// simplest first: by number of files
	return []int{0, 1, 2, 4, 3, 5, 6, 7}
}

func (c *checker) filesFor(p prog, mask int) map[int][]byte {
	src := c.valid[p.Name()]
	m := map[int][]byte{}
	for s := 0; s < nShard; s++ {
		if mask&(1<<s) != 0 {
			m[s] = src[s]
		}
	}
	return m
}

func logKey(p prog, kind string, files map[int][]byte) string {
	return p.Name() + "/" + kind + "/" + subsetName(files)
}

// reference: the uncached programs, the valid file contents, the key -> shard table.
func (c *checker) reference(progs []prog) {
	c.phase = "reference"
	// (a) uncached programs agree with the reference model on both executors
	var jobs []*job
	for _, p := range progs {
		for _, k := range executors {
			j := c.newJob(p, k, nil, nil)
			j.Plain = true
			jobs = append(jobs, j)
		}
	}
	for _, p := range progs {
		for _, k := range executors {
			j := c.newJob(p, k, nil, nil)
			j.Plain, j.Reuse = true, true
			jobs = append(jobs, j)
		}
	}
	for _, p := range progs {
		// the model of generation 1 against the uncached program of generation 1
		j := c.newJob(p, "local", nil, nil)
		j.Plain, j.Gen = true, 1
		jobs = append(jobs, j)
		if !sameMultiset(expectedMixed(p, nil, make([]int, nShard)), expectedRows(p)) {
			ev.Fatal("reference model inconsistent for %s", p.Name())
		}
	}
	c.runJobs(jobs, func(j *job, res *result) {
		if j.Gen != 0 {
			exp := expectedMixed(j.Prog, nil, []int{j.Gen, j.Gen, j.Gen})
			if res.Hang || !res.Run.OK || !sameMultiset(res.Run.Rows, exp) || j.Prog.ordered() && !sameSeq(res.Run.Rows, exp) {
				ev.Fatal("reference model (generation %d) disagrees with the uncached program %s: got %+v, model %v", j.Gen, j.Prog.Name(), res.Run, exp)
			}
			return
		}
		if j.Reuse {
			// baseline of the reuse histories: does the uncached program give the same
			// rows again after Discard + reuse? (If not, that is not C13's business
			// and the reuse oracle is not applied to this program on this executor.)
			ok := !res.Hang && res.Run.OK && res.Run.Reuse != nil && res.Run.Reuse.OK && c.rowsOK(j.Prog, res.Run.Reuse.Rows)
			c.reuseOK[j.Prog.Name()+"/"+j.Exec] = ok
			if !ok {
				c.r.Note("uncached program %s on %s does not survive Discard + reuse (%+v); reuse histories not judged for it", j.Prog.Name(), j.Exec, res.Run)
			}
			return
		}
		if res.Hang || !res.Run.OK {
			ev.Fatal("uncached program %s on %s did not run: hang=%v %s", j.Prog.Name(), j.Exec, res.Hang, res.Run.Err)
		}
		exp := expectedRows(j.Prog)
		ok := sameMultiset(res.Run.Rows, exp)
		if ok && j.Prog.ordered() {
			ok = sameSeq(res.Run.Rows, exp)
		}
		if !ok {
			ev.Fatal("reference model disagrees with the uncached program %s on %s: got %v, model %v", j.Prog.Name(), j.Exec, res.Run.Rows, exp)
		}
		if len(res.Run.Log) != 0 {
			ev.Fatal("uncached program %s touched the cache volume: %v", j.Prog.Name(), res.Run.Log)
		}
		// the call-count table is shared with the in-process workers
		if res.Run.Counts["src/0"] == 0 || res.Run.Counts["src/2"] == 0 {
			ev.Fatal("call counts of %s on %s are empty: %v (workers not in-process?)", j.Prog.Name(), j.Exec, res.Run.Counts)
		}
	})
	// (b) valid file contents from a clean first run of the writer programs (local)
	jobs = nil
	broken := false
	mid := func(op string, d int) prog { return prog{Shape: "mid", Op: op, Data: d} }
	have := map[prog]bool{}
	add := func(p prog) {
		if !have[p] {
			have[p] = true
			jobs = append(jobs, c.newJob(p, "local", nil, nil))
		}
	}
	for _, p := range progs {
		switch {
		case p.reads():
			add(mid("cache", p.Data)) // ReadCache programs read what cache-mid wrote
		case p.underHead():
			add(mid(p.Op, p.Data)) // Head stops early; the cached slice is the one of "mid"
			add(p)                 // (its own clean run: for the call counts only)
		default:
			add(p)
		}
	}
	c.runJobs(jobs, func(j *job, res *result) {
		p := j.Prog
		if res.Hang {
			ev.Fatal("clean first run of %s did not return", p.Name())
		}
		if !res.Run.OK {
			// the uncached program runs (checked above): the cache operator broke it
			for _, v := range c.judgeFirst(j, res) {
				c.r.Violate(v.sig, v.what, v.detail)
			}
			broken = true
			return
		}
		if p.postShuffle() && c.keyShard[p.Data] == nil {
			// learn which key lives in which post-shuffle shard (C05's subject, not
			// ours); the union must be the model's rows, each key in one shard.
			ks := map[string]int{}
			var union []string
			for s, fo := range res.After {
				for _, rw := range fo.Rows {
					k, _, _ := strings.Cut(rw, "=")
					if _, dup := ks[k]; dup {
						ev.Fatal("clean run of %s: key %s in two shard files", p.Name(), k)
					}
					ks[k] = s
					union = append(union, rw)
				}
			}
			if !sameMultiset(union, expectedRows(p)) {
				// a fault-free run left shard files that do not hold the complete shards
				c.r.Violate(fmt.Sprintf("C13/%s/local/incomplete-file-left/no-fault/union-of-shard-files", p.Name()),
					fmt.Sprintf("fault-free run of %s: the shard files written hold %v, the slice has %v (a shard file must hold the complete encoded shard)", p.Name(), union, expectedRows(p)),
					map[string]interface{}{"program": p.Name(), "rows_in_files": union, "rows_of_slice": expectedRows(p)})
				broken = true
				return
			}
			c.keyShard[p.Data] = ks
		}
		m := map[int][]byte{}
		for s, fo := range res.After {
			m[s] = fo.Bytes
		}
		c.valid[p.Name()] = m
		c.cold[p.Name()] = res.Run.Counts
		// the files of a clean run are judged like all others; without valid files
		// nothing else can be enumerated
		vs := c.judgeFirst(j, res)
		for _, v := range vs {
			c.r.Violate(v.sig, v.what, v.detail)
		}
		broken = broken || len(vs) > 0
	})
	if broken {
		c.r.NotExhaustive("a clean first run without pre-existing files already violates the property; nothing else was enumerated")
		c.r.Finish(ev.Coverage{"evaluations": len(jobs), "distinct_nontrivial": 0, "rule": "clean first runs only (see not_exhaustive_because)"})
	}
	for _, p := range progs {
		switch {
		case p.reads():
			c.valid[p.Name()] = c.valid[mid("cache", p.Data).Name()]
		case p.underHead():
			c.valid[p.Name()] = c.valid[mid(p.Op, p.Data).Name()]
		}
		if len(c.valid[p.Name()]) != nShard {
			ev.Fatal("no valid shard files for %s (a clean first run left %d files)", p.Name(), len(c.valid[p.Name()]))
		}
		if p.postShuffle() && c.keyShard[p.Data] == nil {
			ev.Fatal("no key->shard table for data set %d", p.Data)
		}
	}
}

// subsetsPhase: every subset of pre-existing files, no faults; records the histories.
func (c *checker) subsetsPhase(progs []prog) {
	c.phase = "subsets"
	var jobs []*job
	for _, mask := range subsets() {
		for _, p := range progs {
			for _, k := range executors {
				reps := 1
				if k == "vsys" && c.r.Thorough() {
					reps = 2 // which worker probes exist depends on placement: union of two runs
				}
				for i := 0; i < reps; i++ {
					jobs = append(jobs, c.newJob(p, k, c.filesFor(p, mask), nil))
				}
			}
		}
	}
	c.runCases(jobs, 24*time.Hour, func(j *job, res *result) {
		key := logKey(j.Prog, j.Exec, j.Files)
		have := map[string]bool{}
		for _, l := range c.logs[key] {
			have[l] = true
		}
		for _, l := range res.Run.Log {
			if !have[l] {
				have[l] = true
				c.logs[key] = append(c.logs[key], l)
			}
		}
		c.mech["fault-free subset cases"]++
		if len(cachedShards(j.Prog, res.Run.Before)) > 0 {
			c.mech["fault-free subset cases with cached shards"]++
		}
		if len(j.Files) == 2 && j.Exec == "local" && (j.Prog.Name() == "partial-presh" || j.Prog.Name() == "cache-underhead") && !c.sampled["subset/"+j.Prog.Name()] {
			c.sampled["subset/"+j.Prog.Name()] = true
			c.r.Sample(map[string]interface{}{"case": c.caseName(j), "run": res.Run, "files_after": keysOf(res.After)})
		}
	})
}

func (c *checker) rowsOK(p prog, rows []string) bool {
	exp := expectedRows(p)
	if !sameMultiset(rows, exp) {
		return false
	}
	return !p.ordered() || sameSeq(rows, exp)
}

// reusePhase: histories inside ONE later session over files left by a completed first
// run: res = Run(program) (cached shards are served from their files); scan;
// res.Discard(); Run(consumer, res); scan. The second computation makes the session
// evaluate the same compiled (cached) tasks again. Both evaluations must yield the
// rows of the uncached program, and no upstream user function of a cached shard may
// run in the whole session. Files: all valid; for CachePartial and the Head programs
// also all but shard 0.
func (c *checker) reusePhase(progs []prog) {
	c.phase = "reuse"
	var jobs []*job
	for _, p := range progs {
		masks := []int{7}
		if p.Op == "partial" || p.underHead() {
			masks = []int{7, 6}
		}
		for _, mask := range masks {
			for _, k := range executors {
				if !c.reuseOK[p.Name()+"/"+k] {
					continue
				}
				j := c.newJob(p, k, c.filesFor(p, mask), nil)
				j.Reuse = true
				jobs = append(jobs, j)
			}
		}
	}
	c.runJobs(jobs, func(j *job, res *result) {
		c.mech["runs:reuse:"+j.Exec]++
		if res.Hang {
			c.r.Machinery(fmt.Sprintf("case %s: the run did not return within %v\n%s", c.caseName(j), hangAfter, tail(res.Dump, 3000)))
			return
		}
		c.noteFlaky(j, res)
		c.cases++
		p, obs := j.Prog, res.Run
		if obs.OK && obs.Reuse != nil {
			c.mech["reuse histories with a second evaluation"]++
			if len(cachedShards(p, obs.Before)) > 0 {
				c.mech["reuse histories with cached shards"]++
			}
		}
		vs := c.judgeReuse(j, res)
		for _, v := range vs {
			c.violate(j, v)
		}
		c.outcomes.Add(fmt.Sprintf("reuse: run=%s reuse=%v", outcome(obs), obs.Reuse != nil && obs.Reuse.OK))
		if !c.sampled["reuse"] && j.Exec == "vsys" && p.underHead() {
			c.sampled["reuse"] = true
			c.r.Sample(map[string]interface{}{"case": c.caseName(j) + " [reuse history]", "run": obs})
		}
	})
}

// judgeReuse judges one reuse history.
func (c *checker) judgeReuse(j *job, res *result) []viol {
	p, obs := j.Prog, res.Run
	detail := map[string]interface{}{"case": c.caseName(j), "job": j, "run": obs, "attempts": res.Attempts, "files_after": slim(res.After)}
	// the first evaluation is an ordinary fault-free run (its call counts cover the
	// whole session, which is what we want)
	vs := c.judgeRun(j, "run1", res, detail)
	vs = append(vs, c.judgeFiles(j, "after the session", res.After, detail)...)
	if obs.OK && obs.Reuse != nil {
		ro := obs.Reuse
		switch {
		case !ro.OK:
			vs = append(vs, viol{
				sig: fmt.Sprintf("C13/%s/%s/reuse-after-discard-fails", p.Name(), j.Exec),
				what: fmt.Sprintf("%s: the run succeeded (files at start: %v); after Result.Discard, Run(consumer, result) in the same session failed in each of %d attempts: %s (the uncached program survives this)",
					c.caseName(j), obs.Before, res.Attempts, ro.Err),
				detail: detail,
			})
		case !c.rowsOK(p, ro.Rows):
			vs = append(vs, viol{
				sig: fmt.Sprintf("C13/%s/%s/wrong-rows/reuse-after-discard", p.Name(), j.Exec),
				what: fmt.Sprintf("%s: (files at start: %v) after Result.Discard, Run(identity Map, result) in the same session yields %v; the uncached program yields %v (the first evaluation gave %v)",
					c.caseName(j), obs.Before, ro.Rows, expectedRows(p), obs.Rows),
				detail: detail,
			})
		}
	}
	return vs
}

// gensOf: the generation of every shard of the cached slice in a run of job j that
// starts with the (generation 0) files of `before`.
func (c *checker) gensOf(j *job, before []int) []int {
	gens := make([]int, nShard)
	for s := range gens {
		gens[s] = j.Gen
	}
	for _, s := range cachedShards(j.Prog, before) {
		gens[s] = 0
	}
	return gens
}

// judgeGen judges a run of the generation phase: rows (judgeRun, generation-aware),
// zero calls for cached shards, all-or-nothing, and the files: a shard that was read
// from its file keeps it; a shard that was computed has a complete file of the NEW
// generation (under Head: or still the old file, if Head stopped before its end).
func (c *checker) judgeGen(j *job, res *result) []viol {
	p, obs := j.Prog, res.Run
	detail := map[string]interface{}{"case": c.caseName(j), "job": j, "run": obs, "attempts": res.Attempts, "files_after": slim(res.After)}
	vs := c.judgeRun(j, "run1", res, detail)
	if !obs.OK {
		return vs
	}
	gens := c.gensOf(j, obs.Before)
	before := map[int]bool{}
	for _, s := range obs.Before {
		before[s] = true
	}
	for s := 0; s < nShard; s++ {
		fo, ok := res.After[s]
		if !ok {
			continue
		}
		allowed := []int{gens[s]}
		if gens[s] != 0 && p.underHead() && before[s] {
			allowed = append(allowed, 0)
		}
		good := false
		for _, g := range allowed {
			want := strs(cachedSliceRows(p, c.keyShard[p.Data], g)[s])
			if fo.Complete && fo.Strict == "" && (p.postShuffle() && sameMultiset(fo.Rows, want) || !p.postShuffle() && sameSeq(fo.Rows, want)) {
				good = true
			}
		}
		if !good {
			vs = append(vs, viol{
				sig: fmt.Sprintf("C13/%s/%s/stale-or-incomplete-file-left/generation", p.Name(), j.Exec),
				what: fmt.Sprintf("%s: files at start: %v, so shards %v are read from their files and the others computed; afterwards the file of shard %d decodes to %v (end of stream reached=%v err=%q strict: %s), expected the complete shard of generation %v: %v",
					c.caseName(j), obs.Before, cachedShards(p, obs.Before), s, fo.Rows, fo.Complete, fo.Err, orOK(fo.Strict), allowed, strs(cachedSliceRows(p, c.keyShard[p.Data], allowed[0])[s])),
				detail: detail,
			})
		}
	}
	return vs
}

// generationPhase: every subset of pre-existing files again, but the files hold the
// (complete, valid) shards of generation 0 while the input of the run is of generation
// 1, so that rows read from a file can be told from rows computed now. Cache with a
// strict subset must deliver only new rows (and leave complete new files); Cache with
// all files, CachePartial and ReadCache deliver the old rows of the shards they read
// from files -- by design ("the user must guarantee cache consistency").
func (c *checker) generationPhase(progs []prog) {
	c.phase = "generations"
	var jobs []*job
	for _, mask := range subsets() {
		for _, p := range progs {
			if p.reads() && mask != 7 {
				continue
			}
			for _, k := range executors {
				j := c.newJob(p, k, c.filesFor(p, mask), nil)
				j.Gen = 1
				jobs = append(jobs, j)
			}
		}
	}
	c.runJobs(jobs, func(j *job, res *result) {
		c.mech["runs:generations:"+j.Exec]++
		if res.Hang {
			c.r.Machinery(fmt.Sprintf("case %s: the run did not return within %v\n%s", c.caseName(j), hangAfter, tail(res.Dump, 3000)))
			return
		}
		c.noteFlaky(j, res)
		c.cases++
		for _, v := range c.judgeGen(j, res) {
			c.violate(j, v)
		}
		mixed := len(cachedShards(j.Prog, res.Run.Before))
		if res.Run.OK && mixed > 0 && mixed < nShard {
			c.mech["generation cases with old and new shards mixed (CachePartial)"]++
		}
		c.outcomes.Add(fmt.Sprintf("generation: run=%s shards-from-files=%d", outcome(res.Run), mixed))
		if !c.sampled["gen"] && j.Exec == "local" && j.Prog.Name() == "cache-presh" && len(j.Files) == 2 {
			c.sampled["gen"] = true
			c.r.Sample(map[string]interface{}{"case": c.caseName(j), "run": res.Run, "files_after": slim(res.After)})
		}
	})
}

// reportCrashes: a process that dies while running a case, three times out of three,
// each time in a process of its own.
func (c *checker) reportCrashes() {
	seen := map[string]int{}
	for _, cr := range c.crashes {
		cls := faultClass(cr.j)
		if cr.j.Reuse {
			cls = "reuse-after-discard"
		}
		sig := fmt.Sprintf("C13/%s/%s/process-crashed/%s", cr.j.Prog.Name(), cr.j.Exec, cls)
		seen[sig]++
		if seen[sig] > 1 {
			continue
		}
		n := 0
		for _, x := range c.crashes {
			c2 := faultClass(x.j)
			if x.j.Reuse {
				c2 = "reuse-after-discard"
			}
			if x.j.Prog == cr.j.Prog && x.j.Exec == cr.j.Exec && c2 == cls {
				n++
			}
		}
		what := "process crashed while reading a cached shard: " + c.caseName(cr.j)
		if cr.j.Reuse {
			what += " = run; scan; Result.Discard; Run(consumer, result)"
		}
		what += fmt.Sprintf(": the process died in 3 of 3 attempts, each in a fresh process (%s): %s", strings.Join(cr.how, "; "), crashGist(cr.stderr))
		if n > 1 {
			what += fmt.Sprintf(" [%d cases with this signature]", n)
		}
		c.r.Violate(sig, what, map[string]interface{}{"case": c.caseName(cr.j), "job": cr.j, "how": cr.how, "stderr": tail(cr.stderr, 6000)})
	}
}

// crashGist: the first lines of the crash output and the first bigslice frames.
func crashGist(stderr string) string {
	lines := strings.Split(stderr, "\n")
	var out []string
	for i, l := range lines {
		l = strings.TrimSpace(l)
		if l == "" {
			continue
		}
		if len(out) < 3 && i < 12 {
			out = append(out, l)
			continue
		}
		if strings.Contains(l, "grailbio/bigslice") && !strings.HasPrefix(l, "/") && len(out) < 8 {
			out = append(out, l)
		}
	}
	s := strings.Join(out, " | ")
	if len(s) > 700 {
		s = s[:700] + "..."
	}
	return s
}

func contains(s []string, x string) bool {
	for _, y := range s {
		if x == y {
			return true
		}
	}
	return false
}

func keysOf(m map[int]fileObs) []int {
	k := []int{}
	for s := range m {
		k = append(k, s)
	}
	sort.Ints(k)
	return k
}

func modesFor(label string) []vfs.Mode {
	if labelOp(label) == "Write" {
		return []vfs.Mode{vfs.Fail, vfs.FailPartial, vfs.Crash}
	}
	return []vfs.Mode{vfs.Fail, vfs.Crash}
}

// selectLabels: all labels, or (quick tier, pairs) per file the Write calls number 0,
// middle, last-1, last -- the first carries the stream header, the last one is issued
// when the compressor is closed at the end of the shard -- and the Stat probes number 0
// (driver), 1 and last (workers); every other operation is kept.
func selectLabels(labels []string, all bool) []string {
	if all {
		return labels
	}
	max := map[string]int{}
	for _, l := range labels {
		key := l[:strings.LastIndexByte(l, '#')]
		if n := labelOrdinal(l); n > max[key] {
			max[key] = n
		}
	}
	var out []string
	for _, l := range labels {
		key := l[:strings.LastIndexByte(l, '#')]
		n, m := labelOrdinal(l), max[key]
		switch labelOp(l) {
		case "Write":
			if !(n == 0 || n >= m-1 || n == m/2) {
				continue
			}
		case "Stat":
			if !(n <= 1 || n == m) {
				continue
			}
		}
		out = append(out, l)
	}
	return out
}

// faultCases runs fault cases. A single-fault case whose fault did not fire (labels of
// worker probes depend on placement) is retried twice. keep says which results the
// caller wants back (for the pairs).
func (c *checker) faultCases(jobs []*job, keep func(*job) bool, budget time.Duration) map[*job]*result {
	results := map[*job]*result{}
	for attempt := 0; attempt < 3 && len(jobs) > 0; attempt++ {
		var retry []*job
		// a retried case must not be judged twice: decide before first()
		skipped := c.runCasesFiltered(jobs, budget, func(j *job, res *result) bool {
			if !res.Hang && len(res.Run.Fired) < len(j.Faults) && attempt < 2 && len(j.Faults) == 1 {
				retry = append(retry, j)
				return false
			}
			return true
		}, func(j *job, res *result) {
			c.faultRun++
			if keep != nil && keep(j) {
				results[j] = res
			}
			if len(res.Run.Fired) == len(j.Faults) {
				var cls []string
				for _, f := range j.Faults {
					cls = append(cls, labelClass(f.Label)+"/"+f.Mode.String())
				}
				c.nontriv.Add(j.Prog.Name() + "/" + j.Exec + "/" + subsetName(j.Files) + "/" + strings.Join(cls, "+"))
				c.mech["fired:"+faultClass(j)]++
				if fc := faultClass(j); !c.sampled["fault/"+fc] && j.Exec == "local" && (fc == "Close-fail" || fc == "Create-crash" || fc == "Write-failpartial") {
					c.sampled["fault/"+fc] = true
					c.r.Sample(map[string]interface{}{"case": c.caseName(j), "run1_ok": res.Run.OK, "run1_err": res.Run.Err, "files_after_run1": keysOf(res.After), "log_len": len(res.Run.Log)})
				}
			} else {
				c.notFired++
			}
		})
		if skipped > 0 {
			c.r.NotExhaustive(fmt.Sprintf("time budget: %d fault cases of phase %q not run", skipped, c.phase))
			return results
		}
		jobs = retry
	}
	return results
}

// runCasesFiltered is runCases with a veto: accept() false = the result is dropped
// unjudged (the case will be run again).
func (c *checker) runCasesFiltered(jobs []*job, budget time.Duration, accept func(*job, *result) bool, handle func(*job, *result)) int {
	const chunk = 400
	for i := 0; i < len(jobs); i += chunk {
		if c.r.OverBudget(budget) {
			return len(jobs) - i
		}
		end := i + chunk
		if end > len(jobs) {
			end = len(jobs)
		}
		c.runJobs(jobs[i:end], func(j *job, res *result) {
			c.mech["runs:"+c.phase+":"+j.Exec]++
			if !accept(j, res) {
				return
			}
			c.first(j, res)
			if !res.Hang {
				handle(j, res)
			}
		})
		c.drain()
	}
	return 0
}

// singleFaults: every (selected) label of the failure-free history × mode.
func (c *checker) singleFaults(phase string, progs []prog, masks func(p prog, kind string) []int, allLabels func(kind string, mask int) bool, want, keep func(*job) bool, budget time.Duration) map[*job]*result {
	c.phase = phase
	var jobs []*job
	for _, p := range progs {
		for _, k := range executors {
			for _, mask := range masks(p, k) {
				files := c.filesFor(p, mask)
				for _, l := range selectLabels(c.logs[logKey(p, k, files)], allLabels(k, mask)) {
					for _, m := range modesFor(l) {
						if j := c.newJob(p, k, files, []fault{{Label: l, Mode: m}}); want(j) {
							jobs = append(jobs, j)
						}
					}
				}
			}
		}
	}
	// simplest first: fewer pre-existing files, then program order
	sort.SliceStable(jobs, func(a, b int) bool { return len(jobs[a].Files) < len(jobs[b].Files) })
	return c.faultCases(jobs, keep, budget)
}

// pairs: for each fired, non-crash single fault of the given cases, every (selected)
// label of the rest of ITS history (after the point where it fired) × mode.
func (c *checker) pairs(singles map[*job]*result, secondModes func(label string) []vfs.Mode, budget time.Duration) {
	c.phase = "fault-pairs"
	var jobs []*job
	var order []*job
	for j := range singles {
		order = append(order, j)
	}
	sort.Slice(order, func(a, b int) bool { return order[a].ID < order[b].ID })
	for _, j := range order {
		res := singles[j]
		if res.Hang || len(j.Faults) != 1 || j.Faults[0].Mode == vfs.Crash || len(res.Run.Fired) != 1 {
			continue
		}
		first := j.Faults[0]
		if sel := selectLabels(c.logs[logKey(j.Prog, j.Exec, j.Files)], false); !contains(sel, first.Label) {
			continue
		}
		at := -1
		for i, l := range res.Run.Log {
			if l == first.Label {
				at = i
				break
			}
		}
		if at < 0 {
			continue
		}
		seen := map[string]bool{}
		for _, l := range selectLabels(res.Run.Log[at+1:], false) {
			if seen[l] {
				continue
			}
			seen[l] = true
			for _, m := range secondModes(l) {
				jobs = append(jobs, c.newJob(j.Prog, j.Exec, j.Files, []fault{first, {Label: l, Mode: m}}))
			}
		}
	}
	c.mech["pair cases enumerated"] = len(jobs)
	c.faultCases(jobs, nil, budget)
}

// upstreamFailures: the computation under the cache fails by itself: the source of one
// shard returns an error after r rows (r = 0 .. all rows; "all" = instead of the end of
// the stream). No file fault is armed.
func (c *checker) upstreamFailures(progs []prog, masks func(p prog, kind string) []int, budget time.Duration) {
	c.phase = "upstream-failures"
	var jobs []*job
	for _, p := range progs {
		if p.reads() {
			continue
		}
		for _, k := range executors {
			for _, mask := range masks(p, k) {
				for s := 0; s < nShard; s++ {
					for after := 0; after <= len(datasets[p.Data][s]); after++ {
						j := c.newJob(p, k, c.filesFor(p, mask), nil)
						j.Upstream = []int{s, after}
						jobs = append(jobs, j)
					}
				}
			}
		}
	}
	sort.SliceStable(jobs, func(a, b int) bool { return len(jobs[a].Files) < len(jobs[b].Files) })
	skipped := c.runCases(jobs, budget, func(j *job, res *result) {
		c.faultRun++
		if res.Run.Counts["srcfail"] > 0 {
			c.nontriv.Add(fmt.Sprintf("%s/%s/%s/upstream-error/s%d@%d", j.Prog.Name(), j.Exec, subsetName(j.Files), j.Upstream[0], j.Upstream[1]))
			c.mech["fired:upstream-error"]++
			if !c.sampled["upstream"] && j.Upstream[1] == 3 {
				c.sampled["upstream"] = true
				c.r.Sample(map[string]interface{}{"case": c.caseName(j), "run1_ok": res.Run.OK, "run1_err": res.Run.Err, "files_after_run1": keysOf(res.After)})
			}
		} else {
			c.notFired++
			c.mech["upstream-error not reached (shard cached or Head stopped before)"]++
		}
	})
	if skipped > 0 {
		c.r.NotExhaustive(fmt.Sprintf("time budget: %d upstream-failure cases not run", skipped))
	}
}

// confirm re-executes cases of every candidate signature (first run and a fresh second
// run, nothing memoized); a violation is reported only if the same signature shows
// again. (Sessions run freely; on the cluster executor a task is sometimes executed
// twice, so some histories are not repeatable.)
func (c *checker) confirm() {
	c.phase = "confirm"
	var sigs []string
	for s := range c.pending {
		sigs = append(sigs, s)
	}
	sort.Strings(sigs)
	for _, sig := range sigs {
		pv := c.pending[sig]
		again := false
		for _, orig := range pv.cases {
			for i := 0; i < 2 && !again; i++ {
				j := *orig
				c.nextID++
				j.ID = c.nextID
				var res1, res2 *result
				c.runJobs([]*job{&j}, func(_ *job, res *result) { res1 = res })
				if res1 == nil || res1.Hang {
					continue
				}
				var vs []viol
				if j.Reuse {
					vs = c.judgeReuse(&j, res1)
				} else if j.Gen != 0 {
					vs = c.judgeGen(&j, res1)
				} else {
					vs = append(vs, c.judgeFirst(&j, res1)...)
					j2 := c.newJob(j.Prog, j.Exec, bytesOf(res1.After), nil)
					c.runJobs([]*job{j2}, func(_ *job, res *result) { res2 = res })
					if res2 != nil && !res2.Hang {
						vs = append(vs, c.judgeSecond(&j, res1, res2)...)
					}
				}
				for _, v := range vs {
					if v.sig == sig {
						again = true
						pv.v = v
					}
				}
			}
			if again {
				break
			}
		}
		if again {
			what := pv.v.what
			if pv.count > 1 {
				what += fmt.Sprintf(" [%d cases with this signature]", pv.count)
			}
			c.r.Violate(sig, what, pv.v.detail)
		} else {
			c.r.Note("unconfirmed (seen in %d case(s), not reproduced in re-runs of %d of them): %s: %s", pv.count, len(pv.cases), sig, pv.v.what)
			c.r.NotExhaustive("a violation candidate did not reproduce: " + sig)
		}
	}
}

func (c *checker) run() {
	r := c.r
	thorough := r.Thorough()
	progs := allPrograms(thorough)
	c.reference(progs)
	c.subsetsPhase(progs)
	c.reusePhase(progs)
	c.generationPhase(progs)
	var racePassCov map[string]interface{}
	if *flagOnly == "" {
		c.manyPhase()
		racePassCov = c.racePassCov()
	}

	// Soft budgets. On an idle 16-core machine quick takes well under a minute and
	// thorough a few minutes; the budgets leave room for a heavily loaded machine.
	budget := 10 * time.Minute
	if thorough {
		budget = 12 * time.Minute
	}
	// Fault cases. quick: pre-existing files {none, all} (CachePartial also: all but
	//           shard 0); selected labels (see selectLabels); local executor: every
	//           program; cluster: three programs (one per cache operator).
	// thorough: every subset, every program, both executors; every label, except on
	//           the cluster for the five subsets not in quick (selected labels).
	vsysQuick := map[string]bool{"cache-mid": true, "partial-postsh": true, "read-map": true}
	masks := func(p prog, kind string) []int {
		if thorough {
			return subsets()
		}
		if kind == "vsys" && !vsysQuick[p.Name()] && *flagOnly == "" {
			return nil
		}
		if p.Op == "partial" {
			return []int{0, 6, 7}
		}
		return []int{0, 7}
	}
	allLabels := func(kind string, mask int) bool {
		if !thorough {
			return false
		}
		return kind == "local" || mask == 0 || mask == 6 || mask == 7
	}
	// Ordered pairs (deviation 2): the first fault is a failed call (not a crash), the
	// second any call of the rest of THAT history. quick: the smallest writer program,
	// local executor, no pre-existing files; thorough: the two smallest, both
	// executors, no files / all but shard 0. "Smallest" = fewest file operations in the
	// clean local run (ties: program order).
	type sz struct {
		p prog
		n int
	}
	var szs []sz
	for _, p := range progs {
		if !p.reads() && p.Data == 0 {
			szs = append(szs, sz{p, len(c.logs[logKey(p, "local", nil)])})
		}
	}
	sort.SliceStable(szs, func(a, b int) bool { return szs[a].n < szs[b].n })
	small := map[string]bool{}
	nsmall := 1
	if thorough {
		nsmall = 2
	}
	for i := 0; i < nsmall && i < len(szs); i++ {
		small[szs[i].p.Name()] = true
		r.Note("fault pairs for program %s (%d file operations in its clean local run)", szs[i].p.Name(), szs[i].n)
	}
	pairCase := func(j *job) bool {
		m := 0
		for s := range j.Files {
			m |= 1 << s
		}
		if !small[j.Prog.Name()] {
			return false
		}
		if thorough {
			return m == 0 || m == 6
		}
		return m == 0 && j.Exec == "local"
	}
	c.upstreamFailures(progs, func(p prog, kind string) []int {
		if thorough {
			return subsets()
		}
		if ms := masks(p, kind); ms != nil {
			return []int{0, 6}
		}
		return nil
	}, budget)
	// The cases the pairs start from come first, then the pairs, then all other single
	// faults (so that a time budget cuts the bulk, not the deviation-2 part).
	singles := c.singleFaults("single-faults(pair programs)", progs, masks, allLabels, pairCase, pairCase, budget)
	c.pairs(singles, func(l string) []vfs.Mode {
		if thorough {
			return modesFor(l)
		}
		return []vfs.Mode{vfs.Fail, vfs.Crash} // quick: no partial write as the second fault
	}, budget)
	c.singleFaults("single-faults", progs, masks, allLabels, func(j *job) bool { return !pairCase(j) }, nil, budget)
	c.confirm()
	c.reportCrashes()

	var names []string
	for _, p := range progs {
		names = append(names, p.Name())
	}
	var mech []string
	for k, v := range c.mech {
		mech = append(mech, fmt.Sprintf("%s=%d", k, v))
	}
	sort.Strings(mech)
	nlabels := 0
	for _, l := range c.logs {
		nlabels += len(l)
	}
	r.Finish(ev.Coverage{
		"evaluations":         c.cases,
		"distinct_nontrivial": c.nontriv.Distinct(),
		"rule": "case = (program, executor, subset of pre-existing valid shard files, 0/1/2 armed file-operation faults or a failing source) -> first run, then a second, fault-free run in a fresh session over the files left " +
			"(a fault-free run is a function of program, executor and file contents and is executed once per distinct state); " +
			"faults = every (quick: selected) label of the failure-free history of the same (program, executor, subset) x {fail, failpartial (writes), crash}, ordered pairs of them, " +
			"and (no file fault) the source of shard s failing after r rows for every s, r; " +
			"plus reuse histories in one session over complete files: run, scan, Result.Discard, Run(consumer, result), scan (cluster: one machine); " +
			"plus a 64-shard program over its complete cache run k times (reads all shards from files, no upstream call), and a free-running -race pass probing complete caches of 1..256 shards; " +
			"plus every subset again with files of generation 0 under an input of generation 1 (values +1000), so that rows read from files and rows computed differ; " +
			"non-trivial = every armed fault actually fired (vfs Fired; the failing source was actually asked), counted as distinct (program, executor, subset, label class, mode)",
		"program_names":             names,
		"executors":                 executors,
		"runs_executed":             c.runs,
		"fault_cases":               c.faultRun,
		"fault_cases_not_fired":     c.notFired,
		"failure_free_labels":       nlabels,
		"distinct_file_states_left": c.states.Distinct(),
		"distinct_outcomes":         c.outcomes.Distinct(),
		"outcomes":                  c.outcomes.Keys(),
		"mechanisms":                mech,
		"key_to_shard_learned":      c.keyShard,
		"violation_candidates":      len(c.pending),
		"process_crashes":           len(c.crashes),
		"race_pass":                 racePassCov,
		"process_model":             "every run has its own volume; the next run gets a copy of the files committed when the previous run returned (= the process exits); a crash makes every later file operation of that run fail",
	})
}

// probe prints failure-free histories (debugging aid).
func (c *checker) probe(name string) {
	progs := allPrograms(true)
	c.reference(progs)
	var jobs []*job
	for _, p := range progs {
		if name != "all" && p.Name() != name {
			continue
		}
		for _, k := range executors {
			for _, mask := range []int{0, 6, 7} {
				jobs = append(jobs, c.newJob(p, k, c.filesFor(p, mask), nil))
			}
		}
	}
	c.runJobs(jobs, func(j *job, res *result) {
		fmt.Printf("== %s\n", c.caseName(j))
		if res.Hang {
			fmt.Println("HANG")
			return
		}
		o := res.Run
		fmt.Printf(" ok=%v err=%q rows=%v before=%v %dms attempts=%d\n  counts=%v\n  log=%v\n", o.OK, o.Err, o.Rows, o.Before, o.Ms, res.Attempts, o.Counts, o.Log)
		for s, fo := range res.After {
			fmt.Printf("  after[%d]: %d bytes complete=%v strict=%q rows=%v err=%q\n", s, fo.Size, fo.Complete, fo.Strict, fo.Rows, fo.Err)
		}
		for _, v := range c.judgeFirst(j, res) {
			fmt.Println("  CANDIDATE", v.sig, "::", v.what)
		}
	})
	os.Exit(0)
}
