// c13: caching is transparent, complete-or-absent, and skips recomputation
// (property C13, DESIGN.md §5 C13; level fault_enumeration).
//
// Programs with Cache / CachePartial / ReadCache at the head of a pipeline, in the
// middle, before a shuffle, after a shuffle and under Head run on both executors with
// the cache prefix on the fault-injecting vfs:// file system. Enumerated: every subset
// of pre-existing (valid) shard files; every file operation of the failure-free
// history failed (Fail, FailPartial for writes) and crashed; in the thorough tier
// ordered pairs of faults for the two smallest writer programs. After every first run
// a second run happens in a fresh session over whatever files are left.
//
// Cases execute in child processes (child.go); this file enumerates and judges.
package main

import (
	"bufio"
	"bytes"
	"encoding/json"
	"flag"
	"fmt"
	"io"
	"os"
	osexec "os/exec"
	"sort"
	"strconv"
	"strings"
	"sync"
	"time"

	"verifh/ev"
	"verifh/vfs"
)

var (
	flagChild = flag.Bool("c13child", false, "internal: run as child")
	flagProbe = flag.String("probe", "", "debug: print the failure-free histories of this program (or 'all')")
	flagOnly  = flag.String("only", "", "debug: restrict to programs whose name contains this")
)

func main() {
	flag.Parse()
	if *flagChild {
		childMain()
		return
	}
	r := ev.Start("C13", "fault_enumeration")
	c := newChecker(r)
	if *flagProbe != "" {
		c.probe(*flagProbe)
		return
	}
	c.run()
}

// ---- programs ------------------------------------------------------------------------

func allPrograms(thorough bool) []prog {
	var ps []prog
	for _, op := range []string{"cache", "partial"} {
		for _, sh := range []string{"head", "mid", "presh", "postsh", "underhead"} {
			ps = append(ps, prog{Shape: sh, Op: op})
		}
	}
	for _, sh := range []string{"rc-head", "rc-map", "rc-reduce", "rc-underhead"} {
		ps = append(ps, prog{Shape: sh, Op: "read"})
	}
	// second data set: an empty shard and a shard of exactly one vector
	ps = append(ps, prog{Shape: "mid", Op: "cache", Data: 1}, prog{Shape: "mid", Op: "partial", Data: 1})
	if thorough {
		ps = append(ps, prog{Shape: "postsh", Op: "partial", Data: 1}, prog{Shape: "underhead", Op: "cache", Data: 1},
			prog{Shape: "rc-head", Op: "read", Data: 1})
	}
	if *flagOnly != "" {
		var f []prog
		for _, p := range ps {
			if strings.Contains(p.Name(), *flagOnly) {
				f = append(f, p)
			}
		}
		ps = f
	}
	return ps
}

var executors = []string{"local", "vsys"}

// ---- child pool ------------------------------------------------------------------

type child struct {
	cmd   *osexec.Cmd
	in    io.WriteCloser
	out   *bufio.Reader
	err   *bytes.Buffer
	count int
}

func startChild() *child {
	exe, err := os.Executable()
	if err != nil {
		ev.Fatal("executable: %v", err)
	}
	cmd := osexec.Command(exe, "-c13child")
	// 16 children share the cores; a few threads each are enough
	cmd.Env = append(os.Environ(), "GOMAXPROCS=2")
	in, err := cmd.StdinPipe()
	if err != nil {
		ev.Fatal("pipe: %v", err)
	}
	out, err := cmd.StdoutPipe()
	if err != nil {
		ev.Fatal("pipe: %v", err)
	}
	ch := &child{cmd: cmd, in: in, out: bufio.NewReaderSize(out, 1<<20), err: &bytes.Buffer{}}
	cmd.Stderr = &limitWriter{w: ch.err, n: 1 << 15}
	if err := cmd.Start(); err != nil {
		ev.Fatal("start child: %v", err)
	}
	return ch
}

type limitWriter struct {
	w *bytes.Buffer
	n int
}

func (l *limitWriter) Write(p []byte) (int, error) {
	if l.w.Len() < l.n {
		l.w.Write(p)
	}
	return len(p), nil
}

func (ch *child) stop() {
	ch.in.Close()
	done := make(chan struct{})
	go func() { ch.cmd.Wait(); close(done) }()
	select {
	case <-done:
	case <-time.After(5 * time.Second):
		ch.cmd.Process.Kill()
		<-done
	}
}

const childJobs = 300 // a child is replaced after this many cases (sessions leak goroutines)

// do runs one job in the child; ok=false if the child died or produced garbage.
func (ch *child) do(j *job) (*result, bool) {
	b, _ := json.Marshal(j)
	b = append(b, '\n')
	if _, err := ch.in.Write(b); err != nil {
		return nil, false
	}
	type lineT struct {
		b   []byte
		err error
	}
	lc := make(chan lineT, 1)
	go func() {
		l, err := ch.out.ReadBytes('\n')
		lc <- lineT{l, err}
	}()
	select {
	case l := <-lc:
		var res result
		if json.Unmarshal(l.b, &res) != nil || res.ID != j.ID {
			return nil, false
		}
		ch.count++
		return &res, true
	case <-time.After(2*hangAfter + 30*time.Second):
		ch.cmd.Process.Kill()
		return nil, false
	}
}

// runJobs executes jobs on a pool of children; handle is called serially.
func (c *checker) runJobs(jobs []*job, handle func(*job, *result)) {
	if len(jobs) == 0 {
		return
	}
	var mu sync.Mutex
	workers := 16
	if len(jobs) < workers {
		workers = len(jobs)
	}
	jc := make(chan *job)
	var wg sync.WaitGroup
	for w := 0; w < workers; w++ {
		wg.Add(1)
		go func() {
			defer wg.Done()
			var ch *child
			for j := range jc {
				var res *result
				for attempt := 0; attempt < 2 && res == nil; attempt++ {
					if ch == nil {
						ch = startChild()
					}
					r, ok := ch.do(j)
					if !ok {
						stderr := ch.err.String()
						ch.cmd.Process.Kill()
						ch.cmd.Wait()
						ch = nil
						if attempt == 1 {
							mu.Lock()
							c.r.Machinery(fmt.Sprintf("child failed twice on case %s: %s", c.caseName(j), tail(stderr, 1500)))
							mu.Unlock()
						}
						continue
					}
					res = r
					if res.Hang != "" || ch.count >= childJobs {
						if res.Hang != "" {
							ch.cmd.Wait()
						} else {
							ch.stop()
						}
						ch = nil
					}
				}
				if res != nil {
					mu.Lock()
					c.evaluations++
					handle(j, res)
					mu.Unlock()
				}
			}
			if ch != nil {
				ch.stop()
			}
		}()
	}
	for _, j := range jobs {
		jc <- j
	}
	close(jc)
	wg.Wait()
}

func tail(s string, n int) string {
	if len(s) > n {
		return "..." + s[len(s)-n:]
	}
	return s
}

// ---- checker -----------------------------------------------------------------------

type viol struct {
	sig, what string
	detail    interface{}
}

type checker struct {
	r           *ev.Run
	nextID      int
	evaluations int

	valid     map[string]map[int][]byte // program name -> valid shard file contents
	keyShard  map[int]map[string]int    // data set -> key -> post-shuffle shard (learned)
	logs      map[string][]string       // prog/exec/subset -> union of failure-free first-run labels
	pending   map[string]*pendingViol   // signature -> first case
	nontriv   *ev.Counter               // distinct (program, executor, subset, label class, mode) with a fired fault
	outcomes  *ev.Counter
	mech      map[string]int
	notFired  int
	faultRuns int
	sampled   map[string]bool
}

type pendingViol struct {
	v     viol
	j     *job
	count int
}

func newChecker(r *ev.Run) *checker {
	return &checker{r: r, valid: map[string]map[int][]byte{}, keyShard: map[int]map[string]int{}, logs: map[string][]string{},
		pending: map[string]*pendingViol{}, nontriv: ev.NewCounter(), outcomes: ev.NewCounter(), mech: map[string]int{},
		sampled: map[string]bool{}}
}

func (c *checker) newJob(p prog, kind string, files map[int][]byte, faults []fault) *job {
	c.nextID++
	return &job{ID: c.nextID, Prog: p, Exec: kind, Files: files, Faults: faults}
}

func subsetName(files map[int][]byte) string {
	var s []string
	for i := 0; i < nShard; i++ {
		if _, ok := files[i]; ok {
			s = append(s, strconv.Itoa(i))
		}
	}
	return "{" + strings.Join(s, ",") + "}"
}

func (c *checker) caseName(j *job) string {
	s := fmt.Sprintf("%s/%s files=%s", j.Prog.Name(), j.Exec, subsetName(j.Files))
	for _, f := range j.Faults {
		s += fmt.Sprintf(" %s@%s", f.Mode, f.Label)
	}
	if len(j.Upstream) == 2 {
		s += fmt.Sprintf(" source of shard %d fails after %d rows", j.Upstream[0], j.Upstream[1])
	}
	return s
}

func labelOp(label string) string {
	if i := strings.IndexByte(label, ':'); i >= 0 {
		return label[:i]
	}
	return label
}

// labelClass strips the directory: "Write:d/p-0001-of-0003#0" -> "Write:s1#0".
func labelClass(label string) string {
	for s := 0; s < nShard; s++ {
		label = strings.Replace(label, ":"+shardRel(s)+"#", fmt.Sprintf(":s%d#", s), 1)
	}
	return label
}

func labelOrdinal(label string) int {
	i := strings.LastIndexByte(label, '#')
	n, _ := strconv.Atoi(label[i+1:])
	return n
}

// faultClass is the <op-class> of signatures: "Write-failpartial", "Stat-fail+Close-fail", "Write-fail+crash", "no-fault".
func faultClass(j *job) string {
	fs := j.Faults
	if len(j.Upstream) == 2 {
		return "upstream-error"
	}
	if len(fs) == 0 {
		return "no-fault"
	}
	var s []string
	for i, f := range fs {
		if i > 0 && f.Mode == vfs.Crash {
			// after a first fault, where exactly the process dies matters little
			s = append(s, "crash")
			continue
		}
		s = append(s, labelOp(f.Label)+"-"+f.Mode.String())
	}
	return strings.Join(s, "+")
}

func (c *checker) violate(j *job, v viol) {
	if p, ok := c.pending[v.sig]; ok {
		p.count++
		return
	}
	c.pending[v.sig] = &pendingViol{v: v, j: j, count: 1}
}

// ---- the oracle ----------------------------------------------------------------------

// cachedShards: which shards a run that starts with the files of `before` must read
// from their files (cache.go: Cache shortcuts "if all shards exist"; CachePartial uses
// what is there and recomputes only the missing data; ReadCache only reads).
func cachedShards(p prog, before []int) []int {
	if p.Op == "partial" || len(before) == nShard {
		return before
	}
	return nil
}

// recomputed lists upstream user functions of cached shards that were called.
func (c *checker) recomputed(p prog, cached []int, counts map[string]int) []string {
	var bad []string
	if len(cached) == 0 {
		return nil
	}
	isCached := map[int]bool{}
	for _, s := range cached {
		isCached[s] = true
	}
	valShard := srcShardOfValue(p.Data)
	all := len(cached) == nShard
	var keys []string
	for k := range counts {
		keys = append(keys, k)
	}
	sort.Strings(keys)
	for _, k := range keys {
		n := counts[k]
		if n == 0 {
			continue
		}
		fn, arg, _ := strings.Cut(k, "/")
		hit := false
		switch fn {
		case "src":
			s, _ := strconv.Atoi(arg)
			if p.postShuffle() {
				hit = all
			} else {
				hit = isCached[s]
			}
		case "map1":
			v, _ := strconv.Atoi(arg)
			if p.postShuffle() {
				hit = all
			} else {
				hit = isCached[valShard[v]]
			}
		case "comb":
			// upstream of the cache only in the post-shuffle program
			hit = p.postShuffle() && all
		case "map3":
			s, ok := c.keyShard[p.Data][arg]
			hit = ok && isCached[s]
		}
		if p.reads() && (fn == "src" || fn == "map1") {
			hit = true // ReadCache has no upstream at all
		}
		if hit {
			bad = append(bad, fmt.Sprintf("%s×%d", k, n))
		}
	}
	return bad
}

func fnClass(bad []string) string {
	set := map[string]bool{}
	for _, b := range bad {
		fn, _, _ := strings.Cut(b, "/")
		fn, _, _ = strings.Cut(fn, "×")
		set[fn] = true
	}
	var s []string
	for k := range set {
		s = append(s, k)
	}
	sort.Strings(s)
	return strings.Join(s, "+")
}

func (c *checker) shardRows(p prog) [][]string {
	return cachedShardRows(p, c.keyShard[p.Data])
}

// workerViewFaultOnly: all faults are failed (not crashed) Stat calls of ordinal >= 1
// on the cluster executor, i.e. re-probes of the cache by workers (the driver's probe
// is the first Stat of each path: Session.Run invokes the Func on the driver before
// anything is sent to a worker). The driver's decision is shipped in CompileEnv, so
// such a run, if it succeeds, must still not recompute what the driver saw as cached.
func workerViewFaultOnly(j *job) bool {
	if j.Exec != "vsys" || len(j.Faults) == 0 {
		return false
	}
	for _, f := range j.Faults {
		if labelOp(f.Label) != "Stat" || f.Mode != vfs.Fail || labelOrdinal(f.Label) < 1 {
			return false
		}
	}
	return true
}

func (c *checker) judgeFiles(j *job, when string, files map[int]fileObs) (vs []viol, nfiles int) {
	p := j.Prog
	want := c.shardRows(p)
	for s := 0; s < nShard; s++ {
		fo, ok := files[s]
		if !ok {
			continue
		}
		nfiles++
		good := fo.Complete && fo.Strict == ""
		if good {
			if p.postShuffle() {
				good = sameMultiset(fo.Rows, want[s])
			} else {
				good = sameSeq(fo.Rows, want[s])
			}
		}
		if !good {
			vs = append(vs, viol{
				sig: fmt.Sprintf("C13/%s/%s/incomplete-file-left/%s", p.Name(), j.Exec, faultClass(j)),
				what: fmt.Sprintf("%s: the file of shard %d %s is neither absent nor the complete encoded shard: %d bytes; the cache reader decodes it to %v (end of stream reached=%v err=%q); "+
					"decompressing it as one complete zstd frame: %s; the shard holds %v",
					c.caseName(j), s, when, fo.Size, fo.Rows, fo.Complete, fo.Err, orOK(fo.Strict), want[s]),
				detail: map[string]interface{}{"job": j, "file": fo, "when": when},
			})
		}
	}
	return
}

func (c *checker) judgeRun(j *job, which string, obs *runObs, faultFree bool) (vs []viol) {
	p := j.Prog
	name, kind := p.Name(), j.Exec
	fc := faultClass(j)
	detail := map[string]interface{}{"job": j, "run": which, "obs": obs}
	if obs.OK {
		exp := expectedRows(p)
		same := sameMultiset(obs.Rows, exp)
		if same && p.ordered() {
			same = sameSeq(obs.Rows, exp)
		}
		if !same {
			vs = append(vs, viol{
				sig:    fmt.Sprintf("C13/%s/%s/wrong-rows/%s/%s", name, kind, which, fc),
				what:   fmt.Sprintf("%s: %s succeeded with rows %v, the uncached program yields %v (files at start: %v)", c.caseName(j), which, obs.Rows, exp, obs.Before),
				detail: detail,
			})
		}
	}
	mustSucceed := faultFree && !(p.reads() && len(obs.Before) < nShard)
	if mustSucceed && !obs.OK {
		sig := fmt.Sprintf("C13/%s/%s/second-run-fails/%s", name, kind, fc)
		if which == "run1" {
			sig = fmt.Sprintf("C13/%s/%s/fault-free-run-fails/files=%d-of-%d", name, kind, len(obs.Before), nShard)
		}
		vs = append(vs, viol{
			sig:    sig,
			what:   fmt.Sprintf("%s: %s (no fault armed, files at start: %v, all of them left by a previous run or valid) failed: %s", c.caseName(j), which, obs.Before, obs.Err),
			detail: detail,
		})
	}
	if obs.OK && (faultFree || (which == "run1" && workerViewFaultOnly(j))) {
		cached := cachedShards(p, obs.Before)
		c.mech[fmt.Sprintf("zero-call checks (%s): cached shards checked", which)] += len(cached)
		if bad := c.recomputed(p, cached, obs.Counts); len(bad) > 0 {
			cls := which
			if which == "run1" && !faultFree {
				cls = "run1-worker-stat-fault"
			}
			vs = append(vs, viol{
				sig:    fmt.Sprintf("C13/%s/%s/recomputed-cached-shard/%s/%s", name, kind, fnClass(bad), cls),
				what:   fmt.Sprintf("%s: %s started with the files of shards %v, so shards %v are cached, yet their upstream user functions ran: %v", c.caseName(j), which, obs.Before, cached, bad),
				detail: detail,
			})
		}
	}
	return
}

// judge applies the property to one case.
func (c *checker) judge(j *job, res *result) []viol {
	var vs []viol
	p := j.Prog
	if res.Hang != "" {
		// not a C13 verdict; reported as a machinery problem
		c.r.Machinery(fmt.Sprintf("case %s: %s did not return within %v\n%s", c.caseName(j), res.Hang, hangAfter, tail(res.Dump, 3000)))
		return nil
	}
	faultFree1 := len(j.Faults) == 0 && j.Upstream == nil
	vs = append(vs, c.judgeRun(j, "run1", res.Run1, faultFree1)...)
	fv, n1 := c.judgeFiles(j, "after the first run", res.Snap)
	vs = append(vs, fv...)
	complete := func(which string, obs *runObs, files map[int]fileObs) {
		if obs.OK && !p.underHead() && !p.reads() && len(files) < nShard {
			var have []int
			for s := range files {
				have = append(have, s)
			}
			sort.Ints(have)
			vs = append(vs, viol{
				sig:    fmt.Sprintf("C13/%s/%s/shard-not-cached-after-completed-run/%s", p.Name(), j.Exec, which),
				what:   fmt.Sprintf("%s: %s completed without any fault and read every shard to its end, but only the files of shards %v exist", c.caseName(j), which, have),
				detail: map[string]interface{}{"job": j, "run": which, "obs": obs},
			})
		}
	}
	if faultFree1 {
		complete("run1", res.Run1, res.Snap)
	}
	if res.Run2 != nil {
		vs = append(vs, c.judgeRun(j, "run2", res.Run2, true)...)
		fv, _ := c.judgeFiles(j, "after the second run", res.Final)
		vs = append(vs, fv...)
		if len(fv) == 0 {
			complete("run2", res.Run2, res.Final)
		}
	}
	if len(res.Extra) > 0 {
		c.r.Note("case %s: files that are no shard files: %v", c.caseName(j), res.Extra)
	}
	// statistics
	o1 := "ok"
	if !res.Run1.OK {
		o1 = "error"
		if res.Run1.Injected {
			o1 = "error(injected)"
		}
	}
	o2 := "-"
	if res.Run2 != nil {
		o2 = "ok"
		if !res.Run2.OK {
			o2 = "error"
		}
	}
	c.outcomes.Add(fmt.Sprintf("run1=%s files-left=%d run2=%s", o1, n1, o2))
	return vs
}

// ---- phases ----------------------------------------------------------------------------

func subsets() []int {
	// simplest first: by number of files
	out := []int{0, 1, 2, 4, 3, 5, 6, 7}
	return out
}

func (c *checker) filesFor(p prog, mask int) map[int][]byte {
	src := c.valid[p.Name()]
	m := map[int][]byte{}
	for s := 0; s < nShard; s++ {
		if mask&(1<<s) != 0 {
			m[s] = src[s]
		}
	}
	return m
}

func logKey(p prog, kind string, files map[int][]byte) string {
	return p.Name() + "/" + kind + "/" + subsetName(files)
}

// reference: the uncached programs, the valid file contents, the key -> shard table.
func (c *checker) reference(progs []prog) {
	// (a) uncached programs agree with the reference model on both executors
	var jobs []*job
	for _, p := range progs {
		for _, k := range executors {
			j := c.newJob(p, k, nil, nil)
			j.Plain = true
			jobs = append(jobs, j)
		}
	}
	c.runJobs(jobs, func(j *job, res *result) {
		if res.Hang != "" || !res.Run1.OK {
			ev.Fatal("uncached program %s on %s did not run: %s %s", j.Prog.Name(), j.Exec, res.Hang, res.Run1.Err)
		}
		exp := expectedRows(j.Prog)
		ok := sameMultiset(res.Run1.Rows, exp)
		if ok && j.Prog.ordered() {
			ok = sameSeq(res.Run1.Rows, exp)
		}
		if !ok {
			ev.Fatal("reference model disagrees with the uncached program %s on %s: got %v, model %v", j.Prog.Name(), j.Exec, res.Run1.Rows, exp)
		}
		if len(res.Run1.Log) != 0 {
			ev.Fatal("uncached program %s touched the cache volume: %v", j.Prog.Name(), res.Run1.Log)
		}
		// the call-count table is shared with in-process workers
		if res.Run1.Counts["src/0"] == 0 || res.Run1.Counts["src/2"] == 0 {
			ev.Fatal("call counts of %s on %s are empty: %v (workers not in-process?)", j.Prog.Name(), j.Exec, res.Run1.Counts)
		}
	})
	// (b) valid file contents from a clean first run of the writer programs (local)
	jobs = nil
	for _, p := range progs {
		if p.reads() {
			continue
		}
		j := c.newJob(p, "local", nil, nil)
		j.Keep = true
		jobs = append(jobs, j)
	}
	// ReadCache programs read what cache-mid of the same data set wrote
	need := map[int]bool{}
	for _, p := range progs {
		if p.reads() {
			need[p.Data] = true
		}
	}
	for d := range need {
		have := false
		for _, j := range jobs {
			have = have || (j.Prog == prog{Shape: "mid", Op: "cache", Data: d})
		}
		if !have {
			j := c.newJob(prog{Shape: "mid", Op: "cache", Data: d}, "local", nil, nil)
			j.Keep = true
			jobs = append(jobs, j)
		}
	}
	c.runJobs(jobs, func(j *job, res *result) {
		p := j.Prog
		if res.Hang != "" || !res.Run1.OK {
			ev.Fatal("clean first run of %s did not succeed: %s %s", p.Name(), res.Hang, res.Run1.Err)
		}
		if p.postShuffle() && c.keyShard[p.Data] == nil {
			// learn which key lives in which post-shuffle shard (C05's subject, not
			// ours); the union must be the model's rows, each key in one shard.
			ks := map[string]int{}
			var union []string
			for s, fo := range res.Snap {
				for _, rw := range fo.Rows {
					k, _, _ := strings.Cut(rw, "=")
					if _, dup := ks[k]; dup {
						ev.Fatal("clean run of %s: key %s in two shard files", p.Name(), k)
					}
					ks[k] = s
					union = append(union, rw)
				}
			}
			if !sameMultiset(union, expectedRows(p)) {
				ev.Fatal("clean run of %s: shard files hold %v, model %v", p.Name(), union, expectedRows(p))
			}
			c.keyShard[p.Data] = ks
		}
		m := map[int][]byte{}
		for s, fo := range res.Snap {
			m[s] = fo.Bytes
			if fo.Strict != "" || !fo.Complete {
				ev.Fatal("clean first run of %s: file of shard %d fails the completeness checks (complete=%v %s strict: %s)", p.Name(), s, fo.Complete, fo.Err, fo.Strict)
			}
		}
		c.valid[p.Name()] = m
		if !p.underHead() && len(m) != nShard {
			// reported by judge() as a violation in the subset phase; the files are
			// needed here only as material
			c.r.Note("clean first run of %s left %d files", p.Name(), len(m))
		}
	})
	for _, p := range progs {
		switch {
		case p.reads():
			c.valid[p.Name()] = c.valid[prog{Shape: "mid", Op: "cache", Data: p.Data}.Name()]
		case p.underHead():
			// Head stops early, so a clean run does not leave every file; the cached
			// slice is the same as in the "mid" program.
			c.valid[p.Name()] = c.valid[prog{Shape: "mid", Op: p.Op, Data: p.Data}.Name()]
			if len(c.valid[p.Name()]) != nShard {
				c.valid[p.Name()] = c.valid[prog{Shape: "mid", Op: "cache", Data: p.Data}.Name()]
			}
		}
		if len(c.valid[p.Name()]) != nShard {
			ev.Fatal("no valid shard files for %s (have %d)", p.Name(), len(c.valid[p.Name()]))
		}
	}
	// postsh with data set d needs keyShard[d] even if only the partial program is present
	for _, p := range progs {
		if p.postShuffle() && c.keyShard[p.Data] == nil {
			ev.Fatal("no key->shard table for data set %d", p.Data)
		}
	}
}

func (c *checker) handle(j *job, res *result) {
	for _, v := range c.judge(j, res) {
		c.violate(j, v)
	}
}

// subsetsPhase: every subset of pre-existing files, no faults; records the histories.
func (c *checker) subsetsPhase(progs []prog) {
	var jobs []*job
	for _, mask := range subsets() {
		for _, p := range progs {
			for _, k := range executors {
				reps := 1
				if k == "vsys" && c.r.Thorough() {
					reps = 2 // which worker probes exist depends on placement: union of two runs
				}
				for i := 0; i < reps; i++ {
					jobs = append(jobs, c.newJob(p, k, c.filesFor(p, mask), nil))
				}
			}
		}
	}
	c.runJobs(jobs, func(j *job, res *result) {
		c.handle(j, res)
		if res.Hang != "" {
			return
		}
		key := logKey(j.Prog, j.Exec, j.Files)
		have := map[string]bool{}
		for _, l := range c.logs[key] {
			have[l] = true
		}
		for _, l := range res.Run1.Log {
			if !have[l] {
				have[l] = true
				c.logs[key] = append(c.logs[key], l)
			}
		}
		c.mech["fault-free subset cases"]++
		if len(res.Run1.Before) > 0 && len(cachedShards(j.Prog, res.Run1.Before)) > 0 {
			c.mech["fault-free subset cases with cached shards"]++
		}
		if !c.sampled["subset/"+j.Prog.Name()] && len(j.Files) == 2 && j.Exec == "local" {
			c.sampled["subset/"+j.Prog.Name()] = true
			if j.Prog.Shape == "presh" || j.Prog.Shape == "underhead" {
				c.r.Sample(map[string]interface{}{"case": c.caseName(j), "run1": res.Run1, "files_after_run1": keysOf(res.Snap), "run2_rows": res.Run2.Rows, "run2_counts": res.Run2.Counts})
			}
		}
	})
}

func orOK(s string) string {
	if s == "" {
		return "ok"
	}
	return "error: " + s
}

func contains(s []string, x string) bool {
	for _, y := range s {
		if x == y {
			return true
		}
	}
	return false
}

func keysOf(m map[int]fileObs) []int {
	var k []int
	for s := range m {
		k = append(k, s)
	}
	sort.Ints(k)
	return k
}

func modesFor(label string) []vfs.Mode {
	if labelOp(label) == "Write" {
		return []vfs.Mode{vfs.Fail, vfs.FailPartial, vfs.Crash}
	}
	return []vfs.Mode{vfs.Fail, vfs.Crash}
}

// selectLabels: all labels (thorough), or (quick / pairs) per file the Write calls
// number 0, 1, middle, last-1, last -- the first ones carry the stream header, the
// last ones are issued when the compressor is closed at the end of the shard -- and the
// Stat probes number 0 (driver), 1 and last (workers); every other operation is kept.
func selectLabels(labels []string, all bool) []string {
	if all {
		return labels
	}
	max := map[string]int{}
	for _, l := range labels {
		key := l[:strings.LastIndexByte(l, '#')]
		if n := labelOrdinal(l); n > max[key] {
			max[key] = n
		}
	}
	var out []string
	for _, l := range labels {
		key := l[:strings.LastIndexByte(l, '#')]
		n, m := labelOrdinal(l), max[key]
		switch labelOp(l) {
		case "Write":
			if !(n <= 1 || n >= m-1 || n == m/2) {
				continue
			}
		case "Stat":
			if !(n <= 1 || n == m) {
				continue
			}
		}
		out = append(out, l)
	}
	return out
}

// singleFaults: every (selected) label of the failure-free history × mode, for the given subsets.
func (c *checker) singleFaults(progs []prog, masks func(p prog, kind string) []int, allLabels func(kind string, mask int) bool, keep func(*job) bool, budget time.Duration) map[*job]*result {
	var jobs []*job
	for _, p := range progs {
		for _, k := range executors {
			for _, mask := range masks(p, k) {
				files := c.filesFor(p, mask)
				for _, l := range selectLabels(c.logs[logKey(p, k, files)], allLabels(k, mask)) {
					for _, m := range modesFor(l) {
						jobs = append(jobs, c.newJob(p, k, files, []fault{{Label: l, Mode: m}}))
					}
				}
			}
		}
	}
	// simplest first: fewer pre-existing files, then program order
	sort.SliceStable(jobs, func(a, b int) bool { return len(jobs[a].Files) < len(jobs[b].Files) })
	return c.faultJobs(jobs, keep, budget)
}

// faultJobs runs fault cases; a case whose fault did not fire (labels of worker probes
// depend on placement) is retried twice.
func (c *checker) faultJobs(jobs []*job, keep func(*job) bool, budget time.Duration) map[*job]*result {
	results := map[*job]*result{}
	for attempt := 0; attempt < 3 && len(jobs) > 0; attempt++ {
		var retry []*job
		skipped := 0
		c.runJobsBudget(jobs, budget, &skipped, func(j *job, res *result) {
			if res.Hang == "" && len(res.Run1.Fired) < len(j.Faults) && attempt < 2 && firstUnfiredIsPossible(j, res) {
				retry = append(retry, j)
				return
			}
			c.faultRuns++
			if keep != nil && keep(j) {
				results[j] = res
			}
			c.handle(j, res)
			if res.Hang != "" {
				return
			}
			if len(res.Run1.Fired) == len(j.Faults) {
				var cls []string
				for _, f := range j.Faults {
					cls = append(cls, labelClass(f.Label)+"/"+f.Mode.String())
				}
				c.nontriv.Add(j.Prog.Name() + "/" + j.Exec + "/" + subsetName(j.Files) + "/" + strings.Join(cls, "+"))
				c.mech["fired:"+faultClass(j)]++
				if n := len(c.sampled); !c.sampled["fault/"+faultClass(j)] && n < 40 && j.Exec == "local" && len(j.Faults) == 1 &&
					(labelOp(j.Faults[0].Label) == "Close" || labelOp(j.Faults[0].Label) == "Create") {
					c.sampled["fault/"+faultClass(j)] = true
					c.r.Sample(map[string]interface{}{"case": c.caseName(j), "run1_ok": res.Run1.OK, "run1_err": res.Run1.Err, "files_after_run1": keysOf(res.Snap),
						"run2_ok": res.Run2.OK, "run2_rows": res.Run2.Rows, "run2_counts": res.Run2.Counts})
				}
			} else {
				c.notFired++
			}
		})
		if skipped > 0 {
			c.r.NotExhaustive(fmt.Sprintf("time budget: %d fault cases not run", skipped))
			return results
		}
		jobs = retry
	}
	return results
}

// firstUnfiredIsPossible: always true for now (kept as a hook for pairs: the second
// fault of a pair cannot fire if the first one changed the history).
func firstUnfiredIsPossible(j *job, res *result) bool {
	return len(j.Faults) == 1
}

func (c *checker) runJobsBudget(jobs []*job, budget time.Duration, skipped *int, handle func(*job, *result)) {
	var run []*job
	// the budget is checked per chunk so that the order (simplest first) decides what
	// is dropped
	const chunk = 512
	for i := 0; i < len(jobs); i += chunk {
		if c.r.OverBudget(budget) {
			*skipped += len(jobs) - i
			break
		}
		end := i + chunk
		if end > len(jobs) {
			end = len(jobs)
		}
		run = jobs[i:end]
		c.runJobs(run, handle)
	}
}

// pairs: for each fired, non-crash single fault of the given cases, every label of
// the rest of ITS history (after the point where it fired) × mode.
func (c *checker) pairs(singles map[*job]*result, want func(j *job) bool, budget time.Duration) {
	var jobs []*job
	var order []*job
	for j := range singles {
		order = append(order, j)
	}
	sort.Slice(order, func(a, b int) bool { return order[a].ID < order[b].ID })
	for _, j := range order {
		res := singles[j]
		if !want(j) || res.Hang != "" || len(j.Faults) != 1 || j.Faults[0].Mode == vfs.Crash || len(res.Run1.Fired) != 1 {
			continue
		}
		first := j.Faults[0]
		if sel := selectLabels(c.logs[logKey(j.Prog, j.Exec, j.Files)], false); !contains(sel, first.Label) {
			continue
		}
		at := -1
		for i, l := range res.Run1.Log {
			if l == first.Label {
				at = i
				break
			}
		}
		if at < 0 {
			continue
		}
		seen := map[string]bool{}
		for _, l := range selectLabels(res.Run1.Log[at+1:], false) {
			if seen[l] {
				continue
			}
			seen[l] = true
			for _, m := range modesFor(l) {
				jobs = append(jobs, c.newJob(j.Prog, j.Exec, j.Files, []fault{first, {Label: l, Mode: m}}))
			}
		}
	}
	c.mech["pair cases enumerated"] = len(jobs)
	c.faultJobs(jobs, nil, budget)
}

// upstreamFailures: the computation under the cache fails by itself: the source of one
// shard returns an error after r rows (r = 0 .. all rows; "all" = instead of the end of
// the stream). No file fault is armed.
func (c *checker) upstreamFailures(progs []prog, masks func(p prog, kind string) []int, budget time.Duration) {
	var jobs []*job
	for _, p := range progs {
		if p.reads() {
			continue
		}
		for _, k := range executors {
			for _, mask := range masks(p, k) {
				for s := 0; s < nShard; s++ {
					for after := 0; after <= len(datasets[p.Data][s]); after++ {
						j := c.newJob(p, k, c.filesFor(p, mask), nil)
						j.Upstream = []int{s, after}
						jobs = append(jobs, j)
					}
				}
			}
		}
	}
	sort.SliceStable(jobs, func(a, b int) bool { return len(jobs[a].Files) < len(jobs[b].Files) })
	skipped := 0
	c.runJobsBudget(jobs, budget, &skipped, func(j *job, res *result) {
		c.faultRuns++
		c.handle(j, res)
		if res.Hang != "" {
			return
		}
		if res.Run1.Counts["srcfail"] > 0 {
			c.nontriv.Add(fmt.Sprintf("%s/%s/%s/upstream-error/s%d@%d", j.Prog.Name(), j.Exec, subsetName(j.Files), j.Upstream[0], j.Upstream[1]))
			c.mech["fired:upstream-error"]++
			if !c.sampled["upstream"] && j.Upstream[1] == 3 {
				c.sampled["upstream"] = true
				c.r.Sample(map[string]interface{}{"case": c.caseName(j), "run1_ok": res.Run1.OK, "run1_err": res.Run1.Err, "files_after_run1": keysOf(res.Snap),
					"run2_ok": res.Run2.OK, "run2_rows": res.Run2.Rows, "run2_counts": res.Run2.Counts})
			}
		} else {
			c.notFired++
			c.mech["upstream-error not reached (shard cached or Head stopped before)"]++
		}
	})
	if skipped > 0 {
		c.r.NotExhaustive(fmt.Sprintf("time budget: %d upstream-failure cases not run", skipped))
	}
}

// confirm re-runs the first case of every signature; a violation is reported only if
// the same signature shows again (the run-time of sessions is not under our control).
func (c *checker) confirm() {
	var sigs []string
	for s := range c.pending {
		sigs = append(sigs, s)
	}
	sort.Strings(sigs)
	for _, sig := range sigs {
		pv := c.pending[sig]
		again := 0
		for i := 0; i < 2 && again == 0; i++ {
			j := *pv.j
			c.nextID++
			j.ID = c.nextID
			c.runJobs([]*job{&j}, func(j *job, res *result) {
				for _, v := range c.judge(j, res) {
					if v.sig == sig {
						again++
					}
				}
			})
		}
		if again > 0 {
			what := pv.v.what
			if pv.count > 1 {
				what += fmt.Sprintf(" [%d cases with this signature]", pv.count)
			}
			c.r.Violate(sig, what, pv.v.detail)
		} else {
			c.r.Note("unconfirmed (seen in %d case(s), not reproduced in 2 re-runs): %s: %s", pv.count, sig, pv.v.what)
			c.r.NotExhaustive("a violation candidate did not reproduce: " + sig)
		}
	}
}

func (c *checker) run() {
	r := c.r
	thorough := r.Thorough()
	progs := allPrograms(thorough)
	c.reference(progs)
	c.subsetsPhase(progs)

	budget := 5 * time.Minute
	if thorough {
		budget = 9 * time.Minute
	}
	// Fault cases. A cluster case costs ~0.2 CPU-seconds, a local one ~0.05.
	// quick:    pre-existing files {none, all but shard 0, all}; selected labels (see
	//           selectLabels); local executor: every program, cluster: five programs
	//           (one per cache operator / position class).
	// thorough: every subset, every program, both executors; every label, except on
	//           the cluster for the five subsets not in quick (selected labels).
	quickMasks := []int{0, 6, 7}
	vsysQuick := map[string]bool{"cache-mid": true, "partial-mid": true, "partial-postsh": true, "cache-underhead": true, "read-map": true}
	masks := func(p prog, kind string) []int {
		if thorough {
			return subsets()
		}
		if kind == "vsys" && !vsysQuick[p.Name()] && *flagOnly == "" {
			return nil
		}
		return quickMasks
	}
	allLabels := func(kind string, mask int) bool {
		if !thorough {
			return false
		}
		return kind == "local" || mask == 0 || mask == 6 || mask == 7
	}
	// Ordered pairs (deviation 2): the first fault is a failed call (not a crash), the
	// second any call of the rest of THAT history. quick: the smallest writer program,
	// local executor, no pre-existing files; thorough: the two smallest, both
	// executors, no files / all but shard 0. "Smallest" = fewest file operations in the
	// clean local run (ties: program order).
	type sz struct {
		p prog
		n int
	}
	var szs []sz
	for _, p := range progs {
		if !p.reads() && p.Data == 0 {
			szs = append(szs, sz{p, len(c.logs[logKey(p, "local", nil)])})
		}
	}
	sort.SliceStable(szs, func(a, b int) bool { return szs[a].n < szs[b].n })
	small := map[string]bool{}
	nsmall := 1
	if thorough {
		nsmall = 2
	}
	for i := 0; i < nsmall && i < len(szs); i++ {
		small[szs[i].p.Name()] = true
		r.Note("fault pairs for program %s (%d file operations in its clean local run)", szs[i].p.Name(), szs[i].n)
	}
	pairCase := func(j *job) bool {
		m := 0
		for s := range j.Files {
			m |= 1 << s
		}
		if !small[j.Prog.Name()] {
			return false
		}
		if thorough {
			return m == 0 || m == 6
		}
		return m == 0 && j.Exec == "local"
	}
	c.upstreamFailures(progs, func(p prog, kind string) []int {
		if thorough {
			return subsets()
		}
		if ms := masks(p, kind); ms != nil {
			return []int{0, 6}
		}
		return nil
	}, budget)
	singles := c.singleFaults(progs, masks, allLabels, pairCase, budget)
	c.pairs(singles, pairCase, budget)
	c.confirm()

	var names []string
	for _, p := range progs {
		names = append(names, p.Name())
	}
	var mech []string
	for k, v := range c.mech {
		mech = append(mech, fmt.Sprintf("%s=%d", k, v))
	}
	sort.Strings(mech)
	nlabels := 0
	for _, l := range c.logs {
		nlabels += len(l)
	}
	r.Finish(ev.Coverage{
		"evaluations":         c.evaluations,
		"distinct_nontrivial": c.nontriv.Distinct(),
		"rule": "case = (program, executor, subset of pre-existing valid shard files, 0/1/2 armed file-operation faults) -> first run, then a second run in a fresh session over the files left; " +
			"faults = every label of the failure-free history of the same (program, executor, subset) x {fail, failpartial (writes), crash}, ordered pairs of them, " +
			"and (no file fault) the source of shard s failing after r rows for every s, r; " +
			"non-trivial = every armed fault actually fired (vfs Fired; the failing source was actually asked), counted as distinct (program, executor, subset, label class, mode)",
		"programs":               names,
		"executors":              executors,
		"fault_cases":            c.faultRuns,
		"fault_cases_not_fired":  c.notFired,
		"failure_free_labels":    nlabels,
		"distinct_outcomes":      c.outcomes.Distinct(),
		"outcomes":               c.outcomes.Keys(),
		"mechanisms":             mech,
		"key_to_shard_learned":   c.keyShard,
		"violation_candidates":   len(c.pending),
		"second_volume_modelled": "the second run works on a copy of the committed files taken when the first run returned (= the first process exits)",
	})
}

// probe prints failure-free histories (debugging aid).
func (c *checker) probe(name string) {
	progs := allPrograms(true)
	c.reference(progs)
	var jobs []*job
	for _, p := range progs {
		if name != "all" && p.Name() != name {
			continue
		}
		for _, k := range executors {
			for _, mask := range []int{0, 6, 7} {
				jobs = append(jobs, c.newJob(p, k, c.filesFor(p, mask), nil))
			}
		}
	}
	c.runJobs(jobs, func(j *job, res *result) {
		fmt.Printf("== %s\n", c.caseName(j))
		if res.Hang != "" {
			fmt.Println("HANG", res.Hang)
			return
		}
		pr := func(which string, o *runObs) {
			fmt.Printf(" %s ok=%v err=%q rows=%v before=%v %dms\n  counts=%v\n  log=%v\n", which, o.OK, o.Err, o.Rows, o.Before, o.Ms, o.Counts, o.Log)
		}
		pr("run1", res.Run1)
		for s, fo := range res.Snap {
			fmt.Printf("  snap[%d]: %d bytes complete=%v rows=%v err=%q\n", s, fo.Size, fo.Complete, fo.Rows, fo.Err)
		}
		pr("run2", res.Run2)
		for _, v := range c.judge(j, res) {
			fmt.Println("  CANDIDATE", v.sig, "::", v.what)
		}
	})
	os.Exit(0)
}
