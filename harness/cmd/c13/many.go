package main

// Many shards. NewFileShardCache probes the shard files in parallel (up to 10*NumCPU
// goroutines), so anything it shares between the probes only shows with many shards
// and real parallelism:
//
//   - racePass (binary c13-race, the same code built with -race, driven by
//     ev.RunRacePass): complete caches of 1, 2, 8, 64, 256 shards are probed N times
//     through NewFileShardCache+RequireAllCached, bigslice.Cache and bigslice.ReadCache
//     at GOMAXPROCS 2, 4, 16; every probe must see ALL shards cached, and every report
//     of the race detector is a violation;
//   - manyPhase (main matrix): a 64-shard program, all files present, run k times on
//     both executors: every run reads every shard from its file, calls no upstream
//     user function and writes no file.

import (
	"context"
	"encoding/json"
	"fmt"
	"reflect"
	"sort"
	"strings"
	"time"

	"github.com/grailbio/bigslice"
	"github.com/grailbio/bigslice/exec"
	"github.com/grailbio/bigslice/sliceio"
	"github.com/grailbio/bigslice/slicetype"

	"verifh/ev"
	"verifh/vfs"
	"verifh/vsys"
)

// fMany: nshard shards of one row each (k<shard>, shard) -> Map (v*10) -> Cache, or
// ReadCache of the same prefix.
var fMany = bigslice.Func(func(tag int, op, prefix string, nshard int) bigslice.Slice {
	ctx := context.Background()
	if op == "read" {
		return bigslice.ReadCache(ctx, rowType, nshard, prefix)
	}
	src := bigslice.ReaderFunc(nshard, func(shard int, done *bool, ks []string, vs []int) (int, error) {
		count(tag, "msrc")
		if *done {
			return 0, sliceio.EOF
		}
		*done = true
		ks[0], vs[0] = fmt.Sprintf("k%03d", shard), shard
		return 1, nil
	})
	s := bigslice.Map(src, func(k string, v int) (string, int) {
		count(tag, "mmap")
		return k, v * 10
	})
	switch op {
	case "cache":
		return bigslice.Cache(ctx, s, prefix)
	case "none":
		return s
	}
	panic("c13: bad op " + op)
})

func manyExpected(n int) []string {
	var out []string
	for s := 0; s < n; s++ {
		out = append(out, row{fmt.Sprintf("k%03d", s), s * 10}.String())
	}
	return out
}

type manyRun struct {
	OK      bool     `json:"ok"`
	Err     string   `json:"err,omitempty"`
	Rows    []string `json:"rows"`
	Calls   int      `json:"calls"`   // calls of the source and of the map function
	Opened  int      `json:"opened"`  // distinct shard files opened
	Creates int      `json:"creates"` // files created
	Tries   int      `json:"tries"`
	Hang    bool     `json:"hang,omitempty"`
}

type manyObs struct {
	N     int       `json:"n"`
	Cold  manyRun   `json:"cold"`
	Files int       `json:"files"` // files the cold run left
	Runs  []manyRun `json:"runs"`
}

func manyOnce(op, kind string, n int, vol *vfs.FS) manyRun {
	tag := int(nextTag())
	var (
		sess *exec.Session
		sys  *vsys.System
	)
	if kind == "local" {
		sess = exec.Start(exec.Local, exec.Parallelism(8))
	} else {
		sys = vsys.New(2)
		sess = exec.Start(exec.Bigmachine(sys), exec.Parallelism(4))
	}
	type out struct {
		rows []string
		err  error
	}
	done := make(chan out, 1)
	go func() {
		ctx := context.Background()
		res, err := sess.Run(ctx, fMany, tag, op, vol.Prefix()+cacheRel, n)
		if err != nil {
			done <- out{nil, err}
			return
		}
		sc := res.Scanner()
		var (
			k    string
			v    int
			rows = []string{}
		)
		for sc.Scan(ctx, &k, &v) {
			rows = append(rows, row{k, v}.String())
		}
		err = sc.Err()
		sc.Close()
		done <- out{rows, err}
	}()
	var mr manyRun
	select {
	case o := <-done:
		mr.Rows = o.rows
		if o.err != nil {
			mr.Err = o.err.Error()
			if len(mr.Err) > 400 {
				mr.Err = mr.Err[:400] + "..."
			}
		} else {
			mr.OK = true
		}
	case <-time.After(hangAfter):
		mr.Hang = true
		return mr
	}
	counts := takeCounts(tag)
	dropCounts(tag)
	mr.Calls = counts["msrc"] + counts["mmap"]
	opened := map[string]bool{}
	for _, l := range vol.Log() {
		op, rest, _ := strings.Cut(l, ":")
		path := rest[:strings.LastIndexByte(rest, '#')]
		switch op {
		case "Open":
			opened[path] = true
		case "Create":
			mr.Creates++
		}
	}
	mr.Opened = len(opened)
	if sys != nil {
		for _, h := range sys.Hosts() {
			sys.Kill(h)
		}
	} else {
		sess.Shutdown()
	}
	return mr
}

// runMany: a cold run populates the cache (local executor), then j.ManyRuns runs of
// the program (Cache or ReadCache) on j.Exec, each in a fresh session on a fresh copy
// of the files. A run that fails is repeated up to 3 times (see job.Tries).
func runMany(j *job) *result {
	res := &result{ID: j.ID, Attempts: 1}
	mo := &manyObs{N: j.Many}
	res.Many = mo
	volA := newVol()
	mo.Cold = manyOnce("cache", "local", j.Many, volA)
	if mo.Cold.Hang {
		res.Hang = true
		return res
	}
	snap := volA.Files()
	volA.Reset()
	mo.Files = len(snap)
	if !mo.Cold.OK || mo.Files != j.Many {
		return res
	}
	for i := 0; i < j.ManyRuns; i++ {
		var mr manyRun
		for try := 1; try <= 3; try++ {
			vol := newVol()
			for rel, b := range snap {
				vol.Put(rel, b)
			}
			mr = manyOnce(j.Prog.Op, j.Exec, j.Many, vol)
			vol.Reset()
			mr.Tries = try
			if mr.Hang {
				res.Hang = true
				return res
			}
			if mr.OK {
				break
			}
			res.Flaky = append(res.Flaky, mr.Err)
		}
		mo.Runs = append(mo.Runs, mr)
	}
	return res
}

// ---- parent side -------------------------------------------------------------------

const manyShards = 64

func (c *checker) manyPhase() {
	c.phase = "many-shards"
	k := 6
	if c.r.Thorough() {
		k = 25
	}
	var jobs []*job
	for _, op := range []string{"cache", "read"} {
		for _, kind := range executors {
			c.nextID++
			jobs = append(jobs, &job{ID: c.nextID, Prog: prog{Shape: "many", Op: op}, Exec: kind, Many: manyShards, ManyRuns: k})
		}
	}
	// these children get all the cores: the probes of NewFileShardCache are what matters
	childProcs = "16"
	defer func() { childProcs = "2" }()
	exp := manyExpected(manyShards)
	c.runJobs(jobs, func(j *job, res *result) {
		name := fmt.Sprintf("%s-many%d", j.Prog.Op, manyShards)
		if res.Hang || res.Many == nil {
			c.r.Machinery(fmt.Sprintf("many-shard case %s/%s did not return", name, j.Exec))
			return
		}
		mo := res.Many
		if !mo.Cold.OK || mo.Files != manyShards || !sameSeq(mo.Cold.Rows, exp) {
			c.r.Violate(fmt.Sprintf("C13/%s/%s/cold-run", name, j.Exec),
				fmt.Sprintf("%s: the first run (no files) of the %d-shard program: ok=%v err=%q rows=%v, %d files left", name, manyShards, mo.Cold.OK, mo.Cold.Err, mo.Cold.Rows, mo.Files), mo)
			return
		}
		for i, mr := range mo.Runs {
			c.cases++
			c.mech["runs:many-shards:"+j.Exec]++
			detail := map[string]interface{}{"program": name, "executor": j.Exec, "run": i, "obs": mr}
			switch {
			case !mr.OK:
				c.r.Violate(fmt.Sprintf("C13/%s/%s/fault-free-run-fails/files=all", name, j.Exec),
					fmt.Sprintf("%s/%s: run %d over the complete cache (%d files, no fault) failed in each of %d attempts: %s", name, j.Exec, i, manyShards, mr.Tries, mr.Err), detail)
			case !sameSeq(mr.Rows, exp):
				c.r.Violate(fmt.Sprintf("C13/%s/%s/wrong-rows", name, j.Exec),
					fmt.Sprintf("%s/%s: run %d over the complete cache yields %v, the uncached program %v", name, j.Exec, i, mr.Rows, exp), detail)
			case mr.Calls > 0 || mr.Creates > 0 || mr.Opened != manyShards:
				c.r.Violate(fmt.Sprintf("C13/%s/%s/complete-cache-not-used", name, j.Exec),
					fmt.Sprintf("%s/%s: all %d shard files exist, yet run %d called upstream user functions %d times, created %d files and opened %d of the %d shard files",
						name, j.Exec, manyShards, i, mr.Calls, mr.Creates, mr.Opened, manyShards), detail)
			default:
				c.mech["many-shard runs that read all 64 shards from their files"]++
			}
			if mr.OK && mr.Tries > 1 {
				c.mech["fault-free runs that failed once and succeeded when repeated"]++
			}
		}
		c.outcomes.Add(fmt.Sprintf("many: %s runs=%d", name, len(mo.Runs)))
	})
}

// racePassCov drives the -race sibling (see racePass): quick 25, thorough 400 probes per
// (shard count, path, GOMAXPROCS).
func (c *checker) racePassCov() map[string]interface{} {
	n := "25"
	if c.r.Thorough() {
		n = "400"
	}
	return ev.RunRacePass(c.r, "c13-race", []string{"-racepass", n}, []string{"2", "4", "16"}, "C13")
}

// ---- race flavour: c13-race -racepass N --------------------------------------------------

var raceShardCounts = []int{1, 2, 8, 64, 256}

func racePass(n int) {
	ctx := context.Background()
	fails := map[string]int{}
	runs := 0
	typ := slicetype.New(reflect.TypeOf(""), reflect.TypeOf(0))
	for _, ns := range raceShardCounts {
		vol := vfs.New(fmt.Sprintf("c13race%d", ns))
		prefix := vol.Prefix() + cacheRel
		for s := 0; s < ns; s++ {
			vol.Put(bigslice.VerifC13Path(prefix, s, ns), []byte("x"))
		}
		data := make([]int, ns)
		check := func(path string, view []bool) {
			runs++
			miss := 0
			for _, b := range view {
				if !b {
					miss++
				}
			}
			if len(view) != ns || miss > 0 {
				fails["complete-cache-seen-incomplete"]++
				fails[fmt.Sprintf("complete-cache-seen-incomplete/%s/%d-shards", path, ns)]++
			}
		}
		for i := 0; i < n; i++ {
			check("NewFileShardCache+RequireAllCached", bigslice.VerifC13Probe(ctx, prefix, ns, true))
			check("NewFileShardCache", bigslice.VerifC13Probe(ctx, prefix, ns, false))
			check("Cache", bigslice.VerifC13CachedShards(bigslice.Cache(ctx, bigslice.Const(ns, data), prefix)))
			check("CachePartial", bigslice.VerifC13CachedShards(bigslice.CachePartial(ctx, bigslice.Const(ns, data), prefix)))
			check("ReadCache", bigslice.VerifC13CachedShards(bigslice.ReadCache(ctx, typ, ns, prefix)))
		}
	}
	// only the summary key is turned into a signature by ev.RunRacePass; keep the detail
	// in a second line for humans
	sum := map[string]int{}
	if k := fails["complete-cache-seen-incomplete"]; k > 0 {
		sum["complete-cache-seen-incomplete"] = k
	}
	b, _ := json.Marshal(map[string]interface{}{"runs": runs, "fails": sum})
	var keys []string
	for k := range fails {
		keys = append(keys, fmt.Sprintf("%s=%d", k, fails[k]))
	}
	sort.Strings(keys)
	fmt.Printf("RACEPASS-DETAIL %s\n", strings.Join(keys, " "))
	fmt.Printf("RACEPASS %s\n", b)
}
