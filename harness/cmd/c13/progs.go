package main

// The programs of C13 (one bigslice.Func, behaviour selected by arguments), the
// process-global call-count table of their user functions, and the boring reference
// model: what rows each program yields and which rows each shard of the cached slice
// holds.

import (
	"context"
	"errors"
	"fmt"
	"reflect"
	"sort"
	"strconv"
	"strings"
	"sync"

	"github.com/grailbio/bigslice"
	"github.com/grailbio/bigslice/sliceio"
	"github.com/grailbio/bigslice/slicetype"
)

const nShard = 3

type row struct {
	K string
	V int
}

func (r row) String() string { return fmt.Sprintf("%s=%d", r.K, r.V) }

// datasets[d][shard] = the rows the source emits for that shard. Values are unique
// within a data set, so a value identifies its source shard. The internal vector size
// is set to 2 (it must be a power of two for the combiner's hash table), so shards of
// 5 / 3 / 2 / 1 / 0 rows are several vectors, a vector and a half, exactly one vector,
// less than one, none.
var datasets = [][][]row{
	{
		{{"a", 1}, {"b", 2}, {"c", 3}, {"a", 4}, {"c", 5}},
		{{"b", 6}, {"d", 7}},
		{{"a", 8}},
	},
	{
		{{"a", 1}, {"b", 2}},
		{},
		{{"b", 3}, {"e", 4}, {"a", 5}},
	},
}

// headN is not a multiple of the vector size: Head stops inside a vector.
const headN = 3

// genOffset: see fProg.
const genOffset = 1000

// ---- call counts -----------------------------------------------------------------

var (
	callMu sync.Mutex
	calls  = map[int]map[string]int{}
)

// count records one invocation of a user function. tag identifies the run (it is an
// argument of the Func, so closures made on in-process workers carry the same tag).
func count(tag int, key string) {
	callMu.Lock()
	m := calls[tag]
	if m == nil {
		m = map[string]int{}
		calls[tag] = m
	}
	m[key]++
	callMu.Unlock()
}

func takeCounts(tag int) map[string]int {
	callMu.Lock()
	defer callMu.Unlock()
	out := map[string]int{}
	for k, v := range calls[tag] {
		out[k] = v
	}
	return out
}

func dropCounts(tag int) {
	callMu.Lock()
	delete(calls, tag)
	callMu.Unlock()
}

var errUpstream = errors.New("c13: upstream computation failed (deliberately)")

// ---- the Func ------------------------------------------------------------------------

var rowType = slicetype.New(reflect.TypeOf(""), reflect.TypeOf(0))

// fProg builds the program named by (shape, op) over data set data; prefix is the
// cache prefix ("vfs://<volume>/d/p"). op: "cache", "partial", "read" (shapes rc-*),
// "none" (the uncached program).
//
// failShard/failAfter: the source of shard failShard returns an error (every time it is
// asked) once it has emitted failAfter rows -- a failed upstream computation; -1 = never.
//
// gen is the "generation" of the input: the source adds gen*genOffset to every value,
// so that rows computed now can be told from rows found in files written by a run of
// another generation (the keys, and with them the shards, stay the same).
var fProg = bigslice.Func(func(tag int, shape, op, prefix string, data, failShard, failAfter, gen int) bigslice.Slice {
	ctx := context.Background()
	src := bigslice.ReaderFunc(nShard, func(shard int, pos *int, ks []string, vs []int) (int, error) {
		count(tag, fmt.Sprintf("src/%d", shard))
		rows := datasets[data][shard]
		if shard == failShard {
			if *pos >= failAfter {
				count(tag, "srcfail")
				return 0, errUpstream
			}
			rows = rows[:failAfter]
		}
		if *pos >= len(rows) {
			return 0, sliceio.EOF
		}
		n := 0
		for n < len(ks) && *pos < len(rows) {
			ks[n], vs[n] = rows[*pos].K, rows[*pos].V+gen*genOffset
			n++
			*pos++
		}
		return n, nil
	})
	map1 := func(s bigslice.Slice) bigslice.Slice {
		return bigslice.Map(s, func(k string, v int) (string, int) {
			count(tag, "map1/"+strconv.Itoa(v%genOffset)) // by the value of generation 0
			return k, v * 10
		})
	}
	map2 := func(s bigslice.Slice) bigslice.Slice {
		return bigslice.Map(s, func(k string, v int) (string, int) {
			count(tag, "map2")
			return k + "!", v + 1
		})
	}
	map3 := func(s bigslice.Slice) bigslice.Slice {
		return bigslice.Map(s, func(k string, v int) (string, int) {
			count(tag, "map3/"+k)
			return k, v + 3
		})
	}
	reduce := func(s bigslice.Slice) bigslice.Slice {
		return bigslice.Reduce(s, func(a, b int) int {
			count(tag, "comb")
			return a + b
		})
	}
	cache := func(s bigslice.Slice) bigslice.Slice {
		switch op {
		case "cache":
			return bigslice.Cache(ctx, s, prefix)
		case "partial":
			return bigslice.CachePartial(ctx, s, prefix)
		case "none":
			return s
		}
		panic("c13: bad op " + op)
	}
	readCache := func() bigslice.Slice {
		if op == "none" {
			return map1(src)
		}
		return bigslice.ReadCache(ctx, rowType, nShard, prefix)
	}
	switch shape {
	case "head":
		return cache(src)
	case "mid":
		return map2(cache(map1(src)))
	case "presh":
		return reduce(cache(map1(src)))
	case "preshpfx":
		// the cached slice behind a wrapper (Prefixed with the default prefix): same rows,
		// same files, same skipping as "presh"
		return reduce(bigslice.Prefixed(cache(map1(src)), 1))
	case "postsh":
		return cache(map3(reduce(map1(src))))
	case "underhead":
		return bigslice.Head(cache(map1(src)), headN)
	case "rc-head":
		return readCache()
	case "rc-map":
		return map2(readCache())
	case "rc-reduce":
		return reduce(readCache())
	case "rc-underhead":
		return bigslice.Head(readCache(), headN)
	}
	panic("c13: bad shape " + shape)
})

// fConsume is the second computation of a "reuse" history: an identity Map over the
// (discarded) result of fProg.
var fConsume = bigslice.Func(func(tag int, s bigslice.Slice) bigslice.Slice {
	return bigslice.Map(s, func(k string, v int) (string, int) {
		count(tag, "consume")
		return k, v
	})
})

// ---- reference model -------------------------------------------------------------

type prog struct {
	Shape string
	Op    string // cache | partial | read
	Data  int
}

func (p prog) Name() string {
	n := p.Op + "-" + strings.TrimPrefix(p.Shape, "rc-")
	if p.Data != 0 {
		n += fmt.Sprintf("-d%d", p.Data)
	}
	return n
}

func (p prog) reads() bool { return p.Op == "read" }

// ordered reports whether the statement fixes the order of the output rows
// (shuffle-free pipelines: shards in order, in-shard order kept).
func (p prog) ordered() bool {
	switch p.Shape {
	case "presh", "preshpfx", "postsh", "rc-reduce":
		return false
	}
	return true
}

// underHead: the program stops reading the cached slice early.
func (p prog) underHead() bool { return p.Shape == "underhead" || p.Shape == "rc-underhead" }

// postShuffle: the cached slice's shards are shuffle outputs; which key lives in which
// shard is learned (see learnShards) and in-shard order is not fixed.
func (p prog) postShuffle() bool { return p.Shape == "postsh" }

func refMap1(d int) [][]row {
	out := make([][]row, nShard)
	for s, rows := range datasets[d] {
		for _, r := range rows {
			out[s] = append(out[s], row{r.K, r.V * 10})
		}
	}
	return out
}

func refReduce(in [][]row) []row {
	sum := map[string]int{}
	for _, rows := range in {
		for _, r := range rows {
			sum[r.K] += r.V
		}
	}
	var out []row
	for k, v := range sum {
		out = append(out, row{k, v})
	}
	sort.Slice(out, func(i, j int) bool { return out[i].K < out[j].K })
	return out
}

func flatten(in [][]row) []row {
	var out []row
	for _, rows := range in {
		out = append(out, rows...)
	}
	return out
}

func strs(rows []row) []string {
	out := make([]string, len(rows))
	for i, r := range rows {
		out[i] = r.String()
	}
	return out
}

// expectedRows is what the UNCACHED program yields, by the documented meaning of
// ReaderFunc, Map, Reduce and Head.
func expectedRows(p prog) []string {
	m1 := refMap1(p.Data)
	switch p.Shape {
	case "head":
		return strs(flatten(datasets[p.Data]))
	case "mid", "rc-map":
		var out []row
		for _, r := range flatten(m1) {
			out = append(out, row{r.K + "!", r.V + 1})
		}
		return strs(out)
	case "presh", "preshpfx", "rc-reduce":
		return strs(refReduce(m1))
	case "postsh":
		var out []row
		for _, r := range refReduce(m1) {
			out = append(out, row{r.K, r.V + 3})
		}
		return strs(out)
	case "underhead", "rc-underhead":
		var out []row
		for _, rows := range m1 {
			if len(rows) > headN {
				rows = rows[:headN]
			}
			out = append(out, rows...)
		}
		return strs(out)
	case "rc-head":
		return strs(flatten(m1))
	}
	panic("shape")
}

// cachedShardRows is what each shard of the CACHED slice holds. For post-shuffle
// programs the assignment of keys to shards comes from keyShard (learned).
func cachedShardRows(p prog, keyShard map[string]int) [][]string {
	out := make([][]string, nShard)
	switch p.Shape {
	case "head":
		for s, rows := range datasets[p.Data] {
			out[s] = strs(rows)
		}
	case "postsh":
		for _, r := range refReduce(refMap1(p.Data)) {
			s := keyShard[r.K]
			out[s] = append(out[s], row{r.K, r.V + 3}.String())
		}
	default:
		for s, rows := range refMap1(p.Data) {
			out[s] = strs(rows)
		}
	}
	return out
}

// ---- generations -----------------------------------------------------------------
//
// The same model, for inputs of generation gen and for a cached slice whose shards come
// from different generations (a shard read from an old file vs. a shard computed now).

func genData(d, gen int) [][]row {
	out := make([][]row, nShard)
	for s, rows := range datasets[d] {
		for _, r := range rows {
			out[s] = append(out[s], row{r.K, r.V + gen*genOffset})
		}
	}
	return out
}

func map1Of(data [][]row) [][]row {
	out := make([][]row, nShard)
	for s, rows := range data {
		for _, r := range rows {
			out[s] = append(out[s], row{r.K, r.V * 10})
		}
	}
	return out
}

// cachedSliceRows: the rows of every shard of the CACHED slice for inputs of generation
// gen (post-shuffle: keys placed by keyShard; with a nil table everything lands in
// shard 0, which is good enough where only the union matters).
func cachedSliceRows(p prog, keyShard map[string]int, gen int) [][]row {
	data := genData(p.Data, gen)
	switch p.Shape {
	case "head":
		return data
	case "postsh":
		out := make([][]row, nShard)
		for _, r := range refReduce(map1Of(data)) {
			s := keyShard[r.K]
			out[s] = append(out[s], row{r.K, r.V + 3})
		}
		return out
	}
	return map1Of(data)
}

// downstream applies what the program does AFTER the cache operator to the shards of
// the cached slice.
func downstream(p prog, shards [][]row) []string {
	switch p.Shape {
	case "head", "postsh", "rc-head":
		return strs(flatten(shards))
	case "mid", "rc-map":
		var out []row
		for _, r := range flatten(shards) {
			out = append(out, row{r.K + "!", r.V + 1})
		}
		return strs(out)
	case "presh", "preshpfx", "rc-reduce":
		return strs(refReduce(shards))
	case "underhead", "rc-underhead":
		var out []row
		for _, rows := range shards {
			if len(rows) > headN {
				rows = rows[:headN]
			}
			out = append(out, rows...)
		}
		return strs(out)
	}
	panic("shape")
}

// expectedMixed: the rows of the program when shard s of the cached slice is of
// generation gens[s].
func expectedMixed(p prog, keyShard map[string]int, gens []int) []string {
	shards := make([][]row, nShard)
	byGen := map[int][][]row{}
	for s := 0; s < nShard; s++ {
		g := gens[s]
		if byGen[g] == nil {
			byGen[g] = cachedSliceRows(p, keyShard, g)
		}
		shards[s] = byGen[g][s]
	}
	return downstream(p, shards)
}

// srcShardOfValue maps a source value to its source shard.
func srcShardOfValue(d int) map[int]int {
	m := map[int]int{}
	for s, rows := range datasets[d] {
		for _, r := range rows {
			m[r.V] = s
		}
	}
	return m
}

func sameMultiset(a, b []string) bool {
	if len(a) != len(b) {
		return false
	}
	x := append([]string{}, a...)
	y := append([]string{}, b...)
	sort.Strings(x)
	sort.Strings(y)
	for i := range x {
		if x[i] != y[i] {
			return false
		}
	}
	return true
}

func sameSeq(a, b []string) bool {
	if len(a) != len(b) {
		return false
	}
	for i := range a {
		if a[i] != b[i] {
			return false
		}
	}
	return true
}
