package main

// Part (c), child side: one case = one fresh process, one in-process cluster
// (vsys), one forced exit path of (*bigmachineExecutor).Run, then the oracles.

import (
	"context"
	"encoding/json"
	"errors"
	"fmt"
	"io"
	"net/http"
	"os"
	"runtime"
	"strings"
	"sync"
	"sync/atomic"
	"time"

	"github.com/grailbio/bigmachine"
	"github.com/grailbio/bigslice"
	"github.com/grailbio/bigslice/exec"
	"github.com/grailbio/bigslice/sliceio"
	"verifh/vsys"
)

// ---------------------------------------------------------------- gates ----

// The workers of a vsys cluster live in this process, so user functions can
// rendez-vous through process-global gates: that is how "all n tasks run at the
// same time" (hence on n distinct procs) and "this task is still running" are
// forced without any timing assumption.
type gate struct {
	once sync.Once
	ch   chan struct{}
	n    int32
}

var gates sync.Map

func getGate(name string) *gate {
	g, _ := gates.LoadOrStore(name, &gate{ch: make(chan struct{})})
	return g.(*gate)
}

func (g *gate) open() { g.once.Do(func() { close(g.ch) }) }

// arrive blocks until need tasks have arrived at the gate (need > 0) or until the
// gate is opened explicitly (need == 0).
func arrive(name string, need int) {
	g := getGate(name)
	k := atomic.AddInt32(&g.n, 1)
	if need > 0 && int(k) >= need {
		g.open()
	}
	<-g.ch
}

func arrived(name string) int { return int(atomic.LoadInt32(&getGate(name).n)) }

var invokeCount sync.Map

func bump(token string) int {
	v, _ := invokeCount.LoadOrStore(token, new(int32))
	return int(atomic.AddInt32(v.(*int32), 1))
}

// ---------------------------------------------------------------- Funcs ----

// fBarrier: nshard one-row tasks that all wait at a gate. With exclusive, every
// task demands a whole machine.
var fBarrier = bigslice.Func(func(gateName string, nshard, need int, exclusive bool) bigslice.Slice {
	var prags []bigslice.Pragma
	if exclusive {
		prags = append(prags, bigslice.Exclusive)
	}
	return bigslice.ReaderFunc(nshard, func(shard int, st *int, out []int) (int, error) {
		if *st != 0 {
			return 0, sliceio.EOF
		}
		*st = 1
		arrive(gateName, need)
		out[0] = shard
		return 1, nil
	}, prags...)
})

// fMap1: a single task (reader and map are pipelined). mode selects a failure of
// the user code.
var fMap1 = bigslice.Func(func(mode string) bigslice.Slice {
	s := bigslice.ReaderFunc(1, func(shard int, st *int, out []int) (int, error) {
		if mode == "readerr" {
			return 0, errors.New("c14: reader function fails")
		}
		if *st != 0 {
			return 0, sliceio.EOF
		}
		*st = 1
		out[0], out[1], out[2] = 1, 2, 3
		return 3, nil
	})
	return bigslice.Map(s, func(x int) int {
		if mode == "panic" {
			panic("c14: user function fails")
		}
		return x + 1
	})
})

// fReduce: nmap gated map tasks (all run at the same time, so they spread over
// every proc of the cluster) feeding nmap reduce tasks.
var fReduce = bigslice.Func(func(gateName string, nmap int) bigslice.Slice {
	s := bigslice.ReaderFunc(nmap, func(shard int, st *int, k, v []int) (int, error) {
		if *st != 0 {
			return 0, sliceio.EOF
		}
		*st = 1
		arrive(gateName, nmap)
		for i := 0; i < 4; i++ {
			k[i], v[i] = i, 1
		}
		return 4, nil
	})
	return bigslice.Reduce(s, func(a, b int) int { return a + b })
})

// fCompilePanic: the Func body succeeds the first time it is invoked for a token
// (on the driver) and panics the second time (Worker.Compile on the machine).
var fCompilePanic = bigslice.Func(func(token string) bigslice.Slice {
	if bump(token) > 1 {
		panic("c14: Func body fails on the worker")
	}
	return bigslice.Const(1, []int{1, 2, 3})
})

type badArg struct{ c chan int }

// fUnencodable: its argument cannot be gob-encoded.
var fUnencodable = bigslice.Func(func(b badArg) bigslice.Slice {
	return bigslice.Const(1, []int{1, 2, 3})
})

// fUse consumes the result of an earlier invocation.
var fUse = bigslice.Func(func(s bigslice.Slice) bigslice.Slice {
	return bigslice.Map(s, func(x int) int { return x + 1 })
})

// fProcs: one task that carries bigslice.Procs(k) or bigslice.Exclusive.
var fProcs = bigslice.Func(func(k int, exclusive bool) bigslice.Slice {
	prag := bigslice.Procs(k)
	if exclusive {
		prag = bigslice.Exclusive
	}
	return bigslice.ReaderFunc(1, func(shard int, st *int, out []int) (int, error) {
		if *st != 0 {
			return 0, sliceio.EOF
		}
		*st = 1
		out[0] = shard
		return 1, nil
	}, prag)
})

// burst: n ordinary one-proc tasks whose user function counts how many of them
// are inside user code at once and stays there until the harness hands it a token.
type burst struct {
	entered, cur, peak int32
	tokens             chan struct{}
}

var bursts sync.Map

func getBurst(name string) *burst {
	b, _ := bursts.LoadOrStore(name, &burst{tokens: make(chan struct{}, 1<<16)})
	return b.(*burst)
}

var fBurst = bigslice.Func(func(name string, n int) bigslice.Slice {
	return bigslice.ReaderFunc(n, func(shard int, st *int, out []int) (int, error) {
		if *st != 0 {
			return 0, sliceio.EOF
		}
		*st = 1
		b := getBurst(name)
		c := atomic.AddInt32(&b.cur, 1)
		for {
			p := atomic.LoadInt32(&b.peak)
			if c <= p || atomic.CompareAndSwapInt32(&b.peak, p, c) {
				break
			}
		}
		atomic.AddInt32(&b.entered, 1)
		<-b.tokens
		atomic.AddInt32(&b.cur, -1)
		out[0] = shard
		return 1, nil
	})
})

// ----------------------------------------------------------- interposer ----

// rule: what to do to the nth call (since arming) of Method.
type rule struct {
	Method string `json:"method"`
	Nth    int    `json:"nth"`
	// Action:
	//   neterr       transport error for this call, machine stays alive (retried by RetryCall)
	//   http500      the call is answered "500" by the transport; handler not run, machine alive
	//   kill-before  callee dies before the request arrives
	//   kill-after   handler runs, callee dies, reply lost
	Action string `json:"action"`
	// CalleeIdle: fire only if the manager has no procs assigned on the callee
	// (i.e. the callee is not the machine that runs the calling task).
	CalleeIdle bool `json:"callee_idle,omitempty"`
}

func (r *rule) String() string {
	if r == nil {
		return "none"
	}
	s := fmt.Sprintf("%s#%d:%s", r.Method, r.Nth, r.Action)
	if r.CalleeIdle {
		s += "(callee-idle)"
	}
	return s
}

// isys wraps the in-process cluster: every RPC passes through RoundTrip.
type isys struct {
	*vsys.System

	mu        sync.Mutex
	armed     bool
	rule      *rule
	fired     bool
	firedHost string
	count     map[string]int
	calls     []string
	inflight  int32 // driver→worker Compile / Run / CommitCombiner in flight
	sess      *exec.Session
	obs       *observer
	// forbid: hosts that must not receive Worker.Compile/Run any more, with the reason.
	forbid     map[string]string
	forbidHits []string
	// Worker.Run RPCs in flight per host (= tasks holding procs of that machine), and the peak.
	runNow, runPeak map[string]int
}

func (s *isys) HTTPClient() *http.Client { return &http.Client{Transport: s} }

// KeepaliveConfig: vsys declares a machine dead after 60ms without a keepalive
// reply, which a loaded host produces spuriously (goroutines are not scheduled
// for that long). Here a machine is dead after 3s of failed keepalives: kills are
// noticed later, nothing else changes.
func (s *isys) KeepaliveConfig() (period, timeout, rpcTimeout time.Duration) {
	return 100 * time.Millisecond, 3 * time.Second, 1500 * time.Millisecond
}

func driverMethod(m string) bool {
	return m == "Worker.Run" || m == "Worker.Compile" || m == "Worker.CommitCombiner"
}

func (s *isys) arm(r *rule) {
	s.mu.Lock()
	s.armed, s.rule, s.fired, s.firedHost = true, r, false, ""
	s.count = map[string]int{}
	s.mu.Unlock()
}

func (s *isys) RoundTrip(req *http.Request) (*http.Response, error) {
	host := req.URL.Host
	method := strings.TrimPrefix(req.URL.Path, bigmachine.RpcPrefix)
	action := ""
	s.mu.Lock()
	if strings.HasPrefix(method, "Worker.") && method != "Worker.Stats" && method != "Worker.TaskStats" && method != "Worker.FuncLocations" {
		if s.armed {
			s.count[method]++
			if r := s.rule; r != nil && !s.fired && r.Method == method && (r.CalleeIdle || s.count[method] == r.Nth) {
				ok := true
				if r.CalleeIdle {
					ok = false
					if s.sess != nil {
						for _, v := range exec.VerifC14Machines(s.sess) {
							if strings.Contains(v.Addr, host) && v.TaskProcs == 0 {
								ok = true
							}
						}
					}
				}
				if ok {
					s.fired, s.firedHost, action = true, host, r.Action
				}
			}
		}
		if s.armed && len(s.calls) < 400 {
			c := method + "@" + host
			if action != "" {
				c += "!" + action
			}
			s.calls = append(s.calls, c)
		}
		if why, bad := s.forbid[host]; bad && (method == "Worker.Run" || method == "Worker.Compile") {
			s.forbidHits = append(s.forbidHits, method+"@"+host+" ("+why+")")
		}
	}
	obs := s.obs
	s.mu.Unlock()
	if driverMethod(method) {
		atomic.AddInt32(&s.inflight, 1)
		defer atomic.AddInt32(&s.inflight, -1)
	}
	if method == "Worker.Run" {
		s.mu.Lock()
		s.runNow[host]++
		if s.runNow[host] > s.runPeak[host] {
			s.runPeak[host] = s.runNow[host]
		}
		s.mu.Unlock()
		defer func() {
			s.mu.Lock()
			s.runNow[host]--
			s.mu.Unlock()
		}()
	}
	if obs != nil {
		obs.sample("before " + method)
		defer obs.sample("after " + method)
	}
	switch action {
	case "neterr":
		return nil, fmt.Errorf("dial %s: injected transport error (c14)", host)
	case "http500":
		if req.Body != nil {
			io.Copy(io.Discard, req.Body)
			req.Body.Close()
		}
		return &http.Response{
			Status: "500 Internal Server Error", StatusCode: 500, Proto: "HTTP/1.1", ProtoMajor: 1, ProtoMinor: 1,
			Header: http.Header{"Content-Type": []string{"text/plain"}},
			Body:   io.NopCloser(strings.NewReader("injected by the transport (c14)")), Request: req,
		}, nil
	case "kill-before":
		s.System.Kill(host)
	}
	resp, err := s.System.RoundTrip(req)
	if action == "kill-after" {
		s.System.Kill(host)
		if resp != nil && resp.Body != nil {
			resp.Body.Close()
		}
		return nil, fmt.Errorf("read %s: connection reset (c14)", host)
	}
	return resp, err
}

// observer samples the manager's books; bounds are checked on every sample.
type observer struct {
	sess *exec.Session
	mu   sync.Mutex
	n    int
	bad  map[string]string // oracle -> first detail
	peak map[string]int
}

func (o *observer) sample(where string) {
	views := exec.VerifC14Machines(o.sess)
	o.mu.Lock()
	defer o.mu.Unlock()
	o.n++
	for _, v := range views {
		if v.TaskProcs > o.peak[v.Addr] {
			o.peak[v.Addr] = v.TaskProcs
		}
		if v.TaskProcs < 0 {
			if _, ok := o.bad["taskprocs-negative"]; !ok {
				o.bad["taskprocs-negative"] = fmt.Sprintf("%s: %+v", where, v)
			}
		}
		if v.TaskProcs > v.MaxTaskProcs {
			if _, ok := o.bad["taskprocs-above-capacity"]; !ok {
				o.bad["taskprocs-above-capacity"] = fmt.Sprintf("%s: %+v", where, v)
			}
		}
		if v.Health == "invalid" {
			o.bad["invalid-health"] = fmt.Sprintf("%s: %+v", where, v)
		}
	}
}

// ----------------------------------------------------------------- cases ----

type ccase struct {
	ID       int     `json:"id"`
	Kind     string  `json:"kind"` // named | sweep | discover
	Cluster  int     `json:"machines"`
	P        int     `json:"procs_per_machine"`
	MaxLoad  float64 `json:"max_load"`
	Extra    int     `json:"extra_machines"` // replacements the system may start
	Combiner bool    `json:"machine_combiners"`
	Scenario string  `json:"scenario"`
	// scenario "procs": the task carries bigslice.Procs(K), or bigslice.Exclusive.
	K    int   `json:"k,omitempty"`
	Excl bool  `json:"exclusive,omitempty"`
	Rule *rule `json:"rule,omitempty"`
}

func (c ccase) Name() string {
	comb := ""
	if c.Combiner {
		comb = "+combiners"
	}
	scen := c.Scenario
	if scen == "procs" {
		if c.Excl {
			scen = "procs=Exclusive"
		} else {
			scen = fmt.Sprintf("procs=Procs(%d)", c.K)
		}
	}
	return fmt.Sprintf("%dm×%dp(load %.2g)%s/%s/%s", c.Cluster, c.P, c.MaxLoad, comb, scen, c.Rule.String())
}

type cres struct {
	ID        int    `json:"id"`
	Name      string `json:"name"`
	Fired     bool   `json:"fired"`
	FiredHost string `json:"fired_host,omitempty"`
	RunErr    string `json:"run_err,omitempty"`
	RunHung   bool   `json:"run_hung,omitempty"`
	Path      string `json:"exit_path"`
	MachProcs int    `json:"machprocs"`
	// manager's books when the wait for quiescence ended
	Quiescent  bool                `json:"quiescent"`
	Views      []exec.VerifC14Mach `json:"machines_at_quiescence"`
	Queued     []int               `json:"queued_requests_at_quiescence"`
	ProbeRan   bool                `json:"probe_ran"`
	ProbeOK    bool                `json:"probe_ok"`
	ProbeHung  bool                `json:"probe_hung,omitempty"`
	ProbeErr   string              `json:"probe_err,omitempty"`
	ProbeMs    int64               `json:"probe_ms"`
	FinalViews []exec.VerifC14Mach `json:"machines_at_end"`
	FinalQueue []int               `json:"queued_requests_at_end"`
	Samples    int                 `json:"samples"`
	Peak       map[string]int      `json:"peak_taskprocs"`
	RunPeak    map[string]int      `json:"peak_worker_run_in_flight"`
	BurstPeak  int                 `json:"burst_peak_in_user_code,omitempty"`
	BurstWaves int                 `json:"burst_waves,omitempty"`
	Bad        map[string]string   `json:"bound_violations,omitempty"`
	// Violations: oracle id -> detail.
	Violations map[string]string `json:"violations,omitempty"`
	Calls      []string          `json:"calls"`
	Notes      []string          `json:"notes,omitempty"`
	Ms         int64             `json:"ms"`
	Dump       string            `json:"dump,omitempty"`
	// Vacuous: the scenario did not get into the situation it is about.
	Vacuous string `json:"vacuous,omitempty"`
	// Inconclusive: the oracles could not be evaluated (reason).
	Inconclusive string `json:"inconclusive,omitempty"`
}

var (
	runWatchdog       = 90 * time.Second
	quiesceWait       = 6 * time.Second
	probeWatchdog     = 60 * time.Second
	probeWatchdogLeak = 6 * time.Second
)

func classify(err error, fired bool, r *rule) string {
	if err == nil {
		if fired && r != nil {
			if r.Action == "neterr" {
				return "rpc-retried-ok"
			}
			return "task-lost-or-rpc-failed-then-ok"
		}
		return "ok"
	}
	s := err.Error()
	switch {
	case strings.Contains(s, "failed to commit combiner"):
		return "commit-combiner-error"
	case strings.Contains(s, "failed to compile invocation"):
		return "compile-error"
	case strings.Contains(s, "has no location"):
		return "missing-dep-location"
	case strings.Contains(s, "error serializing invocation"):
		return "invocation-unencodable"
	case strings.Contains(s, "context canceled"):
		return "run-context-cancelled"
	case strings.Contains(s, "consecutive attempts"):
		return "task-lost-too-often"
	}
	return "task-fatal-error"
}

func sumProcs(vs []exec.VerifC14Mach) (sum int, anyNonZero bool) {
	for _, v := range vs {
		sum += v.TaskProcs
		if v.TaskProcs != 0 {
			anyNonZero = true
		}
	}
	return
}

func sumInts(xs []int) int {
	n := 0
	for _, x := range xs {
		n += x
	}
	return n
}

type runOut struct {
	res *exec.Result
	err error
}

func stackDump() string {
	buf := make([]byte, 1<<20)
	return string(buf[:runtime.Stack(buf, true)])
}

func runCase(c ccase) (out cres) {
	t0 := time.Now()
	out = cres{ID: c.ID, Name: c.Name(), Violations: map[string]string{}}
	defer func() { out.Ms = time.Since(t0).Milliseconds() }()
	viol := func(oracle, detail string) {
		if _, ok := out.Violations[oracle]; !ok {
			out.Violations[oracle] = detail
		}
	}
	exec.ProbationTimeout = 300 * time.Millisecond
	if c.Scenario == "probation" {
		exec.ProbationTimeout = time.Hour
	}
	inner := vsys.New(c.P)
	inner.MaxMachines = c.Cluster + c.Extra
	sys := &isys{System: inner, forbid: map[string]string{}, runNow: map[string]int{}, runPeak: map[string]int{}}
	mp := int(float64(c.P) * c.MaxLoad) // the manager's machprocs
	if mp < 1 {
		mp = 1
	}
	total := c.Cluster * mp
	opts := []exec.Option{exec.Bigmachine(sys), exec.Parallelism(total), exec.MaxLoad(c.MaxLoad)}
	if c.Combiner {
		opts = append(opts, exec.MachineCombiners)
	}
	sess := exec.Start(opts...)
	obs := &observer{sess: sess, bad: map[string]string{}, peak: map[string]int{}}
	sys.mu.Lock()
	sys.sess, sys.obs = sess, obs
	sys.mu.Unlock()
	stopSampler := make(chan struct{})
	go func() {
		for {
			select {
			case <-stopSampler:
				return
			case <-time.After(2 * time.Millisecond):
				obs.sample("sampler")
			}
		}
	}()
	defer close(stopSampler)
	bg := context.Background()
	gname := func(s string) string { return fmt.Sprintf("%s-%d", s, c.ID) }

	runAsync := func(ctx context.Context, f *bigslice.FuncValue, args ...interface{}) chan runOut {
		ch := make(chan runOut, 1)
		go func() {
			res, err := sess.Run(ctx, f, args...)
			ch <- runOut{res, err}
		}()
		return ch
	}
	wait := func(ch chan runOut, d time.Duration) (runOut, bool) {
		select {
		case o := <-ch:
			return o, true
		case <-time.After(d):
			return runOut{}, false
		}
	}

	// Phase 0: warm-up. total one-proc tasks that wait for each other: every proc
	// of every machine is in use at once, so all machines boot, and each becomes
	// visible to the accessor (a task completed on it).
	wo, ok := wait(runAsync(bg, fBarrier, gname("warm"), total, total, false), runWatchdog)
	if !ok || wo.err != nil {
		out.Vacuous = fmt.Sprintf("warm-up did not complete (hung=%v err=%v)", !ok, wo.err)
		if !ok {
			out.Dump = stackDump()
		}
		return
	}
	out.MachProcs = exec.VerifC14MachProcs(sess)
	machTasks := out.MachProcs // procs per machine available to tasks
	if machTasks < 1 {
		out.Vacuous = "no manager"
		return
	}
	nMach := (total + machTasks - 1) / machTasks
	if nMach > c.Cluster {
		nMach = c.Cluster
	}
	if vs := exec.VerifC14Machines(sess); len(vs) != c.Cluster {
		out.Notes = append(out.Notes, fmt.Sprintf("after warm-up the accessor sees %d machines, expected %d", len(vs), c.Cluster))
	}

	// Phase 1: the scenario, with the fault armed.
	sys.arm(c.Rule)
	var (
		runErr  error
		runHung bool
	)
	do := func(f *bigslice.FuncValue, args ...interface{}) *exec.Result {
		o, ok := wait(runAsync(bg, f, args...), runWatchdog)
		if !ok {
			runHung = true
			return nil
		}
		runErr = o.err
		return o.res
	}
	switch c.Scenario {
	case "map1":
		do(fMap1, "ok")
	case "map-panic":
		do(fMap1, "panic")
	case "reader-error":
		do(fMap1, "readerr")
	case "reduce":
		do(fReduce, gname("reduce"), total)
	case "compile-panic":
		do(fCompilePanic, gname("token"))
	case "unencodable":
		do(fUnencodable, badArg{})
	case "missing-location":
		res := do(fMap1, "ok")
		if runErr != nil || runHung || res == nil {
			out.Vacuous = "first invocation failed"
			break
		}
		if n := exec.VerifC14ForgetLocations(sess, res); n == 0 {
			out.Vacuous = "no location entry to delete"
			break
		}
		do(fUse, res)
	case "ctx-cancel-running":
		// The run is cancelled while its only task is inside Worker.Run.
		ctx, cancel := context.WithCancel(bg)
		ch := runAsync(ctx, fBarrier, gname("block"), 1, 0, false)
		deadline := time.Now().Add(runWatchdog)
		for arrived(gname("block")) == 0 && time.Now().Before(deadline) {
			time.Sleep(time.Millisecond)
		}
		if arrived(gname("block")) == 0 {
			out.Vacuous = "task never started"
			cancel()
			break
		}
		cancel()
		o, ok := wait(ch, runWatchdog)
		if !ok {
			runHung = true
		}
		runErr = o.err
		// the task still holds its proc
		if vs := exec.VerifC14Machines(sess); len(vs) > 0 {
			if s, _ := sumProcs(vs); s != 1 {
				out.Notes = append(out.Notes, fmt.Sprintf("while the cancelled task is still running the books show %d procs in use", s))
			}
		}
		getGate(gname("block")).open()
	case "ctx-cancel-waiting":
		// An exclusive task per machine holds every proc; a second run queues a request
		// and is cancelled while waiting for a machine.
		hold := runAsync(bg, fBarrier, gname("hold"), nMach, 0, true)
		deadline := time.Now().Add(runWatchdog)
		for arrived(gname("hold")) < nMach && time.Now().Before(deadline) {
			time.Sleep(time.Millisecond)
		}
		if arrived(gname("hold")) < nMach {
			out.Vacuous = "holding tasks never started"
			getGate(gname("hold")).open()
			break
		}
		ctx, cancel := context.WithCancel(bg)
		ch := runAsync(ctx, fMap1, "ok")
		for sumInts(exec.VerifC14Queued(sess)) == 0 && time.Now().Before(deadline) {
			time.Sleep(time.Millisecond)
		}
		if sumInts(exec.VerifC14Queued(sess)) == 0 {
			out.Vacuous = "second run never queued a request"
		}
		cancel()
		o, ok := wait(ch, runWatchdog)
		if !ok {
			runHung = true
		}
		runErr = o.err
		getGate(gname("hold")).open()
		if ho, ok := wait(hold, runWatchdog); !ok || ho.err != nil {
			out.Notes = append(out.Notes, fmt.Sprintf("holding run: hung=%v err=%v", !ok, ho.err))
		}
	case "probation", "stopped":
		do(fMap1, "ok")
	case "procs":
		do(fProcs, c.K, c.Excl)
	default:
		out.Vacuous = "unknown scenario " + c.Scenario
	}
	// The fault window ends with the scenario; tasks of a failed run that still
	// wait at the scenario's gate are let go.
	sys.mu.Lock()
	out.Fired, out.FiredHost = sys.fired, sys.firedHost
	sys.armed = false
	sys.mu.Unlock()
	getGate(gname("reduce")).open()
	if runErr != nil {
		out.RunErr = runErr.Error()
		if len(out.RunErr) > 600 {
			out.RunErr = out.RunErr[:600]
		}
	}
	out.RunHung = runHung
	out.Path = classify(runErr, out.Fired, c.Rule)
	if c.Scenario == "procs" && runErr == nil {
		switch {
		case c.Excl:
			out.Path = "ok/exclusive-pragma"
		case c.K > mp:
			out.Path = "ok/procs-pragma-above-capacity"
		default:
			out.Path = "ok/procs-pragma-within-capacity"
		}
	}
	if runHung {
		out.Path = "run-hung"
	}

	// Phase 2: quiescence. No Compile/Run/CommitCombiner in flight; then the books
	// must return to zero procs in use and no queued request.
	deadline := time.Now().Add(quiesceWait)
	for {
		vs := exec.VerifC14Machines(sess)
		q := exec.VerifC14Queued(sess)
		_, nz := sumProcs(vs)
		idle := atomic.LoadInt32(&sys.inflight) == 0
		if idle && !nz && sumInts(q) == 0 {
			out.Quiescent = true
		}
		out.Views, out.Queued = vs, q
		if out.Quiescent || time.Now().After(deadline) {
			break
		}
		time.Sleep(2 * time.Millisecond)
	}
	leak := false
	if !out.Quiescent {
		if n := atomic.LoadInt32(&sys.inflight); n != 0 {
			// A task is still being compiled / run / committed somewhere: its procs
			// are legitimately in use. Nothing can be said about conservation.
			out.Inconclusive = fmt.Sprintf("%d Compile/Run/CommitCombiner RPCs still in flight %v after the run ended", n, quiesceWait)
		} else {
			if _, nz := sumProcs(out.Views); nz {
				leak = true
				viol("procs-not-returned", fmt.Sprintf("no Compile/Run/CommitCombiner RPC in flight, %v after the run ended (%s), yet the manager still counts procs in use: %+v", quiesceWait, out.Path, out.Views))
			}
			// A request may wait as long as no machine can take it. It is only "not
			// served" if the run has ended (a hung run is still waiting, by definition),
			// no procs are leaked, and a healthy, live, completely idle machine exists:
			// every request fits on such a machine.
			idleOK := false
			for _, v := range out.Views {
				if v.Health == "ok" && !v.Lost && v.TaskProcs == 0 {
					idleOK = true
				}
			}
			if sumInts(out.Queued) != 0 && !runHung && !leak && idleOK {
				viol("request-not-served-or-removed", fmt.Sprintf("scheduling requests still queued %v after the run ended, no RPC in flight, an idle healthy machine exists: %v; machines %+v", quiesceWait, out.Queued, out.Views))
			}
		}
	}
	if runHung || out.Inconclusive != "" {
		out.Dump = stackDump()
		finishObs(&out, obs, sys, viol)
		return
	}

	// Scenario-specific clauses about who gets new work.
	lostAgain := "" // "stopped": a later task was lost over and over although every remaining machine is alive
	switch c.Scenario {
	case "probation":
		// The machine that answered 500 must now be on probation (timeout 1h) and
		// must not be given any task until then.
		var onProb string
		for _, v := range exec.VerifC14Machines(sess) {
			if v.Health == "probation" {
				onProb = v.Addr
			}
		}
		if !out.Fired || onProb == "" || !strings.Contains(onProb, out.FiredHost) {
			out.Vacuous = fmt.Sprintf("no machine on probation (fired=%v host=%q, probation=%q)", out.Fired, out.FiredHost, onProb)
			break
		}
		sys.mu.Lock()
		sys.forbid[out.FiredHost] = "on probation"
		sys.mu.Unlock()
		for i := 0; i < 4; i++ {
			o, ok := wait(runAsync(bg, fMap1, "ok"), runWatchdog)
			if !ok || o.err != nil {
				out.Notes = append(out.Notes, fmt.Sprintf("follow-up run %d: hung=%v err=%v", i, !ok, o.err))
				break
			}
		}
		// two one-proc tasks at the same time must share the healthy machine (P >= 2)
		if machTasks >= 2 {
			if o, ok := wait(runAsync(bg, fBarrier, gname("pair"), 2, 2, false), runWatchdog); !ok || o.err != nil {
				out.Notes = append(out.Notes, fmt.Sprintf("follow-up pair: hung=%v err=%v", !ok, o.err))
			}
		}
		stillProb := false
		for _, v := range exec.VerifC14Machines(sess) {
			if v.Addr == onProb && v.Health == "probation" {
				stillProb = true
			}
		}
		sys.mu.Lock()
		hits := append([]string{}, sys.forbidHits...)
		delete(sys.forbid, out.FiredHost)
		sys.mu.Unlock()
		if len(hits) > 0 && stillProb {
			viol("work-offered-to-machine-on-probation", fmt.Sprintf("%s is on probation (ProbationTimeout 1h) and received %v", onProb, hits))
		}
		// no exclusive probe: with one machine on probation for an hour it would wait, legitimately
		out.FinalViews, out.FinalQueue = exec.VerifC14Machines(sess), exec.VerifC14Queued(sess)
		if _, nz := sumProcs(out.FinalViews); nz {
			viol("procs-not-returned", fmt.Sprintf("at the end: %+v", out.FinalViews))
		}
		finishObs(&out, obs, sys, viol)
		return
	case "stopped":
		// wait until the manager has seen the stop
		lostAddr := ""
		dl := time.Now().Add(quiesceWait)
		for lostAddr == "" && time.Now().Before(dl) {
			for _, v := range exec.VerifC14Machines(sess) {
				if v.Health == "lost" {
					lostAddr = v.Addr
				}
			}
			time.Sleep(2 * time.Millisecond)
		}
		if !out.Fired || lostAddr == "" {
			out.Vacuous = fmt.Sprintf("manager never marked a machine lost (fired=%v)", out.Fired)
			break
		}
		sys.mu.Lock()
		sys.forbid[out.FiredHost] = "stopped"
		sys.mu.Unlock()
		for i := 0; i < 3; i++ {
			o, ok := wait(runAsync(bg, fMap1, "ok"), runWatchdog)
			if !ok || o.err != nil {
				out.Notes = append(out.Notes, fmt.Sprintf("follow-up run %d: hung=%v err=%v", i, !ok, o.err))
				if o.err != nil && strings.Contains(o.err.Error(), "consecutive attempts") {
					lostAgain = o.err.Error()
				}
				break
			}
		}
	}

	// Burst of ordinary one-proc tasks: never more than the machine's task capacity
	// of them inside user code at once. Tasks stay in user code until the harness has
	// seen the manager hand out everything it is willing to (every task has either
	// entered user code or is queued), so the observation does not depend on timing.
	if c.Scenario == "procs" && out.Vacuous == "" {
		name := gname("burst")
		n := 2*total + 1
		b := getBurst(name)
		ch := runAsync(bg, fBurst, name, n)
		released := 0
		dl := time.Now().Add(runWatchdog)
		for released < n && time.Now().Before(dl) {
			e := int(atomic.LoadInt32(&b.entered))
			q := sumInts(exec.VerifC14Queued(sess))
			if e > released && (e+q == n || int(atomic.LoadInt32(&b.cur)) > nMach*machTasks) {
				for i := released; i < e; i++ {
					b.tokens <- struct{}{}
				}
				released = e
				out.BurstWaves++
				continue
			}
			time.Sleep(time.Millisecond)
		}
		for i := 0; i < n; i++ { // never leave a task behind
			b.tokens <- struct{}{}
		}
		bo, ok := wait(ch, runWatchdog)
		out.BurstPeak = int(atomic.LoadInt32(&b.peak))
		switch {
		case released < n || !ok:
			out.Inconclusive = fmt.Sprintf("burst did not complete (released %d of %d, hung=%v); manager: queued %v, machines %+v", released, n, !ok, exec.VerifC14Queued(sess), exec.VerifC14Machines(sess))
		case bo.err != nil:
			out.Notes = append(out.Notes, "burst returned an error: "+bo.err.Error())
		}
		if out.BurstPeak > nMach*machTasks {
			viol("machine-oversubscribed", fmt.Sprintf("after a task with %s: %d one-proc tasks were inside user code at once on %d machine(s) of task capacity %d; machines %+v", c.Name(), out.BurstPeak, nMach, machTasks, exec.VerifC14Machines(sess)))
		}
	}

	// Phase 3: the black-box capacity test. One exclusive task per machine of the
	// cluster, all waiting for each other: it completes iff every machine can still
	// give all its procs to one task.
	if out.Vacuous == "" || c.Scenario == "stopped" {
		wd := probeWatchdog
		if leak {
			wd = probeWatchdogLeak
		}
		tp := time.Now()
		out.ProbeRan = true
		po, ok := wait(runAsync(bg, fBarrier, gname("probe"), nMach, nMach, true), wd)
		out.ProbeMs = time.Since(tp).Milliseconds()
		switch {
		case !ok:
			out.ProbeHung = true
			vs, q := exec.VerifC14Machines(sess), exec.VerifC14Queued(sess)
			viol("exclusive-task-never-granted", fmt.Sprintf("after exit path %s: %d exclusive tasks (one per machine) not all granted within %v; %d arrived; manager: queued %v, machines %+v", out.Path, nMach, wd, arrived(gname("probe")), q, vs))
			getGate(gname("probe")).open()
		case po.err != nil:
			out.ProbeErr = po.err.Error()
			out.Notes = append(out.Notes, "probe returned an error (not a statement about capacity): "+out.ProbeErr)
			if strings.Contains(out.ProbeErr, "consecutive attempts") {
				lostAgain = out.ProbeErr
			}
			getGate(gname("probe")).open() // let go of probe tasks that still wait for the failed one
		default:
			out.ProbeOK = true
		}
	}
	if c.Scenario == "stopped" {
		sys.mu.Lock()
		hits := append([]string{}, sys.forbidHits...)
		sys.mu.Unlock()
		if len(hits) > 0 {
			viol("work-offered-to-stopped-machine", fmt.Sprintf("%s stopped and the manager had marked it lost; afterwards it received %v", out.FiredHost, hits))
		}
		// bigmachine fails calls to a stopped machine without an RPC, so an offer of
		// the stopped machine shows as a task that is lost at once, again and again,
		// although the fault window is closed and all other machines are alive.
		if lostAgain != "" {
			viol("work-offered-to-stopped-machine", fmt.Sprintf("%s stopped, the manager marked it lost, no further fault; a later task was nevertheless lost repeatedly: %s; machines %+v", out.FiredHost, lostAgain, exec.VerifC14Machines(sess)))
		}
	}

	// Phase 4: the books at the end.
	if !out.ProbeHung {
		dl := time.Now().Add(quiesceWait)
		for {
			out.FinalViews, out.FinalQueue = exec.VerifC14Machines(sess), exec.VerifC14Queued(sess)
			_, nz := sumProcs(out.FinalViews)
			inflight := atomic.LoadInt32(&sys.inflight)
			if (!nz && sumInts(out.FinalQueue) == 0 && inflight == 0) || time.Now().After(dl) {
				if nz && inflight != 0 {
					out.Inconclusive = fmt.Sprintf("%d Compile/Run/CommitCombiner RPCs still in flight %v after the probe", inflight, quiesceWait)
				} else if nz {
					viol("procs-not-returned", fmt.Sprintf("at the end of the case (exit path %s, probe done, no RPC in flight): %+v", out.Path, out.FinalViews))
				}
				break
			}
			time.Sleep(2 * time.Millisecond)
		}
	} else {
		out.FinalViews, out.FinalQueue = exec.VerifC14Machines(sess), exec.VerifC14Queued(sess)
	}
	finishObs(&out, obs, sys, viol)
	return
}

func finishObs(out *cres, obs *observer, sys *isys, viol func(string, string)) {
	obs.mu.Lock()
	out.Samples = obs.n
	out.Peak = obs.peak
	for k, v := range obs.bad {
		viol(k, v)
	}
	obs.mu.Unlock()
	sys.mu.Lock()
	out.Calls = append([]string{}, sys.calls...)
	out.RunPeak = map[string]int{}
	for h, p := range sys.runPeak {
		out.RunPeak[h] = p
	}
	sys.mu.Unlock()
	// Every Worker.Run RPC in flight belongs to a task that holds at least one proc
	// of that machine until the RPC returns.
	for h, p := range out.RunPeak {
		if out.MachProcs > 0 && p > out.MachProcs {
			viol("machine-oversubscribed", fmt.Sprintf("%d tasks were inside Worker.Run at once on %s, whose task capacity is %d", p, h, out.MachProcs))
		}
	}
}

func childMain(arg string) {
	if d, err := time.ParseDuration(os.Getenv("C14_RUN_WATCHDOG")); err == nil && d > 0 {
		runWatchdog = d // debugging only
	}
	vsys.Quiet()
	vsys.FastRetries()
	exec.DoShuffleReaders = false
	var c ccase
	if err := json.Unmarshal([]byte(arg), &c); err != nil {
		fmt.Fprintln(os.Stderr, "c14 child:", err)
		os.Exit(2)
	}
	res := runCase(c)
	b, _ := json.Marshal(res)
	fmt.Printf("CASE %s\n", b)
	os.Exit(0)
}
