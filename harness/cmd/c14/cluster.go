package main

import "verifh/ev"

func runCluster(r *ev.Run) (map[string]interface{}, int64, int64) { return map[string]interface{}{}, 0, 0 }
func childMain(s string)                                          {}
