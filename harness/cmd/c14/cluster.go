package main

// Part (c), parent side: the list of cases (named exit paths of
// (*bigmachineExecutor).Run + a sweep of every driver/worker RPC of a reduce
// program × fault kinds), one child process per case, confirmation re-runs, and
// aggregation into violations / coverage.

import (
	"bytes"
	"context"
	"encoding/json"
	"fmt"
	"os"
	osexec "os/exec"
	"sort"
	"strings"
	"sync"
	"time"

	"verifh/ev"
)

func runChild(c ccase) (cres, error) {
	b, _ := json.Marshal(c)
	ctx, cancel := context.WithTimeout(context.Background(), 6*time.Minute)
	defer cancel()
	cmd := osexec.CommandContext(ctx, os.Args[0], "-c14child", string(b))
	cmd.Env = os.Environ()
	var out, errb bytes.Buffer
	cmd.Stdout, cmd.Stderr = &out, &errb
	err := cmd.Run()
	for _, l := range strings.Split(out.String(), "\n") {
		if strings.HasPrefix(l, "CASE ") {
			var r cres
			if e := json.Unmarshal([]byte(l[5:]), &r); e == nil {
				return r, nil
			}
		}
	}
	stderr := errb.String()
	if i := strings.Index(stderr, "panic: "); i >= 0 &&
		(strings.Contains(stderr[i:], "exec.(*machineManager).") || strings.Contains(stderr[i:], "exec.schedule(")) {
		// The machine manager of the real code panicked and took the process down.
		trace := stderr[i:]
		if len(trace) > 1800 {
			trace = trace[:1800]
		}
		return cres{ID: c.ID, Name: c.Name(), Path: "process-crash", Fired: true,
			Violations: map[string]string{"machine-manager-panics": trace}}, nil
	}
	tail := stderr
	if len(tail) > 1500 {
		tail = tail[len(tail)-1500:]
	}
	return cres{ID: c.ID, Name: c.Name()}, fmt.Errorf("child printed no CASE line (%v): %s", err, tail)
}

type shape struct {
	M, P int
	Load float64
}

func namedCases(thorough bool) []ccase {
	var cs []ccase
	add := func(s shape, extra int, comb bool, scen string, r *rule) {
		cs = append(cs, ccase{Kind: "named", Cluster: s.M, P: s.P, MaxLoad: s.Load, Extra: extra, Combiner: comb, Scenario: scen, Rule: r})
	}
	shapes := []shape{{1, 2, 1}, {2, 2, 1}}
	if thorough {
		shapes = append(shapes, shape{1, 1, 1}, shape{1, 3, 1}, shape{1, 4, 0.5}, shape{2, 3, 1}, shape{2, 4, 0.5})
	}
	for _, s := range shapes {
		// Worker.Run: ok / fatal remote error (user code) / transport outcomes
		add(s, 0, false, "map1", nil)
		add(s, 0, false, "map-panic", nil)
		add(s, 0, false, "reader-error", nil)
		add(s, 0, false, "map1", &rule{Method: "Worker.Run", Nth: 1, Action: "neterr"})
		add(s, 0, false, "map1", &rule{Method: "Worker.Run", Nth: 1, Action: "http500"})
		add(s, 1, false, "map1", &rule{Method: "Worker.Run", Nth: 1, Action: "kill-before"})
		add(s, 1, false, "map1", &rule{Method: "Worker.Run", Nth: 1, Action: "kill-after"})
		// Worker.Compile: remote application error / fatal-invalid / transport
		add(s, 0, false, "compile-panic", nil)
		add(s, 0, false, "unencodable", nil)
		add(s, 0, false, "map1", &rule{Method: "Worker.Compile", Nth: 1, Action: "neterr"})
		add(s, 0, false, "map1", &rule{Method: "Worker.Compile", Nth: 1, Action: "http500"})
		add(s, 1, false, "map1", &rule{Method: "Worker.Compile", Nth: 1, Action: "kill-before"})
		add(s, 1, false, "map1", &rule{Method: "Worker.Compile", Nth: 1, Action: "kill-after"})
		// Worker.CommitCombiner
		add(s, 0, true, "reduce", nil)
		add(s, 0, true, "reduce", &rule{Method: "Worker.CommitCombiner", Nth: 1, Action: "neterr"})
		add(s, 0, true, "reduce", &rule{Method: "Worker.CommitCombiner", Nth: 1, Action: "http500"})
		add(s, 1, true, "reduce", &rule{Method: "Worker.CommitCombiner", Nth: 1, Action: "kill-before"})
		// (with M > 1 the reduce tasks run on every machine and each commits on every
		// machine, so the kill above also covers "a machine holding a dependency dies
		// while the task runs on another, surviving machine")
		// proc demand pragmas: Procs(k) below, at, and above the machine's task capacity
		// (clamped), and Exclusive; each followed by a burst of one-proc tasks
		mp := int(float64(s.P) * s.Load)
		if mp < 1 {
			mp = 1
		}
		seenK := map[int]bool{}
		for _, k := range []int{1, mp, mp + 1, 4 * mp} {
			if !seenK[k] {
				seenK[k] = true
				cs = append(cs, ccase{Kind: "named", Cluster: s.M, P: s.P, MaxLoad: s.Load, Scenario: "procs", K: k})
			}
		}
		cs = append(cs, ccase{Kind: "named", Cluster: s.M, P: s.P, MaxLoad: s.Load, Scenario: "procs", Excl: true})
		// missing dependency location (state forced through an accessor)
		add(s, 0, false, "missing-location", nil)
		// cancellation of the run's context
		add(s, 0, false, "ctx-cancel-running", nil)
		add(s, 0, false, "ctx-cancel-waiting", nil)
		if s.M > 1 {
			add(s, 0, false, "probation", &rule{Method: "Worker.Run", Nth: 1, Action: "http500"})
			add(s, 1, false, "stopped", &rule{Method: "Worker.Run", Nth: 1, Action: "kill-before"})
		}
	}
	return cs
}

// sweepCases: for each shape and program, every Worker RPC seen in failure-free
// runs × fault kinds.
func sweepCases(r *ev.Run, thorough bool) (cs []ccase, labels int) {
	shapes := []shape{{2, 2, 1}}
	combs := []bool{true}
	actions := []string{"http500"}
	if thorough {
		shapes = []shape{{1, 2, 1}, {2, 2, 1}}
		combs = []bool{true, false}
		actions = []string{"neterr", "http500", "kill-before", "kill-after"}
	}
	type disc struct {
		s    shape
		comb bool
	}
	var ds []disc
	for _, s := range shapes {
		for _, cb := range combs {
			ds = append(ds, disc{s, cb})
		}
	}
	// two failure-free runs each (which Stat/Read RPCs exist depends on placement)
	counts := make([]map[string]int, len(ds))
	var mu sync.Mutex
	ev.Parallel(len(ds)*2, 8, func(i int) {
		d := ds[i/2]
		res, err := runChild(ccase{ID: 9000 + i, Kind: "discover", Cluster: d.s.M, P: d.s.P, MaxLoad: d.s.Load, Combiner: d.comb, Scenario: "reduce"})
		if err != nil || res.Vacuous != "" || res.RunErr != "" {
			r.NotExhaustive(fmt.Sprintf("sweep discovery run failed for %+v: %v %s %s", d, err, res.Vacuous, res.RunErr))
			return
		}
		m := map[string]int{}
		for _, c := range res.Calls {
			m[strings.SplitN(c, "@", 2)[0]]++
		}
		mu.Lock()
		if counts[i/2] == nil {
			counts[i/2] = map[string]int{}
		}
		for k, v := range m {
			if v > counts[i/2][k] {
				counts[i/2][k] = v
			}
		}
		mu.Unlock()
	})
	for i, d := range ds {
		var methods []string
		for m := range counts[i] {
			methods = append(methods, m)
		}
		sort.Strings(methods)
		for _, m := range methods {
			if !thorough && !driverMethod(m) {
				continue // worker→worker Stat/Read faults: thorough tier
			}
			for n := 1; n <= counts[i][m]; n++ {
				labels++
				for _, a := range actions {
					extra := 0
					if strings.HasPrefix(a, "kill") {
						extra = 1
					}
					cs = append(cs, ccase{Kind: "sweep", Cluster: d.s.M, P: d.s.P, MaxLoad: d.s.Load, Extra: extra, Combiner: d.comb,
						Scenario: "reduce", Rule: &rule{Method: m, Nth: n, Action: a}})
				}
			}
		}
	}
	return cs, labels
}

type sigAgg struct {
	path, oracle string
	cases        []string
	detail       string
	first        cres
}

func runCluster(r *ev.Run) (map[string]interface{}, int64, int64) {
	cases := namedCases(r.Thorough())
	sweep, labels := sweepCases(r, r.Thorough())
	cases = append(cases, sweep...)
	for i := range cases {
		cases[i].ID = i + 1
	}
	results := make([]cres, len(cases))
	errs := make([]error, len(cases))
	// VERIF_SEED only rotates the order in which the (complete) list is visited.
	rot := 0
	if len(cases) > 0 {
		rot = int(uint64(r.Seed) % uint64(len(cases)))
	}
	budget := 4 * time.Minute
	if r.Thorough() {
		budget = 9 * time.Minute
	}
	skipped := make([]bool, len(cases))
	ev.Parallel(len(cases), 8, func(k int) {
		i := (k + rot) % len(cases)
		if r.OverBudget(budget) {
			skipped[i] = true
			return
		}
		results[i], errs[i] = runChild(cases[i])
	})
	nskipped := 0
	for _, sk := range skipped {
		if sk {
			nskipped++
		}
	}
	if nskipped > 0 {
		r.NotExhaustive(fmt.Sprintf("part c: time budget %v reached, %d of %d cases not run", budget, nskipped, len(cases)))
	}

	// Confirmation: a case with violations is re-run 3× in fresh processes; only
	// oracles that fail in every re-run are reported.
	type conf struct {
		i    int
		runs [3]cres
		errs [3]error
	}
	var confs []*conf
	for i, res := range results {
		if !skipped[i] && errs[i] == nil && len(res.Violations) > 0 {
			confs = append(confs, &conf{i: i})
		}
	}
	ev.Parallel(len(confs)*3, 8, func(k int) {
		c := confs[k/3]
		c.runs[k%3], c.errs[k%3] = runChild(cases[c.i])
	})
	confirmed := map[int]map[string]bool{}
	for _, c := range confs {
		ok := map[string]bool{}
		for o := range results[c.i].Violations {
			all := true
			for k := 0; k < 3; k++ {
				if c.errs[k] != nil {
					all = false
					break
				}
				if _, has := c.runs[k].Violations[o]; !has || c.runs[k].Path != results[c.i].Path {
					all = false
				}
			}
			if all {
				ok[o] = true
			} else {
				r.Note("part c: %s: oracle %s failed once but not in all 3 re-runs; not reported", results[c.i].Name, o)
				r.NotExhaustive("part c: an unconfirmed oracle failure in " + results[c.i].Name)
			}
		}
		confirmed[c.i] = ok
	}

	aggs := map[string]*sigAgg{}
	paths := map[string]int{}
	pathFired := map[string]int{}
	var (
		executed, fired, withRule, vacuous, hung, probes, probeOK, inconclusive, bursts, burstPeak int
		table                                                                                      []map[string]interface{}
		samples                                                                                    int
	)
	for i, res := range results {
		if skipped[i] {
			continue
		}
		if errs[i] != nil {
			fmt.Fprintf(os.Stderr, "MACHINERY-ERROR: c14 case %s: %v\n", cases[i].Name(), errs[i])
			r.NotExhaustive("part c: case " + cases[i].Name() + " produced no result")
			continue
		}
		executed++
		samples += res.Samples
		if cases[i].Rule != nil {
			withRule++
			if res.Fired {
				fired++
			}
		}
		if res.Vacuous != "" {
			vacuous++
			r.Note("part c: %s vacuous: %s", res.Name, res.Vacuous)
			if cases[i].Kind == "named" {
				r.NotExhaustive("part c: named case did not reach its situation: " + res.Name + ": " + res.Vacuous)
			}
		}
		if res.Inconclusive != "" {
			inconclusive++
			r.Note("part c: %s inconclusive: %s", res.Name, res.Inconclusive)
			r.NotExhaustive("part c: case inconclusive: " + res.Name)
		}
		if res.RunHung {
			hung++
			r.Note("part c: %s: the run itself hung (%v watchdog); conservation oracles only", res.Name, runWatchdog)
		}
		if cases[i].Kind == "named" && cases[i].Rule != nil && !res.Fired {
			r.NotExhaustive("part c: fault of named case never fired: " + res.Name)
		}
		paths[res.Path]++
		if res.Fired || cases[i].Rule == nil {
			pathFired[cases[i].Scenario+" "+cases[i].Rule.String()+" -> "+res.Path]++
		}
		if res.ProbeRan {
			probes++
			if res.ProbeOK {
				probeOK++
			}
		}
		if res.BurstWaves > 0 {
			bursts++
			if res.BurstPeak > burstPeak {
				burstPeak = res.BurstPeak
			}
		}
		row := map[string]interface{}{"case": res.Name, "kind": cases[i].Kind, "fired": res.Fired, "exit_path": res.Path, "quiescent": res.Quiescent,
			"probe_ok": res.ProbeOK, "ms": res.Ms}
		if len(res.Violations) > 0 {
			var os []string
			for o := range res.Violations {
				os = append(os, o)
			}
			sort.Strings(os)
			row["failed_oracles"] = os
		}
		if len(res.Notes) > 0 {
			row["notes"] = res.Notes
		}
		table = append(table, row)
		for o, d := range res.Violations {
			if !confirmed[i][o] {
				continue
			}
			sig := "C14/c/" + res.Path + "/" + o
			a := aggs[sig]
			if a == nil {
				a = &sigAgg{path: res.Path, oracle: o, detail: d, first: res}
				aggs[sig] = a
			}
			a.cases = append(a.cases, res.Name)
		}
	}
	var sigs []string
	for s := range aggs {
		sigs = append(sigs, s)
	}
	sort.Strings(sigs)
	for _, s := range sigs {
		a := aggs[s]
		f := a.first
		f.Dump = ""
		r.Violate(s, fmt.Sprintf("Run exit path %q, oracle %s, %d case(s), first: %s: %s", a.path, a.oracle, len(a.cases), a.cases[0], a.detail),
			map[string]interface{}{"cases": a.cases, "first_case": f, "confirmed": "3 re-runs in fresh processes, same oracle and exit path each time"})
	}
	// samples: one per interesting exit path
	seen := map[string]bool{}
	for i, res := range results {
		if skipped[i] || errs[i] != nil || seen[res.Path] || len(seen) >= 5 {
			continue
		}
		seen[res.Path] = true
		r.Sample(map[string]interface{}{"part": "c", "case": res.Name, "fired": res.Fired, "run_err": res.RunErr, "exit_path": res.Path,
			"machines_at_quiescence": res.Views, "probe_ok": res.ProbeOK, "rpcs": head(res.Calls, 12)})
	}
	cov := map[string]interface{}{
		"cases":                        len(cases),
		"cases_executed":               executed,
		"cases_skipped_budget":         nskipped,
		"named_cases":                  len(cases) - len(sweep),
		"sweep_cases":                  len(sweep),
		"sweep_rpc_labels":             labels,
		"cases_with_fault":             withRule,
		"faults_fired":                 fired,
		"vacuous_cases":                vacuous,
		"runs_hung":                    hung,
		"inconclusive_cases":           inconclusive,
		"capacity_probes":              probes,
		"capacity_probes_ok":           probeOK,
		"book_samples":                 samples,
		"bursts_run":                   bursts,
		"burst_max_tasks_in_user_code": burstPeak,
		"distinct_exit_paths":          len(paths),
		"exit_paths":                   paths,
		"scenario_fault_to_exit_path":  pathFired,
		"confirmed_reruns":             len(confs) * 3,
		"table":                        table,
		"not_covered":                  "Run's `case <-ctx.Done()` before a machine is offered and the `ctx.Err() != nil` branch after Worker.Run: ctx is the process-wide backgroundcontext, whose cancellation also stops the managers (no live session to test afterwards). The compile-loop branch for a context error cached from a prior invocation is not reachable through the transport. 'missing dependency location' is forced by deleting location entries through an accessor.",
		"oracles":                      "never more Worker.Run RPCs in flight on a machine than its task capacity (all cases); after Procs(k)/Exclusive tasks a burst of one-proc tasks that stay in user code until the manager has handed out all it will: never more than capacity inside user code; books (accessor): 0 <= taskProcs <= maxTaskProcs at every RPC boundary and every 2ms; all machines back to 0 procs in use and no queued request once no Compile/Run/CommitCombiner RPC is in flight; black box: one Exclusive task per machine, all waiting for each other, must complete (machine count capped); no Worker.Compile/Run to a machine on probation or marked lost",
	}
	return cov, 0, int64(executed)
}

func head(s []string, n int) []string {
	if len(s) > n {
		return s[:n]
	}
	return s
}
