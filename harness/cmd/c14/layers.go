package main

// Sibling layers computed by other binaries under the controlled scheduler:
//   c19-sched  -layer C14   part (d): local-mode parallelism limit and exclusivity
//   c14s-sched -layer C14   part (b): live machine manager (optional; run if built)
// Each prints one line "LAYER {json}"; its violations are re-raised here and its
// coverage merged.

import (
	"bytes"
	"encoding/json"
	"fmt"
	"os"
	osexec "os/exec"
	"strings"

	"verifh/ev"
)

type layerOut struct {
	Coverage      map[string]interface{} `json:"coverage"`
	Violations    int                    `json:"violations"`
	Machinery     int                    `json:"machinery"`
	ViolationList []struct {
		Signature string      `json:"signature"`
		What      string      `json:"what"`
		Detail    interface{} `json:"detail"`
	} `json:"violation_list"`
}

func num(m map[string]interface{}, k string) int64 {
	switch v := m[k].(type) {
	case float64:
		return int64(v)
	case json.Number:
		n, _ := v.Int64()
		return n
	}
	return 0
}

func runLayer(r *ev.Run, key, bin string) (cov map[string]interface{}, states, transitions, traces int64) {
	optional := key == "layer_b_live_manager"
	dir := os.Getenv("VERIF_BIN_DIR")
	path := dir + "/" + bin
	if dir == "" {
		if !optional {
			r.NotExhaustive(key + ": VERIF_BIN_DIR not set, sibling " + bin + " not run")
		}
		return nil, 0, 0, 0
	}
	if _, err := os.Stat(path); err != nil {
		if optional {
			r.Note("%s: sibling %s not built; part (b) is not part of this run", key, bin)
		} else {
			r.NotExhaustive(key + ": sibling " + path + " not built")
		}
		return nil, 0, 0, 0
	}
	cmd := osexec.Command(path, "-layer", "C14", "-tier", r.Tier)
	cmd.Env = os.Environ()
	var out, errb bytes.Buffer
	cmd.Stdout, cmd.Stderr = &out, &errb
	err := cmd.Run()
	var lo layerOut
	found := false
	for _, l := range strings.Split(out.String(), "\n") {
		if strings.HasPrefix(l, "LAYER ") {
			if e := json.Unmarshal([]byte(l[6:]), &lo); e == nil {
				found = true
			}
		}
	}
	if !found {
		tail := errb.String()
		if len(tail) > 2000 {
			tail = tail[len(tail)-2000:]
		}
		fmt.Fprintf(os.Stderr, "MACHINERY-ERROR: %s printed no LAYER line (%v)\n%s\n", path, err, tail)
		r.NotExhaustive(fmt.Sprintf("%s: sibling %s printed no LAYER line (%v)", key, bin, err))
		return nil, 0, 0, 0
	}
	for _, v := range lo.ViolationList {
		r.Violate(v.Signature, v.What, v.Detail)
	}
	if lo.Machinery > 0 {
		r.NotExhaustive(fmt.Sprintf("%s: %d plans of the sibling hit a machinery error", key, lo.Machinery))
	}
	if ex, ok := lo.Coverage["exhaustive"].(bool); ok && !ex {
		r.NotExhaustive(fmt.Sprintf("%s: sibling reports exhaustive=false (%v)", key, lo.Coverage["not_exhaustive_because"]))
	}
	// The sibling's own NotExhaustive calls are not part of the LAYER line; the
	// per-plan rows say whether each plan's bounded space was completed.
	if plans, ok := lo.Coverage["plans"].([]interface{}); ok {
		for _, p := range plans {
			row, _ := p.(map[string]interface{})
			if row == nil {
				continue
			}
			if ex, ok := row["exhausted"].(bool); ok && !ex {
				r.NotExhaustive(fmt.Sprintf("%s: plan %v stopped after bound %v (budget)", key, row["plan"], row["bound_completed"]))
			}
		}
	}
	return lo.Coverage, num(lo.Coverage, "states"), num(lo.Coverage, "transitions"), num(lo.Coverage, "traces_validated_against_impl")
}
